(* Model of the per-stream state machine of stream.go (shared by C20 and C10).  NO PROOFS in this file.

   One END of one stream: the fields Stream.state / callbackInProcess / callbackCloseState /
   asyncGoroutineWg, pendingData.unread, recvBuf (as the byte sequence it holds), membership in
   Session.streams, and the threads that touch them, one shared access per step:

     event loop   per inbound event (session.go getStream + handleStreamMessage; protocol_manager.go):
                    EIdle  dequeue, table lookup (not found: dropped); data: EAdd = pendingData.add -> EChk
                                                                        close notification:    -> EHalf
                    EHalf  halfClose(): CAS state opened->halfClosed; won: EHalfN = safeCloseNotify + OnRemoteClose
                    EChk   load state; closed: EClrP pendingData.clear, then — only without callbacks — EClrR recvBuf.recycle
                    ENotify asyncNotify(recvNotifyCh): the token (capacity 1) that wakes a reader parked in readMore —
                           in callback mode too: an OnData invocation parked in a blocking read
                    EGetCb getCallbacks (nil: done)
                    ECas   CAS callbackInProcess 0->1; won: EWgAdd wg.Add(1), ESpawn gopool.Go
     goroutine    (stream.go 403-423)
                    GMove  pendingData.moveTo(recvBuf)
                    GChk   load state; open && recvBuf.Len()>0 -> GCb else GClr
                    GCb    OnData begins (the adversary's script says how much it consumes, whether it calls Close)
                    GCbBody consume;  GCbClose c = Close() running inside OnData;  GCbEnd OnData returns -> GMove
                    GRdMove/GRdPark/GRdMoveC/GRdLd  OnData starts with a blocking read of more than it was offered
                           (recvBuf.ReadBytes(n) -> readMore(n)): moveTo; select on recvNotifyCh / closeNotifyCh; ...
                    GSw    (OnData loop left) load state; closed: GSwP pendingData.clear, GSwR recvBuf.recycle
                    GClr   store callbackInProcess 0
                    GLdCs  load callbackCloseState; waitExit -> GWgDoneClose (wg.Done) -> GClose (close())
                    GLen   len(pendingData.unread) > 0 ?   (a racy plain read in the source)
                    GCas   CAS callbackInProcess 0->1; won -> GMove; lost -> GWgDone (wg.Done) -> GExit
     Close()/close()  (stream.go 275-327, run by closer threads, by OnData, and by the goroutine's exit path)
                    KStart callbacks installed: store callbackCloseState waitExit
                    KLdIn  load callbackInProcess; 1 -> KHalf: CAS state opened->localHalfClosed (won: safeCloseNotify); return
                    CLd    load state (closed: return);  CCas old: CAS state old->closed (lost: back to CLd)
                    CWait  asyncGoroutineWg.Wait() (callbacks installed)
                    CTbl   clean(): load state, session.onStreamClose (table delete); CPend pendingData.clear;
                    CRecv  recvBuf/sendBuf.recycle; old = opened or localHalfClosed: CNotify safeCloseNotify + OnLocalClose,
                    CSend  close element to the peer
     SetCallbacks SIdle set the callbacks (error if present) ; then startCallbackGoroutine, as the event loop:
                    SCas CAS callbackInProcess 0->1; won: SWgAdd wg.Add(1), SSpawn gopool.Go
     sync read    (before SetCallbacks, same user goroutine) SyIdle readMore: pendingData.moveTo(recvBuf);
                    SyCons k: Peek (k = 0) / ReadBytes k
     user Flush   UIdle load state (not opened: ErrStreamClosed) ; UPut queue element to the peer

   The session itself stays open (Session.Close is C14's subject); the transport to the peer is one FIFO
   (`out`; the re-orderings between queue and socket are C07's subject).  Bytes are Z, a message is a
   non-empty list of bytes.  Ghost fields are marked.                                                *)
From Coq Require Import List ZArith Lia Bool Arith.
From Shm Require Import Gen.Consts.
Import ListNotations.
Open Scope Z_scope.

Definition v_callbackWaitExit : Z := c_callbackWaitExit.
(* streamLocalHalfClosed (stream.go const block, after streamHalfClosed): the state Close() moves an open
   stream to when a callback goroutine is running. *)
Definition v_streamLocalHalfClosed : Z := c_streamLocalHalfClosed.

Inductive ev := EData (m : list Z) | EClose.

Inductive cpc :=
| KStart | KLdIn | KHalf | CLd | CCas (old : Z) | CWait (old : Z) | CTbl (old : Z) | CPend (old : Z)
| CRecv (old : Z) | CNotify | CSend | KRet.

Inductive gpc :=
| GMove | GChk | GCb | GCbBody (k : nat) (cl : nat) | GCbClose (c : cpc) (more : nat) | GCbEnd
| GSw | GSwP | GSwR   (* after the OnData loop: load state; closed: pendingData.clear, recvBuf.recycle *)
| GClr | GLdCs | GLen
| GCas | GWgDone | GWgDoneClose | GClose (c : cpc) | GExit
(* OnData starts with a blocking read of nd bytes (recvBuf.ReadBytes(nd) with nd > recvBuf.Len() -> readMore(nd)):
   GRdMove: pendingData.moveTo(recvBuf), enough -> the read returns; else GRdPark: select on recvNotifyCh / closeNotifyCh;
   a token: back to GRdMove; closed: GRdMoveC moveTo, enough -> the read returns, else GRdLd: load the state
   (ErrEndOfStream / ErrStreamClosed) and the read fails: nothing consumed *)
| GRdMove (nd : nat) (cl : nat) | GRdPark (nd : nat) (cl : nat) | GRdMoveC (nd : nat) (cl : nat) | GRdLd (cl : nat).

Inductive epcT := EIdle | EAdd (m : list Z) | EHalf | EHalfN | EChk | EClrP | EClrR | EGetCb | ECas | EWgAdd | ESpawn
  | ENotify.   (* asyncNotify(recvNotifyCh): between the state check and getCallbacks *)
Inductive spcT := SIdle | SCas | SWgAdd | SSpawn | SDone.
(* the user reading synchronously BEFORE it installs callbacks: readMore's pendingData.moveTo(recvBuf), then the
   Peek (k = 0) / ReadBytes (k > 0) itself *)
Inductive sypcT := SyIdle | SyCons (k : nat).
(* a user write: UIdle the call begins ; UWr WriteBytes: sendBuf.alloc loads the state (closed: heap memory instead of
   share memory — no other effect) ; then Flush (sendBuf.Len() > 0): ULd load state — not opened:
   recycle sendBuf, ErrStreamClosed ; UPut queue element to the peer.  `aft` (ghost): some Close() had already
   returned when the state was loaded *)
Inductive upcT := UIdle | UWr (m : list Z) | ULd (m : list Z) | UPut (m : list Z) (aft : bool).
Record ulocal := { upc : upcT; utodo : list (list Z); ures : list (bool * bool) (* (nil?, aft) *) }.

Inductive who := WEv | WGor (i : nat) | WClo (i : nat) | WSet | WUser (i : nat) | WSync.

Record est := {
  st : Z;
  inproc : Z;
  cstate : Z;
  wg : Z;
  cbset : bool;
  intable : bool;
  cnotify : bool;
  pending : list (list Z);
  recv : list Z;
  inbox : list ev;
  epc : epcT;
  gors : list gpc;
  clos : list cpc;
  spc : spcT;
  users : list ulocal;
  script : list (nat * nat);
  sypc : sypcT;
  sytodo : list nat;
  processed : list ev;
  arrived : list Z;
  chunks : list (bool * list Z);
  consumed : list Z;
  offers : list (list Z);
  nlocal : Z;
  nremote : Z;
  out : list ev;
  khalf : bool;
  lhalf : bool;
  casfail : bool;
  nret : Z;
  rnotify : bool;            (* recvNotifyCh (capacity 1) holds a token *)
  needs : list nat;          (* adversary: the blocking read (ReadBytes n) each successive OnData invocation starts with; 0 = none *)
  picks : list bool          (* adversary: what a select takes when recvNotifyCh and closeNotifyCh are both ready (true = closeNotifyCh) *)
}.

Definition set_st (v : Z) (s : est) : est :=
  {| st := v; inproc := inproc s; cstate := cstate s; wg := wg s; cbset := cbset s; intable := intable s; cnotify := cnotify s; pending := pending s; recv := recv s; inbox := inbox s; epc := epc s; gors := gors s; clos := clos s; spc := spc s; users := users s; script := script s; sypc := sypc s; sytodo := sytodo s; processed := processed s; arrived := arrived s; chunks := chunks s; consumed := consumed s; offers := offers s; nlocal := nlocal s; nremote := nremote s; out := out s; khalf := khalf s; lhalf := lhalf s; casfail := casfail s; nret := nret s; rnotify := rnotify s; needs := needs s; picks := picks s |}.
Definition set_inproc (v : Z) (s : est) : est :=
  {| st := st s; inproc := v; cstate := cstate s; wg := wg s; cbset := cbset s; intable := intable s; cnotify := cnotify s; pending := pending s; recv := recv s; inbox := inbox s; epc := epc s; gors := gors s; clos := clos s; spc := spc s; users := users s; script := script s; sypc := sypc s; sytodo := sytodo s; processed := processed s; arrived := arrived s; chunks := chunks s; consumed := consumed s; offers := offers s; nlocal := nlocal s; nremote := nremote s; out := out s; khalf := khalf s; lhalf := lhalf s; casfail := casfail s; nret := nret s; rnotify := rnotify s; needs := needs s; picks := picks s |}.
Definition set_cstate (v : Z) (s : est) : est :=
  {| st := st s; inproc := inproc s; cstate := v; wg := wg s; cbset := cbset s; intable := intable s; cnotify := cnotify s; pending := pending s; recv := recv s; inbox := inbox s; epc := epc s; gors := gors s; clos := clos s; spc := spc s; users := users s; script := script s; sypc := sypc s; sytodo := sytodo s; processed := processed s; arrived := arrived s; chunks := chunks s; consumed := consumed s; offers := offers s; nlocal := nlocal s; nremote := nremote s; out := out s; khalf := khalf s; lhalf := lhalf s; casfail := casfail s; nret := nret s; rnotify := rnotify s; needs := needs s; picks := picks s |}.
Definition set_wg (v : Z) (s : est) : est :=
  {| st := st s; inproc := inproc s; cstate := cstate s; wg := v; cbset := cbset s; intable := intable s; cnotify := cnotify s; pending := pending s; recv := recv s; inbox := inbox s; epc := epc s; gors := gors s; clos := clos s; spc := spc s; users := users s; script := script s; sypc := sypc s; sytodo := sytodo s; processed := processed s; arrived := arrived s; chunks := chunks s; consumed := consumed s; offers := offers s; nlocal := nlocal s; nremote := nremote s; out := out s; khalf := khalf s; lhalf := lhalf s; casfail := casfail s; nret := nret s; rnotify := rnotify s; needs := needs s; picks := picks s |}.
Definition set_cbset (v : bool) (s : est) : est :=
  {| st := st s; inproc := inproc s; cstate := cstate s; wg := wg s; cbset := v; intable := intable s; cnotify := cnotify s; pending := pending s; recv := recv s; inbox := inbox s; epc := epc s; gors := gors s; clos := clos s; spc := spc s; users := users s; script := script s; sypc := sypc s; sytodo := sytodo s; processed := processed s; arrived := arrived s; chunks := chunks s; consumed := consumed s; offers := offers s; nlocal := nlocal s; nremote := nremote s; out := out s; khalf := khalf s; lhalf := lhalf s; casfail := casfail s; nret := nret s; rnotify := rnotify s; needs := needs s; picks := picks s |}.
Definition set_intable (v : bool) (s : est) : est :=
  {| st := st s; inproc := inproc s; cstate := cstate s; wg := wg s; cbset := cbset s; intable := v; cnotify := cnotify s; pending := pending s; recv := recv s; inbox := inbox s; epc := epc s; gors := gors s; clos := clos s; spc := spc s; users := users s; script := script s; sypc := sypc s; sytodo := sytodo s; processed := processed s; arrived := arrived s; chunks := chunks s; consumed := consumed s; offers := offers s; nlocal := nlocal s; nremote := nremote s; out := out s; khalf := khalf s; lhalf := lhalf s; casfail := casfail s; nret := nret s; rnotify := rnotify s; needs := needs s; picks := picks s |}.
Definition set_cnotify (v : bool) (s : est) : est :=
  {| st := st s; inproc := inproc s; cstate := cstate s; wg := wg s; cbset := cbset s; intable := intable s; cnotify := v; pending := pending s; recv := recv s; inbox := inbox s; epc := epc s; gors := gors s; clos := clos s; spc := spc s; users := users s; script := script s; sypc := sypc s; sytodo := sytodo s; processed := processed s; arrived := arrived s; chunks := chunks s; consumed := consumed s; offers := offers s; nlocal := nlocal s; nremote := nremote s; out := out s; khalf := khalf s; lhalf := lhalf s; casfail := casfail s; nret := nret s; rnotify := rnotify s; needs := needs s; picks := picks s |}.
Definition set_pending (v : list (list Z)) (s : est) : est :=
  {| st := st s; inproc := inproc s; cstate := cstate s; wg := wg s; cbset := cbset s; intable := intable s; cnotify := cnotify s; pending := v; recv := recv s; inbox := inbox s; epc := epc s; gors := gors s; clos := clos s; spc := spc s; users := users s; script := script s; sypc := sypc s; sytodo := sytodo s; processed := processed s; arrived := arrived s; chunks := chunks s; consumed := consumed s; offers := offers s; nlocal := nlocal s; nremote := nremote s; out := out s; khalf := khalf s; lhalf := lhalf s; casfail := casfail s; nret := nret s; rnotify := rnotify s; needs := needs s; picks := picks s |}.
Definition set_recv (v : list Z) (s : est) : est :=
  {| st := st s; inproc := inproc s; cstate := cstate s; wg := wg s; cbset := cbset s; intable := intable s; cnotify := cnotify s; pending := pending s; recv := v; inbox := inbox s; epc := epc s; gors := gors s; clos := clos s; spc := spc s; users := users s; script := script s; sypc := sypc s; sytodo := sytodo s; processed := processed s; arrived := arrived s; chunks := chunks s; consumed := consumed s; offers := offers s; nlocal := nlocal s; nremote := nremote s; out := out s; khalf := khalf s; lhalf := lhalf s; casfail := casfail s; nret := nret s; rnotify := rnotify s; needs := needs s; picks := picks s |}.
Definition set_inbox (v : list ev) (s : est) : est :=
  {| st := st s; inproc := inproc s; cstate := cstate s; wg := wg s; cbset := cbset s; intable := intable s; cnotify := cnotify s; pending := pending s; recv := recv s; inbox := v; epc := epc s; gors := gors s; clos := clos s; spc := spc s; users := users s; script := script s; sypc := sypc s; sytodo := sytodo s; processed := processed s; arrived := arrived s; chunks := chunks s; consumed := consumed s; offers := offers s; nlocal := nlocal s; nremote := nremote s; out := out s; khalf := khalf s; lhalf := lhalf s; casfail := casfail s; nret := nret s; rnotify := rnotify s; needs := needs s; picks := picks s |}.
Definition set_epc (v : epcT) (s : est) : est :=
  {| st := st s; inproc := inproc s; cstate := cstate s; wg := wg s; cbset := cbset s; intable := intable s; cnotify := cnotify s; pending := pending s; recv := recv s; inbox := inbox s; epc := v; gors := gors s; clos := clos s; spc := spc s; users := users s; script := script s; sypc := sypc s; sytodo := sytodo s; processed := processed s; arrived := arrived s; chunks := chunks s; consumed := consumed s; offers := offers s; nlocal := nlocal s; nremote := nremote s; out := out s; khalf := khalf s; lhalf := lhalf s; casfail := casfail s; nret := nret s; rnotify := rnotify s; needs := needs s; picks := picks s |}.
Definition set_gors (v : list gpc) (s : est) : est :=
  {| st := st s; inproc := inproc s; cstate := cstate s; wg := wg s; cbset := cbset s; intable := intable s; cnotify := cnotify s; pending := pending s; recv := recv s; inbox := inbox s; epc := epc s; gors := v; clos := clos s; spc := spc s; users := users s; script := script s; sypc := sypc s; sytodo := sytodo s; processed := processed s; arrived := arrived s; chunks := chunks s; consumed := consumed s; offers := offers s; nlocal := nlocal s; nremote := nremote s; out := out s; khalf := khalf s; lhalf := lhalf s; casfail := casfail s; nret := nret s; rnotify := rnotify s; needs := needs s; picks := picks s |}.
Definition set_clos (v : list cpc) (s : est) : est :=
  {| st := st s; inproc := inproc s; cstate := cstate s; wg := wg s; cbset := cbset s; intable := intable s; cnotify := cnotify s; pending := pending s; recv := recv s; inbox := inbox s; epc := epc s; gors := gors s; clos := v; spc := spc s; users := users s; script := script s; sypc := sypc s; sytodo := sytodo s; processed := processed s; arrived := arrived s; chunks := chunks s; consumed := consumed s; offers := offers s; nlocal := nlocal s; nremote := nremote s; out := out s; khalf := khalf s; lhalf := lhalf s; casfail := casfail s; nret := nret s; rnotify := rnotify s; needs := needs s; picks := picks s |}.
Definition set_spc (v : spcT) (s : est) : est :=
  {| st := st s; inproc := inproc s; cstate := cstate s; wg := wg s; cbset := cbset s; intable := intable s; cnotify := cnotify s; pending := pending s; recv := recv s; inbox := inbox s; epc := epc s; gors := gors s; clos := clos s; spc := v; users := users s; script := script s; sypc := sypc s; sytodo := sytodo s; processed := processed s; arrived := arrived s; chunks := chunks s; consumed := consumed s; offers := offers s; nlocal := nlocal s; nremote := nremote s; out := out s; khalf := khalf s; lhalf := lhalf s; casfail := casfail s; nret := nret s; rnotify := rnotify s; needs := needs s; picks := picks s |}.
Definition set_users (v : list ulocal) (s : est) : est :=
  {| st := st s; inproc := inproc s; cstate := cstate s; wg := wg s; cbset := cbset s; intable := intable s; cnotify := cnotify s; pending := pending s; recv := recv s; inbox := inbox s; epc := epc s; gors := gors s; clos := clos s; spc := spc s; users := v; script := script s; sypc := sypc s; sytodo := sytodo s; processed := processed s; arrived := arrived s; chunks := chunks s; consumed := consumed s; offers := offers s; nlocal := nlocal s; nremote := nremote s; out := out s; khalf := khalf s; lhalf := lhalf s; casfail := casfail s; nret := nret s; rnotify := rnotify s; needs := needs s; picks := picks s |}.
Definition set_script (v : list (nat * nat)) (s : est) : est :=
  {| st := st s; inproc := inproc s; cstate := cstate s; wg := wg s; cbset := cbset s; intable := intable s; cnotify := cnotify s; pending := pending s; recv := recv s; inbox := inbox s; epc := epc s; gors := gors s; clos := clos s; spc := spc s; users := users s; script := v; sypc := sypc s; sytodo := sytodo s; processed := processed s; arrived := arrived s; chunks := chunks s; consumed := consumed s; offers := offers s; nlocal := nlocal s; nremote := nremote s; out := out s; khalf := khalf s; lhalf := lhalf s; casfail := casfail s; nret := nret s; rnotify := rnotify s; needs := needs s; picks := picks s |}.
Definition set_sypc (v : sypcT) (s : est) : est :=
  {| st := st s; inproc := inproc s; cstate := cstate s; wg := wg s; cbset := cbset s; intable := intable s; cnotify := cnotify s; pending := pending s; recv := recv s; inbox := inbox s; epc := epc s; gors := gors s; clos := clos s; spc := spc s; users := users s; script := script s; sypc := v; sytodo := sytodo s; processed := processed s; arrived := arrived s; chunks := chunks s; consumed := consumed s; offers := offers s; nlocal := nlocal s; nremote := nremote s; out := out s; khalf := khalf s; lhalf := lhalf s; casfail := casfail s; nret := nret s; rnotify := rnotify s; needs := needs s; picks := picks s |}.
Definition set_sytodo (v : list nat) (s : est) : est :=
  {| st := st s; inproc := inproc s; cstate := cstate s; wg := wg s; cbset := cbset s; intable := intable s; cnotify := cnotify s; pending := pending s; recv := recv s; inbox := inbox s; epc := epc s; gors := gors s; clos := clos s; spc := spc s; users := users s; script := script s; sypc := sypc s; sytodo := v; processed := processed s; arrived := arrived s; chunks := chunks s; consumed := consumed s; offers := offers s; nlocal := nlocal s; nremote := nremote s; out := out s; khalf := khalf s; lhalf := lhalf s; casfail := casfail s; nret := nret s; rnotify := rnotify s; needs := needs s; picks := picks s |}.
Definition set_processed (v : list ev) (s : est) : est :=
  {| st := st s; inproc := inproc s; cstate := cstate s; wg := wg s; cbset := cbset s; intable := intable s; cnotify := cnotify s; pending := pending s; recv := recv s; inbox := inbox s; epc := epc s; gors := gors s; clos := clos s; spc := spc s; users := users s; script := script s; sypc := sypc s; sytodo := sytodo s; processed := v; arrived := arrived s; chunks := chunks s; consumed := consumed s; offers := offers s; nlocal := nlocal s; nremote := nremote s; out := out s; khalf := khalf s; lhalf := lhalf s; casfail := casfail s; nret := nret s; rnotify := rnotify s; needs := needs s; picks := picks s |}.
Definition set_arrived (v : list Z) (s : est) : est :=
  {| st := st s; inproc := inproc s; cstate := cstate s; wg := wg s; cbset := cbset s; intable := intable s; cnotify := cnotify s; pending := pending s; recv := recv s; inbox := inbox s; epc := epc s; gors := gors s; clos := clos s; spc := spc s; users := users s; script := script s; sypc := sypc s; sytodo := sytodo s; processed := processed s; arrived := v; chunks := chunks s; consumed := consumed s; offers := offers s; nlocal := nlocal s; nremote := nremote s; out := out s; khalf := khalf s; lhalf := lhalf s; casfail := casfail s; nret := nret s; rnotify := rnotify s; needs := needs s; picks := picks s |}.
Definition set_chunks (v : list (bool * list Z)) (s : est) : est :=
  {| st := st s; inproc := inproc s; cstate := cstate s; wg := wg s; cbset := cbset s; intable := intable s; cnotify := cnotify s; pending := pending s; recv := recv s; inbox := inbox s; epc := epc s; gors := gors s; clos := clos s; spc := spc s; users := users s; script := script s; sypc := sypc s; sytodo := sytodo s; processed := processed s; arrived := arrived s; chunks := v; consumed := consumed s; offers := offers s; nlocal := nlocal s; nremote := nremote s; out := out s; khalf := khalf s; lhalf := lhalf s; casfail := casfail s; nret := nret s; rnotify := rnotify s; needs := needs s; picks := picks s |}.
Definition set_consumed (v : list Z) (s : est) : est :=
  {| st := st s; inproc := inproc s; cstate := cstate s; wg := wg s; cbset := cbset s; intable := intable s; cnotify := cnotify s; pending := pending s; recv := recv s; inbox := inbox s; epc := epc s; gors := gors s; clos := clos s; spc := spc s; users := users s; script := script s; sypc := sypc s; sytodo := sytodo s; processed := processed s; arrived := arrived s; chunks := chunks s; consumed := v; offers := offers s; nlocal := nlocal s; nremote := nremote s; out := out s; khalf := khalf s; lhalf := lhalf s; casfail := casfail s; nret := nret s; rnotify := rnotify s; needs := needs s; picks := picks s |}.
Definition set_offers (v : list (list Z)) (s : est) : est :=
  {| st := st s; inproc := inproc s; cstate := cstate s; wg := wg s; cbset := cbset s; intable := intable s; cnotify := cnotify s; pending := pending s; recv := recv s; inbox := inbox s; epc := epc s; gors := gors s; clos := clos s; spc := spc s; users := users s; script := script s; sypc := sypc s; sytodo := sytodo s; processed := processed s; arrived := arrived s; chunks := chunks s; consumed := consumed s; offers := v; nlocal := nlocal s; nremote := nremote s; out := out s; khalf := khalf s; lhalf := lhalf s; casfail := casfail s; nret := nret s; rnotify := rnotify s; needs := needs s; picks := picks s |}.
Definition set_nlocal (v : Z) (s : est) : est :=
  {| st := st s; inproc := inproc s; cstate := cstate s; wg := wg s; cbset := cbset s; intable := intable s; cnotify := cnotify s; pending := pending s; recv := recv s; inbox := inbox s; epc := epc s; gors := gors s; clos := clos s; spc := spc s; users := users s; script := script s; sypc := sypc s; sytodo := sytodo s; processed := processed s; arrived := arrived s; chunks := chunks s; consumed := consumed s; offers := offers s; nlocal := v; nremote := nremote s; out := out s; khalf := khalf s; lhalf := lhalf s; casfail := casfail s; nret := nret s; rnotify := rnotify s; needs := needs s; picks := picks s |}.
Definition set_nremote (v : Z) (s : est) : est :=
  {| st := st s; inproc := inproc s; cstate := cstate s; wg := wg s; cbset := cbset s; intable := intable s; cnotify := cnotify s; pending := pending s; recv := recv s; inbox := inbox s; epc := epc s; gors := gors s; clos := clos s; spc := spc s; users := users s; script := script s; sypc := sypc s; sytodo := sytodo s; processed := processed s; arrived := arrived s; chunks := chunks s; consumed := consumed s; offers := offers s; nlocal := nlocal s; nremote := v; out := out s; khalf := khalf s; lhalf := lhalf s; casfail := casfail s; nret := nret s; rnotify := rnotify s; needs := needs s; picks := picks s |}.
Definition set_out (v : list ev) (s : est) : est :=
  {| st := st s; inproc := inproc s; cstate := cstate s; wg := wg s; cbset := cbset s; intable := intable s; cnotify := cnotify s; pending := pending s; recv := recv s; inbox := inbox s; epc := epc s; gors := gors s; clos := clos s; spc := spc s; users := users s; script := script s; sypc := sypc s; sytodo := sytodo s; processed := processed s; arrived := arrived s; chunks := chunks s; consumed := consumed s; offers := offers s; nlocal := nlocal s; nremote := nremote s; out := v; khalf := khalf s; lhalf := lhalf s; casfail := casfail s; nret := nret s; rnotify := rnotify s; needs := needs s; picks := picks s |}.
Definition set_khalf (v : bool) (s : est) : est :=
  {| st := st s; inproc := inproc s; cstate := cstate s; wg := wg s; cbset := cbset s; intable := intable s; cnotify := cnotify s; pending := pending s; recv := recv s; inbox := inbox s; epc := epc s; gors := gors s; clos := clos s; spc := spc s; users := users s; script := script s; sypc := sypc s; sytodo := sytodo s; processed := processed s; arrived := arrived s; chunks := chunks s; consumed := consumed s; offers := offers s; nlocal := nlocal s; nremote := nremote s; out := out s; khalf := v; lhalf := lhalf s; casfail := casfail s; nret := nret s; rnotify := rnotify s; needs := needs s; picks := picks s |}.
Definition set_lhalf (v : bool) (s : est) : est :=
  {| st := st s; inproc := inproc s; cstate := cstate s; wg := wg s; cbset := cbset s; intable := intable s; cnotify := cnotify s; pending := pending s; recv := recv s; inbox := inbox s; epc := epc s; gors := gors s; clos := clos s; spc := spc s; users := users s; script := script s; sypc := sypc s; sytodo := sytodo s; processed := processed s; arrived := arrived s; chunks := chunks s; consumed := consumed s; offers := offers s; nlocal := nlocal s; nremote := nremote s; out := out s; khalf := khalf s; lhalf := v; casfail := casfail s; nret := nret s; rnotify := rnotify s; needs := needs s; picks := picks s |}.
Definition set_casfail (v : bool) (s : est) : est :=
  {| st := st s; inproc := inproc s; cstate := cstate s; wg := wg s; cbset := cbset s; intable := intable s; cnotify := cnotify s; pending := pending s; recv := recv s; inbox := inbox s; epc := epc s; gors := gors s; clos := clos s; spc := spc s; users := users s; script := script s; sypc := sypc s; sytodo := sytodo s; processed := processed s; arrived := arrived s; chunks := chunks s; consumed := consumed s; offers := offers s; nlocal := nlocal s; nremote := nremote s; out := out s; khalf := khalf s; lhalf := lhalf s; casfail := v; nret := nret s; rnotify := rnotify s; needs := needs s; picks := picks s |}.
Definition set_nret (v : Z) (s : est) : est :=
  {| st := st s; inproc := inproc s; cstate := cstate s; wg := wg s; cbset := cbset s; intable := intable s; cnotify := cnotify s; pending := pending s; recv := recv s; inbox := inbox s; epc := epc s; gors := gors s; clos := clos s; spc := spc s; users := users s; script := script s; sypc := sypc s; sytodo := sytodo s; processed := processed s; arrived := arrived s; chunks := chunks s; consumed := consumed s; offers := offers s; nlocal := nlocal s; nremote := nremote s; out := out s; khalf := khalf s; lhalf := lhalf s; casfail := casfail s; nret := v; rnotify := rnotify s; needs := needs s; picks := picks s |}.
Definition set_rnotify (v : bool) (s : est) : est :=
  {| st := st s; inproc := inproc s; cstate := cstate s; wg := wg s; cbset := cbset s; intable := intable s; cnotify := cnotify s; pending := pending s; recv := recv s; inbox := inbox s; epc := epc s; gors := gors s; clos := clos s; spc := spc s; users := users s; script := script s; sypc := sypc s; sytodo := sytodo s; processed := processed s; arrived := arrived s; chunks := chunks s; consumed := consumed s; offers := offers s; nlocal := nlocal s; nremote := nremote s; out := out s; khalf := khalf s; lhalf := lhalf s; casfail := casfail s; nret := nret s; rnotify := v; needs := needs s; picks := picks s |}.
Definition set_needs (v : list nat) (s : est) : est :=
  {| st := st s; inproc := inproc s; cstate := cstate s; wg := wg s; cbset := cbset s; intable := intable s; cnotify := cnotify s; pending := pending s; recv := recv s; inbox := inbox s; epc := epc s; gors := gors s; clos := clos s; spc := spc s; users := users s; script := script s; sypc := sypc s; sytodo := sytodo s; processed := processed s; arrived := arrived s; chunks := chunks s; consumed := consumed s; offers := offers s; nlocal := nlocal s; nremote := nremote s; out := out s; khalf := khalf s; lhalf := lhalf s; casfail := casfail s; nret := nret s; rnotify := rnotify s; needs := v; picks := picks s |}.
Definition set_picks (v : list bool) (s : est) : est :=
  {| st := st s; inproc := inproc s; cstate := cstate s; wg := wg s; cbset := cbset s; intable := intable s; cnotify := cnotify s; pending := pending s; recv := recv s; inbox := inbox s; epc := epc s; gors := gors s; clos := clos s; spc := spc s; users := users s; script := script s; sypc := sypc s; sytodo := sytodo s; processed := processed s; arrived := arrived s; chunks := chunks s; consumed := consumed s; offers := offers s; nlocal := nlocal s; nremote := nremote s; out := out s; khalf := khalf s; lhalf := lhalf s; casfail := casfail s; nret := nret s; rnotify := rnotify s; needs := needs s; picks := v |}.

Fixpoint set_nth {A} (n : nat) (x : A) (l : list A) : list A :=
  match l, n with
  | [], _ => []
  | _ :: t, O => x :: t
  | h :: t, S n => h :: set_nth n x t
  end.

Definition clear_pending (s : est) : est :=
  set_chunks (chunks s ++ [(false, concat (pending s))]) (set_pending [] s).
Definition move_pending (s : est) : est :=
  set_chunks (chunks s ++ [(true, concat (pending s))])
    (set_recv (recv s ++ concat (pending s)) (set_pending [] s)).

Definition isret (c : cpc) : bool := match c with KRet => true | _ => false end.

(* ---------- Close() / close() ---------- *)
Definition cstep (s : est) (c : cpc) : est * cpc :=
  match c with
  | KStart => (if cbset s then set_cstate v_callbackWaitExit s else s, KLdIn)
  | KLdIn => if inproc s =? 1 then (set_khalf true s, KHalf) else (s, CLd)
  | KHalf => if st s =? c_streamOpened
             then (set_cnotify true (set_lhalf true (set_st v_streamLocalHalfClosed s)), KRet)  (* + safeCloseNotify *)
             else (s, KRet)
  | CLd => if st s =? c_streamClosed then (s, KRet) else (s, CCas (st s))
  | CCas old => if st s =? old
                then (set_st c_streamClosed
                        (* with callbacks: safeCloseNotify BEFORE the Wait (wakes an OnData parked in a read) *)
                        (if cbset s && ((old =? c_streamOpened) || (old =? v_streamLocalHalfClosed)) then set_cnotify true s else s),
                      if cbset s then CWait old else CTbl old)
                else (set_casfail true s, CLd)      (* casToClosed: a lost CAS looks again *)
  | CWait old => if wg s <=? 0 then (s, CTbl old) else (s, CWait old)
  | CTbl old => (set_intable false s, CPend old)
  | CPend old => (clear_pending s, CRecv old)
  | CRecv old => (set_recv [] s, if (old =? c_streamOpened) || (old =? v_streamLocalHalfClosed) then CNotify else KRet)
  | CNotify => (set_nlocal (nlocal s + 1) (set_cnotify true s), CSend)
  | CSend => (set_out (out s ++ [EClose]) s, KRet)
  | KRet => (s, KRet)
  end.

(* ---------- event loop ---------- *)
Definition estep (s : est) : est :=
  match epc s with
  | EIdle =>
    match inbox s with
    | [] => s
    | e :: r =>
      let s1 := set_processed (processed s ++ [e]) (set_inbox r s) in
      if intable s then
        match e with
        | EData m => set_epc (EAdd m) s1   (* the stream was found in the table; pendingData.add comes next *)
        | EClose => set_epc EHalf s1
        end
      else s1
    end
  | EAdd m => set_epc EChk (set_arrived (arrived s ++ m) (set_pending (pending s ++ [m]) s))
  | EHalf => if st s =? c_streamOpened then set_epc EHalfN (set_st c_streamHalfClosed s) else set_epc EIdle s
  | EHalfN => set_epc EIdle (set_nremote (nremote s + 1) (set_cnotify true s))
  | EChk => if st s =? c_streamClosed then set_epc EClrP s else set_epc ENotify s
  | ENotify => set_epc EGetCb (set_rnotify true s)
  | EClrP => (* with callbacks installed recvBuf is left to the callback goroutine / to close() *)
             if cbset s then set_epc EIdle (clear_pending s) else set_epc EClrR (clear_pending s)
  | EClrR => set_epc EIdle (set_recv [] s)
  | EGetCb => if cbset s then set_epc ECas s else set_epc EIdle s
  | ECas => if inproc s =? 0 then set_epc EWgAdd (set_inproc 1 s) else set_epc EIdle s
  | EWgAdd => set_epc ESpawn (set_wg (wg s + 1) s)
  | ESpawn => set_epc EIdle (set_gors (gors s ++ [GMove]) s)
  end.

(* ---------- callback goroutine ---------- *)
Definition setg (i : nat) (g : gpc) (s : est) : est := set_gors (set_nth i g (gors s)) s.

Definition gstep (i : nat) (s : est) : est :=
  match nth_error (gors s) i with
  | None => s
  | Some g =>
    match g with
    | GMove => setg i GChk (move_pending s)
    | GChk => if st s =? c_streamOpened
              then match recv s with [] => setg i GSw s | _ => setg i GCb s end
              else setg i GSw s
    | GSw => if st s =? c_streamClosed then setg i GSwP s else setg i GClr s
    | GSwP => setg i GSwR (clear_pending s)
    | GSwR => setg i GClr (set_recv [] s)
    | GCb => let a := hd (length (recv s), O) (script s) in
             let nd := hd O (needs s) in
             let s1 := set_offers (offers s ++ [recv s]) (set_needs (tl (needs s)) (set_script (tl (script s)) s)) in
             if Nat.ltb (length (recv s)) nd then setg i (GRdMove nd (snd a)) s1 else setg i (GCbBody (fst a) (snd a)) s1
    | GRdMove nd cl => let s1 := move_pending s in
                       if Nat.ltb (length (recv s1)) nd then setg i (GRdPark nd cl) s1 else setg i (GCbBody nd cl) s1
    | GRdPark nd cl =>
        if rnotify s then
          if cnotify s && hd false (picks s) then setg i (GRdMoveC nd cl) (set_picks (tl (picks s)) s)
          else setg i (GRdMove nd cl) (set_rnotify false (if cnotify s then set_picks (tl (picks s)) s else s))
        else if cnotify s then setg i (GRdMoveC nd cl) s
        else s                                  (* parked *)
    | GRdMoveC nd cl => let s1 := move_pending s in
                        if Nat.ltb (length (recv s1)) nd then setg i (GRdLd cl) s1 else setg i (GCbBody nd cl) s1
    | GRdLd cl => setg i (GCbBody O cl) s
    | GCbBody k cl => setg i (match cl with O => GCbEnd | S more => GCbClose KStart more end)
                        (set_consumed (consumed s ++ firstn k (recv s)) (set_recv (skipn k (recv s)) s))
    | GCbClose c more =>
        let r := cstep s c in
        setg i (match snd r with
                | KRet => match more with O => GCbEnd | S m => GCbClose KStart m end   (* Close() again in the same OnData *)
                | c' => GCbClose c' more
                end) (if negb (isret c) && isret (snd r) then set_nret (nret (fst r) + 1) (fst r) else fst r)
    | GCbEnd => setg i GMove s
    | GClr => setg i GLdCs (set_inproc 0 s)
    | GLdCs => if cstate s =? v_callbackWaitExit then setg i GWgDoneClose s else setg i GLen s
    | GLen => match pending s with [] => setg i GWgDone s | _ => setg i GCas s end
    | GCas => if inproc s =? 0 then setg i GMove (set_inproc 1 s) else setg i GWgDone s
    | GWgDone => setg i GExit (set_wg (wg s - 1) s)
    | GWgDoneClose => setg i (GClose CLd) (set_wg (wg s - 1) s)
    | GClose c => let r := cstep s c in
                  setg i (match snd r with KRet => GExit | c' => GClose c' end) (fst r)
    | GExit => s
    end
  end.

(* ---------- closer threads: one Close() each ---------- *)
Definition clstep (i : nat) (s : est) : est :=
  match nth_error (clos s) i with
  | None => s
  | Some c => let r := cstep s c in
              let s' := if negb (isret c) && isret (snd r) then set_nret (nret (fst r) + 1) (fst r) else fst r in
              set_clos (set_nth i (snd r) (clos s')) s'   (* nret (ghost): Close() calls that have returned *)
  end.

(* ---------- SetCallbacks ---------- *)
Definition sstep (s : est) : est :=
  match spc s with
  | SIdle => match sypc s with
             | SyCons _ => s   (* the same user goroutine: its synchronous read finishes first *)
             | SyIdle => if cbset s then set_spc SDone s else set_spc SCas (set_cbset true s)
             end
  | SCas => if inproc s =? 0 then set_spc SWgAdd (set_inproc 1 s) else set_spc SDone s
  | SWgAdd => set_spc SSpawn (set_wg (wg s + 1) s)
  | SSpawn => set_spc SDone (set_gors (gors s ++ [GMove]) s)
  | SDone => s
  end.

(* ---------- user Flush(es) ---------- *)
Definition ustep (i : nat) (s : est) : est :=
  match nth_error (users s) i with
  | None => s
  | Some u =>
    let setu u' s' := set_users (set_nth i u' (users s')) s' in
    match upc u with
    | UIdle => match utodo u with
               | [] => s
               | m :: r => setu {| upc := UWr m; utodo := r; ures := ures u |} s
               end
    | UWr m => setu {| upc := ULd m; utodo := utodo u; ures := ures u |} s
    | ULd m => if st s =? c_streamOpened       (* stream.go Flush: `if state != uint32(streamOpened)` *)
               then setu {| upc := UPut m (0 <? nret s); utodo := utodo u; ures := ures u |} s
               else setu {| upc := UIdle; utodo := utodo u; ures := ures u ++ [(false, 0 <? nret s)] |} s
    | UPut m aft => setu {| upc := UIdle; utodo := utodo u; ures := ures u ++ [(true, aft)] |} (set_out (out s ++ [EData m]) s)
    end
  end.

(* ---------- synchronous reads before SetCallbacks ---------- *)
(* Peek(size) / ReadBytes(size) call readMore (hence pendingData.moveTo) only if recvBuf holds less than size bytes;
   size = what the user asks for, at least 1, at most what has arrived *)
Definition sy_moves (s : est) (k : nat) : bool :=
  Nat.ltb (length (recv s)) (Nat.max 1 (Nat.min k (length (recv s) + length (concat (pending s))))).
Definition systep (s : est) : est :=
  match sypc s with
  | SyIdle => if cbset s then s else
              match spc s with
              | SIdle => match sytodo s with
                         | [] => s
                         | k :: r => if sy_moves s k
                                     then set_sypc (SyCons k) (set_sytodo r (move_pending s))
                                     else set_sypc (SyCons k) (set_sytodo r s)   (* enough in recvBuf: no readMore *)
                         end
              | _ => s
              end
  | SyCons k => set_sypc SyIdle (set_consumed (consumed s ++ firstn k (recv s)) (set_recv (skipn k (recv s)) s))
  end.

Definition step (s : est) (w : who) : est :=
  match w with
  | WEv => estep s
  | WGor i => gstep i s
  | WClo i => clstep i s
  | WSet => sstep s
  | WUser i => ustep i s
  | WSync => systep s
  end.

Definition run (sched : list who) (s : est) : est := fold_left step sched s.

(* cb0: callbacks installed before the first event (a client stream, or a server stream whose callbacks
   are set in OnNewStream); inb: the inbound events; ncl: number of Close() calls; scr: what the
   successive OnData invocations do; ups: Flush programs of user threads; setter: a SetCallbacks call *)
Definition init_rd (cb0 : bool) (inb : list ev) (ncl : nat) (scr : list (nat * nat)) (ups : list (list (list Z)))
    (sy : list nat) (nds : list nat) (pks : list bool) : est :=
  {| st := c_streamOpened; inproc := 0; cstate := 0; wg := 0; cbset := cb0; intable := true; cnotify := false;
     pending := []; recv := [];
     inbox := inb; epc := EIdle; gors := []; clos := repeat KStart ncl; spc := SIdle;
     users := map (fun p => {| upc := UIdle; utodo := p; ures := [] |}) ups; script := scr; sypc := SyIdle; sytodo := sy;
     processed := []; arrived := []; chunks := []; consumed := []; offers := [];
     nlocal := 0; nremote := 0; out := []; khalf := false; lhalf := false; casfail := false; nret := 0;
     rnotify := false; needs := nds; picks := pks |}.
Definition init_sy (cb0 : bool) (inb : list ev) (ncl : nat) (scr : list (nat * nat)) (ups : list (list (list Z)))
    (sy : list nat) : est := init_rd cb0 inb ncl scr ups sy [] [].

Definition init (cb0 : bool) (inb : list ev) (ncl : nat) (scr : list (nat * nat)) (ups : list (list (list Z))) : est :=
  init_sy cb0 inb ncl scr ups [].

(* ---------- observables ---------- *)
Definition moved (s : est) : list Z := concat (map snd (filter fst (chunks s))).

(* results of the user-visible operations as functions of the state (stream.go Flush 199-208, readMore 135-144) *)
Inductive opres := RData | RBlocked | REndOfStream | ROk | RErrStreamClosed.
Definition flush_res (s : est) : opres := if st s =? c_streamOpened then ROk else RErrStreamClosed.
Definition read_res (s : est) : opres :=
  match recv s ++ concat (pending s) with
  | _ :: _ => RData
  | [] => if st s =? c_streamOpened then RBlocked else REndOfStream
  end.
Definition active (s : est) : bool := intable s.

(* ---------- two ends of one stream ---------- *)
Record world := { wa : est; wb : est }.
Inductive side := SA | SB.
Definition newout (e e' : est) : list ev := skipn (length (out e)) (out e').
Definition wstep (w : world) (x : side * who) : world :=
  match fst x with
  | SA => let a' := step (wa w) (snd x) in
          {| wa := a'; wb := set_inbox (inbox (wb w) ++ newout (wa w) a') (wb w) |}
  | SB => let b' := step (wb w) (snd x) in
          {| wa := set_inbox (inbox (wa w) ++ newout (wb w) b') (wa w); wb := b' |}
  end.
Definition wrun (sched : list (side * who)) (w : world) : world := fold_left wstep sched w.
Definition winit (cba cbb : bool) (ncla nclb : nat) (scra scrb : list (nat * nat)) (upa upb : list (list (list Z))) : world :=
  {| wa := init cba [] ncla scra upa; wb := init cbb [] nclb scrb upb |}.

(* ====================================================================================================
   The pendingData mutex.  Every method of pendingData (add, moveTo, clear) runs inside r.Lock() … r.Unlock();
   moveTo and clear walk the elements of r.unread under the lock.  The fine-grained machine below adds exactly
   that to the machine above: a thread whose next step is a pendingData operation must first take the mutex
   (or find it busy), then walks the n = len(unread) elements one step each, then performs the operation (the
   step of the machine above: the commit), then unlocks.  Everything else steps as before.  Its schedules are
   those of the instrumented build with the mutex and the element accesses as scheduling points.
   ==================================================================================================== *)
Definition who_eqb (a b : who) : bool :=
  match a, b with
  | WEv, WEv | WSet, WSet | WSync, WSync => true
  | WGor i, WGor j | WClo i, WClo j | WUser i, WUser j => Nat.eqb i j
  | _, _ => false
  end.

(* Some n: the next step of thread w is a pendingData operation that walks n elements of r.unread *)
Definition pend_op (s : est) (w : who) : option nat :=
  match w with
  | WEv => match epc s with
           | EAdd _ => Some O
           | EClrP => Some (length (pending s))
           | _ => None
           end
  | WGor i => match nth_error (gors s) i with
              | Some GMove | Some GSwP | Some (GRdMove _ _) | Some (GRdMoveC _ _) => Some (length (pending s))
              | Some (GCbClose (CPend _) _) | Some (GClose (CPend _)) => Some (length (pending s))
              | _ => None
              end
  | WClo i => match nth_error (clos s) i with Some (CPend _) => Some (length (pending s)) | _ => None end
  | WSync => match sypc s with
             | SyIdle => if cbset s then None else
                         match spc s, sytodo s with
                         | SIdle, k :: _ => if sy_moves s k then Some (length (pending s)) else None
                         | _, _ => None
                         end
             | _ => None
             end
  | _ => None
  end.

(* holder of the mutex: (thread, elements walked, elements to walk, operation done) *)
Record fst_ := { base : est; plk : option (who * nat * nat * bool) }.
Inductive fact := FPlain | FLock | FBusy | FWalk (i : nat) | FCommit | FUnlock.

Definition faction (f : fst_) (w : who) : fact :=
  match plk f with
  | Some (h, i, n, c) =>
      if who_eqb h w then (if c then FUnlock else if Nat.ltb i n then FWalk i else FCommit)
      else match pend_op (base f) w with Some _ => FBusy | None => FPlain end
  | None => match pend_op (base f) w with Some _ => FLock | None => FPlain end
  end.

Definition fstep (f : fst_) (w : who) : fst_ :=
  match faction f w with
  | FPlain => {| base := step (base f) w; plk := plk f |}
  | FLock => {| base := base f; plk := Some (w, O, match pend_op (base f) w with Some n => n | None => O end, false) |}
  | FBusy => f
  | FWalk i => match plk f with Some (h, _, n, c) => {| base := base f; plk := Some (h, S i, n, c) |} | None => f end
  | FCommit => match plk f with Some (h, i, n, _) => {| base := step (base f) w; plk := Some (h, i, n, true) |} | None => f end
  | FUnlock => {| base := base f; plk := None |}
  end.
Definition frun (sched : list who) (f : fst_) : fst_ := fold_left fstep sched f.
Definition finit (s : est) : fst_ := {| base := s; plk := None |}.

(* the steps of the atomic machine a fine schedule performs *)
Fixpoint fproj (sched : list who) (f : fst_) : list who :=
  match sched with
  | [] => []
  | w :: r => match faction f w with
              | FPlain | FCommit => w :: fproj r (fstep f w)
              | _ => fproj r (fstep f w)
              end
  end.

(* ---------- what goes wrong without the lock around the walk (the variant the harness guards against):
   moveTo copies the slice header of r.unread and resets r.unread = r.unread[:0] under the lock, then walks the copy
   AFTER unlocking.  Copy and r.unread share one backing array: an add() during the walk overwrites a slot the
   walker has not read yet.  `arr` is the backing array, `len` the current length of r.unread. ---------- *)
Fixpoint set_at {A} (n : nat) (x : A) (l : list A) : list A :=
  match l, n with
  | [], _ => [x]
  | _ :: t, O => x :: t
  | h :: t, S n => h :: set_at n x t
  end.
(* the walker reads slot i of its copy (length n) after the adds that happened before that read *)
Fixpoint racy_walk {A} (d : A) (arr : list A) (len : nat) (i n : nat) (adds : list (list A)) : list A * list A * nat :=
  match adds, Nat.ltb i n with
  | a :: rest, true =>
      (* the event loop appends the messages a, then the walker reads slot i *)
      let '(arr', len') := fold_left (fun p m => (set_at (snd p) m (fst p), S (snd p))) a (arr, len) in
      let '(got, arrf, lenf) := racy_walk d arr' len' (S i) n rest in
      (nth i arr' d :: got, arrf, lenf)
  | _, _ => ([], arr, len)
  end.
