(* Model of one direction of a session with any number of streams (C07): the wake-up protocol of
   Model/Wakeup.v with payloads.  NO PROOFS in this file.

   Writers (one thread per stream; stream.go Flush 198-260, writeFallback, close 289-327):
     Flush   stream closed          -> ErrStreamClosed
             sendBuf not from shm   -> inFallbackState := true                       (sticky)
             inFallbackState        -> waitForSend(fallback event): sendCh <- event, wait for the send loop
             else queue.put(id, offset, state); ErrQueueFull (after the retries) -> error, nothing sent
                  ok -> wakeUpPeer  (markWorking; fast path / slow path, exactly as in Model/Wakeup.v)
     close   inFallbackState        -> waitForSend(typeStreamClose event)   (the close follows the stream's
                                       fallback data on the socket; fix of C07:close-overtakes-fallback-data)
             put(id, closed) ok     -> wakeUpPeer
             put fails              -> waitForSend(typeStreamClose event)
   The adversary decides for every Flush whether shared-memory allocation succeeds and whether the
   queue is full, and for every close whether the put fails: these choices are part of the program
   ([OFlush shmok qfull], [OClose qfull]) and are universally quantified.

   Transports: the shared queue (FIFO of (stream, payload)); the control connection (FIFO of
   polling / fallback-data / stream-close events) fed by fast-path writers and by the send loop.
   Receiver (the peer's single event-loop thread): connection events in order; a polling event starts
   the drain loop of handlePolling/markNotWorking; a fallback-data / stream-close event first empties
   the queue (consumeRecvQueue: pop until empty, flag untouched — fix of
   C07:fallback-overtakes-unpublished-wakeup), then appends its data to its stream (handleFallbackData)
   or half-closes it (handleStreamClose); a close element half-closes the stream (handleStreamMessage).  [deliv] is the order in which the items reach their
   streams; the reader of stream s sees [filter s deliv] in this order, DEnd = ErrEndOfStream mark. *)
From Coq Require Import List ZArith Lia Bool Arith.
From Shm Require Import Gen.Consts Gen.SwitchC07 Model.Wakeup.
Import ListNotations.
Open Scope nat_scope.

Inductive ditem := DData (k : nat) | DEnd.
Definition item := (nat * ditem)%type.                 (* stream id, payload *)
Inductive via := VQ | VS.                              (* through the shared queue / through the socket *)
Definition entry := (item * via)%type.
Inductive xev := XPoll | XItem (x : item).             (* XItem (s, DData k): typeFallbackData; XItem (s, DEnd): typeStreamClose *)

Inductive mop := OFlush (shmok qfull : bool) | OClose (qfull : bool).

Inductive mpc := MIdle | MMark | MWr | MSlow | MEv | MRel | MNotify | MWait.
Record mlocal := { mpc_ : mpc; mtodo : list mop; nxt : nat; infb : bool; closed : bool }.

Inductive mcpc := KIdle | KPopH | KPopT | KPopInc | KStore0 | KSizeT | KSizeH (empty : bool) | KStore1
                | KFbH (x : item) | KFbT (x : item) | KFbInc (x : item).
                  (* handleFallbackData / handleStreamClose holding socket item x: consumeRecvQueue first *)
Definition sitem := (xev * option nat)%type.           (* event, writer waiting for it (waitForSend) *)
Inductive mspc := LIdle | LCas (e : sitem) | LWait (e : sitem) | LWrite (e : sitem) | LRel (o : option nat).

Record mst := {
  queue : list item; mflag : bool;
  msock : list xev; mwriting : bool; mnotif : bool; msendch : list sitem; acks : list nat;
  mprods : list mlocal; mcons : mcpc; msl : mspc;
  flog : list entry;      (* ghost: every item handed to a transport, in that order *)
  deliv : list entry }.   (* the order in which items reach their streams on the receiving side *)

Definition mmk q f so w nf sc ak pr c l fl dl : mst :=
  {| queue := q; mflag := f; msock := so; mwriting := w; mnotif := nf; msendch := sc; acks := ak;
     mprods := pr; mcons := c; msl := l; flog := fl; deliv := dl |}.

Definition mset_prods pr s := mmk (queue s) (mflag s) (msock s) (mwriting s) (mnotif s) (msendch s) (acks s) pr (mcons s) (msl s) (flog s) (deliv s).
Definition mset_flag f s := mmk (queue s) f (msock s) (mwriting s) (mnotif s) (msendch s) (acks s) (mprods s) (mcons s) (msl s) (flog s) (deliv s).
Definition mset_sock so s := mmk (queue s) (mflag s) so (mwriting s) (mnotif s) (msendch s) (acks s) (mprods s) (mcons s) (msl s) (flog s) (deliv s).
Definition mset_writing w s := mmk (queue s) (mflag s) (msock s) w (mnotif s) (msendch s) (acks s) (mprods s) (mcons s) (msl s) (flog s) (deliv s).
Definition mset_notif nf s := mmk (queue s) (mflag s) (msock s) (mwriting s) nf (msendch s) (acks s) (mprods s) (mcons s) (msl s) (flog s) (deliv s).
Definition mset_sendch sc s := mmk (queue s) (mflag s) (msock s) (mwriting s) (mnotif s) sc (acks s) (mprods s) (mcons s) (msl s) (flog s) (deliv s).
Definition mset_acks ak s := mmk (queue s) (mflag s) (msock s) (mwriting s) (mnotif s) (msendch s) ak (mprods s) (mcons s) (msl s) (flog s) (deliv s).
Definition mset_cons c s := mmk (queue s) (mflag s) (msock s) (mwriting s) (mnotif s) (msendch s) (acks s) (mprods s) c (msl s) (flog s) (deliv s).
Definition mset_sl l s := mmk (queue s) (mflag s) (msock s) (mwriting s) (mnotif s) (msendch s) (acks s) (mprods s) (mcons s) l (flog s) (deliv s).
(* hand an item to the queue / to sendCh (ghost log updated in the same step) *)
Definition put_q (x : item) s := mmk (queue s ++ [x]) (mflag s) (msock s) (mwriting s) (mnotif s) (msendch s) (acks s) (mprods s) (mcons s) (msl s) (flog s ++ [(x, VQ)]) (deliv s).
Definition put_s (x : item) (i : nat) s := mmk (queue s) (mflag s) (msock s) (mwriting s) (mnotif s) (msendch s ++ [(XItem x, Some i)]) (acks s) (mprods s) (mcons s) (msl s) (flog s ++ [(x, VS)]) (deliv s).
Definition pop_q (x : item) (q : list item) s := mmk q (mflag s) (msock s) (mwriting s) (mnotif s) (msendch s) (acks s) (mprods s) (mcons s) (msl s) (flog s) (deliv s ++ [(x, VQ)]).
(* the socket item held by the handler reaches its stream; the handler returns *)
Definition deliver_s (x : item) s := mmk (queue s) (mflag s) (msock s) (mwriting s) (mnotif s) (msendch s) (acks s) (mprods s) KIdle (msl s) (flog s) (deliv s ++ [(x, VS)]).

Definition msetp (i : nat) (p : mlocal) (s : mst) : mst := mset_prods (set_nth i p (mprods s)) s.
Definition mmkp (c : mpc) (p : mlocal) : mlocal :=
  {| mpc_ := c; mtodo := mtodo p; nxt := nxt p; infb := infb p; closed := closed p |}.
Definition mfin (p : mlocal) : mlocal :=
  {| mpc_ := MIdle; mtodo := tl (mtodo p); nxt := nxt p; infb := infb p; closed := closed p |}.
Definition mloc c td n fb cl : mlocal := {| mpc_ := c; mtodo := td; nxt := n; infb := fb; closed := cl |}.

Fixpoint remove_one (i : nat) (l : list nat) : list nat :=
  match l with [] => [] | x :: r => if Nat.eqb x i then r else x :: remove_one i r end.

(* one step of the writer of stream i.  [sticky] mirrors how Stream.Flush maintains inFallbackState:
   true  (the code that exists, Gen/SwitchC07.v):  if !sendBuf.isFromShareMemory() { inFallbackState = true }
   false (kept to show what the order theorem depends on): inFallbackState = !sendBuf.isFromShareMemory() *)
Definition mpstep_g (sticky : bool) (i : nat) (s : mst) : mst :=
  match nth_error (mprods s) i with
  | None => s
  | Some p =>
    match mpc_ p with
    | MIdle =>
      match mtodo p with
      | [] => s
      | OFlush shmok qfull :: _ =>
        if closed p then msetp i (mfin p) s                                    (* ErrStreamClosed *)
        else if (sticky && infb p) || negb shmok then                          (* writeFallback *)
          msetp i (mloc MWait (mtodo p) (S (nxt p)) true false) (put_s (i, DData (nxt p)) i s)
        else if qfull then msetp i (mloc MIdle (tl (mtodo p)) (S (nxt p)) false false) s   (* ErrQueueFull *)
        else msetp i (mloc MMark (mtodo p) (S (nxt p)) false false) (put_q (i, DData (nxt p)) s)
      | OClose qfull :: _ =>
        if closed p then msetp i (mfin p) s
        else if infb p || qfull then msetp i (mloc MWait (mtodo p) (nxt p) (infb p) true) (put_s (i, DEnd) i s)
        else msetp i (mloc MMark (mtodo p) (nxt p) (infb p) true) (put_q (i, DEnd) s)
      end
    | MMark => if mflag s then msetp i (mfin p) s else msetp i (mmkp MWr p) (mset_flag true s)
    | MWr => if mwriting s then msetp i (mmkp MSlow p) s else msetp i (mmkp MEv p) (mset_writing true s)
    | MSlow => msetp i (mfin p) (mset_sendch (msendch s ++ [(XPoll, None)]) s)
    | MEv => msetp i (mmkp MRel p) (mset_sock (msock s ++ [XPoll]) s)
    | MRel => msetp i (mmkp MNotify p) (mset_writing false s)
    | MNotify => msetp i (mfin p) (mset_notif true s)
    | MWait => if existsb (Nat.eqb i) (acks s) then msetp i (mfin p) (mset_acks (remove_one i (acks s)) s) else s
    end
  end.

Definition mpstep (i : nat) (s : mst) : mst := mpstep_g sw_fallback_sticky i s.

(* the receiving event loop *)
Definition mcstep (s : mst) : mst :=
  match mcons s with
  | KIdle => match msock s with
             | [] => s
             | XPoll :: r => mset_cons KPopH (mset_sock r s)
             | XItem x :: r => mset_cons (KFbH x) (mset_sock r s)
             end
  | KFbH x => mset_cons (KFbT x) s
  | KFbT x => match queue s with [] => deliver_s x s | _ => mset_cons (KFbInc x) s end
  | KFbInc x => match queue s with
                | [] => mset_cons (KFbH x) s        (* unreachable *)
                | e :: q => mset_cons (KFbH x) (pop_q e q s)
                end
  | KPopH => mset_cons KPopT s
  | KPopT => match queue s with [] => mset_cons KStore0 s | _ => mset_cons KPopInc s end
  | KPopInc => match queue s with
               | [] => mset_cons KPopH s            (* unreachable: only the consumer removes elements *)
               | x :: q => mset_cons KPopH (pop_q x q s)
               end
  | KStore0 => mset_cons KSizeT (mset_flag false s)
  | KSizeT => mset_cons (KSizeH (match queue s with [] => true | _ => false end)) s
  | KSizeH e => if e then mset_cons KIdle s else mset_cons KStore1 s
  | KStore1 => mset_cons KPopH (mset_flag true s)
  end.

(* the send loop *)
Definition msstep (s : mst) : mst :=
  match msl s with
  | LIdle => match msendch s with
             | [] => s
             | e :: r => mset_sl (LCas e) (mset_sendch r s)
             end
  | LCas e => if mwriting s then mset_sl (LWait e) s else mset_sl (LWrite e) (mset_writing true s)
  | LWait e => if mnotif s then mset_sl (LCas e) (mset_notif false s) else s
  | LWrite e => mset_sl (LRel (snd e)) (mset_sock (msock s ++ [fst e]) s)
  | LRel o => mset_sl LIdle (mset_acks (match o with Some i => i :: acks s | None => acks s end) (mset_writing false s))
  end.

Definition mstep_g (sticky : bool) (s : mst) (w : who) : mst :=
  match w with WProd i => mpstep_g sticky i s | WCons => mcstep s | WSend => msstep s end.
Definition mrun_g (sticky : bool) (sched : list who) (s : mst) : mst := fold_left (mstep_g sticky) sched s.

(* the code that exists *)
Definition mstep (s : mst) (w : who) : mst := mstep_g sw_fallback_sticky s w.

Definition minit (progs : list (list mop)) : mst :=
  mmk [] false [] false false [] [] (map (fun t => mloc MIdle t 0 false false) progs) KIdle LIdle [] [].

Definition mrun (sched : list who) (s : mst) : mst := mrun_g sw_fallback_sticky sched s.

(* ---------- observation functions used by the statements ---------- *)
Definition ditem_eqb (a b : ditem) : bool :=
  match a, b with DData x, DData y => Nat.eqb x y | DEnd, DEnd => true | _, _ => false end.
Definition via_eqb (a b : via) : bool := match a, b with VQ, VQ | VS, VS => true | _, _ => false end.
Definition of_stream (s : nat) (x : item) : bool := Nat.eqb (fst x) s.

(* what the reader of stream s is offered, in order *)
Definition seen (s : nat) (st : mst) : list ditem := map snd (filter (of_stream s) (map fst (deliv st))).
(* what the writer of stream s handed over successfully, in program order *)
Definition sent (s : nat) (st : mst) : list ditem := map snd (filter (of_stream s) (map fst (flog st))).

Fixpoint is_prefix (a b : list ditem) : bool :=
  match a, b with
  | [], _ => true
  | x :: a', y :: b' => ditem_eqb x y && is_prefix a' b'
  | _ :: _, [] => false
  end.
(* the end mark, if present, comes after every item the writer sent (the writer sends nothing after its close) *)
Definition end_after_all (s : nat) (st : mst) : bool :=
  if existsb (ditem_eqb DEnd) (seen s st)
  then match rev (seen s st) with DEnd :: _ => Nat.eqb (length (seen s st)) (length (sent s st)) | _ => false end
  else true.
Definition ordered (s : nat) (st : mst) : bool := is_prefix (seen s st) (sent s st) && end_after_all s st.
