(* Slot-ownership model of one session pair at the granularity of the code's critical sections (C09,
   "every interleaving of user calls with the event loop").  NO PROOFS in this file.

   Model/Accounting.v treats one API call and one run of handlePolling as atomic; here the steps that
   the code performs in separate critical sections are separate labels, and any number of user threads
   (one owner per stream object) interleave arbitrarily with the two event loops:

     event loop of endpoint e (protocol_manager.go handlePolling, session.go getStream/handleStreamMessage,
     stream.go fillDataToReadBuffer):
       PollOne e    pop ONE element of the queue and look the stream up under streamLock (the server accepts a
                    new stream OBJECT for an unknown id; the client recycles the data); a close element
                    half-closes the stream
       LoopAdd e    pendingData.add under the pendingData lock - on the object found by the lookup, which may
                    have been closed and removed from the table meanwhile
       LoopCheck e  the state re-check after the add: a closed stream gets pendingData.clear() and
                    recvBuf.recycle() (under recycleMux) - the late-data path
       SockStep e   an event from the socket (fallback data, close notification): while the queue is not empty
                    the loop pops and looks up one element (as PollOne; LoopAdd / LoopCheck follow), then the
                    item itself is delivered (62f988f: queued data first)
     user thread that owns stream object o:
       CloseStep o  Stream.close() one critical section at a time: CAS of the state / onStreamClose (table
                    delete under streamLock) / pendingData.clear (pendingData lock) / recvBuf.recycle
                    (recycleMux) / sendBuf.recycle (recycleMux) / notification of the peer (queue mutex or socket)
       MoveTo o     pendingData.moveTo(recvBuf) under the pendingData lock (first step of every blocking read)
       ReadK o ..   ReadBytes / Discard / Peek on the receive buffer (owner only, no lock)
       Write, Flush, Release, Reuse: touch only owner-local buffers, the free lists (atomic per slot) and
                    the queue (put is atomic under the queue mutex): one label each
   Stream OBJECTS are what user threads and event loops hold pointers to; the session table maps an id to
   the current object.  A closed object stays reachable by its owner and by an event loop that looked it
   up earlier; the server may meanwhile accept a new object for the same id.

   Data structures of Model/Accounting.v (slices, pending entries, queue elements, the read functions)
   are reused.  [fx], [gx] as there: fx = linkedBuffer.recycle() also cleans the pinned list; gx = the write
   side takes no shared memory for a closed stream. *)
From Coq Require Import List ZArith Bool Arith.
From Shm Require Import Gen.Consts Model.Accounting.
Import ListNotations.
Open Scope Z_scope.

Record obj := {
  oe : bool; osid : nat;            (* endpoint (false = client) and stream id *)
  oclosed : bool;                   (* state == streamClosed *)
  ohalf : bool; oinfb : bool;
  onotify : bool;                   (* close(): the state was streamOpened at the CAS *)
  osendb : list Z; osheap : bool;
  orecvb : list rslice; ocpin : bool; opinned : list Z;
  oscpin : bool; orheap : bool;     (* flags of the linkedBuffer objects, which ReleaseReadAndReuse swaps: currentPinned of the
                                       one that is the send buffer now, isFromShm = false of the one that is the receive buffer *)
  opend : list pentry;
  ocpc : nat }.                     (* progress of Stream.close(): 0 = not closing ... 6 = finished *)

Inductive lstate := LIdle | LHave (o : nat) (p : pentry) | LAdded (o : nat).
(* what travels over the socket: fallback data (heap bytes, no slots) and close notifications *)
Inductive sitem := SData (sid : nat) (bytes : Z) | SClose (sid : nat).

Record cst := {
  cfx : bool; cgx : bool; cqcap : Z;
  cfree : list Z; cext : list Z; cleaked : list Z;
  cq_srv : list qelem; cq_cli : list qelem;
  objs : nat -> obj; nobjs : nat;
  tbl : nat -> option nat;          (* session tables of both endpoints: key e sid -> current object *)
  loop_c : lstate; loop_s : lstate;
  sk_srv : list sitem; sk_cli : list sitem }.   (* events in flight on the socket, towards server / client (FIFO) *)

Inductive clabel :=
| COpen (sid : nat)
| CWrite (o : nat) (new : list Z) (heap : bool)
| CFlush (o : nat) (sizes : list Z) (wpos : nat)
| PollOne (e : bool) | LoopAdd (e : bool) | LoopCheck (e : bool) | SockStep (e : bool)
| MoveTo (o : nat) | ReadK (o : nat) (kind : rkind) (k : Z) | CRelease (o : nat) | CReuse (o : nat)
| CloseStep (o : nat)
| CExtHold (new : list Z) | CExtReturn
| CInject (to_srv : bool) (sid : nat) (chain : list (Z * Z)).

Definition fresh_obj (e : bool) (sid : nat) : obj :=
  {| oe := e; osid := sid; oclosed := false; ohalf := false; oinfb := false; onotify := false;
     osendb := []; osheap := false; orecvb := []; ocpin := false; opinned := []; oscpin := false; orheap := false;
     opend := []; ocpc := O |}.

Definition cinit (f g : bool) (n : nat) (qc : Z) : cst :=
  {| cfx := f; cgx := g; cqcap := qc; cfree := map Z.of_nat (seq 0 n); cext := []; cleaked := [];
     cq_srv := []; cq_cli := []; objs := fun _ => fresh_obj false O; nobjs := O;
     tbl := fun _ => None; loop_c := LIdle; loop_s := LIdle; sk_srv := []; sk_cli := [] |}.

(* ---- setters ---- *)
Definition set_obj (o : nat) (v : obj) (s : cst) : cst :=
  {| cfx := cfx s; cgx := cgx s; cqcap := cqcap s; cfree := cfree s; cext := cext s; cleaked := cleaked s;
     cq_srv := cq_srv s; cq_cli := cq_cli s; objs := updn (objs s) o v; nobjs := nobjs s;
     tbl := tbl s; loop_c := loop_c s; loop_s := loop_s s; sk_srv := sk_srv s; sk_cli := sk_cli s |}.
(* a new stream object registered in the table under its id *)
Definition new_obj (v : obj) (s : cst) : cst :=
  {| cfx := cfx s; cgx := cgx s; cqcap := cqcap s; cfree := cfree s; cext := cext s; cleaked := cleaked s;
     cq_srv := cq_srv s; cq_cli := cq_cli s; objs := updn (objs s) (nobjs s) v; nobjs := S (nobjs s);
     tbl := updn (tbl s) (key (oe v) (osid v)) (Some (nobjs s)); loop_c := loop_c s; loop_s := loop_s s; sk_srv := sk_srv s; sk_cli := sk_cli s |}.
Definition set_tbl (k : nat) (v : option nat) (s : cst) : cst :=
  {| cfx := cfx s; cgx := cgx s; cqcap := cqcap s; cfree := cfree s; cext := cext s; cleaked := cleaked s;
     cq_srv := cq_srv s; cq_cli := cq_cli s; objs := objs s; nobjs := nobjs s;
     tbl := updn (tbl s) k v; loop_c := loop_c s; loop_s := loop_s s; sk_srv := sk_srv s; sk_cli := sk_cli s |}.
Definition cadd_free (l : list Z) (s : cst) : cst :=
  {| cfx := cfx s; cgx := cgx s; cqcap := cqcap s; cfree := cfree s ++ l; cext := cext s; cleaked := cleaked s;
     cq_srv := cq_srv s; cq_cli := cq_cli s; objs := objs s; nobjs := nobjs s;
     tbl := tbl s; loop_c := loop_c s; loop_s := loop_s s; sk_srv := sk_srv s; sk_cli := sk_cli s |}.
Definition cadd_leaked (l : list Z) (s : cst) : cst :=
  {| cfx := cfx s; cgx := cgx s; cqcap := cqcap s; cfree := cfree s; cext := cext s; cleaked := cleaked s ++ l;
     cq_srv := cq_srv s; cq_cli := cq_cli s; objs := objs s; nobjs := nobjs s;
     tbl := tbl s; loop_c := loop_c s; loop_s := loop_s s; sk_srv := sk_srv s; sk_cli := sk_cli s |}.
Definition cset_free_ext (f e : list Z) (s : cst) : cst :=
  {| cfx := cfx s; cgx := cgx s; cqcap := cqcap s; cfree := f; cext := e; cleaked := cleaked s;
     cq_srv := cq_srv s; cq_cli := cq_cli s; objs := objs s; nobjs := nobjs s;
     tbl := tbl s; loop_c := loop_c s; loop_s := loop_s s; sk_srv := sk_srv s; sk_cli := sk_cli s |}.
Definition cqueue_to (to_srv : bool) (s : cst) : list qelem := if to_srv then cq_srv s else cq_cli s.
Definition cset_queue (to_srv : bool) (q : list qelem) (s : cst) : cst :=
  {| cfx := cfx s; cgx := cgx s; cqcap := cqcap s; cfree := cfree s; cext := cext s; cleaked := cleaked s;
     cq_srv := if to_srv then q else cq_srv s; cq_cli := if to_srv then cq_cli s else q;
     objs := objs s; nobjs := nobjs s; tbl := tbl s; loop_c := loop_c s; loop_s := loop_s s; sk_srv := sk_srv s; sk_cli := sk_cli s |}.
Definition loop_of (e : bool) (s : cst) : lstate := if e then loop_s s else loop_c s.
Definition set_loop (e : bool) (l : lstate) (s : cst) : cst :=
  {| cfx := cfx s; cgx := cgx s; cqcap := cqcap s; cfree := cfree s; cext := cext s; cleaked := cleaked s;
     cq_srv := cq_srv s; cq_cli := cq_cli s; objs := objs s; nobjs := nobjs s; tbl := tbl s;
     loop_c := if e then loop_c s else l; loop_s := if e then l else loop_s s; sk_srv := sk_srv s; sk_cli := sk_cli s |}.

Definition sock_to (to_srv : bool) (s : cst) : list sitem := if to_srv then sk_srv s else sk_cli s.
Definition set_sock (to_srv : bool) (l : list sitem) (s : cst) : cst :=
  {| cfx := cfx s; cgx := cgx s; cqcap := cqcap s; cfree := cfree s; cext := cext s; cleaked := cleaked s;
     cq_srv := cq_srv s; cq_cli := cq_cli s; objs := objs s; nobjs := nobjs s; tbl := tbl s;
     loop_c := loop_c s; loop_s := loop_s s;
     sk_srv := if to_srv then l else sk_srv s; sk_cli := if to_srv then sk_cli s else l |}.
Definition push_sock (to_srv : bool) (i : sitem) (s : cst) : cst := set_sock to_srv (sock_to to_srv s ++ [i]) s.

Definition oslots (v : obj) : list Z := osendb v ++ rslots (orecvb v) ++ opinned v ++ pslots (opend v).
Definition lslots (l : lstate) : list Z := match l with LHave _ p => pslots [p] | _ => [] end.
Definition obj_slots (s : cst) : list Z := flat_map (fun o => oslots (objs s o)) (seq 0 (nobjs s)).
Definition call_slots (s : cst) : list Z :=
  cfree s ++ cext s ++ cleaked s ++ qslots (cq_srv s) ++ qslots (cq_cli s) ++
  lslots (loop_c s) ++ lslots (loop_s s) ++ obj_slots s.

Definition valid (o : nat) (s : cst) : bool := Nat.ltb o (nobjs s).
(* the owner may use the object: it exists and is not inside / after Stream.close() *)
Definition usable (o : nat) (s : cst) : bool :=
  valid o s && negb (oclosed (objs s o)) && Nat.eqb (ocpc (objs s o)) 0.

Definition upd_obj (v : obj) (hf fb nt cl : bool) (sb : list Z) (sh : bool) (rb : list rslice) (cp : bool)
           (pn : list Z) (pe : list pentry) (pc : nat) : obj :=
  {| oe := oe v; osid := osid v; oclosed := cl; ohalf := hf; oinfb := fb; onotify := nt;
     osendb := sb; osheap := sh; orecvb := rb; ocpin := cp; opinned := pn; oscpin := oscpin v; orheap := orheap v;
     opend := pe; ocpc := pc |}.
Definition with_flags (v : obj) (sc rh : bool) : obj :=
  {| oe := oe v; osid := osid v; oclosed := oclosed v; ohalf := ohalf v; oinfb := oinfb v; onotify := onotify v;
     osendb := osendb v; osheap := osheap v; orecvb := orecvb v; ocpin := ocpin v; opinned := opinned v;
     oscpin := sc; orheap := rh; opend := opend v; ocpc := ocpc v |}.

(* ---- the own action of a socket event at the receiving loop (no slots travel over the socket) ---- *)
Definition sock_data (e : bool) (sid : nat) (bytes : Z) (s : cst) : cst :=
  match tbl s (key e sid) with
  | Some o => let v := objs s o in
              set_obj o (upd_obj v (ohalf v) (oinfb v) (onotify v) (oclosed v) (osendb v) (osheap v) (orecvb v) (ocpin v)
                                 (opinned v) (opend v ++ [PFb bytes]) (ocpc v)) s
  | None => if e then
              let v := fresh_obj true sid in
              new_obj (upd_obj v false false false false [] false [] false [] [PFb bytes] O) s
            else s
  end.
Definition sock_close (e : bool) (sid : nat) (s : cst) : cst :=
  match tbl s (key e sid) with
  | Some o => let v := objs s o in
              set_obj o (upd_obj v true (oinfb v) (onotify v) (oclosed v) (osendb v) (osheap v) (orecvb v) (ocpin v)
                                 (opinned v) (opend v) (ocpc v)) s
  | None => s
  end.

(* ---- user: write / flush ---- *)
Definition c_write (o : nat) (new : list Z) (heap : bool) (s : cst) : option cst :=
  let v := objs s o in
  (* the owner of a closed stream (its close() has returned): with gx its writes take heap slices (no slot
     moves); without it they allocate into the send buffer that clean() has already left behind *)
  let after_close := valid o s && oclosed v && Nat.eqb (ocpc v) 6 in
  if after_close && cgx s then Some s
  else if negb (usable o s || after_close) then None
  else if negb (subsetb new (cfree s) && nodupb new) then None
  else Some (set_obj o (upd_obj v (ohalf v) (oinfb v) (onotify v) (oclosed v) (osendb v ++ new) (osheap v || heap)
                                (orecvb v) (ocpin v) (opinned v) (opend v) (ocpc v))
               (cset_free_ext (minus_list (cfree s) new) (cext s) s)).

Definition sent (v : obj) (fb : bool) : obj :=
  with_flags (upd_obj v (ohalf v) fb (onotify v) (oclosed v) [] false (orecvb v) (ocpin v) (opinned v) (opend v) (ocpc v)) false (orheap v).

Definition c_flush (o : nat) (sizes : list Z) (wpos : nat) (s : cst) : option cst :=
  let v := objs s o in
  if negb (valid o s && (Nat.eqb (ocpc v) 0 || Nat.eqb (ocpc v) 6)) then None        (* the owner is not inside close() *)
  else if sumz sizes <=? 0 then Some s
  else if oclosed v || ohalf v then
    Some (cadd_free (osendb v) (set_obj o (sent v (oinfb v)) s))
  else if osheap v || oinfb v then
    Some (push_sock (negb (oe v)) (SData (osid v) (sumz sizes)) (cadd_free (osendb v) (set_obj o (sent v true) s)))
  else
    let used := firstn (S wpos) (osendb v) in
    let unused := skipn (S wpos) (osendb v) in
    let s1 := cadd_free unused (set_obj o (sent v false) s) in
    let t := negb (oe v) in
    if Z.of_nat (length (cqueue_to t s)) >=? cqcap s then Some (cadd_free used s1)
    else Some (cset_queue t (cqueue_to t s ++ [{| q_sid := osid v; q_chain := zip_pad used sizes; q_closed := false |}]) s1).

(* ---- user: reading ---- *)
Definition c_moveto (o : nat) (s : cst) : option cst :=
  let v := objs s o in
  if negb (usable o s) then None else
  let '(rb, fr0, fb) := fold_left (fun acc p => move_entry p acc) (opend v) (orecvb v, [], oinfb v) in
  Some (cadd_free fr0 (set_obj o (with_flags (upd_obj v (ohalf v) fb (onotify v) (oclosed v) (osendb v) (osheap v) rb (ocpin v)
                                          (opinned v) [] (ocpc v)) (oscpin v) (orheap v || existsb is_pfb (opend v))) s)).

Definition c_readk (o : nat) (kind : rkind) (k : Z) (s : cst) : option cst :=
  let v := objs s o in
  if negb (usable o s) then None else
  let r0 := {| r_buf := orecvb v; r_pin := opinned v; r_free := []; r_cpin := ocpin v |} in
  let r1 := if (0 <? k) && (k <=? sumz (map rs_bytes (orecvb v))) then do_read_kind kind k r0 else r0 in
  Some (cadd_free (r_free r1)
          (set_obj o (upd_obj v (ohalf v) (oinfb v) (onotify v) (oclosed v) (osendb v) (osheap v) (r_buf r1) (r_cpin r1)
                              (r_pin r1) (opend v) (ocpc v)) s)).

Definition c_release (o : nat) (s : cst) : option cst :=
  let v := objs s o in
  if negb (usable o s) then None else
  let cp := match opinned v with [] => ocpin v | _ => false end in
  let last_empty := match orecvb v with [a] => rs_bytes a =? 0 | _ => false end in
  if last_empty then
    Some (cadd_free (opinned v ++ rslots (orecvb v))
            (set_obj o (upd_obj v (ohalf v) (oinfb v) (onotify v) (oclosed v) (osendb v) (osheap v) [] cp [] (opend v) (ocpc v)) s))
  else
    Some (cadd_free (opinned v)
            (set_obj o (upd_obj v (ohalf v) (oinfb v) (onotify v) (oclosed v) (osendb v) (osheap v) (orecvb v) cp [] (opend v) (ocpc v)) s)).

Definition c_reuse (o : nat) (s : cst) : option cst :=
  let v := objs s o in
  let ok := usable o s && negb (ohalf v) && (sumz (map rs_bytes (orecvb v)) =? 0)
            && match opend v with [] => true | _ => false end && match osendb v with [] => true | _ => false end in
  if negb ok then None else
  let cp := match opinned v with [] => ocpin v | _ => false end in
  match orecvb v with
  | [a] => match rs_slot a with
           | Some x => Some (cadd_free (opinned v)
                               (set_obj o (with_flags (upd_obj v (ohalf v) false (onotify v) (oclosed v) [x] (orheap v) [] (oscpin v) [] [] (ocpc v)) cp (osheap v)) s))
           | None => Some (cadd_free (opinned v)
                             (set_obj o (upd_obj v (ohalf v) false (onotify v) (oclosed v) [] (osheap v) [] cp [] [] (ocpc v)) s))
           end
  | _ => Some (cadd_free (opinned v)
                 (set_obj o (upd_obj v (ohalf v) false (onotify v) (oclosed v) (osendb v) (osheap v) (orecvb v) cp [] (opend v) (ocpc v)) s))
  end.

(* ---- user: Stream.close(), one critical section per step ---- *)
Definition with_cpc (v : obj) (pc : nat) : obj :=
  upd_obj v (ohalf v) (oinfb v) (onotify v) (oclosed v) (osendb v) (osheap v) (orecvb v) (ocpin v) (opinned v) (opend v) pc.

Definition c_close_step (o : nat) (s : cst) : option cst :=
  let v := objs s o in
  if negb (valid o s) then None else
  match ocpc v with
  | 0%nat => if oclosed v then None                               (* Close of a closed stream: nothing *)
             else Some (set_obj o (upd_obj v (ohalf v) (oinfb v) (negb (ohalf v)) true (osendb v) (osheap v) (orecvb v)
                                           (ocpin v) (opinned v) (opend v) 1) s)     (* CAS state -> closed *)
  | 1%nat => (* onStreamClose: delete(streams, id) under streamLock *)
             Some (set_tbl (key (oe v) (osid v)) None (set_obj o (with_cpc v 2) s))
  | 2%nat => (* pendingData.clear() *)
             Some (cadd_free (pslots (opend v))
                     (set_obj o (upd_obj v (ohalf v) (oinfb v) (onotify v) (oclosed v) (osendb v) (osheap v) (orecvb v)
                                         (ocpin v) (opinned v) [] 3) s))
  | 3%nat => (* recvBuf.recycle() *)
             let s1 := set_obj o (with_flags (upd_obj v (ohalf v) (oinfb v) (onotify v) (oclosed v) (osendb v) (osheap v) []
                                          false [] (opend v) 4) (oscpin v) false) s in
             Some (if cfx s then cadd_free (opinned v ++ rslots (orecvb v)) s1
                   else cadd_leaked (opinned v) (cadd_free (rslots (orecvb v)) s1))
  | 4%nat => (* sendBuf.recycle() *)
             Some (cadd_free (osendb v)
                     (set_obj o (with_flags (upd_obj v (ohalf v) (oinfb v) (onotify v) (oclosed v) [] false (orecvb v)
                                         (ocpin v) (opinned v) (opend v) 5) false (orheap v)) s))
  | 5%nat => (* notify the peer *)
             let s1 := set_obj o (with_cpc v 6) s in
             let t := negb (oe v) in
             if negb (onotify v) then Some s1
             else if oinfb v || (Z.of_nat (length (cqueue_to t s)) >=? cqcap s) then Some (push_sock t (SClose (osid v)) s1)
             else Some (cset_queue t (cqueue_to t s ++ [{| q_sid := osid v; q_chain := []; q_closed := true |}]) s1)
  | _ => None
  end.

(* ---- the event loop of endpoint e ---- *)
Definition c_poll_one (e : bool) (s : cst) : option cst :=
  match loop_of e s, cqueue_to e s with
  | LIdle, q :: rest =>
    let s0 := cset_queue e rest s in
    if q_closed q then Some (cadd_free (map fst (q_chain q)) (sock_close e (q_sid q) s0))
    else
      match tbl s (key e (q_sid q)) with
      | Some o => Some (set_loop e (LHave o (PShm (q_chain q))) s0)
      | None => if e then
                  (* the server accepts a new stream object; the add follows *)
                  Some (set_loop e (LHave (nobjs s0) (PShm (q_chain q))) (new_obj (fresh_obj true (q_sid q)) s0))
                else Some (cadd_free (map fst (q_chain q)) s0)      (* unknown stream: recycleBuffers *)
      end
  | _, _ => None
  end.

Definition c_loop_add (e : bool) (s : cst) : option cst :=
  match loop_of e s with
  | LHave o p =>
    if negb (valid o s) then None else
    let v := objs s o in
    Some (set_loop e (LAdded o)
            (set_obj o (upd_obj v (ohalf v) (oinfb v) (onotify v) (oclosed v) (osendb v) (osheap v) (orecvb v) (ocpin v)
                                (opinned v) (opend v ++ [p]) (ocpc v)) s))
  | _ => None
  end.

Definition c_loop_check (e : bool) (s : cst) : option cst :=
  match loop_of e s with
  | LAdded o =>
    if negb (valid o s) then None else
    let v := objs s o in
    if oclosed v then
      (* late data for a closed stream: pendingData.clear(); recvBuf.recycle() *)
      let s1 := set_obj o (with_flags (upd_obj v (ohalf v) (oinfb v) (onotify v) (oclosed v) (osendb v) (osheap v) [] false
                                   (if cfx s then [] else opinned v) [] (ocpc v)) (oscpin v) false) s in
      Some (set_loop e LIdle
              (cadd_free (pslots (opend v) ++ rslots (orecvb v) ++ (if cfx s then opinned v else [])) s1))
    else Some (set_loop e LIdle s)
  | _ => None
  end.

(* handleFallbackData / handleStreamClose of endpoint e (62f988f): the loop first hands every element that
   is in the queue to its stream (consumeRecvQueue: the same pop + lookup, add, re-check steps as
   handlePolling, interleavable with user threads like them), and only when the queue is empty performs
   the socket item's own action *)
Definition c_sock_step (e : bool) (s : cst) : option cst :=
  match loop_of e s, sock_to e s with
  | LIdle, i :: rest =>
    match cqueue_to e s with
    | _ :: _ => c_poll_one e s
    | [] => match i with
            | SData sid b => Some (sock_data e sid b (set_sock e rest s))
            | SClose sid => Some (sock_close e sid (set_sock e rest s))
            end
    end
  | _, _ => None
  end.

Definition c_ext_hold (new : list Z) (s : cst) : option cst :=
  if subsetb new (cfree s) && nodupb new then Some (cset_free_ext (minus_list (cfree s) new) (cext s ++ new) s) else None.

Definition c_inject (to_srv : bool) (sid : nat) (chain : list (Z * Z)) (s : cst) : option cst :=
  if negb (subsetb (map fst chain) (cext s) && nodupb (map fst chain)) then None
  else if Z.of_nat (length (cqueue_to to_srv s)) >=? cqcap s then None
  else Some (cset_queue to_srv (cqueue_to to_srv s ++ [{| q_sid := sid; q_chain := chain; q_closed := false |}])
               (cset_free_ext (cfree s) (minus_list (cext s) (map fst chain)) s)).

Definition c_open (sid : nat) (s : cst) : option cst :=
  match tbl s (key false sid) with
  | Some _ => None
  | None => Some (new_obj (fresh_obj false sid) s)
  end.

Definition cstep (s : cst) (l : clabel) : option cst :=
  match l with
  | COpen sid => c_open sid s
  | CWrite o new heap => c_write o new heap s
  | CFlush o sizes wpos => c_flush o sizes wpos s
  | PollOne e => c_poll_one e s
  | LoopAdd e => c_loop_add e s
  | LoopCheck e => c_loop_check e s
  | SockStep e => c_sock_step e s
  | MoveTo o => c_moveto o s
  | ReadK o kind k => c_readk o kind k s
  | CRelease o => c_release o s
  | CReuse o => c_reuse o s
  | CloseStep o => c_close_step o s
  | CExtHold new => c_ext_hold new s
  | CExtReturn => Some (cset_free_ext (cfree s ++ cext s) [] s)
  | CInject t sid chain => c_inject t sid chain s
  end.

(* a label that is not enabled leaves the state unchanged: every list of labels is an interleaving *)
Definition cstep' (s : cst) (l : clabel) : cst := match cstep s l with Some s' => s' | None => s end.
Fixpoint crun (s : cst) (h : list clabel) : cst :=
  match h with [] => s | l :: t => crun (cstep' s l) t end.

(* ---- the coarse labels of Model/Accounting.v as particular interleavings (used by the examples) ---- *)
Definition close_all (o : nat) : list clabel := repeat (CloseStep o) 6.
Definition poll_all (e : bool) (n : nat) : list clabel := flat_map (fun _ => [PollOne e; LoopAdd e; LoopCheck e]) (seq 0 n).
