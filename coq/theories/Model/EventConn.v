(* Model of the event connection of shmipc-go (C18).  NO proofs in this file.

   Mirrors event_dispatcher_linux.go:
     connEventHandler.readBuffer / readStartOff / readEndOff, newConnection (initial buffer),
     maybeExpandReadBuffer (double when no room is left, copy the unconsumed bytes to the front),
     onReadReady (expand, read, callback when the window reaches onDataThreshold, final callback at EAGAIN),
     commitRead (advance; when everything is consumed reset the offsets and halve a buffer larger than the
     shrink limit),
     write (loop over partial writes, EAGAIN = wait and retry), doWritev (iovec bookkeeping),
   and session.go: the `writing` flag hand-off between the send loop, wakeUpPeer and hotRestart.

   The three size literals of the Go source (64 KiB initial buffer, 1 MiB onDataThreshold, 4 MiB shrink limit) are
   parameters of the model ([cfg]); the theorems hold for every value, the correspondence passes the values it
   reads from the source. *)
From Coq Require Import List ZArith Bool.
Import ListNotations.
Open Scope Z_scope.

Definition zlen {A} (l : list A) : Z := Z.of_nat (length l).

(* ============================================================================================== *)
(* read side                                                                                       *)
(* ============================================================================================== *)
Record cfg := { init_len : Z; threshold : Z; shrink_limit : Z }.

(* the three integers that drive every branch *)
Record geom := { g_len : Z; g_start : Z; g_end : Z }.

Definition g_init (c : cfg) : geom := {| g_len := init_len c; g_start := 0; g_end := 0 |}.

(* maybeExpandReadBuffer *)
Definition g_expand (g : geom) : geom :=
  if g_len g - g_end g =? 0
  then {| g_len := 2 * g_len g; g_start := 0; g_end := g_end g - g_start g |}
  else g.
Definition g_room (g : geom) : Z := g_len g - g_end g.          (* count passed to read(2) *)
Definition g_read (g : geom) (n : Z) : geom := {| g_len := g_len g; g_start := g_start g; g_end := g_end g + n |}.
Definition g_window (g : geom) : Z := g_end g - g_start g.       (* len(readBuffer[start:end]) *)
(* commitRead(n) *)
Definition g_commit (c : cfg) (g : geom) (k : Z) : geom :=
  let st := g_start g + k in
  if st =? g_end g
  then {| g_len := if g_len g >? shrink_limit c then g_len g / 2 else g_len g; g_start := 0; g_end := 0 |}
  else {| g_len := g_len g; g_start := st; g_end := g_end g |}.

(* the buffer with its bytes; [content] has g_len entries, bytes outside [start,end) are garbage *)
Record rbuf := { geo : geom; content : list Z }.

Definition zeros (n : Z) : list Z := repeat 0 (Z.to_nat n).
Definition slice (l : list Z) (a b : Z) : list Z := firstn (Z.to_nat (b - a)) (skipn (Z.to_nat a) l).

Definition r_init (c : cfg) : rbuf := {| geo := g_init c; content := zeros (init_len c) |}.

Definition r_expand (b : rbuf) : rbuf :=
  let g := geo b in
  if g_len g - g_end g =? 0
  then (* newBuf := make([]byte, 2*len); readEndOff = copy(newBuf, readBuffer[start:end]); readStartOff = 0 *)
    let keep := slice (content b) (g_start g) (g_end g) in
    {| geo := g_expand g; content := keep ++ zeros (2 * g_len g - zlen keep) |}
  else b.

(* the kernel stores [data] at readBuffer[end:] *)
Definition r_read (b : rbuf) (data : list Z) : rbuf :=
  let g := geo b in
  {| geo := g_read g (zlen data);
     content := firstn (Z.to_nat (g_end g)) (content b) ++ data
                ++ skipn (Z.to_nat (g_end g + zlen data)) (content b) |}.

Definition r_window (b : rbuf) : list Z := slice (content b) (g_start (geo b)) (g_end (geo b)).

Definition r_commit (c : cfg) (b : rbuf) (k : Z) : rbuf :=
  let g' := g_commit c (geo b) k in
  {| geo := g'; content := firstn (Z.to_nat (g_len g')) (content b) |}.   (* readBuffer[:len/2] or unchanged *)

(* operations of the environment: the kernel delivers n bytes (1 <= n <= room, after the expansion the code
   performs in front of every read), the callback consumes k bytes of the window it was shown (0 <= k <= window) *)
Inductive rop := RRead (n : Z) | RCommit (k : Z).

Record rstate := { rb : rbuf; received : Z; consumed : Z }.

Definition r_state0 (c : cfg) : rstate := {| rb := r_init c; received := 0; consumed := 0 |}.

(* None: the environment broke its contract (read size outside 1..room or beyond the stream, commit outside 0..window) *)
Definition r_step (c : cfg) (stream : list Z) (s : rstate) (o : rop) : option rstate :=
  match o with
  | RRead n =>
    let b := r_expand (rb s) in
    if (1 <=? n) && (n <=? g_room (geo b)) && (received s + n <=? zlen stream)
    then Some {| rb := r_read b (slice stream (received s) (received s + n));
                 received := received s + n; consumed := consumed s |}
    else None
  | RCommit k =>
    if (0 <=? k) && (k <=? g_window (geo (rb s)))
    then Some {| rb := r_commit c (rb s) k; received := received s; consumed := consumed s + k |}
    else None
  end.

Fixpoint r_run (c : cfg) (stream : list Z) (s : rstate) (ops : list rop) : option rstate :=
  match ops with
  | [] => Some s
  | o :: r => match r_step c stream s o with Some s' => r_run c stream s' r | None => None end
  end.

(* onReadReady: the kernel answers the successive read calls with the sizes [reads] and then EAGAIN; [pol] is what
   the callback consumes of a window of the given size on its i-th invocation.  Produces the operation list the code
   performs and, for the correspondence, the geometry seen at every callback. *)
Record cb_obs := { cb_len : Z; cb_start : Z; cb_window : Z; cb_consumed : Z }.

Fixpoint on_read_ready (c : cfg) (g : geom) (reads : list Z) (pol : list Z) : list rop * list cb_obs * geom * list Z :=
  match reads with
  | [] => (* EAGAIN: the final callback, always *)
    let k := Z.min (hd 0 pol) (g_window g) in
    ([RCommit k], [{| cb_len := g_len g; cb_start := g_start g; cb_window := g_window g; cb_consumed := k |}],
     g_commit c g k, tl pol)
  | n :: r =>
    let g1 := g_read (g_expand g) n in
    if g_window g1 >=? threshold c then
      let k := Z.min (hd 0 pol) (g_window g1) in
      let '(ops, obs, g3, pol') := on_read_ready c (g_commit c g1 k) r (tl pol) in
      (RRead n :: RCommit k :: ops,
       {| cb_len := g_len g1; cb_start := g_start g1; cb_window := g_window g1; cb_consumed := k |} :: obs, g3, pol')
    else
      let '(ops, obs, g3, pol') := on_read_ready c g1 r pol in
      (RRead n :: ops, obs, g3, pol')
  end.

(* ============================================================================================== *)
(* write side: connEventHandler.write                                                              *)
(* ============================================================================================== *)
(* one answer of the kernel to write(fd, &data[written], size-written) *)
Inductive kans := KAccept (k : Z) | KEagain | KFail.

Inductive wresult := WDone | WFailed | WPending.    (* returned nil / returned the error / still inside the loop *)
Record wstate := { written : Z; wire : list Z; wres : wresult }.

(* None: the kernel broke its contract (accepted 0 bytes without EAGAIN, or more than it was offered) *)
Fixpoint write_loop (data : list Z) (w : wstate) (ks : list kans) : option wstate :=
  if written w >=? zlen data then Some {| written := written w; wire := wire w; wres := WDone |}
  else
    match ks with
    | [] => Some w
    | KEagain :: r => write_loop data w r                        (* <-onWriteReadyCh; continue *)
    | KFail :: _ => Some {| written := written w; wire := wire w; wres := WFailed |}
    | KAccept k :: r =>
      if (1 <=? k) && (k <=? zlen data - written w)
      then write_loop data {| written := written w + k;
                              wire := wire w ++ firstn (Z.to_nat k) (skipn (Z.to_nat (written w)) data);
                              wres := WPending |} r
      else None
    end.
Definition write (data : list Z) (ks : list kans) : option wstate :=
  write_loop data {| written := 0; wire := []; wres := WPending |} ks.

(* ---------------------------------------------------------------------------------------------- *)
(* doWritev: iovec bookkeeping over several slices (at most [maxiov] = len(c.ioves) per call)      *)
(* ---------------------------------------------------------------------------------------------- *)
(* iovec i = (start offset inside data[i], remaining length); entries before writtenVec are finished *)
Record vstate := { iov : list (Z * Z); wvec : nat; need : nat; vwire : list Z }.

Definition v_init (data : list (list Z)) (maxiov : nat) : option vstate :=
  let sub := firstn maxiov data in
  if existsb (fun d => zlen d =? 0) sub then None      (* &data[i][0] on an empty slice: index out of range *)
  else Some {| iov := map (fun d => (0, zlen d)) sub; wvec := 0; need := length sub; vwire := [] |}.

(* the acknowledgement loop after the kernel accepted n bytes *)
Fixpoint v_ack (fuel : nat) (v : vstate) (n : Z) : vstate :=
  match fuel with
  | O => v
  | S f =>
    if n <=? 0 then v
    else match nth_error (iov v) (wvec v) with
         | None => v
         | Some (off, len) =>
           if n >=? len
           then v_ack f {| iov := iov v; wvec := S (wvec v); need := pred (need v); vwire := vwire v |} (n - len)
           else {| iov := firstn (wvec v) (iov v) ++ (off + n, len - n) :: skipn (S (wvec v)) (iov v);
                   wvec := wvec v; need := need v; vwire := vwire v |}
         end
  end.

(* the bytes the kernel takes when it accepts n bytes of iov[wvec ..] *)
Fixpoint v_take (data : list (list Z)) (iovs : list (Z * Z)) (i : nat) (n : Z) : list Z :=
  match iovs with
  | [] => []
  | (off, len) :: r =>
    if n <=? 0 then []
    else let k := Z.min n len in
         firstn (Z.to_nat k) (skipn (Z.to_nat off) (nth i data [])) ++ v_take data r (S i) (n - k)
  end.
Definition v_pending (v : vstate) : Z := fold_right (fun p acc => snd p + acc) 0 (skipn (wvec v) (iov v)).

Fixpoint v_loop (data : list (list Z)) (v : vstate) (ks : list kans) : option (vstate * wresult) :=
  if (need v =? 0)%nat then Some (v, WDone)
  else match ks with
       | [] => Some (v, WPending)
       | KEagain :: r => v_loop data v r
       | KFail :: _ => Some (v, WFailed)
       | KAccept n :: r =>
         if (1 <=? n) && (n <=? v_pending v)
         then let taken := v_take data (skipn (wvec v) (iov v)) (wvec v) n in
              let v' := v_ack (S (length (iov v))) v n in
              v_loop data {| iov := iov v'; wvec := wvec v'; need := need v'; vwire := vwire v ++ taken |} r
         else None
       end.

(* ============================================================================================== *)
(* the `writing` flag: who may be inside writeEventData                                            *)
(* ============================================================================================== *)
(* An event is identified by (writer, sequence number); it is put on the wire in [nfrag ev] pieces (the partial
   writes of connEventHandler.write; the send loop's header and body count as pieces of one event). *)
Definition evid := (nat * nat)%type.
Definition frag := (evid * nat)%type.

Inductive fpc :=
| FIdle                          (* about to CAS writing 0 -> 1 (wakeUpPeer / hotRestart) *)
| FInCS (ev : evid) (k : nat)    (* inside writeEventData, k pieces written *)
| FNotify.                       (* stored writing = 0, about to asyncNotify(notifyContinueWriteCh) *)
Record fw := { f_pc : fpc; f_seq : nat }.

Inductive spc :=
| SIdle                          (* select on sendCh *)
| SCas (ev : evid)               (* for !CAS(writing,0,1) *)
| SWait (ev : evid)              (* <-notifyContinueWriteCh *)
| SInCS (ev : evid) (k : nat).   (* writeEventData(hdr); writeEventData(body) *)

Inductive tid := TSend | TFast (i : nat).

Record mstate := {
  writing : bool;
  token : bool;                  (* notifyContinueWriteCh holds a value (capacity 1) *)
  sendq : list evid;             (* sendCh *)
  sl : spc;
  fws : list fw;
  mwire : list frag;
  owner : option tid }.          (* ghost: who set writing *)

Definition m_init (nfw : nat) : mstate :=
  {| writing := false; token := false; sendq := []; sl := SIdle;
     fws := repeat {| f_pc := FIdle; f_seq := 0 |} nfw; mwire := []; owner := None |}.

Fixpoint upd {A} (l : list A) (i : nat) (x : A) : list A :=
  match l, i with
  | [], _ => []
  | _ :: r, O => x :: r
  | y :: r, S j => y :: upd r j x
  end.

Definition step_fw (nfrag : evid -> nat) (i : nat) (s : mstate) : mstate :=
  match nth_error (fws s) i with
  | None => s
  | Some w =>
    match f_pc w with
    | FIdle =>
      if writing s
      then (* slow path: s.sendCh <- sendReady{...} *)
        {| writing := writing s; token := token s; sendq := sendq s ++ [(i, f_seq w)]; sl := sl s;
           fws := upd (fws s) i {| f_pc := FIdle; f_seq := S (f_seq w) |}; mwire := mwire s; owner := owner s |}
      else (* fast path: CAS succeeded *)
        {| writing := true; token := token s; sendq := sendq s; sl := sl s;
           fws := upd (fws s) i {| f_pc := FInCS (i, f_seq w) 0; f_seq := f_seq w |}; mwire := mwire s;
           owner := Some (TFast i) |}
    | FInCS ev k =>
      if (k <? nfrag ev)%nat
      then {| writing := writing s; token := token s; sendq := sendq s; sl := sl s;
              fws := upd (fws s) i {| f_pc := FInCS ev (S k); f_seq := f_seq w |}; mwire := mwire s ++ [(ev, k)];
              owner := owner s |}
      else (* atomic.StoreUint32(&s.writing, 0) *)
        {| writing := false; token := token s; sendq := sendq s; sl := sl s;
           fws := upd (fws s) i {| f_pc := FNotify; f_seq := S (f_seq w) |}; mwire := mwire s; owner := None |}
    | FNotify =>
      {| writing := writing s; token := true; sendq := sendq s; sl := sl s;
         fws := upd (fws s) i {| f_pc := FIdle; f_seq := f_seq w |}; mwire := mwire s; owner := owner s |}
    end
  end.

Definition step_sl (nfrag : evid -> nat) (s : mstate) : mstate :=
  match sl s with
  | SIdle =>
    match sendq s with
    | [] => s
    | ev :: r => {| writing := writing s; token := token s; sendq := r; sl := SCas ev; fws := fws s;
                    mwire := mwire s; owner := owner s |}
    end
  | SCas ev =>
    if writing s
    then {| writing := writing s; token := token s; sendq := sendq s; sl := SWait ev; fws := fws s;
            mwire := mwire s; owner := owner s |}
    else {| writing := true; token := token s; sendq := sendq s; sl := SInCS ev 0; fws := fws s;
            mwire := mwire s; owner := Some TSend |}
  | SWait ev =>
    if token s
    then {| writing := writing s; token := false; sendq := sendq s; sl := SCas ev; fws := fws s;
            mwire := mwire s; owner := owner s |}
    else s                                                     (* blocked on the channel *)
  | SInCS ev k =>
    if (k <? nfrag ev)%nat
    then {| writing := writing s; token := token s; sendq := sendq s; sl := SInCS ev (S k); fws := fws s;
            mwire := mwire s ++ [(ev, k)]; owner := owner s |}
    else {| writing := false; token := token s; sendq := sendq s; sl := SIdle; fws := fws s;
            mwire := mwire s; owner := None |}
  end.

Definition m_step (nfrag : evid -> nat) (s : mstate) (t : tid) : mstate :=
  match t with TSend => step_sl nfrag s | TFast i => step_fw nfrag i s end.

Definition m_run (nfrag : evid -> nat) (sched : list tid) (s : mstate) : mstate :=
  fold_left (m_step nfrag) sched s.

Definition fw_in_cs (w : fw) : bool := match f_pc w with FInCS _ _ => true | _ => false end.
Definition sl_in_cs (p : spc) : bool := match p with SInCS _ _ => true | _ => false end.

(* all pieces of one event, in order *)
Definition block (ev : evid) (n : nat) : list frag := map (fun k => (ev, k)) (seq 0 n).

(* ============================================================================================== *)
(* the write-ready wake-up: connEventHandler.handleEvent, onWriteReady, the writer parked on       *)
(* onWriteReadyCh after EAGAIN                                                                      *)
(* ============================================================================================== *)
(* one event reported by epoll_wait for the connection's fd: any combination of the three bits the fd is
   registered for (edge-triggered: this may be the only report of that readiness change) *)
Record epev := { ev_rdhup : bool; ev_in : bool; ev_out : bool }.

Inductive hcall := CRemoteClose | CReadReady | CWriteReady.

(* handleEvent: EPOLLRDHUP -> onRemoteClose and nothing else; otherwise EVERY bit of the event is processed:
   EPOLLIN -> onReadReady, then EPOLLOUT -> onWriteReady (three independent tests, not alternatives) *)
Definition handle_event (e : epev) : list hcall :=
  if ev_rdhup e then [CRemoteClose]
  else (if ev_in e then [CReadReady] else []) ++ (if ev_out e then [CWriteReady] else []).

(* the writer side: write()/doWritev() got EAGAIN and executes <-c.onWriteReadyCh *)
Record wake := {
  wparked : bool;       (* a writer is blocked in the channel receive *)
  wtoken : bool;        (* onWriteReadyCh (capacity 1) holds a value *)
  wclosed : bool }.     (* isClose = 1 and the channel is closed (a receive returns at once) *)

(* the writer reaches `<-c.onWriteReadyCh` *)
Definition wake_wait (w : wake) : wake :=
  if wclosed w then w
  else if wtoken w then {| wparked := false; wtoken := false; wclosed := false |}
  else {| wparked := true; wtoken := false; wclosed := false |}.

Definition wake_call (w : wake) (c : hcall) : wake :=
  match c with
  | CReadReady => w                                   (* onReadReady does not touch the write side *)
  | CWriteReady =>                                    (* onWriteReady: if isClose == 0 { asyncNotify(onWriteReadyCh) } *)
    if wclosed w then w
    else if wparked w then {| wparked := false; wtoken := false; wclosed := false |}   (* handed to the waiting writer *)
    else {| wparked := false; wtoken := true; wclosed := false |}                     (* buffered (or already there) *)
  | CRemoteClose =>                                   (* onRemoteClose -> deferredClose: isClose = 1; close(onWriteReadyCh) *)
    {| wparked := false; wtoken := wtoken w; wclosed := true |}
  end.

Definition wake_event (w : wake) (e : epev) : wake := fold_left wake_call (handle_event e) w.

(* can the writer go on (it is not blocked in the receive)? *)
Definition runnable (w : wake) : bool := negb (wparked w).
