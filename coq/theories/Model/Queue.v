(* Model of queue.go: put (under the process-local mutex) and pop, one shared-memory access per step.
   NO PROOFS in this file (it must still run when a proof breaks).

   Granularity = the instrumented implementation (go/verisched): every atomic operation, every plain
   load/store of a slot field and every Lock/Unlock is one step.

     put : Lock; R tail; R head; [full: Unlock -> ErrQueueFull]; W f1; W f2; W f3; FAA tail; Unlock
     pop : R head; R tail; [empty -> errQueueEmpty]; R f1; R f2; R f3; FAA head                      *)
From Coq Require Import List ZArith Lia Bool Arith.
From Shm Require Import Gen.Consts.
Import ListNotations.
Open Scope Z_scope.

Record elem := { f1 : Z; f2 : Z; f3 : Z }.
Definition e0 := {| f1 := 0; f2 := 0; f3 := 0 |}.

Inductive ppc :=
| PIdle | PLocked | PTail (t : Z) | PFull | PChk (t : Z) | PW1 (t : Z) | PW2 (t : Z) | PW3 (t : Z) | PInc.

(* hist is ghost: the finished operations of this producer with their results *)
Record plocal := { pc : ppc; todo : list elem; hist : list (elem * bool) }.

Inductive cpc :=
| CIdle | CHead (h : Z) | CGo (h : Z) | CR1 (h a : Z) | CR2 (h a b : Z) | CR3 (h a b c : Z).

Record st := {
  cap : Z; head : Z; tail : Z; slots : Z -> elem; lock : option nat;
  prods : list plocal; cpc_ : cpc; ctodo : nat; out : list (option elem);
  log : list (nat * elem) (* ghost: (producer, element) in the order of the tail increments *) }.

Definition upd (f : Z -> elem) (k : Z) (v : elem) : Z -> elem :=
  fun i => if i =? k then v else f i.

Fixpoint set_nth {A} (n : nat) (x : A) (l : list A) : list A :=
  match l, n with
  | [], _ => []
  | _ :: t, O => x :: t
  | h :: t, S n => h :: set_nth n x t
  end.

Definition setp (s : st) (i : nat) (p : plocal) (f : st -> st) : st :=
  let s' := f s in
  {| cap := cap s'; head := head s'; tail := tail s'; slots := slots s'; lock := lock s';
     prods := set_nth i p (prods s'); cpc_ := cpc_ s'; ctodo := ctodo s'; out := out s'; log := log s' |}.

Definition with_lock (l : option nat) (s : st) : st :=
  {| cap := cap s; head := head s; tail := tail s; slots := slots s; lock := l;
     prods := prods s; cpc_ := cpc_ s; ctodo := ctodo s; out := out s; log := log s |}.
Definition with_slot (k : Z) (v : elem) (s : st) : st :=
  {| cap := cap s; head := head s; tail := tail s; slots := upd (slots s) k v; lock := lock s;
     prods := prods s; cpc_ := cpc_ s; ctodo := ctodo s; out := out s; log := log s |}.
Definition with_tail_inc (i : nat) (e : elem) (s : st) : st :=
  {| cap := cap s; head := head s; tail := tail s + 1; slots := slots s; lock := lock s;
     prods := prods s; cpc_ := cpc_ s; ctodo := ctodo s; out := out s; log := log s ++ [(i, e)] |}.

Definition cur (p : plocal) : elem := hd e0 (todo p).

Definition mkp (c : ppc) (p : plocal) : plocal := {| pc := c; todo := todo p; hist := hist p |}.
Definition fin (r : bool) (p : plocal) : plocal :=
  {| pc := PIdle; todo := tl (todo p); hist := hist p ++ [(cur p, r)] |}.

(* one step of producer i; a step that cannot move (lock busy, nothing to do) is a no-op *)
Definition pstep (i : nat) (s : st) : st :=
  match nth_error (prods s) i with
  | None => s
  | Some p =>
    let k t := t mod cap s in
    match pc p with
    | PIdle => match todo p with
               | [] => s
               | _ => match lock s with
                      | None => setp s i (mkp PLocked p) (with_lock (Some i))
                      | Some _ => s
                      end
               end
    | PLocked => setp s i (mkp (PTail (tail s)) p) id
    | PTail t => if t - head s >=? cap s
                 then setp s i (mkp PFull p) id
                 else setp s i (mkp (PChk t) p) id
    | PFull => setp s i (fin false p) (with_lock None)
    | PChk t => let o := slots s (k t) in
                setp s i (mkp (PW1 t) p) (with_slot (k t) {| f1 := f1 (cur p); f2 := f2 o; f3 := f3 o |})
    | PW1 t => let o := slots s (k t) in
                setp s i (mkp (PW2 t) p) (with_slot (k t) {| f1 := f1 o; f2 := f2 (cur p); f3 := f3 o |})
    | PW2 t => let o := slots s (k t) in
                setp s i (mkp (PW3 t) p) (with_slot (k t) {| f1 := f1 o; f2 := f2 o; f3 := f3 (cur p) |})
    | PW3 t => setp s i (mkp PInc p) (with_tail_inc i (cur p))
    | PInc => setp s i (fin true p) (with_lock None)
    end
  end.

Definition with_c (c : cpc) (s : st) : st :=
  {| cap := cap s; head := head s; tail := tail s; slots := slots s; lock := lock s;
     prods := prods s; cpc_ := c; ctodo := ctodo s; out := out s; log := log s |}.
Definition with_out (o : option elem) (hinc : Z) (s : st) : st :=
  {| cap := cap s; head := head s + hinc; tail := tail s; slots := slots s; lock := lock s;
     prods := prods s; cpc_ := CIdle; ctodo := pred (ctodo s); out := out s ++ [o]; log := log s |}.

(* the single consumer performs ctodo pops *)
Definition cstep (s : st) : st :=
  match cpc_ s with
  | CIdle => match ctodo s with O => s | S _ => with_c (CHead (head s)) s end
  | CHead h => if h >=? tail s then with_out None 0 s else with_c (CGo h) s
  | CGo h => with_c (CR1 h (f1 (slots s (h mod cap s)))) s
  | CR1 h a => with_c (CR2 h a (f2 (slots s (h mod cap s)))) s
  | CR2 h a b => with_c (CR3 h a b (f3 (slots s (h mod cap s)))) s
  | CR3 h a b c => with_out (Some {| f1 := a; f2 := b; f3 := c |}) 1 s
  end.

Definition step (s : st) (who : option nat) : st :=
  match who with Some i => pstep i s | None => cstep s end.

Definition init (c : Z) (progs : list (list elem)) (npop : nat) : st :=
  {| cap := c; head := 0; tail := 0; slots := fun _ => e0; lock := None;
     prods := map (fun t => {| pc := PIdle; todo := t; hist := [] |}) progs;
     cpc_ := CIdle; ctodo := npop; out := []; log := [] |}.

Definition run (sched : list (option nat)) (s : st) : st := fold_left step sched s.

(* ---------- events (used only by the correspondence check; no theorem depends on them) ---------- *)
Record event := { ek : Z; ecell : Z; ea : Z; eb : Z; ec : Z }.
Definition ev k c a b d := Some {| ek := k; ecell := c; ea := a; eb := b; ec := d |}.
Definition kR := 0. Definition kW := 1. Definition kFAA := 2. Definition kCAS := 3.
Definition kLock := 4. Definition kBusy := 5. Definition kUnlock := 6.
Definition mutex_cell := -2.

Definition slot_cell (s : st) (t : Z) (fld : Z) : Z :=
  c_queueHeaderLength + (t mod cap s) * c_queueElementLen + 4 * fld.

Definition pev (i : nat) (s : st) : option event :=
  match nth_error (prods s) i with
  | None => None
  | Some p =>
    match pc p with
    | PIdle => match todo p with
               | [] => None
               | _ => match lock s with
                      | None => ev kLock mutex_cell 0 0 0
                      | Some _ => ev kBusy mutex_cell 0 0 0
                      end
               end
    | PLocked => ev kR off_map_queue_tail (tail s) 0 0
    | PTail _ => ev kR off_map_queue_head (head s) 0 0
    | PFull => ev kUnlock mutex_cell 0 0 0
    | PChk t => ev kW (slot_cell s t 0) (f1 (cur p)) 0 0
    | PW1 t => ev kW (slot_cell s t 1) (f2 (cur p)) 0 0
    | PW2 t => ev kW (slot_cell s t 2) (f3 (cur p)) 0 0
    | PW3 _ => ev kFAA off_map_queue_tail 1 (tail s + 1) 0
    | PInc => ev kUnlock mutex_cell 0 0 0
    end
  end.

Definition cev (s : st) : option event :=
  match cpc_ s with
  | CIdle => match ctodo s with O => None | S _ => ev kR off_map_queue_head (head s) 0 0 end
  | CHead _ => ev kR off_map_queue_tail (tail s) 0 0
  | CGo h => ev kR (slot_cell s h 0) (f1 (slots s (h mod cap s))) 0 0
  | CR1 h _ => ev kR (slot_cell s h 1) (f2 (slots s (h mod cap s))) 0 0
  | CR2 h _ _ => ev kR (slot_cell s h 2) (f3 (slots s (h mod cap s))) 0 0
  | CR3 _ _ _ _ => ev kFAA off_map_queue_head 1 (head s + 1) 0
  end.

Definition step_ev (s : st) (who : option nat) : option event :=
  match who with Some i => pev i s | None => cev s end.

Fixpoint trace (sched : list (option nat)) (s : st) : list (option event) :=
  match sched with
  | [] => []
  | w :: r => step_ev s w :: trace r (step s w)
  end.

Definition results (p : plocal) : list bool := map snd (hist p).
