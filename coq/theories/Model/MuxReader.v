(* Model of the synchronous reader of ONE stream waiting for data (C07, end-of-stream clause in sync mode; no
   proofs here).  stream.go readMore(minSize), one step per line:

     RTop    s.pendingData.moveTo(s.recvBuf)
     RLen    recvLen := s.recvBuf.Len();  recvLen >= minSize -> return nil
     RChk    recvLen == 0 && !s.IsOpen()   -> return ErrEndOfStream
             [or, second switch: -> REntry moveTo; REntryL Len >= minSize -> nil, Len == 0 -> ErrEndOfStream, else wait]
     RSel    select { <-recvNotifyCh | <-closeNotifyCh | <-timeoutCh }   (Go picks ANY ready case)
     RRecv   moveTo; Len >= minSize -> return nil; else select again
     RClose  [moveTo]  (the switch: does the closeNotifyCh branch move pending data before its length test?)
     RCloseL Len >= minSize -> return nil; else ErrEndOfStream (half closed) / ErrStreamClosed
   The dispatcher (event loop) of the receiving session, concurrently:
     EData k      handleStreamMessage: pendingData.add; asyncNotify(recvNotifyCh)         (capacity 1)
     ECloseState  halfClose: CAS state opened -> halfClosed
     ECloseChan   halfClose: close(closeNotifyCh)
     ETimeout     the read deadline fires
   The dispatcher hands a stream its data before its close (C07_order), so EData after ECloseState does not occur
   (it is a no-op of the model). *)
From Coq Require Import List Bool Arith.
From Shm Require Import Gen.SwitchC07.
Import ListNotations.

Inductive rres := ROk | REos | RClosedErr | RTimeout.
Inductive rpc := RTop | RLen | RChk (l : nat) | REntry | REntryL | RSel | RRecv | RClose | RCloseL | RDone (r : rres).
Inductive rbranch := BRecv | BClose | BTmo.
Inductive ract := AData (k : nat) | ACloseState | ACloseChan | ATimeout | AStep | APick (b : rbranch).

Record rst := {
  rpend : nat; rbuf : nat;            (* bytes in pendingData / in recvBuf *)
  rtok : bool; rcls : bool; rtmo : bool;   (* recvNotifyCh holds a token; closeNotifyCh is closed; the timer fired *)
  ropen : bool;                       (* state = streamOpened *)
  rmin : nat; rp : rpc;
  rsel : bool }.                      (* ghost: the result was produced by the closeNotifyCh branch *)

Definition rmk pe bu tk cl tm op mi p se : rst :=
  {| rpend := pe; rbuf := bu; rtok := tk; rcls := cl; rtmo := tm; ropen := op; rmin := mi; rp := p; rsel := se |}.
Definition rset_p (p : rpc) (s : rst) := rmk (rpend s) (rbuf s) (rtok s) (rcls s) (rtmo s) (ropen s) (rmin s) p (rsel s).
Definition rmove (p : rpc) (s : rst) := rmk 0 (rbuf s + rpend s) (rtok s) (rcls s) (rtmo s) (ropen s) (rmin s) p (rsel s).

Definition rstep (close_moves entry_moves : bool) (s : rst) (a : ract) : rst :=
  match a with
  | AData k => if ropen s then rmk (rpend s + k) (rbuf s) true (rcls s) (rtmo s) (ropen s) (rmin s) (rp s) (rsel s) else s
  | ACloseState => rmk (rpend s) (rbuf s) (rtok s) (rcls s) (rtmo s) false (rmin s) (rp s) (rsel s)
  | ACloseChan => if ropen s then s   (* halfClose closes the channel only after its CAS *)
                  else rmk (rpend s) (rbuf s) (rtok s) true (rtmo s) (ropen s) (rmin s) (rp s) (rsel s)
  | ATimeout => rmk (rpend s) (rbuf s) (rtok s) (rcls s) true (ropen s) (rmin s) (rp s) (rsel s)
  | AStep =>
    match rp s with
    | RTop => rmove RLen s
    | RLen => if rmin s <=? rbuf s then rset_p (RDone ROk) s else rset_p (RChk (rbuf s)) s
    | RChk l => if Nat.eqb l 0 && negb (ropen s)
                then (if entry_moves then rset_p REntry s else rset_p (RDone REos) s)
                else rset_p RSel s
    | REntry => rmove REntryL s
    | REntryL => if rmin s <=? rbuf s then rset_p (RDone ROk) s
                 else if Nat.eqb (rbuf s) 0 then rset_p (RDone REos) s else rset_p RSel s
    | RRecv => let s1 := rmove RSel s in if rmin s1 <=? rbuf s1 then rset_p (RDone ROk) s1 else s1
    | RClose => if close_moves then rmove RCloseL s else rset_p RCloseL s
    | RCloseL => if rmin s <=? rbuf s then rset_p (RDone ROk) s
                 else rmk (rpend s) (rbuf s) (rtok s) (rcls s) (rtmo s) (ropen s) (rmin s) (RDone REos) true
    | RSel | RDone _ => s
    end
  | APick b =>
    match rp s, b with
    | RSel, BRecv => if rtok s then rmk (rpend s) (rbuf s) false (rcls s) (rtmo s) (ropen s) (rmin s) RRecv (rsel s) else s
    | RSel, BClose => if rcls s then rset_p RClose s else s
    | RSel, BTmo => if rtmo s then rset_p (RDone RTimeout) s else s
    | _, _ => s
    end
  end.

Definition rinit (min : nat) : rst := rmk 0 0 false false false true min RTop false.
Definition rrun_g (close_moves entry_moves : bool) (l : list ract) (min : nat) : rst :=
  fold_left (rstep close_moves entry_moves) l (rinit min).
(* the code that exists *)
Definition rrun := rrun_g sw_close_branch_moves sw_entry_rechecks.

Definition told_eos (s : rst) : bool := match rp s with RDone REos => true | _ => false end.
(* the reader is told the stream ended only when nothing that arrived before the close is left un-offered
   (stuck in pendingData) *)
Definition eos_ok (s : rst) : bool := if told_eos s then Nat.eqb (rpend s) 0 else true.
