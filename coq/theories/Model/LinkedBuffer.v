(* Model of the byte pipe of one stream direction: buffer.go (linkedBuffer), buffer_slice.go
   (bufferSlice, sliceList), buffer_manager.go (allocShmBuffer(s), recycleBuffer, readBufferSlice,
   bufferList.pop/push run sequentially), stream.go (Flush without the queue, pendingData.moveTo,
   readMore without the waiting) and handleFallbackData's construction of the heap slice.
   NO PROOFS in this file (it must still run when a proof breaks).

   Conventions
   * a slot of the shared memory is named by its index in [slots] (never by an address); per size
     class the free slots are a FIFO (pop at the head, push at the tail, "never the last slot");
   * a shm slice does not carry its bytes: they live in the store ([st_data] of its slot), so that
     aliasing (a zero-copy read result, a re-allocated slot) is visible; heap slices carry [heap];
   * every operation returns an [outcome]; nil dereference = Panic 1 (front) / 2 (write slice),
     index or slice bounds = Panic 3, dangling write pointer = Panic 5; a read that would have to
     wait = Blocked; an exhausted loop fuel = Err 99 (excluded by the theorems);
   * sizes are [nat]: NEGATIVE sizes are outside the model (Discard/Reserve of a negative int move
     the indices backwards in the Go code; recorded as an assumption of C06);
   * uint32 truncation of sizes (alloc(uint32(..))) is not modelled: sizes < 2^31. *)
From Coq Require Import List ZArith Lia Bool Arith.
From Shm Require Import Gen.Consts.
Import ListNotations.

Close Scope Z_scope.
Open Scope nat_scope.

Definition byte := Z.

Inductive outcome (A : Type) := Ok (a : A) | Err (e : Z) | Panic (why : Z) | Blocked.
Arguments Ok {A}. Arguments Err {A}. Arguments Panic {A}. Arguments Blocked {A}.

Definition bind {A B} (o : outcome A) (f : A -> outcome B) : outcome B :=
  match o with Ok a => f a | Err e => Err e | Panic w => Panic w | Blocked => Blocked end.
Notation "'do' x <- o ; k" := (bind o (fun x => k)) (at level 200, x pattern, o at level 100, k at level 200).

Definition heapMin : nat := Z.to_nat c_defaultSingleBufferSize.

(* ------------------------------------------------------------------------------------------ *)
(* shared memory: slots (header + data) and the per-class free FIFOs                           *)
(* ------------------------------------------------------------------------------------------ *)
Record slot := { st_cap : nat; st_data : list byte;
                 st_size : nat; st_start : nat; st_next : nat; st_hasnext : bool }.
Record shm := { cls : list nat (* capPerBuffer per class, ascending *);
                free : list (list nat) (* per class, FIFO of free slot ids *);
                slots : list slot }.

Fixpoint upd_nth {A} (n : nat) (f : A -> A) (l : list A) : list A :=
  match l, n with
  | [], _ => []
  | x :: t, O => f x :: t
  | x :: t, S n' => x :: upd_nth n' f t
  end.

Definition with_free (m : shm) (f : list (list nat)) : shm := {| cls := cls m; free := f; slots := slots m |}.
Definition with_slots (m : shm) (s : list slot) : shm := {| cls := cls m; free := free m; slots := s |}.
Definition upd_slot (m : shm) (o : nat) (f : slot -> slot) : shm := with_slots m (upd_nth o f (slots m)).

(* write bs into d at position p (copy never grows d) *)
Definition overwrite (d : list byte) (p : nat) (bs : list byte) : list byte :=
  firstn p d ++ firstn (length d - p) bs ++ skipn (p + length bs) d.

Definition hdr_reset (t : slot) : slot :=
  {| st_cap := st_cap t; st_data := st_data t; st_size := 0; st_start := 0; st_next := st_next t; st_hasnext := false |}.
Definition hdr_clearflag (t : slot) : slot :=
  {| st_cap := st_cap t; st_data := st_data t; st_size := st_size t; st_start := st_start t; st_next := st_next t; st_hasnext := false |}.
Definition hdr_link (nx : nat) (t : slot) : slot :=
  {| st_cap := st_cap t; st_data := st_data t; st_size := st_size t; st_start := st_start t; st_next := nx; st_hasnext := true |}.
Definition hdr_stamp (sz stt : nat) (t : slot) : slot :=
  {| st_cap := st_cap t; st_data := st_data t; st_size := sz; st_start := stt; st_next := st_next t; st_hasnext := st_hasnext t |}.
Definition slot_write (p : nat) (bs : list byte) (t : slot) : slot :=
  {| st_cap := st_cap t; st_data := overwrite (st_data t) p bs; st_size := st_size t; st_start := st_start t;
     st_next := st_next t; st_hasnext := st_hasnext t |}.

(* ------------------------------------------------------------------------------------------ *)
(* slices                                                                                      *)
(* ------------------------------------------------------------------------------------------ *)
Record slice := { shmf : bool; off : nat; cap : nat; start : nat; rd : nat; wr : nat; heap : list byte }.

Definition sdata (m : shm) (s : slice) : list byte :=
  if shmf s then match nth_error (slots m) (off s) with Some t => st_data t | None => [] end else heap s.
Definition ssize (s : slice) : nat := wr s - rd s.
Definition body (m : shm) (s : slice) : list byte := firstn (ssize s) (skipn (rd s) (sdata m s)).

Definition adv (k : nat) (s : slice) : slice :=   (* readIndex += k *)
  {| shmf := shmf s; off := off s; cap := cap s; start := start s; rd := rd s + k; wr := wr s; heap := heap s |}.
Definition advw (k : nat) (s : slice) : slice :=  (* writeIndex += k *)
  {| shmf := shmf s; off := off s; cap := cap s; start := start s; rd := rd s; wr := wr s + k; heap := heap s |}.
Definition with_heap (h : list byte) (s : slice) : slice :=
  {| shmf := shmf s; off := off s; cap := cap s; start := start s; rd := rd s; wr := wr s; heap := h |}.
Definition sreset (s : slice) : slice :=
  {| shmf := shmf s; off := off s; cap := cap s; start := start s; rd := 0; wr := 0; heap := heap s |}.

Definition heap_slice (n : nat) : slice :=   (* newBufferSlice(nil, make([]byte, n), 0, false) *)
  {| shmf := false; off := 0; cap := n; start := 0; rd := 0; wr := 0; heap := repeat 0%Z n |}.
Definition fallback_slice (d : list byte) : slice := (* handleFallbackData *)
  {| shmf := false; off := 0; cap := length d; start := 0; rd := 0; wr := length d; heap := d |}.

(* newBufferSlice(header, data, off, true): cap/start/size are read from the header *)
Definition slice_of_slot (o : nat) (t : slot) : slice :=
  {| shmf := true; off := o; cap := st_cap t; start := st_start t; rd := st_start t;
     wr := st_start t + st_size t; heap := [] |}.

(* bufferSlice.read(k) on data d: the bytes data[rd : rd+min(k,size)], short? ; Panic 3 on bounds *)
Definition sl_take (m : shm) (k : nat) (s : slice) : outcome (list byte * nat) :=
  let n := Nat.min k (ssize s) in
  if rd s + n <=? length (sdata m s) then Ok (firstn n (skipn (rd s) (sdata m s)), n) else Panic 3.

(* ------------------------------------------------------------------------------------------ *)
(* allocator (sequential behaviour of bufferList.pop / push and of the bufferManager policy)   *)
(* ------------------------------------------------------------------------------------------ *)
(* pop of class i: fails when fewer than two slots are free; clears the flag of the popped header *)
Definition pop_class (m : shm) (i : nat) : option (slice * shm) :=
  match nth_error (free m) i with
  | Some (a :: b :: r) =>
      match nth_error (slots m) a with
      | Some t =>
          let m1 := upd_slot (with_free m (upd_nth i (fun _ => b :: r) (free m))) a hdr_clearflag in
          Some (slice_of_slot a t, m1)
      | None => None
      end
  | _ => None
  end.

Fixpoint find_class (c : nat) (cs : list nat) (i : nat) : option nat :=
  match cs with
  | [] => None
  | x :: r => if x =? c then Some i else find_class c r (S i)
  end.

(* recycleBuffer: reset the header, push at the tail of the first class whose capPerBuffer = cap *)
Definition recycle (m : shm) (s : slice) : shm :=
  if shmf s then
    match find_class (cap s) (cls m) 0 with
    | Some i => upd_slot (with_free m (upd_nth i (fun f => f ++ [off s]) (free m))) (off s) hdr_reset
    | None => m
    end
  else m.
Definition recycle_all (m : shm) (ss : list slice) : shm := fold_left recycle ss m.

(* allocShmBuffer: first class (ascending) with size <= cap whose pop succeeds *)
Fixpoint alloc_first (m : shm) (size : nat) (cs : list nat) (i : nat) : option (slice * shm) :=
  match cs with
  | [] => None
  | c :: r =>
      if size <=? c then
        match pop_class m i with
        | Some x => Some x
        | None => alloc_first m size r (S i)
        end
      else alloc_first m size r (S i)
  end.
Definition allocShmBuffer (m : shm) (size : nat) : option (slice * shm) :=
  if size <=? last (cls m) 0 then alloc_first m size (cls m) 0 else None.

(* allocShmBuffers: from the largest class downwards, pop while remain > 0 *)
Fixpoint pop_while (fuel : nat) (m : shm) (i : nat) (remain : Z) (acc : list slice) : shm * Z * list slice :=
  match fuel with
  | O => (m, remain, acc)
  | S f =>
      if (remain >? 0)%Z then
        match pop_class m i with
        | Some (s, m1) => pop_while f m1 i (remain - Z.of_nat (cap s))%Z (acc ++ [s])
        | None => (m, remain, acc)
        end
      else (m, remain, acc)
  end.
Fixpoint alloc_many (m : shm) (i : nat) (remain : Z) (acc : list slice) : shm * Z * list slice :=
  (* classes i-1, i-2, ..., 0 *)
  match i with
  | O => (m, remain, acc)
  | S j =>
      let '(m1, r1, acc1) := pop_while (length (nth j (free m) [])) m j remain acc in
      alloc_many m1 j r1 acc1
  end.

(* ------------------------------------------------------------------------------------------ *)
(* linkedBuffer                                                                                *)
(* ------------------------------------------------------------------------------------------ *)
Inductive wptr := WNil | WAt (n : nat) | WGone.   (* writeSlice: nil / n-th slice of the list / popped *)

Record lease := { l_shm : bool; l_off : nat; l_lo : nat; l_hi : nat; l_bytes : list byte }.

Record lbuf := { slices : list slice; wpos : wptr; len : Z; pinned : list slice; curp : bool;
                 fromshm : bool;
                 recycled : list slice (* ghost: slices handed to recycleBuffer by a reader op, in order *);
                 leases : list lease   (* ghost: zero-copy results not yet released *) }.

Definition empty_buf : lbuf :=
  {| slices := []; wpos := WNil; len := 0%Z; pinned := []; curp := false; fromshm := true;
     recycled := []; leases := [] |}.

Definition set_slices (l : lbuf) (ss : list slice) : lbuf :=
  {| slices := ss; wpos := wpos l; len := len l; pinned := pinned l; curp := curp l; fromshm := fromshm l;
     recycled := recycled l; leases := leases l |}.
Definition set_wpos (l : lbuf) (w : wptr) : lbuf :=
  {| slices := slices l; wpos := w; len := len l; pinned := pinned l; curp := curp l; fromshm := fromshm l;
     recycled := recycled l; leases := leases l |}.
Definition set_len (l : lbuf) (n : Z) : lbuf :=
  {| slices := slices l; wpos := wpos l; len := n; pinned := pinned l; curp := curp l; fromshm := fromshm l;
     recycled := recycled l; leases := leases l |}.
Definition set_curp (l : lbuf) (c : bool) : lbuf :=
  {| slices := slices l; wpos := wpos l; len := len l; pinned := pinned l; curp := c; fromshm := fromshm l;
     recycled := recycled l; leases := leases l |}.
Definition set_fromshm (l : lbuf) (c : bool) : lbuf :=
  {| slices := slices l; wpos := wpos l; len := len l; pinned := pinned l; curp := curp l; fromshm := c;
     recycled := recycled l; leases := leases l |}.
Definition set_pinned (l : lbuf) (p : list slice) : lbuf :=
  {| slices := slices l; wpos := wpos l; len := len l; pinned := p; curp := curp l; fromshm := fromshm l;
     recycled := recycled l; leases := leases l |}.
Definition set_recycled (l : lbuf) (r : list slice) : lbuf :=
  {| slices := slices l; wpos := wpos l; len := len l; pinned := pinned l; curp := curp l; fromshm := fromshm l;
     recycled := r; leases := leases l |}.
Definition set_leases (l : lbuf) (r : list lease) : lbuf :=
  {| slices := slices l; wpos := wpos l; len := len l; pinned := pinned l; curp := curp l; fromshm := fromshm l;
     recycled := recycled l; leases := r |}.
(* replace the front slice *)
Definition set_front (l : lbuf) (s : slice) : lbuf := set_slices l (s :: tl (slices l)).

Definition push_back (l : lbuf) (s : slice) : lbuf := set_slices l (slices l ++ [s]).
Definition wptr_pop (w : wptr) : wptr :=
  match w with WNil => WNil | WAt O => WGone | WAt (S n) => WAt n | WGone => WGone end.

(* ------------------------------------------------------------------------------------------ *)
(* reader side (buffer.go:275-483).  The store is only READ here; slices given to             *)
(* recycleBuffer are collected in [recycled] and pushed by the caller (nothing in a reader op  *)
(* looks at the free lists or at a header).                                                    *)
(* ------------------------------------------------------------------------------------------ *)
Section Reader.
Variable m : shm.

(* readNextSlice: popFront; shm slice: parked if currentPinned else recycled; heap slice dropped *)
Definition read_next (l : lbuf) : outcome lbuf :=
  match slices l with
  | [] => Panic 1
  | s :: r =>
      let l1 := set_wpos (set_slices l r) (wptr_pop (wpos l)) in
      let l2 := if shmf s then (if curp l then set_pinned l1 (pinned l1 ++ [s])
                                else set_recycled l1 (recycled l1 ++ [s]))
                else l1 in
      Ok (set_curp l2 false)
  end.

Definition mk_lease (s : slice) (n : nat) (bs : list byte) : lease :=
  {| l_shm := shmf s; l_off := off s; l_lo := rd s; l_hi := rd s + n; l_bytes := bs |}.

(* ReadBytes slow loop: for size > 0 { read; append; if short { readNextSlice }; size -= n } *)
Fixpoint rb_slow (fuel n : nat) (acc : list byte) (l : lbuf) : outcome (list byte * lbuf) :=
  match n with
  | O => Ok (acc, l)
  | _ =>
    match fuel with
    | O => Err 99
    | S fuel' =>
      match slices l with
      | [] => Panic 1
      | s :: _ =>
        do (bs, k) <- sl_take m n s;
        let l1 := set_front l (adv k s) in
        if k =? n then Ok (acc ++ bs, l1)
        else do l2 <- read_next l1; rb_slow fuel' (n - k) (acc ++ bs) l2
      end
    end
  end.

Definition read_bytes (n : nat) (l : lbuf) : outcome (list byte * lbuf) :=
  if n =? 0 then Ok ([], l) else
  match slices l with
  | [] => Panic 1
  | s0 :: _ =>
    do l1 <- (if ssize s0 =? 0 then read_next l else Ok l);
    match slices l1 with
    | [] => Panic 1
    | s :: _ =>
      if n <=? ssize s then
        do (bs, k) <- sl_take m n s;
        Ok (bs, set_leases (set_front (set_len (set_curp l1 true) (len l1 - Z.of_nat n)) (adv k s))
                           (leases l1 ++ [mk_lease s n bs]))
      else rb_slow (S (length (slices l1))) n [] (set_len l1 (len l1 - Z.of_nat n))
    end
  end.

(* ReadString: fast path copies (no pin); slow loop pops the exhausted front first *)
Fixpoint rs_slow (fuel n : nat) (acc : list byte) (l : lbuf) : outcome (list byte * lbuf) :=
  match n with
  | O => Ok (acc, l)
  | _ =>
    match fuel with
    | O => Err 99
    | S fuel' =>
      match slices l with
      | [] => Panic 1
      | s0 :: _ =>
        do l1 <- (if ssize s0 =? 0 then read_next l else Ok l);
        match slices l1 with
        | [] => Panic 1
        | s :: _ =>
          do (bs, k) <- sl_take m n s;
          rs_slow fuel' (n - k) (acc ++ bs) (set_front l1 (adv k s))
        end
      end
    end
  end.

Definition read_string (n : nat) (l : lbuf) : outcome (list byte * lbuf) :=
  if n =? 0 then Ok ([], l) else
  match slices l with
  | [] => Panic 1
  | s :: _ =>
    if n <=? ssize s then
      do (bs, k) <- sl_take m n s;
      Ok (bs, set_len (set_front l (adv k s)) (len l - Z.of_nat n))
    else
      do (bs, l1) <- rs_slow (2 * S (length (slices l)) + n) n [] l;
      Ok (bs, set_len l1 (len l1 - Z.of_nat n))
  end.

(* Peek: fast path returns a sub-slice of the front (pin); slow path copies over e.next() *)
Fixpoint peek_rest (n : nat) (acc : list byte) (ss : list slice) : outcome (list byte) :=
  match n, ss with
  | O, _ => Ok acc
  | _, [] => Ok acc
  | _, s :: r => do (bs, k) <- sl_take m n s; peek_rest (n - k) (acc ++ bs) r
  end.

Definition peek (n : nat) (l : lbuf) : outcome (list byte * lbuf) :=
  if n =? 0 then Ok ([], l) else
  match slices l with
  | [] => Panic 1
  | s :: r =>
    do (bs, k) <- sl_take m n s;
    if k =? n then Ok (bs, set_leases (set_curp l true) (leases l ++ [mk_lease s n bs]))
    else do res <- peek_rest (n - k) bs r; Ok (res, l)
  end.

(* Discard: for { skip; n += skip; size -= skip; if size == 0 break; readNextSlice }; len -= n *)
Fixpoint discard_loop (fuel n : nat) (done : nat) (l : lbuf) : outcome (nat * lbuf) :=
  match fuel with
  | O => Err 99
  | S fuel' =>
    match slices l with
    | [] => Panic 1
    | s :: _ =>
      let k := Nat.min n (ssize s) in
      let l1 := set_front l (adv k s) in
      if n - k =? 0 then Ok (done + k, l1)
      else do l2 <- read_next l1; discard_loop fuel' (n - k) (done + k) l2
    end
  end.
Definition discard (n : nat) (l : lbuf) : outcome (nat * lbuf) :=
  if n =? 0 then Ok (0, l) else        (* if size <= 0 { return 0, nil } *)
  do (k, l1) <- discard_loop (S (length (slices l))) n 0 l;
  Ok (k, set_len l1 (len l1 - Z.of_nat k)).

(* ReadByte *)
Definition read_byte (l : lbuf) : outcome (byte * lbuf) :=
  match slices l with
  | [] => Panic 1
  | s :: _ =>
    do (bs, k) <- sl_take m 1 s;
    if k =? 1 then
      match bs with b :: _ => Ok (b, set_len (set_front l (adv k s)) (len l - 1)) | [] => Panic 3 end
    else
      do l1 <- read_next (set_front l (adv k s));
      match slices l1 with
      | [] => Panic 1
      | s1 :: _ =>
        do (bs1, k1) <- sl_take m 1 s1;
        match bs1 with
        | b :: _ => Ok (b, set_len (set_front l1 (adv k1 s1)) (len l1 - 1))
        | [] => Panic 3          (* r[0] of an empty read *)
        end
      end
  end.

(* linkedBuffer.read(p), |p| = n:  for front != nil && size > written { read; if err==nil break; readNextSlice } *)
Fixpoint read_loop (fuel n : nat) (acc : list byte) (l : lbuf) : outcome (list byte * lbuf) :=
  match fuel with
  | O => Err 99
  | S fuel' =>
    match slices l with
    | [] => Ok (acc, l)
    | s :: _ =>
      if n =? 0 then Ok (acc, l) else
      do (bs, k) <- sl_take m n s;
      let l1 := set_front l (adv k s) in
      if k =? n then Ok (acc ++ bs, l1)
      else do l2 <- read_next l1; read_loop fuel' (n - k) (acc ++ bs) l2
    end
  end.
Definition read_copy (n : nat) (l : lbuf) : outcome (list byte * lbuf) :=
  if n =? 0 then Ok ([], l) else
  do (bs, l1) <- read_loop (S (length (slices l))) n [] l;
  Ok (bs, set_len l1 (len l1 - Z.of_nat (length bs))).

End Reader.

(* push what a reader op handed to recycleBuffer *)
Definition settle (m : shm) (l : lbuf) : shm * lbuf := (recycle_all m (recycled l), set_recycled l []).

(* cleanPinnedList *)
Definition clean_pinned (m : shm) (l : lbuf) : shm * lbuf :=
  match pinned l with
  | [] => (m, l)
  | ps => (recycle_all m ps, set_curp (set_pinned l []) false)
  end.

(* ReleasePreviousRead *)
Definition release (m : shm) (l : lbuf) : shm * lbuf :=
  let '(m1, l1) := clean_pinned m l in
  let l1 := set_leases l1 [] in
  match slices l1, wpos l1 with
  | s :: r, WAt O =>
      if ssize s =? 0 then (recycle m1 s, set_wpos (set_slices l1 r) WNil) else (m1, l1)
  | _, _ => (m1, l1)
  end.

(* releasePreviousReadAndReserve *)
Definition release_reserve (m : shm) (l : lbuf) : shm * lbuf :=
  let '(m1, l1) := clean_pinned m l in
  let l1 := set_leases l1 [] in
  if (len l1 =? 0)%Z then
    match slices l1 with
    | [s] => if shmf s then (upd_slot m1 (off s) hdr_reset, set_slices l1 [sreset s])
             else (m1, set_wpos (set_slices l1 []) (wptr_pop (wpos l1)))
    | _ => (m1, l1)
    end
  else (m1, l1).

(* clean() *)
Definition clean (l : lbuf) : lbuf :=
  {| slices := []; wpos := WNil; len := 0%Z; pinned := pinned l; curp := false; fromshm := true;
     recycled := recycled l; leases := leases l |}.
(* recycle(): every slice of the list goes back (pinned ones do NOT), then clean() *)
Definition lb_recycle (m : shm) (l : lbuf) : shm * lbuf :=
  let '(m1, l1) := clean_pinned m l in          (* since a234a74: the parked slices go back too *)
  (recycle_all m1 (slices l1), set_leases (clean l1) []).

(* appendBufferSlice *)
Definition append_slice (l : lbuf) (s : slice) : lbuf :=
  let l1 := push_back l s in
  let l2 := if shmf s then l1 else set_fromshm l1 false in
  set_wpos (set_len l2 (len l2 + Z.of_nat (ssize s))) (WAt (length (slices l))).

(* ------------------------------------------------------------------------------------------ *)
(* writer side (buffer.go:131-262, 485-506)                                                    *)
(* ------------------------------------------------------------------------------------------ *)
(* alloc(size) *)
Definition lb_alloc (m : shm) (l : lbuf) (size : nat) : shm * lbuf :=
  match allocShmBuffer m size with
  | Some (s, m1) => (m1, push_back l s)
  | None =>
      let '(m1, remain, ss) := alloc_many m (length (cls m)) (Z.of_nat size) [] in
      let l1 := set_slices l (slices l ++ ss) in
      if (remain >? 0)%Z then
        (m1, set_fromshm (push_back l1 (heap_slice (Nat.max (Z.to_nat remain) heapMin))) false)
      else (m1, l1)
  end.

Definition wslice (l : lbuf) : outcome (nat * slice) :=
  match wpos l with
  | WNil => Panic 2
  | WGone => Panic 5
  | WAt i => match nth_error (slices l) i with Some s => Ok (i, s) | None => Panic 5 end
  end.
Definition front_ptr (l : lbuf) : wptr := match slices l with [] => WNil | _ => WAt 0 end.
Definition set_slice_at (l : lbuf) (i : nat) (s : slice) : lbuf := set_slices l (upd_nth i (fun _ => s) (slices l)).

(* bufferSlice.append(data...) on the i-th slice: copy(s.data[wr:], data); returns the count *)
Definition sl_append (m : shm) (l : lbuf) (i : nat) (s : slice) (bs : list byte) : outcome (nat * shm * lbuf) :=
  match bs with
  | [] => Ok (0, m, l)
  | _ =>
    let dl := length (sdata m s) in
    if dl <? wr s then Panic 3 else
    let k := Nat.min (length bs) (dl - wr s) in
    let w := firstn k bs in
    if shmf s then Ok (k, upd_slot m (off s) (slot_write (wr s) w), set_slice_at l i (advw k s))
    else Ok (k, m, set_slice_at l i (with_heap (overwrite (heap s) (wr s) w) (advw k s)))
  end.

Definition ensure_wslice (m : shm) (l : lbuf) (size : nat) : shm * lbuf :=
  match wpos l with
  | WNil => let '(m1, l1) := lb_alloc m l size in (m1, set_wpos l1 (front_ptr l1))
  | _ => (m, l)
  end.

(* WriteByte *)
Definition write_byte (b : byte) (m : shm) (l : lbuf) : outcome (shm * lbuf) :=
  let '(m0, l0) := ensure_wslice m l 1 in
  do (i, s) <- wslice l0;
  do (k, m1, l1) <- sl_append m0 l0 i s [b];
  if k =? 1 then Ok (m1, set_len l1 (len l1 + 1)) else
  let '(m2, l2) := lb_alloc m1 l1 1 in
  match nth_error (slices l2) (S i) with
  | None => Panic 2
  | Some s' =>
    let l3 := set_wpos l2 (WAt (S i)) in
    do (_, m3, l4) <- sl_append m2 l3 (S i) s' [b];
    Ok (m3, set_len l4 (len l4 + 1))
  end.

(* WriteBytes loop *)
Fixpoint wb_loop (fuel : nat) (bs : list byte) (n : nat) (m : shm) (l : lbuf) : outcome (nat * shm * lbuf) :=
  match fuel with
  | O => Err 99
  | S fuel' =>
    do (i, s) <- wslice l;
    do (k, m1, l1) <- sl_append m l i s bs;
    let rest := skipn k bs in
    match rest with
    | [] => Ok (n + k, m1, l1)
    | _ =>
      let '(m2, l2) := match nth_error (slices l1) (S i) with
                       | None => lb_alloc m1 l1 (length rest)
                       | Some _ => (m1, l1) end in
      match nth_error (slices l2) (S i) with
      | None => Panic 2
      | Some _ => wb_loop fuel' rest (n + k) m2 (set_wpos l2 (WAt (S i)))
      end
    end
  end.
Definition write_bytes (bs : list byte) (m : shm) (l : lbuf) : outcome (nat * shm * lbuf) :=
  match bs with
  | [] => Ok (0, m, l)
  | _ =>
    let '(m0, l0) := ensure_wslice m l (length bs) in
    do (n, m1, l1) <- wb_loop (S (length bs + length (slices l0))) bs 0 m0 l0;
    Ok (n, m1, set_len l1 (len l1 + Z.of_nat n))
  end.

(* bufferSlice.reserve(size) followed by the caller filling the returned region with bs *)
Definition sl_reserve (m : shm) (l : lbuf) (i : nat) (s : slice) (bs : list byte) : option (outcome (shm * lbuf)) :=
  let size := length bs in
  if wr s + size <=? cap s then
    Some (if length (sdata m s) <? wr s + size then Panic 3 else
          if shmf s then Ok (upd_slot m (off s) (slot_write (wr s) bs), set_slice_at l i (advw size s))
          else Ok (m, set_slice_at l i (with_heap (overwrite (heap s) (wr s) bs) (advw size s))))
  else None.

(* Reserve(size) + fill: three-way *)
Definition reserve (bs : list byte) (m : shm) (l : lbuf) : outcome (shm * lbuf) :=
  let size := length bs in
  if size =? 0 then Ok (m, l) else     (* if size <= 0 { return nil, nil } *)
  let '(m0, l0) := ensure_wslice m l size in
  do (i, s) <- wslice l0;
  match sl_reserve m0 l0 i s bs with
  | Some r => do (m1, l1) <- r; Ok (m1, set_len l1 (len l1 + Z.of_nat size))
  | None =>
    let second :=
      match nth_error (slices l0) (S i) with
      | Some e => match sl_reserve m0 l0 (S i) e bs with
                  | Some r => Some (do (m1, l1) <- r; Ok (m1, set_len (set_wpos l1 (WAt (S i))) (len l1 + Z.of_nat size)))
                  | None => None end
      | None => None
      end in
    match second with
    | Some r => r
    | None =>
      let '(m1, l1) :=
        match allocShmBuffer m0 size with
        | Some (b, m1) => (m1, push_back l0 b)
        | None => (m0, set_fromshm (push_back l0 (heap_slice (Nat.max size heapMin))) false)
        end in
      let j := length (slices l1) - 1 in
      let l2 := set_len (set_wpos l1 (WAt j)) (len l1 + Z.of_nat size) in
      match nth_error (slices l2) j with
      | None => Panic 2
      | Some b => match sl_reserve m1 l2 j b bs with
                  | Some r => r
                  | None => Err 1     (* ErrNoMoreBuffer from the final reserve; len already bumped *)
                  end
      end
    end
  end.

(* done(): stamp size/start/next of the slices up to the write slice, give back the tail *)
Fixpoint stamp (m : shm) (ss : list slice) (stop : option nat) : shm :=
  match ss with
  | [] => m
  | s :: r =>
    let m1 := if shmf s then
                let m' := upd_slot m (off s) (hdr_stamp (ssize s) (start s)) in
                match r with nx :: _ => upd_slot m' (off s) (hdr_link (off nx)) | [] => m' end
              else m in
    match stop with
    | Some O => m1
    | Some (S k) => stamp m1 r (Some k)
    | None => stamp m1 r None
    end
  end.
Definition lb_done (m : shm) (l : lbuf) : outcome (shm * lbuf) :=
  if fromshm l then
    match wpos l with
    | WNil => Panic 2
    | WGone => Panic 5
    | WAt i =>
      let m1 := stamp m (slices l) (Some i) in
      let tail := skipn (S i) (slices l) in
      Ok (recycle_all m1 tail, set_slices l (firstn (S i) (slices l)))
    end
  else Ok (m, l).

(* underlyingData(): data[rd:wr] of the slices up to the write slice *)
Definition underlying (m : shm) (l : lbuf) : list byte :=
  let ss := match wpos l with WAt i => firstn (S i) (slices l) | _ => slices l end in
  concat (map (body m) ss).

(* ------------------------------------------------------------------------------------------ *)
(* transfer: pendingData.moveToWithoutLock                                                     *)
(* ------------------------------------------------------------------------------------------ *)
Inductive pitem := PRoot (o : nat) | PFallback (s : slice).

(* preSlice.linkNext / clearFlag on the back slice of the receive list: a heap slice has a nil header *)
Fixpoint chain (fuel : nat) (m : shm) (l : lbuf) (o : nat) : outcome (shm * lbuf) :=
  match fuel with
  | O => Err 99
  | S fuel' =>
    match nth_error (slots m) o with
    | None => Ok (m, l)                      (* readBufferSlice error: logged, inner loop left *)
    | Some t =>
      let s := slice_of_slot o t in
      if ssize s =? 0 then
        match slices l with
        | [] => chain fuel' (recycle m s) l (st_next t)
        | _ =>
          let pre := last (slices l) s in
          if negb (shmf pre) then Panic 3 else
          if st_hasnext t then
            chain fuel' (recycle (upd_slot m (off pre) (hdr_link (st_next t))) s) l (st_next t)
          else Ok (recycle (upd_slot m (off pre) hdr_clearflag) s, l)
        end
      else
        let l1 := append_slice l s in
        if st_hasnext t then chain fuel' m l1 (st_next t) else Ok (m, l1)
    end
  end.

Fixpoint move_to (m : shm) (l : lbuf) (ps : list pitem) : outcome (shm * lbuf) :=
  match ps with
  | [] => Ok (m, l)
  | PFallback s :: r => move_to m (append_slice l s) r
  | PRoot o :: r => do (m1, l1) <- chain (S (length (slots m))) m l o; move_to m1 l1 r
  end.

(* ------------------------------------------------------------------------------------------ *)
(* the pipe: one sender buffer, the pending list, one receive buffer, slots held by others     *)
(* ------------------------------------------------------------------------------------------ *)
Record sys := { mem : shm; snd : lbuf; infb : bool; pend : list pitem; rcv : lbuf; oth : list slice }.

Inductive op :=
| WBytes (bs : list byte) | WByte (b : byte) | WReserve (bs : list byte) | WString (bs : list byte)
| WWrite (bs : list byte) | WFlush
| WAdopt (n : nat)   (* the send buffer starts with the reset slice ReleaseReadAndReuse leaves behind *)
| RBytes (n : nat) | RPeek (n : nat) | RDiscard (n : nat) | RByte | RString (n : nat) | RRead (n : nat)
| RRelease | RReleaseReuse | RClose
| RPeerClose      (* the peer closed its end: the callback goroutine's sweep after the OnData loop *)
| OAlloc (n : nat) | OFill (i : nat) (bs : list byte) | OFree (i : nat).

Inductive res := RUnit | RN (n : nat) | RData (bs : list byte) | RB (b : byte).

Definition with_mem_snd (s : sys) (m : shm) (l : lbuf) : sys :=
  {| mem := m; snd := l; infb := infb s; pend := pend s; rcv := rcv s; oth := oth s |}.
Definition with_mem_rcv (s : sys) (m : shm) (l : lbuf) : sys :=
  {| mem := m; snd := snd s; infb := infb s; pend := pend s; rcv := l; oth := oth s |}.

(* Stream.Flush without queue/socket: done; fallback if the buffer left shm or the stream is in
   fallback state (sticky); the element lands in the receiver's pending list; clean() *)
(* [sticky]: the variant of the source (Gen/SwitchC07.v, translated from Stream.Flush): true = inFallbackState is
   only ever set; false = it is assigned from the current buffer.  [flush] is the variant the proofs are about. *)
Definition flush_gen (sticky : bool) (s : sys) : outcome sys :=
  if (len (snd s) =? 0)%Z then Ok s else
  do (m1, l1) <- lb_done (mem s) (snd s);
  (* inFallbackState is sticky (Gen/SwitchC07.v, translated from Stream.Flush): once a flush went through the
     socket every later flush of the stream does; the non-sticky variant assigns it from the current buffer *)
  let fb := (sticky && infb s) || negb (fromshm l1) in
  if fb then
    let d := underlying m1 l1 in
    let '(m2, l2) := lb_recycle m1 l1 in
    Ok {| mem := m2; snd := clean l2; infb := true; pend := pend s ++ [PFallback (fallback_slice d)];
          rcv := rcv s; oth := oth s |}
  else
    match slices l1 with
    | [] => Panic 1
    | f :: _ => Ok {| mem := m1; snd := clean l1; infb := false; pend := pend s ++ [PRoot (off f)];
                      rcv := rcv s; oth := oth s |}
    end.

Notation flush := (flush_gen true).

(* Stream.readMore(n) without the waiting: moveTo when len < n; still short -> Blocked *)
Definition read_more (n : nat) (s : sys) : outcome sys :=
  if (len (rcv s) <? Z.of_nat n)%Z then
    do (m1, l1) <- move_to (mem s) (rcv s) (pend s);
    if (len l1 <? Z.of_nat n)%Z then Blocked
    else Ok {| mem := m1; snd := snd s; infb := infb s; pend := []; rcv := l1; oth := oth s |}
  else Ok s.

Definition rd_op {A} (s : sys) (f : shm -> lbuf -> outcome (A * lbuf)) (g : A -> res) : outcome (res * sys) :=
  do (a, l1) <- f (mem s) (rcv s);
  let '(m2, l2) := settle (mem s) l1 in
  Ok (g a, with_mem_rcv s m2 l2).

(* [sticky], [sweepc]: the variants of the source (Gen/SwitchC07.v, Gen/SwitchC08.v); [step] = the proved variant *)
Definition step_gen (sticky sweepc : bool) (s : sys) (o : op) : outcome (res * sys) :=
  match o with
  | WBytes bs | WString bs =>
      do (n, m1, l1) <- write_bytes bs (mem s) (snd s); Ok (RN n, with_mem_snd s m1 l1)
  | WByte b => do (m1, l1) <- write_byte b (mem s) (snd s); Ok (RUnit, with_mem_snd s m1 l1)
  | WReserve bs => do (m1, l1) <- reserve bs (mem s) (snd s); Ok (RUnit, with_mem_snd s m1 l1)
  | WWrite bs =>
      match bs with
      | [] => Ok (RN 0, s)
      | _ => do (n, m1, l1) <- write_bytes bs (mem s) (snd s);
             do s2 <- flush_gen sticky (with_mem_snd s m1 l1); Ok (RN n, s2)
      end
  | WFlush => do s1 <- flush_gen sticky s; Ok (RUnit, s1)
  | WAdopt n =>
      (* state after Stream.ReleaseReadAndReuse swapped an emptied receive buffer holding one reset shm
         slice into the send position: sliceList = [slice], writeSlice = slice, len = 0 *)
      match slices (snd s), wpos (snd s) with
      | [], WNil =>
          match allocShmBuffer (mem s) n with
          | Some (b, m1) => Ok (RN 1, with_mem_snd s m1 (set_wpos (push_back (snd s) b) (WAt 0)))
          | None => Ok (RN 0, s)
          end
      | _, _ => Ok (RN 0, s)
      end
  | RBytes n => if n =? 0 then Ok (RData [], s) else
                do s1 <- read_more n s; rd_op s1 (fun m l => read_bytes m n l) RData
  | RPeek n => if n =? 0 then Ok (RData [], s) else
               do s1 <- read_more n s; rd_op s1 (fun m l => peek m n l) RData
  | RString n => if n =? 0 then Ok (RData [], s) else
                 do s1 <- read_more n s; rd_op s1 (fun m l => read_string m n l) RData
  | RDiscard n => if n =? 0 then Ok (RN 0, s) else
                  do s1 <- read_more n s; rd_op s1 (fun _ l => discard n l) RN
  | RByte => do s1 <- read_more 1 s; rd_op s1 (fun m l => read_byte m l) RB
  | RRead n => if n =? 0 then Ok (RData [], s) else
               do s1 <- read_more 1 s; rd_op s1 (fun m l => read_copy m n l) RData
  | RRelease => let '(m1, l1) := release (mem s) (rcv s) in Ok (RUnit, with_mem_rcv s m1 l1)
  | RReleaseReuse => let '(m1, l1) := release_reserve (mem s) (rcv s) in Ok (RUnit, with_mem_rcv s m1 l1)
  | RClose => let '(m1, l1) := lb_recycle (mem s) (rcv s) in Ok (RUnit, with_mem_rcv s m1 l1)
  | RPeerClose =>
      (* half closed: the sweep (pendingData.clear + recvBuf.recycle) must NOT run (Gen/SwitchC08.v) *)
      if sweepc then Ok (RUnit, s)
      else let '(m1, l1) := lb_recycle (mem s) (rcv s) in Ok (RUnit, with_mem_rcv s m1 l1)
  | OAlloc n =>
      match allocShmBuffer (mem s) n with
      | Some (b, m1) => Ok (RN 1, {| mem := m1; snd := snd s; infb := infb s; pend := pend s; rcv := rcv s;
                                     oth := oth s ++ [b] |})
      | None => Ok (RN 0, s)
      end
  | OFill i bs =>
      match nth_error (oth s) i with
      | Some b => Ok (RUnit, {| mem := upd_slot (mem s) (off b) (slot_write 0 (firstn (cap b) bs)); snd := snd s;
                                infb := infb s; pend := pend s; rcv := rcv s; oth := oth s |})
      | None => Ok (RUnit, s)
      end
  | OFree i =>
      match nth_error (oth s) i with
      | Some b => Ok (RUnit, {| mem := recycle (mem s) b; snd := snd s; infb := infb s; pend := pend s;
                                rcv := rcv s; oth := firstn i (oth s) ++ skipn (S i) (oth s) |})
      | None => Ok (RUnit, s)
      end
  end.
Notation step := (step_gen true true).

(* ------------------------------------------------------------------------------------------ *)
(* initial state: classes [(cap, count)] ascending, slot ids consecutive per class             *)
(* ------------------------------------------------------------------------------------------ *)
Definition fresh_slot (c : nat) : slot :=
  {| st_cap := c; st_data := repeat 0%Z c; st_size := 0; st_start := 0; st_next := 0; st_hasnext := false |}.
Fixpoint init_classes (cfg : list (nat * nat)) (base : nat) : list (list nat) * list slot :=
  match cfg with
  | [] => ([], [])
  | (c, k) :: r =>
      let '(fs, ss) := init_classes r (base + k) in
      (seq base k :: fs, repeat (fresh_slot c) k ++ ss)
  end.
Definition init_shm (cfg : list (nat * nat)) : shm :=
  let '(fs, ss) := init_classes cfg 0 in {| cls := map fst cfg; free := fs; slots := ss |}.
Definition init_sys (cfg : list (nat * nat)) : sys :=
  {| mem := init_shm cfg; snd := empty_buf; infb := false; pend := []; rcv := empty_buf; oth := [] |}.

Definition free_counts (m : shm) : list nat := map (@length nat) (free m).

(* ------------------------------------------------------------------------------------------ *)
(* both directions of one stream pair (needed for Stream.ReleaseReadAndReuse, which swaps the   *)
(* receive buffer of a stream with ITS OWN send buffer, i.e. with the writer side of the other  *)
(* direction)                                                                                   *)
(* ------------------------------------------------------------------------------------------ *)
(* direction false: stream A writes, stream B reads; direction true: B writes, A reads *)
Record half := { h_snd : lbuf; h_infb : bool; h_pend : list pitem; h_rcv : lbuf }.
Record dsys := { d_mem : shm; d_0 : half; d_1 : half; d_oth : list slice }.

Definition dhalf (D : dsys) (d : bool) : half := if d then d_1 D else d_0 D.
Definition dview (D : dsys) (d : bool) : sys :=
  let h := dhalf D d in
  {| mem := d_mem D; snd := h_snd h; infb := h_infb h; pend := h_pend h; rcv := h_rcv h; oth := d_oth D |}.
Definition half_of (s : sys) : half := {| h_snd := snd s; h_infb := infb s; h_pend := pend s; h_rcv := rcv s |}.
Definition dput (D : dsys) (d : bool) (s : sys) (other : half) : dsys :=
  if d then {| d_mem := mem s; d_0 := other; d_1 := half_of s; d_oth := oth s |}
  else {| d_mem := mem s; d_0 := half_of s; d_1 := other; d_oth := oth s |}.

Definition is_fallback (p : pitem) : bool := match p with PFallback _ => true | PRoot _ => false end.
Definition with_infb (h : half) (b : bool) : half :=
  {| h_snd := h_snd h; h_infb := b; h_pend := h_pend h; h_rcv := h_rcv h |}.

(* the swap decision of Stream.ReleaseReadAndReuse; the two conjuncts are switched by what the
   translator finds in stream.go (Gen/SwitchC06.v), see Proofs/LinkedBufferDuplex.v *)
Definition swap_cond (need_len0 need_one : bool) (l : lbuf) : bool :=
  (if need_len0 then (len l =? 0)%Z else true) && (if need_one then length (slices l) =? 1 else true).

Inductive dop :=
| DOp (d : bool) (o : op)      (* an operation of direction d (writer ops: its writing stream; reader ops: its reading stream) *)
| DReuse (d : bool).           (* Stream.ReleaseReadAndReuse() on the stream that READS direction d *)

Section Duplex.
Variables need_len0 need_one sticky sweepc : bool.

Definition dstep_gen (D : dsys) (o : dop) : outcome (res * dsys) :=
  match o with
  | DOp d o =>
      let s := dview D d in
      do (r, s') <- step_gen sticky sweepc s o;
      (* pendingData.moveToWithoutLock sets inFallbackState of the READING stream for every fallback
         slice it moves: that stream's own sends (the other direction) use the socket from then on *)
      let movedfb := existsb is_fallback (pend s) && (match pend s' with [] => true | _ => false end) in
      let other := dhalf D (negb d) in
      let other' := if movedfb then with_infb other true else other in
      Ok (r, dput D d s' other')
  | DReuse d =>
      let h := dhalf D d in let o := dhalf D (negb d) in
      let '(m1, l1) := release_reserve (d_mem D) (h_rcv h) in
      let '(rcv', osnd') := if swap_cond need_len0 need_one l1 then (h_snd o, l1) else (l1, h_snd o) in
      let h' := {| h_snd := h_snd h; h_infb := h_infb h; h_pend := h_pend h; h_rcv := rcv' |} in
      let o' := {| h_snd := osnd'; h_infb := h_infb o; h_pend := h_pend o; h_rcv := h_rcv o |} in
      Ok (RUnit, if d then {| d_mem := m1; d_0 := o'; d_1 := h'; d_oth := d_oth D |}
                 else {| d_mem := m1; d_0 := h'; d_1 := o'; d_oth := d_oth D |})
  end.
End Duplex.
(* the variant the proofs are about: every switch as in the current source *)
Notation dstep := (dstep_gen true true true true).

Definition empty_half : half := {| h_snd := empty_buf; h_infb := false; h_pend := []; h_rcv := empty_buf |}.
Definition init_dsys (cfg : list (nat * nat)) : dsys :=
  {| d_mem := init_shm cfg; d_0 := empty_half; d_1 := empty_half; d_oth := [] |}.
