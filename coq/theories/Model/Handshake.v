(* C12 — executable model of the session handshake (protocol_manager.go, protocol_initializer.go,
   session.go: newSession / initProtocol / generateShmMetadata / extractShmMetadata).  NO proofs here.

   (a) the metadata codec, byte exact (bytes are Z in 0..255);
   (b) client and server initialiser goroutines as communicating state machines over two FIFOs of
       frames (one frame = the bytes of one blockWriteFull, or the dummy byte that carries the
       SCM_RIGHTS descriptors), the init timer, the select of initProtocol, newSession's error path,
       an adversary that stalls or kills an end at any step and removes /dev/shm files, and the
       resources each end holds (mappings, the dup'ed descriptor, the initialiser goroutine, files).

   Granularity: one thread step = one blocking read plus everything up to the next blocking read
   (the writes of these few bytes do not block).  A ReadFull never straddles two writes of the peer
   in this protocol (every event is written by one blockWriteFull and read as header + body). *)
From Coq Require Import List ZArith Bool Lia.
From Shm Require Import Gen.Consts.
Import ListNotations.
Open Scope Z_scope.

Definition bytes := list Z.
Definition zlen {A} (l : list A) : Z := Z.of_nat (length l).

(* ------------------------------------------------------------------------------------------ *)
(* (a) codec                                                                                   *)
(* ------------------------------------------------------------------------------------------ *)
Definition u16be (n : Z) : bytes := [(n / 256) mod 256; n mod 256].
Definition u32be (n : Z) : bytes :=
  [(n / 16777216) mod 256; (n / 65536) mod 256; (n / 256) mod 256; n mod 256].
Definition rd16 (a b : Z) : Z := a * 256 + b.
Definition rd32 (a b c d : Z) : Z := ((a * 256 + b) * 256 + c) * 256 + d.

(* header.encode(length uint32, version uint8, msgType): length / magic / version / type *)
Definition encode_header (len ver ty : Z) : bytes :=
  u32be (len mod 4294967296) ++ u16be c_magicNumber ++ [ver mod 256; ty mod 256].

(* Session.generateShmMetadata: header, u16 len + queue path, u16 len + buffer path.
   uint16(len(path)) truncates. *)
Definition generate (ver ty : Z) (q b : bytes) : bytes :=
  encode_header (c_headerSize + 2 + zlen q + 2 + zlen b) ver ty
    ++ u16be (zlen q mod 65536) ++ q ++ u16be (zlen b mod 65536) ++ b.

Inductive outcome (A : Type) : Type := Ok (a : A) | Bad (why : Z).   (* Bad: the error return of the bounds checks *)
Arguments Ok {A} a.
Arguments Bad {A} why.

Definition slice (l : bytes) (lo hi : Z) : bytes :=
  firstn (Z.to_nat (hi - lo)) (skipn (Z.to_nat lo) l).

(* Session.extractShmMetadata(body) = (bufferPath, queuePath, err): the lengths come from the peer and
   every slice is checked against what was received (three checks, each returns an error) *)
Definition extract (body : bytes) : outcome (bytes * bytes) :=
  let n := zlen body in
  if n <? 2 then Bad 1 else
  let ql := rd16 (nth 0 body 0) (nth 1 body 0) in
  if n <? 2 + ql + 2 then Bad 2 else
  let off := 2 + ql in
  let bl := rd16 (nth (Z.to_nat off) body 0) (nth (S (Z.to_nat off)) body 0) in
  if n <? off + 2 + bl then Bad 3 else
  Ok (slice body (off + 2) (off + 2 + bl), slice body 2 (2 + ql)).

Record hdr := { h_len : Z; h_magic : Z; h_ver : Z; h_type : Z }.

(* the first headerSize bytes of a frame, if there are that many *)
Definition parse_header (l : bytes) : option hdr :=
  match l with
  | a :: b :: c :: d :: m1 :: m2 :: v :: t :: _ =>
      Some {| h_len := rd32 a b c d; h_magic := rd16 m1 m2; h_ver := v; h_type := t |}
  | _ => None
  end.

(* ------------------------------------------------------------------------------------------ *)
(* (b) protocol                                                                                *)
(* ------------------------------------------------------------------------------------------ *)
Inductive memtype := MFile | MMemfd.
Inductive frame := FBytes (b : bytes) | FFds (fds : list Z).

Inductive err :=
  | EEOF | EPipe | EInvalidVersion | EInvalidMsgType | EUnexpectedType | EUnsupportedVersion
  | EMapQueue | EMapBuffer | EFdCount | ENoOob | ETimeout | ENotUnix | EBadMetadata.
Inductive result := ROk | RErr (e : err) | RPanic (why : Z).   (* RPanic: no step produces it any more (bounds checks of the handshake readers); kept as an outcome class *)

Definition err_eqb (a b : err) : bool :=
  match a, b with
  | EEOF, EEOF | EPipe, EPipe | EInvalidVersion, EInvalidVersion | EInvalidMsgType, EInvalidMsgType
  | EUnexpectedType, EUnexpectedType | EUnsupportedVersion, EUnsupportedVersion
  | EMapQueue, EMapQueue | EMapBuffer, EMapBuffer | EFdCount, EFdCount | ENoOob, ENoOob
  | ETimeout, ETimeout | ENotUnix, ENotUnix | EBadMetadata, EBadMetadata => true
  | _, _ => false
  end.

(* what the client created before the handshake (initMemManager): two memory objects with
   identities qobj / bobj (inode or memfd), named by the two paths *)
(* [sgen]: the highest protocol generation the SERVER advertises in the version exchange.  For this code
   base it is c_maxSupportProtoVersion; a NEWER server (4, 5, ... 255) that otherwise follows the exchange
   is the same machine with a larger number: it announces its own highest version and both ends take the
   minimum.  The client is this code base's: generation 2 (file mapping, no exchange) or 3 (memfd). *)
Record config := {
  mt : memtype; unix : bool;
  qpath : bytes; bpath : bytes; qobj : Z; bobj : Z;
  sgen : Z }.

(* checkEventValid *)
Definition check_valid (h : hdr) : option err :=
  if negb (h_magic h =? c_magicNumber) || (h_ver h =? 0) then Some EInvalidVersion
  else if (h_type h <? c_minEventType) || (c_maxEventType <? h_type h) then Some EInvalidMsgType
  else None.

Definition hdr8 (ver ty : Z) : frame := FBytes (encode_header c_headerSize ver ty).

(* a mapping held by an end: the path it was mapped under and the object it refers to *)
Definition mapping := (bytes * Z)%type.

Inductive cpc_t := CStart | CWaitVer | CWaitAckReady | CWaitAckShare | CDone (r : result).
Inductive spc_t := SWaitFirst | SWaitMeta | SWaitFds (bp qp : bytes) | SDone (r : result).

Record cstate := {
  cpc : cpc_t; cver : Z;                          (* communicationVersion *)
  cmapq : option mapping; cmapb : option mapping; (* queueManager / bufferManager reference *)
  cdup : bool;                                    (* the dup'ed descriptor is open *)
  cret : option result;                           (* what newSession returned *)
  copen : bool; cstall : bool;                    (* process alive / not frozen *)
  ctimed : bool }.                                (* initProtocol's timer fired: the socket is shut down, newSession
                                                     waits for the goroutine before it returns the timeout error *)
Record sstate := {
  spc : spc_t; sver : Z;
  smapq : option mapping; smapb : option mapping;
  sdup : bool; sret : option result; sopen : bool; sstall : bool; stimed : bool }.

Record world := {
  wc : cstate; ws : sstate;
  c2s : list frame; s2c : list frame;
  fs : list mapping;                              (* /dev/shm: path -> object *)
  (* history variables: everything written / consumed so far *)
  c_out : list frame; c_cons : list frame; s_out : list frame; s_cons : list frame }.

Fixpoint bytes_eqb (a b : bytes) : bool :=
  match a, b with
  | [], [] => true
  | x :: a', y :: b' => (x =? y) && bytes_eqb a' b'
  | _, _ => false
  end.
Fixpoint lookup (p : bytes) (f : list mapping) : option Z :=
  match f with
  | [] => None
  | (p', o) :: r => if bytes_eqb p p' then Some o else lookup p r
  end.
Fixpoint remove_path (p : bytes) (f : list mapping) : list mapping :=
  match f with
  | [] => []
  | (p', o) :: r => if bytes_eqb p p' then remove_path p r else (p', o) :: remove_path p r
  end.

(* newSession up to and including initMemManager.  The memfd-over-non-unix check comes first and
   returns before anything is created. *)
Definition client_rejects (cfg : config) : bool :=
  match mt cfg with MMemfd => negb (unix cfg) | MFile => false end.

Definition init (cfg : config) : world :=
  let rej := client_rejects cfg in
  {| wc := {| cpc := if rej then CDone (RErr ENotUnix) else CStart;
              cver := c_protoVersion;
              cmapq := if rej then None else Some (qpath cfg, qobj cfg);
              cmapb := if rej then None else Some (bpath cfg, bobj cfg);
              cdup := negb rej;
              cret := if rej then Some (RErr ENotUnix) else None;
              copen := true; cstall := false; ctimed := false |};
     ws := {| spc := SWaitFirst; sver := c_protoVersion; smapq := None; smapb := None;
              sdup := true; sret := None; sopen := true; sstall := false; stimed := false |};
     c2s := []; s2c := [];
     fs := match mt cfg with
           | MFile => [(qpath cfg, qobj cfg); (bpath cfg, bobj cfg)]
           | MMemfd => []
           end;
     c_out := []; c_cons := []; s_out := []; s_cons := [] |}.

(* ---- one end's thread: result of trying to take a step ---- *)
(* reading a control header from the inbox *)
Inductive rd := RdBlocked | RdEOF | RdFds (fds : list Z) (rest : list frame)
              | RdHdr (h : hdr) (whole : bytes) (rest : list frame).
Definition read_frame (inbox : list frame) (peer_open : bool) : rd :=
  match inbox with
  | [] => if peer_open then RdBlocked else RdEOF
  | FFds fds :: rest => RdFds fds rest
  | FBytes b :: rest =>
      match parse_header b with
      | Some h => RdHdr h b rest
      | None => if peer_open then RdBlocked else RdEOF     (* fewer than 8 bytes *)
      end
  end.

(* waitEventHeader: blockReadEventHeader (checkEventValid) then the expected type *)
Definition expect (h : hdr) (ty : Z) : option err :=
  match check_valid h with
  | Some e => Some e
  | None => if h_type h =? ty then None else Some EUnexpectedType
  end.

Record cstep_out := { co_pc : cpc_t; co_ver : Z; co_inbox : list frame; co_cons : list frame;
                      co_write : list frame }.

(* a write to a peer whose socket is closed fails with EPIPE *)
Definition cwrite (peer_open : bool) (ver : Z) (inbox cons : list frame) (fr : list frame)
                  (next : cpc_t) : cstep_out :=
  if peer_open then {| co_pc := next; co_ver := ver; co_inbox := inbox; co_cons := cons; co_write := fr |}
  else {| co_pc := CDone (RErr EPipe); co_ver := ver; co_inbox := inbox; co_cons := cons; co_write := [] |}.
Definition cfail (ver : Z) (inbox cons : list frame) (e : err) : cstep_out :=
  {| co_pc := CDone (RErr e); co_ver := ver; co_inbox := inbox; co_cons := cons; co_write := [] |}.

(* clientGetProtocolInitializer + initializer.Init of V2 / V3 *)
Definition cstep (cfg : config) (pc : cpc_t) (ver : Z) (inbox : list frame) (peer_open : bool)
  : option cstep_out :=
  match pc with
  | CDone _ => None
  | CStart =>
      match mt cfg with
      | MFile =>   (* V2 without exchange: send the metadata and report success — no acknowledgement *)
          Some (cwrite peer_open c_protoVersion inbox []
                  [FBytes (generate c_protoVersion c_typeShareMemoryByFilePath (qpath cfg) (bpath cfg))]
                  (CDone ROk))
      | MMemfd =>
          Some (cwrite peer_open ver inbox [] [hdr8 c_maxSupportProtoVersion c_typeExchangeProtoVersion] CWaitVer)
      end
  | CWaitVer =>
      match read_frame inbox peer_open with
      | RdBlocked => None
      | RdEOF => Some (cfail ver inbox [] EEOF)
      | RdFds _ rest => Some (cfail ver rest [] EInvalidVersion)
      | RdHdr h whole rest =>
          match expect h c_typeExchangeProtoVersion with
          | Some e => Some (cfail ver rest [FBytes whole] e)
          | None =>
              let chosen := Z.min c_maxSupportProtoVersion (h_ver h) in
              if chosen =? c_initializerVersion_2 then   (* V2 initialiser on the client: file-path message, no ack *)
                Some (cwrite peer_open c_initializerVersion_2 rest [FBytes whole]
                        [FBytes (generate c_initializerVersion_2 c_typeShareMemoryByFilePath (qpath cfg) (bpath cfg))] (CDone ROk))
              else if chosen =? c_initializerVersion_3 then
                match mt cfg with
                | MFile => Some (cwrite peer_open c_initializerVersion_3 rest [FBytes whole]
                                   [FBytes (generate c_initializerVersion_3 c_typeShareMemoryByFilePath (qpath cfg) (bpath cfg))] CWaitAckShare)
                | MMemfd => Some (cwrite peer_open c_initializerVersion_3 rest [FBytes whole]
                                   [FBytes (generate c_initializerVersion_3 c_typeShareMemoryByMemfd (qpath cfg) (bpath cfg))] CWaitAckReady)
                end
              else Some (cfail ver rest [FBytes whole] EUnsupportedVersion)
          end
      end
  | CWaitAckReady =>
      match read_frame inbox peer_open with
      | RdBlocked => None
      | RdEOF => Some (cfail ver inbox [] EEOF)
      | RdFds _ rest => Some (cfail ver rest [] EInvalidVersion)
      | RdHdr h whole rest =>
          match expect h c_typeAckReadyRecvFD with
          | Some e => Some (cfail ver rest [FBytes whole] e)
          | None => Some (cwrite peer_open ver rest [FBytes whole] [FFds [bobj cfg; qobj cfg]] CWaitAckShare)
          end
      end
  | CWaitAckShare =>
      match read_frame inbox peer_open with
      | RdBlocked => None
      | RdEOF => Some (cfail ver inbox [] EEOF)
      | RdFds _ rest => Some (cfail ver rest [] EInvalidVersion)
      | RdHdr h whole rest =>
          match expect h c_typeAckShareMemory with
          | Some e => Some (cfail ver rest [FBytes whole] e)
          | None => Some {| co_pc := CDone ROk; co_ver := ver; co_inbox := rest; co_cons := [FBytes whole]; co_write := [] |}
          end
      end
  end.

Record sstep_out := { so_pc : spc_t; so_ver : Z; so_mapq : option mapping; so_mapb : option mapping;
                      so_inbox : list frame; so_cons : list frame; so_write : list frame }.
Definition sfail (ver : Z) (mq : option mapping) (inbox cons : list frame) (r : result) : sstep_out :=
  {| so_pc := SDone r; so_ver := ver; so_mapq := mq; so_mapb := None; so_inbox := inbox; so_cons := cons; so_write := [] |}.

(* body of a metadata event: make([]byte, Length - headerSize) in uint32, then blockReadFull *)
Definition body_of (h : hdr) (whole : bytes) : option bytes :=
  let n := (h_len h - c_headerSize) mod 4294967296 in
  let rest := skipn (Z.to_nat c_headerSize) whole in
  if zlen rest <? n then None else Some (firstn (Z.to_nat n) rest).

(* handleShareMemoryByFilePath; [ack] = the V3 acknowledgement, absent in V2 *)
Definition handle_file (f : list mapping) (ver : Z) (h : hdr) (whole : bytes) (rest : list frame)
                       (peer_open : bool) (ack : list frame) : option sstep_out :=
  if h_len h <? c_headerSize then Some (sfail ver None rest [FBytes whole] (RErr EBadMetadata)) else
  match body_of h whole with
  | None => if peer_open then None else Some (sfail ver None rest [FBytes whole] (RErr EEOF))
  | Some body =>
      match extract body with
      | Bad _ => Some (sfail ver None rest [FBytes whole] (RErr EBadMetadata))
      | Ok (bp, qp) =>
          match lookup qp f with
          | None => Some (sfail ver None rest [FBytes whole] (RErr EMapQueue))
          | Some qo =>
              match lookup bp f with
              | None => Some (sfail ver (Some (qp, qo)) rest [FBytes whole] (RErr EMapBuffer))
              | Some bo =>
                  match ack with
                  | [] => Some {| so_pc := SDone ROk; so_ver := ver; so_mapq := Some (qp, qo); so_mapb := Some (bp, bo);
                                  so_inbox := rest; so_cons := [FBytes whole]; so_write := [] |}
                  | _ => if peer_open
                         then Some {| so_pc := SDone ROk; so_ver := ver; so_mapq := Some (qp, qo); so_mapb := Some (bp, bo);
                                      so_inbox := rest; so_cons := [FBytes whole]; so_write := ack |}
                         else Some {| so_pc := SDone (RErr EPipe); so_ver := ver; so_mapq := Some (qp, qo); so_mapb := Some (bp, bo);
                                      so_inbox := rest; so_cons := [FBytes whole]; so_write := [] |}
                  end
              end
          end
      end
  end.

(* serverGetProtocolInitializer + initializer.Init of V2 / V3 *)
Definition sstep (g : Z) (f : list mapping) (pc : spc_t) (ver : Z) (inbox : list frame) (peer_open : bool)
  : option sstep_out :=
  match pc with
  | SDone _ => None
  | SWaitFirst =>
      match read_frame inbox peer_open with
      | RdBlocked => None
      | RdEOF => Some (sfail ver None inbox [] (RErr EEOF))
      | RdFds _ rest => Some (sfail ver None rest [] (RErr EInvalidVersion))
      | RdHdr h whole rest =>
          match check_valid h with
          | Some e => Some (sfail ver None rest [FBytes whole] (RErr e))
          | None =>
              if h_ver h =? c_initializerVersion_2 then
                if h_type h =? c_typeShareMemoryByFilePath
                then handle_file f c_initializerVersion_2 h whole rest peer_open []
                else Some (sfail c_initializerVersion_2 None rest [FBytes whole] (RErr EUnexpectedType))
              else if (c_initializerVersion_3 <=? h_ver h) && (h_ver h <=? g) then
                (* serverGetProtocolInitializer looks the initialiser up by the announced version: a server of
                   generation g knows 3 .. g (this code base: g = maxSupportProtoVersion = 3, so exactly 3);
                   anything above is "not support the protocol version" — see the last branch *)
                if h_type h =? c_typeExchangeProtoVersion then
                  let v := Z.min (h_ver h) g in
                  if peer_open
                  then Some {| so_pc := SWaitMeta; so_ver := v; so_mapq := None; so_mapb := None; so_inbox := rest;
                               so_cons := [FBytes whole];
                               so_write := [hdr8 g c_typeExchangeProtoVersion] |}
                  else Some (sfail v None rest [FBytes whole] (RErr EPipe))
                else Some (sfail c_initializerVersion_3 None rest [FBytes whole] (RErr EUnexpectedType))
              else Some (sfail ver None rest [FBytes whole] (RErr EUnsupportedVersion))
          end
      end
  | SWaitMeta =>
      match read_frame inbox peer_open with
      | RdBlocked => None
      | RdEOF => Some (sfail ver None inbox [] (RErr EEOF))
      | RdFds _ rest => Some (sfail ver None rest [] (RErr EInvalidVersion))
      | RdHdr h whole rest =>
          match check_valid h with
          | Some e => Some (sfail ver None rest [FBytes whole] (RErr e))
          | None =>
              if h_type h =? c_typeShareMemoryByFilePath
              then handle_file f ver h whole rest peer_open [hdr8 ver c_typeAckShareMemory]
              else if h_type h =? c_typeShareMemoryByMemfd then
                if h_len h <? c_headerSize then Some (sfail ver None rest [FBytes whole] (RErr EBadMetadata)) else
                match body_of h whole with
                | None => if peer_open then None else Some (sfail ver None rest [FBytes whole] (RErr EEOF))
                | Some body =>
                    match extract body with
                    | Bad _ => Some (sfail ver None rest [FBytes whole] (RErr EBadMetadata))
                    | Ok (bp, qp) =>
                        if peer_open
                        then Some {| so_pc := SWaitFds bp qp; so_ver := ver; so_mapq := None; so_mapb := None;
                                     so_inbox := rest; so_cons := [FBytes whole];
                                     so_write := [hdr8 ver c_typeAckReadyRecvFD] |}
                        else Some (sfail ver None rest [FBytes whole] (RErr EPipe))
                    end
                end
              else Some (sfail ver None rest [FBytes whole] (RErr EUnexpectedType))
          end
      end
  | SWaitFds bp qp =>
      match inbox with
      | [] => if peer_open then None else Some (sfail ver None inbox [] (RErr ENoOob))
      | FBytes b :: rest => Some (sfail ver None rest [FBytes b] (RErr ENoOob))
      | FFds fds :: rest =>
          if zlen fds <? c_memfdCount then Some (sfail ver None rest [FFds fds] (RErr EFdCount)) else
          match fds with
          | bo :: qo :: _ =>    (* bufferFd, queueFd := fds[0], fds[1] *)
              if peer_open
              then Some {| so_pc := SDone ROk; so_ver := ver; so_mapq := Some (qp, qo); so_mapb := Some (bp, bo);
                           so_inbox := rest; so_cons := [FFds fds]; so_write := [hdr8 ver c_typeAckShareMemory] |}
              else Some {| so_pc := SDone (RErr EPipe); so_ver := ver; so_mapq := Some (qp, qo); so_mapb := Some (bp, bo);
                           so_inbox := rest; so_cons := [FFds fds]; so_write := [] |}
          | _ => Some (sfail ver None rest [FFds fds] (RErr EFdCount))
          end
      end
  end.

(* ---- the whole system ---- *)
Inductive label :=
  | LC | LS                 (* the initialiser goroutine of the client / server takes its next step *)
  | LRetC | LRetS           (* initProtocol receives the goroutine's result, or — after the timer — sees it finished *)
  | LTimerC | LTimerS       (* initProtocol's select receives the InitializeTimeout timer: shutdown(connFd), wait *)
  | LStallC | LStallS       (* the adversary freezes the process: it never answers again *)
  | LDieC | LDieS           (* the adversary kills the process: its sockets close *)
  | LRmQ | LRmB.            (* the queue / buffer file disappears from /dev/shm *)

(* newSession's error path: queueManager.unmap(), addGlobalBufferManagerRefCount(path, -1) — the
   last reference unmaps and, for file mappings, removes the file — and fd.Close() on the dup'ed
   descriptor.  It runs only after the initialiser goroutine has finished: on a timeout initProtocol
   shuts the socket down (which wakes a goroutine blocked in a raw read; its later IO fails) and
   waits for the goroutine before it returns the timeout error. *)
Definition unlink (m : option mapping) (f : list mapping) : list mapping :=
  match m with Some (p, _) => remove_path p f | None => f end.

Definition c_running (c : cstate) : bool := copen c && negb (cstall c).
Definition s_running (s : sstate) : bool := sopen s && negb (sstall s).

Definition set_c (w : world) (c : cstate) : world :=
  {| wc := c; ws := ws w; c2s := c2s w; s2c := s2c w; fs := fs w;
     c_out := c_out w; c_cons := c_cons w; s_out := s_out w; s_cons := s_cons w |}.
Definition set_s (w : world) (s : sstate) : world :=
  {| wc := wc w; ws := s; c2s := c2s w; s2c := s2c w; fs := fs w;
     c_out := c_out w; c_cons := c_cons w; s_out := s_out w; s_cons := s_cons w |}.

Definition c_return (w : world) (r : result) : world :=
  let c := wc w in
  match r with
  | ROk => set_c w {| cpc := cpc c; cver := cver c; cmapq := cmapq c; cmapb := cmapb c; cdup := cdup c;
                      cret := Some ROk; copen := copen c; cstall := cstall c; ctimed := ctimed c |}
  | _ => {| wc := {| cpc := cpc c; cver := cver c; cmapq := None; cmapb := None; cdup := false;
                     cret := Some r; copen := copen c; cstall := cstall c; ctimed := ctimed c |};
            ws := ws w; c2s := c2s w; s2c := s2c w;
            fs := unlink (cmapb c) (unlink (cmapq c) (fs w));
            c_out := c_out w; c_cons := c_cons w; s_out := s_out w; s_cons := s_cons w |}
  end.
Definition s_return (w : world) (r : result) : world :=
  let s := ws w in
  match r with
  | ROk => set_s w {| spc := spc s; sver := sver s; smapq := smapq s; smapb := smapb s; sdup := sdup s;
                      sret := Some ROk; sopen := sopen s; sstall := sstall s; stimed := stimed s |}
  | RErr _ => {| wc := wc w;
                 ws := {| spc := spc s; sver := sver s; smapq := None; smapb := None; sdup := false;
                          sret := Some r; sopen := sopen s; sstall := sstall s; stimed := stimed s |};
                 c2s := c2s w; s2c := s2c w;
                 fs := unlink (smapb s) (unlink (smapq s) (fs w));
                 c_out := c_out w; c_cons := c_cons w; s_out := s_out w; s_cons := s_cons w |}
  | RPanic _ =>  (* an unrecovered panic in the goroutine takes the whole process down *)
      set_s w {| spc := spc s; sver := sver s; smapq := None; smapb := None; sdup := false;
                 sret := Some r; sopen := false; sstall := sstall s; stimed := stimed s |}
  end.

Definition step (cfg : config) (w : world) (l : label) : world :=
  let c := wc w in let s := ws w in
  match l with
  | LC =>
      if c_running c then
        match cstep cfg (cpc c) (cver c) (s2c w) (sopen s && negb (ctimed c)) with
        | None => w
        | Some o =>
            {| wc := {| cpc := co_pc o; cver := co_ver o; cmapq := cmapq c; cmapb := cmapb c; cdup := cdup c;
                        cret := cret c; copen := copen c; cstall := cstall c; ctimed := ctimed c |};
               ws := s; c2s := c2s w ++ co_write o; s2c := co_inbox o; fs := fs w;
               c_out := c_out w ++ co_write o; c_cons := c_cons w ++ co_cons o;
               s_out := s_out w; s_cons := s_cons w |}
        end
      else w
  | LS =>
      if s_running s then
        match sstep (sgen cfg) (fs w) (spc s) (sver s) (c2s w) (copen c && negb (stimed s)) with
        | None => w
        | Some o =>
            {| wc := c;
               ws := {| spc := so_pc o; sver := so_ver o; smapq := so_mapq o; smapb := so_mapb o; sdup := sdup s;
                        sret := sret s; sopen := sopen s; sstall := sstall s; stimed := stimed s |};
               c2s := so_inbox o; s2c := s2c w ++ so_write o; fs := fs w;
               c_out := c_out w; c_cons := c_cons w;
               s_out := s_out w ++ so_write o; s_cons := s_cons w ++ so_cons o |}
        end
      else w
  | LRetC =>
      if c_running c then
        match cpc c, cret c with
        | CDone r, None => c_return w (if ctimed c then RErr ETimeout else r)
        | _, _ => w
        end
      else w
  | LRetS =>
      if s_running s then
        match spc s, sret s with
        | SDone r, None => s_return w (if stimed s then match r with RPanic _ => r | _ => RErr ETimeout end else r)
        | _, _ => w
        end
      else w
  | LTimerC =>
      if c_running c then
        match cret c with
        | Some _ => w
        | None =>
            match cpc c with
            | CDone _ => c_return w (RErr ETimeout)     (* the select took the timer although the result was ready *)
            | _ => set_c w {| cpc := cpc c; cver := cver c; cmapq := cmapq c; cmapb := cmapb c; cdup := cdup c;
                              cret := cret c; copen := copen c; cstall := cstall c; ctimed := true |}
            end
        end
      else w
  | LTimerS =>
      if s_running s then
        match sret s with
        | Some _ => w
        | None =>
            match spc s with
            | SDone (RPanic y) => s_return w (RPanic y)
            | SDone _ => s_return w (RErr ETimeout)
            | _ => set_s w {| spc := spc s; sver := sver s; smapq := smapq s; smapb := smapb s; sdup := sdup s;
                              sret := sret s; sopen := sopen s; sstall := sstall s; stimed := true |}
            end
        end
      else w
  | LStallC => set_c w {| cpc := cpc c; cver := cver c; cmapq := cmapq c; cmapb := cmapb c; cdup := cdup c;
                          cret := cret c; copen := copen c; cstall := true; ctimed := ctimed c |}
  | LStallS => set_s w {| spc := spc s; sver := sver s; smapq := smapq s; smapb := smapb s; sdup := sdup s;
                          sret := sret s; sopen := sopen s; sstall := true; stimed := stimed s |}
  | LDieC => set_c w {| cpc := cpc c; cver := cver c; cmapq := None; cmapb := None; cdup := false;
                        cret := cret c; copen := false; cstall := cstall c; ctimed := ctimed c |}
  | LDieS => set_s w {| spc := spc s; sver := sver s; smapq := None; smapb := None; sdup := false;
                        sret := sret s; sopen := false; sstall := sstall s; stimed := stimed s |}
  | LRmQ => {| wc := c; ws := s; c2s := c2s w; s2c := s2c w; fs := remove_path (qpath cfg) (fs w);
               c_out := c_out w; c_cons := c_cons w; s_out := s_out w; s_cons := s_cons w |}
  | LRmB => {| wc := c; ws := s; c2s := c2s w; s2c := s2c w; fs := remove_path (bpath cfg) (fs w);
               c_out := c_out w; c_cons := c_cons w; s_out := s_out w; s_cons := s_cons w |}
  end.

Definition run (cfg : config) (sch : list label) (w : world) : world := fold_left (step cfg) sch w.

(* the version both ends must agree on: the client announces 2 (file, no exchange) or its highest *)
Definition client_version (cfg : config) : Z :=
  match mt cfg with MFile => c_protoVersion | MMemfd => c_maxSupportProtoVersion end.
Definition negotiated (cfg : config) : Z := Z.min (client_version cfg) (sgen cfg).

(* what the honest ends ever write (used by the proofs and by the correspondence) *)
Definition cscript (cfg : config) : list frame :=
  match mt cfg with
  | MFile => [FBytes (generate c_protoVersion c_typeShareMemoryByFilePath (qpath cfg) (bpath cfg))]
  | MMemfd => [hdr8 c_maxSupportProtoVersion c_typeExchangeProtoVersion;
               FBytes (generate c_initializerVersion_3 c_typeShareMemoryByMemfd (qpath cfg) (bpath cfg));
               FFds [bobj cfg; qobj cfg]]
  end.
Definition sscript (cfg : config) : list frame :=
  match mt cfg with
  | MFile => []
  | MMemfd => [hdr8 (sgen cfg) c_typeExchangeProtoVersion;
               hdr8 c_initializerVersion_3 c_typeAckReadyRecvFD; hdr8 c_initializerVersion_3 c_typeAckShareMemory]
  end.

(* a fair fault-free schedule long enough for either flow *)
Definition happy : list label := [LC; LS; LC; LS; LC; LS; LC; LS; LRetC; LRetS].

(* resources an end still holds *)
Definition c_mapped (w : world) : list mapping :=
  match cmapq (wc w) with Some m => [m] | None => [] end ++ match cmapb (wc w) with Some m => [m] | None => [] end.
Definition s_mapped (w : world) : list mapping :=
  match smapq (ws w) with Some m => [m] | None => [] end ++ match smapb (ws w) with Some m => [m] | None => [] end.
(* the initialiser goroutine is still alive (running or blocked in a raw read) *)
Definition c_thread_alive (w : world) : bool := match cpc (wc w) with CDone _ => false | _ => copen (wc w) end.
Definition s_thread_alive (w : world) : bool := match spc (ws w) with SDone _ => false | _ => sopen (ws w) end.
