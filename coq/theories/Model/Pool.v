(* Model of the stream pool of session_manager.go (streamPool push/pop ring, getOrOpenStream,
   putOrCloseStream, close), Stream.reset / ReleaseReadAndReuse / Close / Flush as far as the pool
   observes them, and the session's stream table (GetActiveStreamCount).
   NO PROOFS in this file (it must still run when a proof breaks).

   Granularity.  One label = one API call of one caller (Get, Write, Flush, Read, Release,
   Close of a held stream) or one event of the environment (peer data / peer close reaching the
   client, circuit-breaker timer, session loss, the session's cleanup closure, one pop of the
   manager's pool.close(), the rebuild).  This is sound for the ring clauses because push and pop
   run entirely under the pool mutex (they are atomic), a popped stream is exclusively owned by the
   popping caller until it is returned or dropped, and the flags read afterwards (session shutdown,
   stream state) are single atomic loads of monotone flags; so every concurrent execution of
   GetStream by any number of callers is equivalent to a history of the atomic labels below.  PutBack is
   two labels (PutPrepare: its work on the still exclusively held stream; PutPush: the hand-over).
   Callers are arbitrary natural numbers: any number of callers, any interleaving of their calls.

   Buffers are modelled as the list of the remaining byte counts of their slices (enough to decide
   Len() = 0 and sliceList.size() = 1, the two conditions of ReleaseReadAndReuse); writes are assumed
   to fit the current slice (slice-level behaviour is C06's subject, slot accounting is C09's).

   The model has two switches, both translated from the Go source on every run (Gen/SwitchC15.v):
   [fx] = true : getOrOpenStream closes a popped stream it does not hand out (not open / session closed);
   [fx] = false: it drops it without Close (the code before the repair; kept for the regression);
   [fy] = true : Stream.reset() fails when the send buffer still holds written, unflushed bytes (so that
                 putOrCloseStream closes the stream instead of pooling it);
   [fy] = false: reset() does not look at the send buffer (the code before the repair). *)
From Coq Require Import List ZArith Bool Arith.
From Shm Require Import Gen.Consts.
Import ListNotations.
Open Scope Z_scope.

Inductive sstate := Opened | Closed | HalfClosed.
Definition sstate_eqb (a b : sstate) : bool :=
  match a, b with Opened, Opened | Closed, Closed | HalfClosed, HalfClosed => true | _, _ => false end.
Definition sstate_code (a : sstate) : Z :=
  match a with Opened => c_streamOpened | Closed => c_streamClosed | HalfClosed => c_streamHalfClosed end.

Record stream := {
  sst : sstate;
  ssess : nat;                (* the session the stream belongs to *)
  rbuf : list Z;              (* recvBuf: unread bytes per slice *)
  sbuf : list Z;              (* sendBuf: written bytes per slice *)
  sheap : bool;               (* sendBuf holds a heap slice (isFromShm = false) *)
  pend : list (Z * bool);     (* pendingData.unread: (bytes, arrived over the socket fallback) *)
  infb : bool }.              (* inFallbackState *)

Record session := { shut : bool; cleaned : bool; unhealthy : bool; table : list nat }.

Record st := {
  fx : bool; fy : bool; cap : Z;
  prep : list nat;                                       (* streams whose PutBack has done its work on the stream and has not pushed yet *)
  slots : Z -> nat; head : Z; tail : Z;                  (* the ring *)
  streams : nat -> stream; nstreams : nat;
  sessions : nat -> session; cur : nat; nsess : nat;     (* cur = pool.session *)
  held : list (nat * nat) }.                             (* (caller, stream) handed out by Get *)

Inductive label :=
| Get (c : nat) | PutPrepare (c x : nat) | PutPush (c x : nat)
| Write (c x : nat) (n : Z) (heap : bool) | Flush (c x : nat) | Read (c x : nat) (k : Z)
| Release (c x : nat) | CloseS (c x : nat)
| PeerData (x : nat) (n : Z) (fb : bool) | PeerClose (x : nat) | Heal
| SessLoss | SessCleanup (k : nat) | BgPop | Rebuild.

Inductive result := RNone | RGot (x : nat) | RUnhealthy | RShutdown | RIgnored.

Definition sumz (l : list Z) : Z := fold_right Z.add 0 l.
Definition new_stream (k : nat) : stream :=
  {| sst := Opened; ssess := k; rbuf := []; sbuf := []; sheap := false; pend := []; infb := false |}.
Definition new_session : session := {| shut := false; cleaned := false; unhealthy := false; table := [] |}.

Definition init (f g : bool) (c : Z) : st :=
  {| fx := f; fy := g; prep := []; cap := c; slots := fun _ => O; head := 0; tail := 0;
     streams := fun _ => new_stream O; nstreams := O;
     sessions := fun _ => new_session; cur := O; nsess := 1%nat; held := [] |}.

(* ---- setters ---- *)
Definition updn {A} (f : nat -> A) (k : nat) (v : A) : nat -> A := fun i => if Nat.eqb i k then v else f i.
Definition updz {A} (f : Z -> A) (k : Z) (v : A) : Z -> A := fun i => if i =? k then v else f i.

Definition set_stream (x : nat) (v : stream) (s : st) : st :=
  {| fx := fx s; fy := fy s; prep := prep s; cap := cap s; slots := slots s; head := head s; tail := tail s;
     streams := updn (streams s) x v; nstreams := nstreams s;
     sessions := sessions s; cur := cur s; nsess := nsess s; held := held s |}.
Definition set_session (k : nat) (v : session) (s : st) : st :=
  {| fx := fx s; fy := fy s; prep := prep s; cap := cap s; slots := slots s; head := head s; tail := tail s;
     streams := streams s; nstreams := nstreams s;
     sessions := updn (sessions s) k v; cur := cur s; nsess := nsess s; held := held s |}.
Definition set_held (h : list (nat * nat)) (s : st) : st :=
  {| fx := fx s; fy := fy s; prep := prep s; cap := cap s; slots := slots s; head := head s; tail := tail s;
     streams := streams s; nstreams := nstreams s;
     sessions := sessions s; cur := cur s; nsess := nsess s; held := h |}.
Definition set_head (h : Z) (s : st) : st :=
  {| fx := fx s; fy := fy s; prep := prep s; cap := cap s; slots := slots s; head := h; tail := tail s;
     streams := streams s; nstreams := nstreams s;
     sessions := sessions s; cur := cur s; nsess := nsess s; held := held s |}.

Definition with_table (t : list nat) (k : session) : session :=
  {| shut := shut k; cleaned := cleaned k; unhealthy := unhealthy k; table := t |}.
Definition with_unhealthy (b : bool) (k : session) : session :=
  {| shut := shut k; cleaned := cleaned k; unhealthy := b; table := table k |}.

Definition is_open (v : stream) : bool := sstate_eqb (sst v) Opened.
Definition closed_of (v : stream) : stream :=
  {| sst := Closed; ssess := ssess v; rbuf := []; sbuf := []; sheap := false; pend := []; infb := infb v |}.

Definition remove_nat (x : nat) (l : list nat) : list nat := filter (fun y => negb (Nat.eqb y x)) l.

(* Stream.Close / close / clean: CAS to closed, leave the session table, recycle every buffer *)
Definition close_stream (x : nat) (s : st) : st :=
  let v := streams s x in
  match sst v with
  | Closed => s
  | _ => let k := ssess v in
         set_session k (with_table (remove_nat x (table (sessions s k))) (sessions s k))
           (set_stream x (closed_of v) s)
  end.

(* ---- the ring (session_manager.go pop / push, under p.Lock) ---- *)
Definition ring_push (x : nat) (s : st) : option st :=
  if tail s - head s <? cap s then
    Some {| fx := fx s; fy := fy s; prep := prep s; cap := cap s; slots := updz (slots s) (tail s mod cap s) x; head := head s; tail := tail s + 1;
            streams := streams s; nstreams := nstreams s;
            sessions := sessions s; cur := cur s; nsess := nsess s; held := held s |}
  else None.
Definition ring_pop (s : st) : option (nat * st) :=
  if tail s >? head s then Some (slots s (head s mod cap s), set_head (head s + 1) s) else None.

(* what getOrOpenStream does with a popped stream it will not return *)
Definition discard (x : nat) (s : st) : st := if fx s then close_stream x s else s.

Fixpoint get_loop (fuel : nat) (s : st) : st * option nat :=
  match fuel with
  | O => (s, None)
  | S f =>
    match ring_pop s with
    | None => (s, None)
    | Some (x, s1) =>
      let v := streams s1 x in
      if negb (shut (sessions s1 (ssess v))) && is_open v then (s1, Some x)
      else get_loop f (discard x s1)
    end
  end.

Definition add_held (c x : nat) (s : st) : st := set_held (held s ++ [(c, x)]) s.
Definition pair_eqb (a b : nat * nat) : bool := Nat.eqb (fst a) (fst b) && Nat.eqb (snd a) (snd b).
Definition holds (c x : nat) (s : st) : bool := existsb (pair_eqb (c, x)) (held s).
Definition rem_held (c x : nat) (s : st) : st := set_held (filter (fun p => negb (pair_eqb (c, x) p)) (held s)) s.

(* Session.OpenStream on the pool's current session *)
Definition open_stream (c : nat) (s : st) : st * result :=
  let k := sessions s (cur s) in
  if shut k then (s, RShutdown)
  else if unhealthy k then (s, RUnhealthy)
  else
    let x := nstreams s in
    let s1 := {| fx := fx s; fy := fy s; prep := prep s; cap := cap s; slots := slots s; head := head s; tail := tail s;
                 streams := updn (streams s) x (new_stream (cur s)); nstreams := S x;
                 sessions := updn (sessions s) (cur s) (with_table (table k ++ [x]) k);
                 cur := cur s; nsess := nsess s; held := held s |} in
    (add_held c x s1, RGot x).

Definition do_get (c : nat) (s : st) : st * result :=
  if unhealthy (sessions s (cur s)) then (s, RUnhealthy)
  else match get_loop (Z.to_nat (tail s - head s)) s with
       | (s1, Some x) => (add_held c x s1, RGot x)
       | (s1, None) => open_stream c s1
       end.

(* Stream.reset succeeds: open, nothing unread, nothing pending and - in the variant g = true - nothing
   written but unflushed in the send buffer *)
Definition resettable (g : bool) (v : stream) : bool :=
  is_open v && (sumz (rbuf v) =? 0) && match pend v with [] => true | _ => false end
  && (negb g || (sumz (sbuf v) =? 0)).

(* reset + ReleaseReadAndReuse: a fully read single receive slice is kept and becomes the next send
   buffer; the old send buffer - whatever it contains - becomes the receive buffer *)
Definition recycled_for_reuse (v : stream) : stream :=
  match rbuf v with
  | [r] => if r =? 0
           then {| sst := sst v; ssess := ssess v; rbuf := sbuf v; sbuf := [0]; sheap := sheap v; pend := pend v; infb := false |}
           else {| sst := sst v; ssess := ssess v; rbuf := rbuf v; sbuf := sbuf v; sheap := sheap v; pend := pend v; infb := false |}
  | _ => {| sst := sst v; ssess := ssess v; rbuf := rbuf v; sbuf := sbuf v; sheap := sheap v; pend := pend v; infb := false |}
  end.

Definition memn (x : nat) (l : list nat) : bool := existsb (Nat.eqb x) l.
Definition set_prep (l : list nat) (s : st) : st :=
  {| fx := fx s; fy := fy s; prep := l; cap := cap s; slots := slots s; head := head s; tail := tail s;
     streams := streams s; nstreams := nstreams s;
     sessions := sessions s; cur := cur s; nsess := nsess s; held := held s |}.
(* the caller may use the stream: it was handed to it and it is not inside PutBack with it *)
Definition owns (c x : nat) (s : st) : bool := holds c x s && negb (memn x (prep s)).

(* SessionManager.PutBack is NOT atomic.  Its work on the stream (fallback test, reset(),
   ReleaseReadAndReuse: pinned slices released, buffers swapped) touches only the stream, which the
   putting goroutine still holds exclusively - one label, PutPrepare, after which the stream is STILL HELD
   by the caller; only the last step, PutPush (push under the pool mutex, or Close when the ring is full),
   gives the stream up and makes it visible to other callers.  A PutPush without a preceding PutPrepare is
   not a step of the model: code that pushes first and releases afterwards is not an implementation. *)
Definition do_put_prepare (c x : nat) (s : st) : st * result :=
  if negb (owns c x s) then (s, RIgnored)      (* callers give back only what they were given *)
  else
    let v := streams s x in
    if infb v then (close_stream x (rem_held c x s), RNone)
    else if negb (resettable (fy s) v) then (close_stream x (rem_held c x s), RNone)
    else (set_prep (x :: prep s) (set_stream x (recycled_for_reuse v) s), RNone).

Definition do_put_push (c x : nat) (s : st) : st * result :=
  if negb (holds c x s && memn x (prep s)) then (s, RIgnored)
  else
    let s1 := set_prep (filter (fun y => negb (Nat.eqb y x)) (prep s)) (rem_held c x s) in
    match ring_push x s1 with
    | Some s2 => (s2, RNone)
    | None => (close_stream x s1, RNone)
    end.

(* the whole PutBack when nothing interleaves *)
Definition put_labels (c x : nat) : list label := [PutPrepare c x; PutPush c x].

(* ---- what a holder does with its stream ---- *)
Fixpoint add_last (n : Z) (l : list Z) : list Z :=
  match l with [] => [n] | [a] => [a + n] | a :: t => a :: add_last n t end.

Definition do_write (x : nat) (n : Z) (heap : bool) (s : st) : st :=
  let v := streams s x in
  set_stream x {| sst := sst v; ssess := ssess v; rbuf := rbuf v; sbuf := add_last n (sbuf v);
                  sheap := match sbuf v with [] => heap | _ => sheap v end; pend := pend v; infb := infb v |} s.

Definition do_flush (x : nat) (s : st) : st :=
  let v := streams s x in
  if sumz (sbuf v) =? 0 then s
  else if negb (is_open v) then
    set_stream x {| sst := sst v; ssess := ssess v; rbuf := rbuf v; sbuf := []; sheap := false; pend := pend v; infb := infb v |} s
  else
    let fb := sheap v || infb v in
    let s1 := set_stream x {| sst := sst v; ssess := ssess v; rbuf := rbuf v; sbuf := []; sheap := false; pend := pend v; infb := fb |} s in
    if fb then set_session (ssess v) (with_unhealthy true (sessions s1 (ssess v))) s1 else s1.

Fixpoint consume (k : Z) (l : list Z) : list Z :=
  match l with
  | [] => []
  | a :: t => if k <=? a then (a - k) :: t else consume (k - a) t
  end.

Definition do_read (x : nat) (k : Z) (s : st) : st :=
  let v := streams s x in
  let r := rbuf v ++ map fst (pend v) in
  let fb := infb v || existsb snd (pend v) in
  let r' := if (0 <? k) && (k <=? sumz r) then consume k r else r in
  set_stream x {| sst := sst v; ssess := ssess v; rbuf := r'; sbuf := sbuf v; sheap := sheap v; pend := []; infb := fb |} s.

Definition do_release (x : nat) (s : st) : st :=
  let v := streams s x in
  match rbuf v with
  | [r] => if r =? 0
           then set_stream x {| sst := sst v; ssess := ssess v; rbuf := []; sbuf := sbuf v; sheap := sheap v; pend := pend v; infb := infb v |} s
           else s
  | _ => s
  end.

(* ---- the environment ---- *)
Definition in_table (x : nat) (s : st) : bool :=
  existsb (Nat.eqb x) (table (sessions s (ssess (streams s x)))).

Definition do_peer_data (x : nat) (n : Z) (fb : bool) (s : st) : st :=
  if negb (Nat.ltb x (nstreams s)) then s else
  let v := streams s x in
  let s1 := if fb then set_session (ssess v) (with_unhealthy true (sessions s (ssess v))) s else s in
  if in_table x s then
    set_stream x {| sst := sst v; ssess := ssess v; rbuf := rbuf v; sbuf := sbuf v; sheap := sheap v;
                    pend := pend v ++ [(n, fb)]; infb := infb v |} s1
  else s1.

Definition do_peer_close (x : nat) (s : st) : st :=
  let v := streams s x in
  if Nat.ltb x (nstreams s) && is_open v then
    set_stream x {| sst := HalfClosed; ssess := ssess v; rbuf := rbuf v; sbuf := sbuf v; sheap := sheap v; pend := pend v; infb := infb v |} s
  else s.

(* the closure posted by Session.Close: every stream still in the table is closed, the table dropped *)
Definition do_cleanup (k : nat) (s : st) : st :=
  let ks := sessions s k in
  if shut ks && negb (cleaned ks) then
    {| fx := fx s; fy := fy s; prep := prep s; cap := cap s; slots := slots s; head := head s; tail := tail s;
       streams := fun x => if existsb (Nat.eqb x) (table ks) then closed_of (streams s x) else streams s x;
       nstreams := nstreams s;
       sessions := updn (sessions s) k {| shut := true; cleaned := true; unhealthy := unhealthy ks; table := [] |};
       cur := cur s; nsess := nsess s; held := held s |}
  else s.

Definition do_sess_loss (s : st) : st :=
  let ks := sessions s (cur s) in
  set_session (cur s) {| shut := true; cleaned := cleaned ks; unhealthy := unhealthy ks; table := table ks |} s.

(* one iteration of streamPool.close() run by the manager after the session's CloseChan fired *)
Definition do_bg_pop (s : st) : st :=
  if shut (sessions s (cur s)) then
    match ring_pop s with Some (x, s1) => close_stream x s1 | None => s end
  else s.

Definition do_rebuild (s : st) : st :=
  if shut (sessions s (cur s)) then
    {| fx := fx s; fy := fy s; prep := prep s; cap := cap s; slots := slots s; head := head s; tail := tail s;
       streams := streams s; nstreams := nstreams s;
       sessions := updn (sessions s) (nsess s) new_session; cur := nsess s; nsess := S (nsess s); held := held s |}
  else s.

Definition step (s : st) (l : label) : st * result :=
  match l with
  | Get c => do_get c s
  | PutPrepare c x => do_put_prepare c x s
  | PutPush c x => do_put_push c x s
  | Write c x n h => if owns c x s && (0 <? n) then (do_write x n h s, RNone) else (s, RIgnored)
  | Flush c x => if owns c x s then (do_flush x s, RNone) else (s, RIgnored)
  | Read c x k => if owns c x s then (do_read x k s, RNone) else (s, RIgnored)
  | Release c x => if owns c x s then (do_release x s, RNone) else (s, RIgnored)
  | CloseS c x => if owns c x s then (close_stream x s, RNone) else (s, RIgnored)
  | PeerData x n fb => (do_peer_data x n fb s, RNone)
  | PeerClose x => (do_peer_close x s, RNone)
  | Heal => (set_session (cur s) (with_unhealthy false (sessions s (cur s))) s, RNone)
  | SessLoss => (do_sess_loss s, RNone)
  | SessCleanup k => (do_cleanup k s, RNone)
  | BgPop => (do_bg_pop s, RNone)
  | Rebuild => (do_rebuild s, RNone)
  end.

Fixpoint run (s : st) (h : list label) : st :=
  match h with [] => s | l :: t => run (fst (step s l)) t end.

(* ---- derived notions used by the property statements ---- *)
(* pooled or about to be: PutBack has finished its work on the stream *)
Definition prepared (s : st) (x : nat) : Prop := In x (prep s).
Definition pooled (s : st) (x : nat) : Prop := exists i, head s <= i < tail s /\ slots s (i mod cap s) = x.
Definition holder (s : st) (c x : nat) : Prop := In (c, x) (held s).

Fixpoint zseq (start : Z) (n : nat) : list Z :=
  match n with O => [] | S m => start :: zseq (start + 1) m end.
Definition ring_list (s : st) : list nat :=
  map (fun i => slots s (i mod cap s)) (zseq (head s) (Z.to_nat (tail s - head s))).
