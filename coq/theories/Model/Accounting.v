(* Slot-ownership model of one session pair (C09): every shared-memory slot is in exactly one place —
   the free lists / held by the application outside any stream (the harness) / in the send buffer of a
   stream / in flight in one of the two IO queues / in a stream's pendingData / in its receive buffer /
   in its pinned list / parked as the reserved slice of a reusable (pooled) stream / in the pinned list
   of a stream object that is already closed ([leaked]).
   NO PROOFS in this file.

   One label = one API call or one run of an endpoint's event loop (handlePolling drains the whole
   queue).  Every recycle site of the code is its own branch:
     Flush on a non-open stream (stream.go:205), done()'s unused tail (buffer.go:252), the fallback
     write (stream.go:267), queue full after the retries (stream.go:249), the poller's unknown-stream
     branch (protocol_manager.go:266), clean() = pendingData.clear + recvBuf.recycle + sendBuf.recycle
     (stream.go:329), readNextSlice pin-or-recycle (buffer.go:473), ReleasePreviousRead (buffer.go:447),
     empty slices met by moveTo (stream.go:491), reset + ReleaseReadAndReuse (pool put-back).
   Allocation is an INPUT of the model: a Write label names the slots the allocator handed out (any
   subset of the free slots, possibly none = allocation failure -> heap slice -> socket fallback), a
   Flush label names the bytes per slice.  The theorems quantify over all of them, the correspondence
   feeds the observed ones (and rejects a slot that the model does not consider free).

   [gx] = true : the write side (linkedBuffer.alloc, Reserve) takes no shared memory for a stream that has been
                 closed - such writes go to heap slices; [gx] = false: it allocates shared memory (no state check);
   [fx] = true : linkedBuffer.recycle() also cleans the pinned list (the code since a234a74);
   [fx] = false: recycle() does not touch the pinned list (the code before; kept for the regression).
   Which variant /repo is, is translated from buffer.go on every run (Gen/SwitchC09.v). *)
From Coq Require Import List ZArith Bool Arith.
From Shm Require Import Gen.Consts.
Import ListNotations.
Open Scope Z_scope.

Record rslice := { rs_slot : option Z; rs_bytes : Z }.        (* slots are numbered 0 .. nslots-1 (Z: fast comparison) *)
(* None = heap (fallback) slice *)        (* None = heap (fallback) slice *)
Inductive pentry := PShm (chain : list (Z * Z)) | PFb (bytes : Z).

Record stream := {
  alive : bool;            (* in the session's stream table (not closed locally) *)
  half : bool;             (* closed by the peer *)
  infb : bool;             (* inFallbackState *)
  sendb : list Z; sheap : bool;
  recvb : list rslice; cpin : bool; pinned : list Z;
  scpin : bool;            (* currentPinned of the linkedBuffer object that is the SEND buffer now (the two buffer objects are swapped by ReleaseReadAndReuse and keep their flags) *)
  rheap : bool;            (* isFromShm = false of the linkedBuffer object that is the RECEIVE buffer now *)
  pend : list pentry }.

Record qelem := { q_sid : nat; q_chain : list (Z * Z); q_closed : bool }.

Record st := {
  fx : bool; gx : bool; nslots : nat; qcap : Z;
  free : list Z; ext : list Z; leaked : list Z;
  q_srv : list qelem;      (* client -> server *)
  q_cli : list qelem;      (* server -> client *)
  streams : nat -> stream; keys : list nat }.

(* endpoint: false = client, true = server *)
Definition key (e : bool) (sid : nat) : nat := (2 * sid + (if e then 1 else 0))%nat.

Inductive rkind := RBytes | RDiscard | RPeek.

Inductive label :=
| Open (sid : nat)
| Write (e : bool) (sid : nat) (new : list Z) (heap : bool)
| Flush (e : bool) (sid : nat) (sizes : list Z) (wpos : nat)
| Poll (e : bool)
| Read (e : bool) (sid : nat) (kind : rkind) (k : Z)
| Release (e : bool) (sid : nat)
| Reuse (e : bool) (sid : nat)
| Close (e : bool) (sid : nat)
| ExtHold (new : list Z) | ExtReturn
| Inject (to_srv : bool) (sid : nat) (chain : list (Z * Z)).

Definition dead_stream : stream :=
  {| alive := false; half := false; infb := false; sendb := []; sheap := false;
     recvb := []; cpin := false; pinned := []; scpin := false; rheap := false; pend := [] |}.
Definition fresh_stream : stream :=
  {| alive := true; half := false; infb := false; sendb := []; sheap := false;
     recvb := []; cpin := false; pinned := []; scpin := false; rheap := false; pend := [] |}.

Definition init (f g : bool) (n : nat) (qc : Z) : st :=
  {| fx := f; gx := g; nslots := n; qcap := qc; free := map Z.of_nat (seq 0 n); ext := []; leaked := [];
     q_srv := []; q_cli := []; streams := fun _ => dead_stream; keys := [] |}.

(* ---- helpers ---- *)
Definition updn {A} (f : nat -> A) (k : nat) (v : A) : nat -> A := fun i => if Nat.eqb i k then v else f i.
Definition memk (x : nat) (l : list nat) : bool := existsb (Nat.eqb x) l.
Definition mem (x : Z) (l : list Z) : bool := existsb (Z.eqb x) l.
Definition minus_list (l r : list Z) : list Z := filter (fun x => negb (mem x r)) l.
Fixpoint nodupb (l : list Z) : bool :=
  match l with [] => true | x :: t => negb (mem x t) && nodupb t end.
Definition subsetb (a b : list Z) : bool := forallb (fun x => mem x b) a.
Definition sumz (l : list Z) : Z := fold_right Z.add 0 l.

Definition set_stream (k : nat) (v : stream) (s : st) : st :=
  {| fx := fx s; gx := gx s; nslots := nslots s; qcap := qcap s; free := free s; ext := ext s; leaked := leaked s;
     q_srv := q_srv s; q_cli := q_cli s; streams := updn (streams s) k v;
     keys := if memk k (keys s) then keys s else keys s ++ [k] |}.
Definition add_free (l : list Z) (s : st) : st :=
  {| fx := fx s; gx := gx s; nslots := nslots s; qcap := qcap s; free := free s ++ l; ext := ext s; leaked := leaked s;
     q_srv := q_srv s; q_cli := q_cli s; streams := streams s; keys := keys s |}.
Definition set_free_ext (f e : list Z) (s : st) : st :=
  {| fx := fx s; gx := gx s; nslots := nslots s; qcap := qcap s; free := f; ext := e; leaked := leaked s;
     q_srv := q_srv s; q_cli := q_cli s; streams := streams s; keys := keys s |}.
Definition add_leaked (l : list Z) (s : st) : st :=
  {| fx := fx s; gx := gx s; nslots := nslots s; qcap := qcap s; free := free s; ext := ext s; leaked := leaked s ++ l;
     q_srv := q_srv s; q_cli := q_cli s; streams := streams s; keys := keys s |}.
(* queue towards the server (to_srv = true) or towards the client *)
Definition queue_to (to_srv : bool) (s : st) : list qelem := if to_srv then q_srv s else q_cli s.
Definition set_queue (to_srv : bool) (q : list qelem) (s : st) : st :=
  {| fx := fx s; gx := gx s; nslots := nslots s; qcap := qcap s; free := free s; ext := ext s; leaked := leaked s;
     q_srv := if to_srv then q else q_srv s; q_cli := if to_srv then q_cli s else q;
     streams := streams s; keys := keys s |}.

Definition rslots (l : list rslice) : list Z :=
  flat_map (fun r => match rs_slot r with Some x => [x] | None => [] end) l.
Definition pslots (l : list pentry) : list Z :=
  flat_map (fun p => match p with PShm c => map fst c | PFb _ => [] end) l.
Definition sslots (v : stream) : list Z := sendb v ++ rslots (recvb v) ++ pinned v ++ pslots (pend v).
Definition qslots (q : list qelem) : list Z := flat_map (fun e => map fst (q_chain e)) q.
Definition stream_slots (s : st) : list Z := flat_map (fun k => sslots (streams s k)) (keys s).
Definition all_slots (s : st) : list Z :=
  free s ++ ext s ++ leaked s ++ qslots (q_srv s) ++ qslots (q_cli s) ++ stream_slots s.

Definition in_use (s : st) : Z := Z.of_nat (nslots s) - Z.of_nat (length (free s)).
Definition is_open (v : stream) : bool := alive v && negb (half v).

(* the stream the receiving endpoint e finds for an event with this id (Session.getStream): the server
   accepts a new stream for data of an unknown id; the client does not *)
Definition deliver_data (e : bool) (sid : nat) (p : pentry) (s : st) : st :=
  let k := key e sid in
  let v := streams s k in
  if alive v then
    set_stream k {| alive := true; half := half v; infb := infb v; sendb := sendb v; sheap := sheap v;
                    recvb := recvb v; cpin := cpin v; pinned := pinned v; scpin := scpin v; rheap := rheap v; pend := pend v ++ [p] |} s
  else if e then
    (* a NEW stream object is accepted.  The closed one holds nothing any more in its receive side (Proofs:
       dead_ok); what its owner wrote into its send buffer AFTER the close (possible without gx) stays with the
       old object, which nothing reaches any more through this id: booked as leaked *)
    add_leaked (sendb v)
      (set_stream k {| alive := true; half := false; infb := false; sendb := []; sheap := false;
                       recvb := recvb v; cpin := false; pinned := pinned v; scpin := false; rheap := false; pend := pend v ++ [p] |} s)
  else
    (* protocol_manager.go: unknown stream -> recycleBuffers *)
    add_free (pslots [p]) s.

Definition deliver_close (e : bool) (sid : nat) (s : st) : st :=
  let k := key e sid in
  let v := streams s k in
  if alive v then
    set_stream k {| alive := true; half := true; infb := infb v; sendb := sendb v; sheap := sheap v;
                    recvb := recvb v; cpin := cpin v; pinned := pinned v; scpin := scpin v; rheap := rheap v; pend := pend v |} s
  else s.

Definition deliver (e : bool) (s : st) (q : qelem) : st :=
  if q_closed q then add_free (map fst (q_chain q)) (deliver_close e (q_sid q) s)   (* a close element carries no data *)
  else deliver_data e (q_sid q) (PShm (q_chain q)) s.

(* handlePolling of endpoint e: drain the queue towards e *)
Definition do_poll (e : bool) (s : st) : st :=
  fold_left (deliver e) (queue_to e s) (set_queue e [] s).

(* ---- write / flush ---- *)
Definition do_write (e : bool) (sid : nat) (new : list Z) (heap : bool) (s : st) : option st :=
  let k := key e sid in
  let v := streams s k in
  (* a stream that has been closed locally: with gx its writes take heap slices, no slot moves; without it
     linkedBuffer has no state check - the slices go into the send buffer of a stream that clean() has already
     left behind and only a later Flush (which recycles on ErrStreamClosed) returns them *)
  if negb (alive v) && gx s then Some s
  else if negb (subsetb new (free s) && nodupb new) then None      (* the allocator handed out a slot that is not free *)
  else Some (set_stream k {| alive := alive v; half := half v; infb := infb v; sendb := sendb v ++ new;
                             sheap := sheap v || heap; recvb := recvb v; cpin := cpin v; pinned := pinned v; scpin := scpin v; rheap := rheap v; pend := pend v |}
               (set_free_ext (minus_list (free s) new) (ext s) s)).

(* pair every slice with its byte count (missing counts are 0): no slice is dropped *)
Fixpoint zip_pad (l : list Z) (sz : list Z) : list (Z * Z) :=
  match l with
  | [] => []
  | x :: t => match sz with [] => (x, 0) :: zip_pad t [] | b :: r => (x, b) :: zip_pad t r end
  end.

(* the send buffer has been cleaned (linkedBuffer.clean: isFromShm = true, currentPinned = false) *)
Definition with_send (v : stream) (fb : bool) : stream :=
  {| alive := alive v; half := half v; infb := fb; sendb := []; sheap := false;
     recvb := recvb v; cpin := cpin v; pinned := pinned v; scpin := false; rheap := rheap v; pend := pend v |}.

Definition do_flush (e : bool) (sid : nat) (sizes : list Z) (wpos : nat) (s : st) : st :=
  let k := key e sid in
  let v := streams s k in
  if sumz sizes <=? 0 then s                                  (* Len() == 0: nothing happens *)
  else if negb (is_open v) then
    add_free (sendb v) (set_stream k (with_send v (infb v)) s)                  (* stream.go:205 *)
  else if sheap v || infb v then
    (* fallback: every shm slice goes back at once, the bytes travel over the socket *)
    (* 62f988f: the peer's handleFallbackData first hands every element queued at that moment to its
       stream (consumeRecvQueue), then delivers the socket item *)
    deliver_data (negb e) sid (PFb (sumz sizes)) (do_poll (negb e) (add_free (sendb v) (set_stream k (with_send v true) s)))
  else
    let used := firstn (S wpos) (sendb v) in
    let unused := skipn (S wpos) (sendb v) in                  (* done(): unused tail *)
    let s1 := add_free unused (set_stream k (with_send v false) s) in
    if Z.of_nat (length (queue_to (negb e) s)) >=? qcap s then
      add_free used s1                                         (* queue full after the retries *)
    else
      set_queue (negb e) (queue_to (negb e) s ++ [{| q_sid := sid; q_chain := zip_pad used sizes; q_closed := false |}]) s1.

(* ---- reading ---- *)
Definition is_pfb (p : pentry) : bool := match p with PFb _ => true | PShm _ => false end.
Definition move_entry (p : pentry) (acc : list rslice * list Z * bool) : list rslice * list Z * bool :=
  let '(r, fr, fb) := acc in
  match p with
  | PFb b => (r ++ [{| rs_slot := None; rs_bytes := b |}], fr, true)
  | PShm c =>
    (r ++ map (fun xb => {| rs_slot := Some (fst xb); rs_bytes := snd xb |}) (filter (fun xb => 0 <? snd xb) c),
     fr ++ map fst (filter (fun xb => negb (0 <? snd xb)) c), fb)      (* empty slices are recycled by moveTo *)
  end.
Definition move_all (v : stream) : list rslice * list Z * bool :=
  fold_left (fun acc p => move_entry p acc) (pend v) (recvb v, [], infb v).

Record rstate := { r_buf : list rslice; r_pin : list Z; r_free : list Z; r_cpin : bool }.

(* readNextSlice *)
Definition read_next (r : rstate) : rstate :=
  match r_buf r with
  | [] => r
  | a :: t =>
    match rs_slot a with
    | Some x => if r_cpin r
                then {| r_buf := t; r_pin := r_pin r ++ [x]; r_free := r_free r; r_cpin := false |}
                else {| r_buf := t; r_pin := r_pin r; r_free := r_free r ++ [x]; r_cpin := false |}
    | None => {| r_buf := t; r_pin := r_pin r; r_free := r_free r; r_cpin := false |}
    end
  end.
Definition front_bytes (r : rstate) : Z := match r_buf r with [] => 0 | a :: _ => rs_bytes a end.
Definition take_front (n : Z) (r : rstate) : rstate :=
  match r_buf r with
  | [] => r
  | a :: t => {| r_buf := {| rs_slot := rs_slot a; rs_bytes := rs_bytes a - n |} :: t;
                 r_pin := r_pin r; r_free := r_free r; r_cpin := r_cpin r |}
  end.
Definition set_cpin (b : bool) (r : rstate) : rstate :=
  {| r_buf := r_buf r; r_pin := r_pin r; r_free := r_free r; r_cpin := b |}.

(* the slow path of ReadBytes and the loop of Discard: consume k bytes, popping exhausted slices *)
Fixpoint consume (fuel : nat) (k : Z) (r : rstate) : rstate :=
  match fuel with
  | O => r
  | S f =>
    let a := front_bytes r in
    if k <=? a then take_front k r
    else consume f (k - a) (read_next (take_front a r))
  end.

Definition do_read_kind (kind : rkind) (k : Z) (r : rstate) : rstate :=
  match kind with
  | RPeek => if k <=? front_bytes r then set_cpin true r else r
  | RBytes =>
    let r1 := if front_bytes r =? 0 then read_next r else r in
    if k <=? front_bytes r1 then take_front k (set_cpin true r1)
    else consume (S (length (r_buf r1))) k r1
  | RDiscard => consume (S (length (r_buf r))) k r
  end.

Definition do_read (e : bool) (sid : nat) (kind : rkind) (k : Z) (s : st) : st :=
  let key_ := key e sid in
  let v := streams s key_ in
  if negb (alive v) then s else
  let '(rb, fr0, fb) := move_all v in
  let total := sumz (map rs_bytes rb) in
  let r0 := {| r_buf := rb; r_pin := pinned v; r_free := []; r_cpin := cpin v |} in
  let r1 := if (0 <? k) && (k <=? total) then do_read_kind kind k r0 else r0 in
  add_free (fr0 ++ r_free r1)
    (set_stream key_ {| alive := alive v; half := half v; infb := fb; sendb := sendb v; sheap := sheap v;
                        recvb := r_buf r1; cpin := r_cpin r1; pinned := r_pin r1; scpin := scpin v;
                        rheap := rheap v || existsb is_pfb (pend v); pend := [] |} s).

(* ReleasePreviousRead *)
Definition do_release (e : bool) (sid : nat) (s : st) : st :=
  let k := key e sid in
  let v := streams s k in
  if negb (alive v) then s else
  let cp := match pinned v with [] => cpin v | _ => false end in
  match recvb v with
  | [a] => if rs_bytes a =? 0
           then add_free (pinned v ++ rslots [a])
                  (set_stream k {| alive := alive v; half := half v; infb := infb v; sendb := sendb v; sheap := sheap v;
                                   recvb := []; cpin := cp; pinned := []; scpin := scpin v; rheap := rheap v; pend := pend v |} s)
           else add_free (pinned v)
                  (set_stream k {| alive := alive v; half := half v; infb := infb v; sendb := sendb v; sheap := sheap v;
                                   recvb := recvb v; cpin := cp; pinned := []; scpin := scpin v; rheap := rheap v; pend := pend v |} s)
  | _ => add_free (pinned v)
           (set_stream k {| alive := alive v; half := half v; infb := infb v; sendb := sendb v; sheap := sheap v;
                            recvb := recvb v; cpin := cp; pinned := []; scpin := scpin v; rheap := rheap v; pend := pend v |} s)
  end.

(* Stream.reset + ReleaseReadAndReuse (what the pool does on PutBack): the fully read last receive
   slice is kept and parked as the next send buffer *)
Definition do_reuse (e : bool) (sid : nat) (s : st) : st :=
  let k := key e sid in
  let v := streams s k in
  let resettable := is_open v && (sumz (map rs_bytes (recvb v)) =? 0) && match pend v with [] => true | _ => false end
                    && match sendb v with [] => true | _ => false end in
  if negb resettable then s else
  let cp := match pinned v with [] => cpin v | _ => false end in
  match recvb v with
  | [a] => match rs_slot a with
           | Some x => (* the two linkedBuffer OBJECTS are swapped: each keeps its currentPinned and isFromShm flags *)
                       add_free (pinned v)
                         (set_stream k {| alive := alive v; half := half v; infb := false; sendb := [x]; sheap := rheap v;
                                          recvb := []; cpin := scpin v; pinned := []; scpin := cp; rheap := sheap v; pend := [] |} s)
           | None => add_free (pinned v)
                         (set_stream k {| alive := alive v; half := half v; infb := false; sendb := []; sheap := sheap v;
                                          recvb := []; cpin := cp; pinned := []; scpin := scpin v; rheap := rheap v; pend := [] |} s)
           end
  | _ => add_free (pinned v)
           (set_stream k {| alive := alive v; half := half v; infb := false; sendb := sendb v; sheap := sheap v;
                            recvb := recvb v; cpin := cp; pinned := []; scpin := scpin v; rheap := rheap v; pend := pend v |} s)
  end.

(* Stream.Close -> clean(): pendingData.clear, recvBuf.recycle, sendBuf.recycle; the pinned list is
   recycled by linkedBuffer.recycle() only in the fx = true variant *)
Definition do_close (e : bool) (sid : nat) (s : st) : st :=
  let k := key e sid in
  let v := streams s k in
  if negb (alive v) then s else
  let s1 := set_stream k {| alive := false; half := half v; infb := infb v; sendb := []; sheap := false;
                            recvb := []; cpin := false; pinned := []; scpin := false; rheap := false; pend := [] |} s in
  let s2 := add_free (pslots (pend v) ++ rslots (recvb v) ++ sendb v) s1 in
  let s3 := if fx s then add_free (pinned v) s2 else add_leaked (pinned v) s2 in
  if half v then s3                                              (* no notification when the peer closed first *)
  else if infb v || (Z.of_nat (length (queue_to (negb e) s)) >=? qcap s) then
    (* the close travels over the socket: always once the stream is in fallback state (c91430a: it must
       follow the data), otherwise when the queue is full *)
    deliver_close (negb e) sid (do_poll (negb e) s3)              (* 62f988f: handleStreamClose drains the queue first *)
  else set_queue (negb e) (queue_to (negb e) s ++ [{| q_sid := sid; q_chain := []; q_closed := true |}]) s3.

Definition do_open (sid : nat) (s : st) : st :=
  let k := key false sid in
  if memk k (keys s) then s else set_stream k fresh_stream s.

Definition do_ext_hold (new : list Z) (s : st) : option st :=
  if subsetb new (free s) && nodupb new then Some (set_free_ext (minus_list (free s) new) (ext s ++ new) s) else None.

(* the application puts an element for stream sid directly into a queue without waking the peer
   (data for a stream that may not exist; also fills the queue) *)
Definition do_inject (to_srv : bool) (sid : nat) (chain : list (Z * Z)) (s : st) : option st :=
  if negb (subsetb (map fst chain) (ext s) && nodupb (map fst chain)) then None
  else if Z.of_nat (length (queue_to to_srv s)) >=? qcap s then None
  else Some (set_queue to_srv (queue_to to_srv s ++ [{| q_sid := sid; q_chain := chain; q_closed := false |}])
               (set_free_ext (free s) (minus_list (ext s) (map fst chain)) s)).

(* None = the label is not enabled in this state (the correspondence reports it) *)
Definition step (s : st) (l : label) : option st :=
  match l with
  | Open sid => Some (do_open sid s)
  | Write e sid new heap => do_write e sid new heap s
  | Flush e sid sizes wpos => Some (do_flush e sid sizes wpos s)
  | Poll e => Some (do_poll e s)
  | Read e sid kind k => Some (do_read e sid kind k s)
  | Release e sid => Some (do_release e sid s)
  | Reuse e sid => Some (do_reuse e sid s)
  | Close e sid => Some (do_close e sid s)
  | ExtHold new => do_ext_hold new s
  | ExtReturn => Some (set_free_ext (free s ++ ext s) [] s)
  | Inject t sid chain => do_inject t sid chain s
  end.

(* a label that is not enabled leaves the state unchanged: every history is a history *)
Definition step' (s : st) (l : label) : st := match step s l with Some s' => s' | None => s end.
Fixpoint run (s : st) (h : list label) : st :=
  match h with [] => s | l :: t => run (step' s l) t end.
