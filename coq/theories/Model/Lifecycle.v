(* C14 — executable model of session shutdown (session.go Close 290-340 / exitErr / onRemoteClose,
   event_dispatcher_linux.go onRemoteClose / deferredClose / post / runLambda, buffer_manager.go
   getGlobalBufferManager* / addGlobalBufferManagerRefCount / unmap, queue.go unmap).  NO proofs here.

   A process holds any number of sessions.  Each session owns: the event connection (dup'ed fd
   registered with epoll), one reference on a buffer manager of the process-wide table (several
   sessions may share one manager: the table counts references and unmaps + unlinks at 0), and its
   own queue mapping.  Close = CAS on shutdown; the winner notifies the streams, closes shutdownCh
   and POSTS a cleanup lambda that the dispatcher runs later; user threads may be anywhere inside
   Flush / WriteBytes (past the state check, about to touch the queue) at that time. *)
From Coq Require Import List ZArith Bool Lia.
From Shm Require Import Gen.Consts.
Import ListNotations.
Open Scope Z_scope.

Record strm := {
  st_state : Z;          (* c_streamOpened / c_streamClosed / c_streamHalfClosed *)
  st_notified : bool;    (* closeNotifyCh closed: pending and later reads / flush retries fail *)
  st_incb : bool;        (* an OnData callback is running on this stream *)
  st_cbs : nat }.        (* close callbacks delivered *)

Record sess := {
  sd : bool;             (* shutdown = 1 *)
  chclosed : bool;       (* shutdownCh closed: AcceptStream / waitForSend / send loop / monitor fail or exit *)
  posted : bool;         (* the cleanup lambda is in the dispatcher's pending list *)
  cleaned : bool;        (* ... and has run *)
  streams : list strm;   (* every stream ever registered and not removed by its own Close (the cleanup sets the
                            session's table to nil; the Stream objects stay with their users) *)
  conn_open : bool;      (* eventConn: isClose = 0, fd registered, file open *)
  bm : option Z;         (* reference held on the global buffer manager with this path id *)
  qmap : option Z;       (* queueManager (mapping + file / memfd), nil after the cleanup *)
  inflight : nat }.      (* user threads inside Flush past the state check, about to use sendQueue() *)

Record world := {
  ss : list sess;
  tbl : list (Z * Z);    (* bufferManagers.bms: path id -> refCount *)
  creates : list Z;      (* ghost: path ids mapped (table entries created), in order *)
  unmaps : list Z;       (* ghost: path ids unmapped + unlinked by the table *)
  qunmaps : list Z;      (* ghost: queue ids unmapped + unlinked *)
  faults : nat }.        (* accesses through a nil queueManager / unmapped memory (SIGSEGV / panic) *)

(* what the dispatcher sees on a session's connection (connEventHandler.handleEvent): the epoll event
   bits and, if it gets as far as onReadReady, the outcome of the first read(2).  After the peer's
   death the read returns 0 when the peer had consumed everything, and ECONNRESET when bytes this end
   wrote were still unread in the peer's socket. *)
Inductive rdout := RdData | RdAgain | RdEOF | RdErr.
Record epev := { e_rdhup : bool; e_in : bool; e_read : rdout }.

(* does handleEvent report the remote close?  EPOLLRDHUP is tested FIRST; onReadReady reports it only
   for read = 0 — a read error returns silently (`if errCode != 0 { return }`, err still nil) *)
Definition reports_remote_close (ev : epev) : bool :=
  if e_rdhup ev then true
  else if e_in ev then match e_read ev with RdEOF => true | _ => false end
  else false.

Inductive label :=
  | LOpen (p q : Z) (nstreams : nat)  (* a new session on buffer path p with its own queue q *)
  | LClose (i : nat)                  (* Session.Close / exitErr called by anyone, any number of times *)
  | LRemote (i : nat)                 (* the dispatcher sees EPOLLRDHUP / read 0: onRemoteClose + deferredClose *)
  | LLambda (i : nat)                 (* the dispatcher runs session i's posted cleanup *)
  | LCbBegin (i k : nat) | LCbEnd (i k : nat)  (* OnData starts / returns on stream k *)
  | LEnter (i : nat)                  (* a user thread passes Flush's state check on an opened stream *)
  | LAccess (i : nat)                 (* ... and reaches s.session.sendQueue().put / wakeUpPeer *)
  | LEvent (i : nat) (ev : epev)      (* an epoll event on session i's connection *)
  | LOpenFail (p : Z).                (* newSession on buffer path p whose handshake fails: initMemManager took a
                                         reference (or mapped the manager), the error path drops exactly that
                                         reference with addGlobalBufferManagerRefCount(path, -1) *)

Fixpoint upd {A} (i : nat) (x : A) (l : list A) : list A :=
  match l, i with
  | [], _ => []
  | _ :: r, O => x :: r
  | y :: r, S j => y :: upd j x r
  end.

Fixpoint tbl_get (p : Z) (t : list (Z * Z)) : option Z :=
  match t with
  | [] => None
  | (p', c) :: r => if p =? p' then Some c else tbl_get p r
  end.
Fixpoint tbl_set (p c : Z) (t : list (Z * Z)) : list (Z * Z) :=
  match t with
  | [] => [(p, c)]
  | (p', c') :: r => if p =? p' then (p, c) :: r else (p', c') :: tbl_set p c r
  end.
Fixpoint tbl_del (p : Z) (t : list (Z * Z)) : list (Z * Z) :=
  match t with
  | [] => []
  | (p', c') :: r => if p =? p' then tbl_del p r else (p', c') :: tbl_del p r
  end.

(* getGlobalBufferManager*: an existing entry gets refCount+1, otherwise map and insert with 1 *)
Definition tbl_acquire (p : Z) (w_tbl : list (Z * Z)) (w_creates : list Z) : list (Z * Z) * list Z :=
  match tbl_get p w_tbl with
  | Some c => (tbl_set p (c + 1) w_tbl, w_creates)
  | None => (tbl_set p 1 w_tbl, w_creates ++ [p])
  end.
(* addGlobalBufferManagerRefCount(path, -1): at <= 0 unmap (munmap + remove file / close memfd) and delete *)
Definition tbl_release (p : Z) (w_tbl : list (Z * Z)) (w_unmaps : list Z) : list (Z * Z) * list Z :=
  match tbl_get p w_tbl with
  | Some c => if c - 1 <=? 0 then (tbl_del p w_tbl, w_unmaps ++ [p]) else (tbl_set p (c - 1) w_tbl, w_unmaps)
  | None => (w_tbl, w_unmaps)
  end.

Definition new_strm : strm := {| st_state := c_streamOpened; st_notified := false; st_incb := false; st_cbs := O |}.

(* safeCloseNotify *)
Definition notify (s : strm) : strm :=
  {| st_state := st_state s; st_notified := true; st_incb := st_incb s; st_cbs := st_cbs s |}.

(* Stream.Close as called by the cleanup lambda (the session is closed by then): a stream whose
   OnData is running is only moved to half-closed and gets no callback here (property C10's
   exception); otherwise opened -> closed with one close callback, anything else stays *)
Definition lambda_close_stream (s : strm) : strm :=
  if st_incb s then
    {| st_state := if st_state s =? c_streamOpened then c_streamHalfClosed else st_state s;
       st_notified := st_notified s; st_incb := true; st_cbs := st_cbs s |}
  else if st_state s =? c_streamClosed then s
  else {| st_state := c_streamClosed; st_notified := true; st_incb := false;
          st_cbs := if st_state s =? c_streamOpened then S (st_cbs s) else st_cbs s |}.

Definition set_sess (w : world) (i : nat) (s : sess) : world :=
  {| ss := upd i s (ss w); tbl := tbl w; creates := creates w; unmaps := unmaps w; qunmaps := qunmaps w; faults := faults w |}.

(* Session.Close: only the CAS winner does anything *)
Definition close_sess (s : sess) : sess :=
  if sd s then s
  else {| sd := true; chclosed := true; posted := true; cleaned := cleaned s;
          streams := map notify (streams s); conn_open := conn_open s; bm := bm s; qmap := qmap s;
          inflight := inflight s |}.

(* onRemoteClose (-> exitErr -> Close) followed by deferredClose of the connection *)
Definition remote_close (w : world) (i : nat) : world :=
      match nth_error (ss w) i with
      | Some s =>
          if conn_open s then     (* the handler only exists while the connection is registered *)
            let s' := close_sess s in
            set_sess w i {| sd := sd s'; chclosed := chclosed s'; posted := posted s'; cleaned := cleaned s';
                            streams := streams s'; conn_open := false; bm := bm s'; qmap := qmap s';
                            inflight := inflight s' |}
          else w
      | None => w
      end.

Definition step (w : world) (l : label) : world :=
  match l with
  | LOpen p q n =>
      let '(t, cr) := tbl_acquire p (tbl w) (creates w) in
      {| ss := ss w ++ [{| sd := false; chclosed := false; posted := false; cleaned := false;
                           streams := repeat new_strm n; conn_open := true; bm := Some p; qmap := Some q;
                           inflight := O |}];
         tbl := t; creates := cr; unmaps := unmaps w; qunmaps := qunmaps w; faults := faults w |}
  | LClose i =>
      match nth_error (ss w) i with
      | Some s => set_sess w i (close_sess s)
      | None => w
      end
  | LRemote i => remote_close w i
  | LEvent i ev => if reports_remote_close ev then remote_close w i else w
  | LLambda i =>
      match nth_error (ss w) i with
      | Some s =>
          if posted s then
            let '(t, um) := match bm s with Some p => tbl_release p (tbl w) (unmaps w) | None => (tbl w, unmaps w) end in
            {| ss := upd i {| sd := sd s; chclosed := chclosed s; posted := false; cleaned := true;
                              streams := map lambda_close_stream (streams s); conn_open := false; bm := None; qmap := None;
                              inflight := inflight s |} (ss w);
               tbl := t; creates := creates w; unmaps := um;
               qunmaps := match qmap s with Some q => qunmaps w ++ [q] | None => qunmaps w end;
               faults := faults w |}
          else w
      | None => w
      end
  | LCbBegin i k =>
      match nth_error (ss w) i with
      | Some s =>
          match nth_error (streams s) k with
          | Some st => if (st_state st =? c_streamOpened) && negb (st_incb st)
                       then set_sess w i {| sd := sd s; chclosed := chclosed s; posted := posted s; cleaned := cleaned s;
                                            streams := upd k {| st_state := st_state st; st_notified := st_notified st;
                                                                st_incb := true; st_cbs := st_cbs st |} (streams s);
                                            conn_open := conn_open s; bm := bm s; qmap := qmap s; inflight := inflight s |}
                       else w
          | None => w
          end
      | None => w
      end
  | LCbEnd i k =>
      match nth_error (ss w) i with
      | Some s =>
          match nth_error (streams s) k with
          | Some st => if st_incb st
                       then set_sess w i {| sd := sd s; chclosed := chclosed s; posted := posted s; cleaned := cleaned s;
                                            streams := upd k {| st_state := st_state st; st_notified := st_notified st;
                                                                st_incb := false; st_cbs := st_cbs st |} (streams s);
                                            conn_open := conn_open s; bm := bm s; qmap := qmap s; inflight := inflight s |}
                       else w
          | None => w
          end
      | None => w
      end
  | LEnter i =>
      match nth_error (ss w) i with
      | Some s =>
          (* Flush checks the STREAM state only; the streams stay opened until the lambda runs *)
          if existsb (fun st => st_state st =? c_streamOpened) (streams s)
          then set_sess w i {| sd := sd s; chclosed := chclosed s; posted := posted s; cleaned := cleaned s;
                               streams := streams s; conn_open := conn_open s; bm := bm s; qmap := qmap s;
                               inflight := S (inflight s) |}
          else w
      | None => w
      end
  | LAccess i =>
      match nth_error (ss w) i with
      | Some s =>
          match inflight s with
          | O => w
          | S n =>
              let s' := {| sd := sd s; chclosed := chclosed s; posted := posted s; cleaned := cleaned s;
                           streams := streams s; conn_open := conn_open s; bm := bm s; qmap := qmap s; inflight := n |} in
              match qmap s with
              | Some _ => set_sess w i s'
              | None => {| ss := upd i s' (ss w); tbl := tbl w; creates := creates w; unmaps := unmaps w;
                           qunmaps := qunmaps w; faults := S (faults w) |}
              end
          end
      | None => w
      end
  | LOpenFail p =>
      let '(t, cr) := tbl_acquire p (tbl w) (creates w) in
      let '(t', um) := tbl_release p t (unmaps w) in
      {| ss := ss w; tbl := t'; creates := cr; unmaps := um; qunmaps := qunmaps w; faults := faults w |}
  end.

Definition run (sch : list label) (w : world) : world := fold_left step sch w.
Definition init : world := {| ss := []; tbl := []; creates := []; unmaps := []; qunmaps := []; faults := O |}.

(* observables *)
Definition refcount (p : Z) (w : world) : Z := match tbl_get p (tbl w) with Some c => c | None => 0 end.
Fixpoint holders (p : Z) (l : list sess) : Z :=
  match l with
  | [] => 0
  | s :: r => (match bm s with Some p' => if p =? p' then 1 else 0 | None => 0 end) + holders p r
  end.
Definition count_occ_z (p : Z) (l : list Z) : Z := Z.of_nat (length (filter (Z.eqb p) l)).

(* a stream is finished from the user's point of view: every pending and later call fails *)
Definition strm_dead (s : strm) : bool := st_notified s && negb (st_state s =? c_streamOpened) || st_incb s && st_notified s.
Definition sess_released (s : sess) : bool :=
  negb (conn_open s) && match bm s with None => true | _ => false end && match qmap s with None => true | _ => false end.

(* ------------------------------------------------------------------------------------------ *)
(* OpenStream racing Close (session.go OpenStream): the call is two steps for a user thread —   *)
(*   OChk: IsClosed / IsHealthy check (the shutdown error is returned here when already closed), *)
(*   OReg: later, under streamLock, `s.streams[id] = stream` —                                   *)
(* and Close's posted cleanup (LLambda of the base model, its own step) drops the stream table   *)
(* (`s.streams = nil`) under the same lock.  A layer over the base model: the base steps are     *)
(* unchanged; a stream registered while the session is open behaves like one that existed from   *)
(* LOpen (the base model quantifies over any number of them) and is not tracked here; a stream   *)
(* registered after Close's notification loop but before the cleanup is "late": nobody notified  *)
(* it, the cleanup closes it with the rest of the table.                                         *)
(* [fixed] selects the code: true = OReg on a dropped table returns the shutdown error (the       *)
(* repaired OpenStream); false = it assigns into the nil map and panics (kept for the regression  *)
(* witness).                                                                                     *)
(* ------------------------------------------------------------------------------------------ *)
Inductive olabel := OBase (l : label) | OChk (i : nat) | OReg (i : nat).

Record oworld := {
  ob : world;
  opening : list nat;    (* one entry per user thread past OpenStream's check: the session index *)
  late : list nat;       (* one entry per late-registered, still open stream: the session index *)
  open_errs : nat;       (* OpenStream calls that returned the shutdown error *)
  panics : nat }.        (* "assignment to entry in nil map" *)

Definition table_dropped (w : world) (i : nat) : bool :=
  match nth_error (ss w) i with Some s => cleaned s | None => false end.

Fixpoint remove_one (i : nat) (l : list nat) : option (list nat) :=
  match l with
  | [] => None
  | j :: r => if Nat.eqb i j then Some r
              else match remove_one i r with Some r' => Some (j :: r') | None => None end
  end.

Definition ostep (fixed : bool) (w : oworld) (l : olabel) : oworld :=
  match l with
  | OBase b =>
      let b' := step (ob w) b in
      (* the cleanup closes every stream of the table it drops, the late ones included *)
      {| ob := b'; opening := opening w; late := filter (fun j => negb (table_dropped b' j)) (late w);
         open_errs := open_errs w; panics := panics w |}
  | OChk i =>
      match nth_error (ss (ob w)) i with
      | Some s => if sd s
                  then {| ob := ob w; opening := opening w; late := late w; open_errs := S (open_errs w); panics := panics w |}
                  else {| ob := ob w; opening := i :: opening w; late := late w; open_errs := open_errs w; panics := panics w |}
      | None => w
      end
  | OReg i =>
      match remove_one i (opening w), nth_error (ss (ob w)) i with
      | Some op', Some s =>
          if cleaned s then                  (* s.streams == nil *)
            if fixed
            then {| ob := ob w; opening := op'; late := late w; open_errs := S (open_errs w); panics := panics w |}
            else {| ob := ob w; opening := op'; late := late w; open_errs := open_errs w; panics := S (panics w) |}
          else if sd s then                  (* after Close's notification loop, before the cleanup *)
            {| ob := ob w; opening := op'; late := i :: late w; open_errs := open_errs w; panics := panics w |}
          else {| ob := ob w; opening := op'; late := late w; open_errs := open_errs w; panics := panics w |}
      | _, _ => w
      end
  end.

Definition orun (fixed : bool) (sch : list olabel) (w : oworld) : oworld := fold_left (ostep fixed) sch w.
Definition oinit : oworld := {| ob := init; opening := []; late := []; open_errs := O; panics := O |}.

(* ------------------------------------------------------------------------------------------ *)
(* Shared-memory slices held by a session's streams (stream.go close -> clean: pendingData.clear, *)
(* recvBuf.recycle, sendBuf.recycle).  The buffer manager is process-wide, reference counted by   *)
(* path and shared by every session on that path: a dead session's slices must go back to the     *)
(* free lists one by one — the memory is NOT released as a whole while a sibling keeps the manager *)
(* alive.  A layer over the base model: a holding = (session index, number of slices) of one       *)
(* stream (unread received data, pending data, written-but-unflushed data).  The cleanup (base     *)
(* LLambda) closes every stream of the table it drops; Stream.clean recycles what the stream holds.*)
(* A Flush that found the send queue full waits in its retry loop with the outgoing chain still in  *)
(* the stream's sendBuf: that chain is a holding like any other.  EVERY exit of Flush gives it up:  *)
(* handed to the peer (put succeeded), or recycled (queue still full, write deadline, stream /      *)
(* session closed while waiting — the close-notified exit) — PGive.  The close-notified exit is its *)
(* own label because Session.Close / exitErr notify every stream FIRST and recycle only LATER, in   *)
(* the posted cleanup: a woken Flush that returned without recycling would leave nothing for the    *)
(* cleanup to find.                                                                                *)
(* [pcode] selects the code: clean_recycles = Stream.clean always recycles (false: it returns early *)
(* when the session is closed); close_exit_recycles = Flush's close-notified exit goes through the  *)
(* common `buf.recycle()` (false: it returns at once).  code_ok = the code that exists; the other   *)
(* two are kept as regression witnesses.                                                           *)
(* ------------------------------------------------------------------------------------------ *)
Record pcode := { clean_recycles : bool; close_exit_recycles : bool }.
Definition code_ok : pcode := {| clean_recycles := true; close_exit_recycles := true |}.
Definition code_early_return_clean : pcode := {| clean_recycles := false; close_exit_recycles := true |}.
Definition code_flush_returns_on_close : pcode := {| clean_recycles := true; close_exit_recycles := false |}.

Inductive plabel :=
  | PBase (l : label)
  | PTake (i n : nat)      (* a stream of session i comes to hold n slices (data arrived / user wrote) *)
  | PGive (k : nat)        (* the k-th holding is given up the ordinary way (read + release, flush sent or failed, stream close) *)
  | PFlushClosedExit (k : nat).  (* a Flush parked in the queue-full retry with the k-th holding is woken by closeNotifyCh *)

Record pworld := {
  pb : world;
  holds : list (nat * nat);
  taken : nat;             (* slices taken from the free lists so far *)
  returned : nat }.        (* slices put back so far *)

Definition total_held (h : list (nat * nat)) : nat := fold_right (fun x acc => snd x + acc)%nat O h.
Definition held_by (i : nat) (h : list (nat * nat)) : nat :=
  total_held (filter (fun x => Nat.eqb (fst x) i) h).

Fixpoint drop_nth {A} (k : nat) (l : list A) : list A :=
  match l, k with
  | [], _ => []
  | _ :: r, O => r
  | x :: r, S j => x :: drop_nth j r
  end.

Definition pstep (code : pcode) (w : pworld) (l : plabel) : pworld :=
  match l with
  | PBase b =>
      let b' := step (pb w) b in
      let gone := filter (fun x => table_dropped b' (fst x)) (holds w) in
      {| pb := b'; holds := filter (fun x => negb (table_dropped b' (fst x))) (holds w);
         taken := taken w;
         returned := if clean_recycles code then (returned w + total_held gone)%nat else returned w |}
  | PTake i n =>
      match nth_error (ss (pb w)) i with
      | Some s => if cleaned s then w     (* a closed stream takes no share memory *)
                  else {| pb := pb w; holds := (i, n) :: holds w; taken := (taken w + n)%nat; returned := returned w |}
      | None => w
      end
  | PGive k =>
      match nth_error (holds w) k with
      | Some (_, n) => {| pb := pb w; holds := drop_nth k (holds w); taken := taken w; returned := (returned w + n)%nat |}
      | None => w
      end
  | PFlushClosedExit k =>
      match nth_error (holds w) k with
      | Some (i, n) =>
          match nth_error (ss (pb w)) i with
          | Some s =>
              if sd s then     (* closeNotifyCh is closed: the session (or the stream) was closed *)
                {| pb := pb w; holds := drop_nth k (holds w); taken := taken w;
                   returned := if close_exit_recycles code then (returned w + n)%nat else returned w |}
              else w
          | None => w
          end
      | None => w
      end
  end.

Definition prun (code : pcode) (sch : list plabel) (w : pworld) : pworld := fold_left (pstep code) sch w.
Definition pinit : pworld := {| pb := init; holds := []; taken := O; returned := O |}.
