(* Model of net_listener.go (the net.Listener / net.Conn adapter).  NO PROOFS in this file.

   Part 1 — reference counting and delivery.  One model event = one atomic step of the real code
   (a channel operation, a WaitGroup operation, or a critical section of l.mu):

     RawAccept      listenLoop: the raw listener accepted a connection; its goroutine starts the handshake
                    Server(conn, DefaultConfig()), which blocks until the client has spoken (<= 1 s)
     HandshakeFail  that handshake failed / timed out: no session
     SessionUp      the handshake returned a session; THEN, under l.mu: if l.closed = 1 the session is closed
                    on the spot, else wg.Add(1); l.sessions[session] = wg  (test and insert in ONE critical
                    section: listener.Close cannot fall between them)
     StreamIn s     the event loop of session s puts a new stream into acceptCh (session.go getStream)
     Wrap s         AcceptStream returned a stream; under l.mu: if the session is still in l.sessions
                    newStreamWrapper: wg.Add(1); else stream.Close() and return
     Enqueue s      the delivery select takes `l.backlog <- conn`; the goroutine goes on to re-check closeCh
     Lose s         the delivery select takes `<-l.closeCh`: the goroutine takes the conn aside to Close it
                    (`_ = conn.Close(); return`)
     PostCheck s    after a successful enqueue: `select { case <-l.closeCh: drain; return  default: }`
     GDrain s       one round of drainBacklog run by the accept goroutine: receive one conn from the
                    backlog (to Close it), or - backlog empty - finish and return
     SessionDie s   the session shuts down for an outside reason (peer gone, protocol error)
     AcceptErr s    AcceptStream returned an error: session.Close(); under l.mu delete + Done only if the
                    session is still in the map; return
     Accept         listener.Accept takes `conn := <-l.backlog`
     AcceptFail     listener.Accept takes `<-l.closeCh` and returns an error
     WClose w       streamWrapper.Close on a conn the user obtained from Accept: CAS closed 0->1, then
                    stream.Close and wg.Done; a failed CAS does nothing
     CloseTaken w   the adapter Closes a conn it took aside (after Lose, or received by a drain)
     LCall          a goroutine calls listener.Close (calls may overlap: each is a thread of its own)
     LStep k        next step of the k-th Close call:
                      CStart : CAS l.closed 0->1 (the winner goes on to close closeCh)
                      CSig   : close(l.closeCh)
                      CDrain : one round of drainBacklog (receive one conn to Close it, or finish)
                      CRel   : under l.mu, wg.Done() for every session in the map; clear the map; return

   wg.Done() that makes the counter negative PANICS (sync: negative WaitGroup counter): explicit flag.
   The goroutine `wg.Wait(); session.Close()` is folded into Done: the counter reaching zero sets
   wg_zero and sclosed (that the parked waiter then runs is Go-runtime behaviour).

   Part 2 — the io.Reader / io.Writer face: linkedBuffer.read (buffer.go 275-298) over a list of
   slices, copyWriteAndFlush (118-129).                                                         *)
From Coq Require Import List ZArith Lia Bool Arith.
Import ListNotations.
Open Scope Z_scope.

(* ------------------------------------------------------------------------------------------ *)
(* Part 1                                                                                       *)
(* ------------------------------------------------------------------------------------------ *)

Inductive loop_pc := LAccepting | LSelecting (w : nat) | LPostEnq | LDraining | LExited.
Inductive close_pc := CStart | CSig | CDrain | CRel | CDone.

Record sess := {
  refs : Z;            (* the sync.WaitGroup counter *)
  in_map : bool;       (* session is a key of l.sessions *)
  registered : bool;   (* ghost: went through wg.Add(1); l.sessions[session] = wg (false: rejected, l.closed was 1) *)
  sclosed : bool;      (* session.Close has been called / the session is shut down *)
  wg_zero : bool;      (* ghost: the counter has reached zero (the wg.Wait goroutine was released) *)
  loop : loop_pc;      (* the per-session accept goroutine *)
  inq : nat;           (* streams waiting in session.acceptCh *)
  arrived : nat;       (* ghost: streams ever put into acceptCh *)
  wrapped : nat;       (* ghost: streams ever wrapped *)
  refused : nat }.     (* ghost: streams closed unwrapped because the listener had released the session *)

Record wrapper := { w_sess : nat; w_ord : nat (* ghost: k-th stream of its session *); w_closed : bool }.

Record state := {
  nsess : nat; sess_of : nat -> sess;
  nwr : nat; wr : nat -> wrapper;
  ncl : nat; cl_of : nat -> close_pc;   (* the calls of listener.Close *)
  cap : nat;                 (* capacity of the backlog channel *)
  backlog : list nat;        (* wrapper ids, head = next to be received *)
  delivered : list nat;      (* ghost: ids returned by Accept, in order *)
  closing : list nat;        (* conns taken aside by the adapter, about to be Closed by it *)
  aclosed : list nat;        (* ghost: conns the adapter has Closed *)
  enq_log : list nat;        (* ghost: ids ever sent into the backlog, in order *)
  recv_log : list nat;       (* ghost: ids ever received from the backlog (by Accept or by a drain), in order *)
  lmark : bool;              (* l.closed *)
  closeCh : bool;            (* l.closeCh is closed *)
  lreleased : bool;          (* ghost: some Close call has run its release section *)
  hs_pending : nat;          (* raw connections accepted whose handshake (Server(conn, ...)) is still running *)
  panic : bool }.

Definition dflt_sess : sess :=
  {| refs := 0; in_map := false; registered := false; sclosed := false; wg_zero := false;
     loop := LExited; inq := 0; arrived := 0; wrapped := 0; refused := 0 |}.
Definition dflt_wr : wrapper := {| w_sess := 0; w_ord := 0; w_closed := false |}.

Definition init (c : nat) : state :=
  {| nsess := 0; sess_of := fun _ => dflt_sess; nwr := 0; wr := fun _ => dflt_wr;
     ncl := 0; cl_of := fun _ => CDone; cap := c;
     backlog := []; delivered := []; closing := []; aclosed := []; enq_log := []; recv_log := [];
     lmark := false; closeCh := false; lreleased := false; hs_pending := 0; panic := false |}.

Definition updf {A} (f : nat -> A) (k : nat) (v : A) : nat -> A :=
  fun i => if Nat.eqb i k then v else f i.

(* wg.Done() *)
Definition done1 (x : sess) : sess :=
  let r := refs x - 1 in
  {| refs := r; in_map := in_map x; registered := registered x;
     sclosed := sclosed x || (r =? 0); wg_zero := wg_zero x || (r =? 0);
     loop := loop x; inq := inq x; arrived := arrived x; wrapped := wrapped x; refused := refused x |}.
Definition done_panics (x : sess) : bool := refs x - 1 <? 0.

(* generic field updates (everything else unchanged) *)
Definition set_sessions (st : state) (f : nat -> sess) (p : bool) : state :=
  {| nsess := nsess st; sess_of := f; nwr := nwr st; wr := wr st; ncl := ncl st; cl_of := cl_of st; cap := cap st;
     backlog := backlog st; delivered := delivered st; closing := closing st; aclosed := aclosed st;
     enq_log := enq_log st; recv_log := recv_log st; lmark := lmark st; closeCh := closeCh st; lreleased := lreleased st;
     hs_pending := hs_pending st; panic := panic st || p |}.
Definition set_sess (st : state) (s : nat) (x : sess) (p : bool) : state :=
  set_sessions st (updf (sess_of st) s x) p.
Definition set_cl (st : state) (k : nat) (c : close_pc) : state :=
  {| nsess := nsess st; sess_of := sess_of st; nwr := nwr st; wr := wr st; ncl := ncl st;
     cl_of := updf (cl_of st) k c; cap := cap st;
     backlog := backlog st; delivered := delivered st; closing := closing st; aclosed := aclosed st;
     enq_log := enq_log st; recv_log := recv_log st; lmark := lmark st; closeCh := closeCh st; lreleased := lreleased st;
     hs_pending := hs_pending st; panic := panic st |}.
(* receive the head of the backlog and take it aside for Close *)
Definition take_head (st : state) : state :=
  match backlog st with
  | [] => st
  | w :: r =>
    {| nsess := nsess st; sess_of := sess_of st; nwr := nwr st; wr := wr st; ncl := ncl st; cl_of := cl_of st; cap := cap st;
       backlog := r; delivered := delivered st; closing := closing st ++ [w]; aclosed := aclosed st;
       enq_log := enq_log st; recv_log := recv_log st ++ [w]; lmark := lmark st; closeCh := closeCh st; lreleased := lreleased st;
       hs_pending := hs_pending st; panic := panic st |}
  end.

Definition set_hs (st : state) (n : nat) : state :=
  {| nsess := nsess st; sess_of := sess_of st; nwr := nwr st; wr := wr st; ncl := ncl st; cl_of := cl_of st; cap := cap st;
     backlog := backlog st; delivered := delivered st; closing := closing st; aclosed := aclosed st;
     enq_log := enq_log st; recv_log := recv_log st; lmark := lmark st; closeCh := closeCh st; lreleased := lreleased st;
     hs_pending := n; panic := panic st |}.

Inductive event :=
| SessionUp | StreamIn (s : nat) | Wrap (s : nat) | Enqueue (s : nat) | Lose (s : nat)
| PostCheck (s : nat) | GDrain (s : nat)
| SessionDie (s : nat) | AcceptErr (s : nat)
| Accept | AcceptFail | WClose (w : nat) | CloseTaken (w : nat)
| LCall | LStep (k : nat)
| RawAccept | HandshakeFail.

Definition mem (w : nat) (l : list nat) : bool := existsb (Nat.eqb w) l.
Definition remove_w (w : nat) (l : list nat) : list nat := filter (fun x => negb (Nat.eqb x w)) l.

Definition is_accepting (p : loop_pc) : bool := match p with LAccepting => true | _ => false end.
Definition is_selecting (p : loop_pc) : bool := match p with LSelecting _ => true | _ => false end.
Definition is_postenq (p : loop_pc) : bool := match p with LPostEnq => true | _ => false end.
Definition is_draining (p : loop_pc) : bool := match p with LDraining => true | _ => false end.
Definition is_cdone (c : close_pc) : bool := match c with CDone => true | _ => false end.

Definition enabled (st : state) (e : event) : bool :=
  match e with
  | SessionUp => (0 <? hs_pending st)%nat
  | StreamIn s => (s <? nsess st)%nat && registered (sess_of st s)
  | Wrap s => (s <? nsess st)%nat && is_accepting (loop (sess_of st s)) && (0 <? inq (sess_of st s))%nat
  | Enqueue s => (s <? nsess st)%nat && is_selecting (loop (sess_of st s)) && (length (backlog st) <? cap st)%nat
  | Lose s => (s <? nsess st)%nat && is_selecting (loop (sess_of st s)) && closeCh st
  | PostCheck s => (s <? nsess st)%nat && is_postenq (loop (sess_of st s))
  | GDrain s => (s <? nsess st)%nat && is_draining (loop (sess_of st s))
  | SessionDie s => (s <? nsess st)%nat
  | AcceptErr s => (s <? nsess st)%nat && is_accepting (loop (sess_of st s)) && sclosed (sess_of st s)
  | Accept => match backlog st with [] => false | _ => true end
  | AcceptFail => closeCh st
  | WClose w => mem w (delivered st)
  | CloseTaken w => mem w (closing st)
  | LCall => true
  | LStep k => (k <? ncl st)%nat && negb (is_cdone (cl_of st k))
  | RawAccept => true
  | HandshakeFail => (0 <? hs_pending st)%nat
  end.

Definition with_loop (x : sess) (p : loop_pc) : sess :=
  {| refs := refs x; in_map := in_map x; registered := registered x; sclosed := sclosed x;
     wg_zero := wg_zero x; loop := p; inq := inq x; arrived := arrived x; wrapped := wrapped x; refused := refused x |}.

Definition release1 (n : nat) (f : nat -> sess) : nat -> sess :=
  fun k => let x := f k in
           if (k <? n)%nat && in_map x
           then let y := done1 x in
                {| refs := refs y; in_map := false; registered := registered y; sclosed := sclosed y;
                   wg_zero := wg_zero y; loop := loop y; inq := inq y; arrived := arrived y; wrapped := wrapped y; refused := refused y |}
           else x.
Definition release_panics (n : nat) (f : nat -> sess) : bool :=
  existsb (fun k => in_map (f k) && done_panics (f k)) (seq 0 n).

(* conn.Close() by whoever holds the conn: CAS; stream.Close; wg.Done *)
Definition close_wrapper (st : state) (w : nat) : state :=
  let x := wr st w in
  if w_closed x then st
  else
    let s := w_sess x in
    {| nsess := nsess st; sess_of := updf (sess_of st) s (done1 (sess_of st s)); nwr := nwr st;
       wr := updf (wr st) w {| w_sess := s; w_ord := w_ord x; w_closed := true |};
       ncl := ncl st; cl_of := cl_of st; cap := cap st;
       backlog := backlog st; delivered := delivered st; closing := closing st; aclosed := aclosed st;
       enq_log := enq_log st; recv_log := recv_log st; lmark := lmark st; closeCh := closeCh st; lreleased := lreleased st;
       hs_pending := hs_pending st; panic := panic st || done_panics (sess_of st s) |}.

Definition step (st : state) (e : event) : state :=
  match e with
  | SessionUp =>
    let x := if lmark st
             then {| refs := 0; in_map := false; registered := false; sclosed := true; wg_zero := false;
                     loop := LExited; inq := 0; arrived := 0; wrapped := 0; refused := 0 |}
             else {| refs := 1; in_map := true; registered := true; sclosed := false; wg_zero := false;
                     loop := LAccepting; inq := 0; arrived := 0; wrapped := 0; refused := 0 |} in
    {| nsess := S (nsess st); sess_of := updf (sess_of st) (nsess st) x; nwr := nwr st; wr := wr st;
       ncl := ncl st; cl_of := cl_of st; cap := cap st;
       backlog := backlog st; delivered := delivered st; closing := closing st; aclosed := aclosed st;
       enq_log := enq_log st; recv_log := recv_log st; lmark := lmark st; closeCh := closeCh st; lreleased := lreleased st; hs_pending := pred (hs_pending st); panic := panic st |}
  | StreamIn s =>
    let x := sess_of st s in
    set_sess st s {| refs := refs x; in_map := in_map x; registered := registered x; sclosed := sclosed x;
                     wg_zero := wg_zero x; loop := loop x; inq := S (inq x); arrived := S (arrived x);
                     wrapped := wrapped x; refused := refused x |} false
  | Wrap s =>
    let x := sess_of st s in
    if negb (in_map x) then
      (* under l.mu: the session is no longer in l.sessions (the listener released it, or AcceptErr removed
         it): no wg.Add; stream.Close(); return *)
      set_sess st s {| refs := refs x; in_map := in_map x; registered := registered x; sclosed := sclosed x;
                       wg_zero := wg_zero x; loop := LExited; inq := pred (inq x); arrived := arrived x;
                       wrapped := wrapped x; refused := S (refused x) |} false
    else
    let x' := {| refs := refs x + 1; in_map := in_map x; registered := registered x; sclosed := sclosed x;
                 wg_zero := wg_zero x; loop := LSelecting (nwr st); inq := pred (inq x); arrived := arrived x;
                 wrapped := S (wrapped x); refused := refused x |} in
    {| nsess := nsess st; sess_of := updf (sess_of st) s x'; nwr := S (nwr st);
       wr := updf (wr st) (nwr st) {| w_sess := s; w_ord := wrapped x; w_closed := false |};
       ncl := ncl st; cl_of := cl_of st; cap := cap st;
       backlog := backlog st; delivered := delivered st; closing := closing st; aclosed := aclosed st;
       enq_log := enq_log st; recv_log := recv_log st; lmark := lmark st; closeCh := closeCh st; lreleased := lreleased st; hs_pending := hs_pending st; panic := panic st |}
  | Enqueue s =>
    match loop (sess_of st s) with
    | LSelecting w =>
      {| nsess := nsess st; sess_of := updf (sess_of st) s (with_loop (sess_of st s) LPostEnq);
         nwr := nwr st; wr := wr st; ncl := ncl st; cl_of := cl_of st; cap := cap st;
         backlog := backlog st ++ [w]; delivered := delivered st; closing := closing st; aclosed := aclosed st;
         enq_log := enq_log st ++ [w]; recv_log := recv_log st;
         lmark := lmark st; closeCh := closeCh st; lreleased := lreleased st; hs_pending := hs_pending st; panic := panic st |}
    | _ => st
    end
  | Lose s =>
    match loop (sess_of st s) with
    | LSelecting w =>
      {| nsess := nsess st; sess_of := updf (sess_of st) s (with_loop (sess_of st s) LExited);
         nwr := nwr st; wr := wr st; ncl := ncl st; cl_of := cl_of st; cap := cap st;
         backlog := backlog st; delivered := delivered st; closing := closing st ++ [w]; aclosed := aclosed st;
         enq_log := enq_log st; recv_log := recv_log st;
         lmark := lmark st; closeCh := closeCh st; lreleased := lreleased st; hs_pending := hs_pending st; panic := panic st |}
    | _ => st
    end
  | PostCheck s =>
    set_sess st s (with_loop (sess_of st s) (if closeCh st then LDraining else LAccepting)) false
  | GDrain s =>
    match backlog st with
    | [] => set_sess st s (with_loop (sess_of st s) LExited) false
    | _ => take_head st
    end
  | SessionDie s =>
    let x := sess_of st s in
    set_sess st s {| refs := refs x; in_map := in_map x; registered := registered x; sclosed := true;
                     wg_zero := wg_zero x; loop := loop x; inq := inq x; arrived := arrived x;
                     wrapped := wrapped x; refused := refused x |} false
  | AcceptErr s =>
    let x := sess_of st s in
    if in_map x
    then let y := done1 x in
         set_sess st s {| refs := refs y; in_map := false; registered := registered y; sclosed := sclosed y;
                          wg_zero := wg_zero y; loop := LExited; inq := inq y; arrived := arrived y;
                          wrapped := wrapped y; refused := refused y |} (done_panics x)
    else set_sess st s (with_loop x LExited) false
  | Accept =>
    match backlog st with
    | [] => st
    | w :: r =>
      {| nsess := nsess st; sess_of := sess_of st; nwr := nwr st; wr := wr st; ncl := ncl st; cl_of := cl_of st; cap := cap st;
         backlog := r; delivered := delivered st ++ [w]; closing := closing st; aclosed := aclosed st;
         enq_log := enq_log st; recv_log := recv_log st ++ [w];
         lmark := lmark st; closeCh := closeCh st; lreleased := lreleased st; hs_pending := hs_pending st; panic := panic st |}
    end
  | AcceptFail => st
  | WClose w => close_wrapper st w
  | CloseTaken w =>
    let st1 := close_wrapper st w in
    {| nsess := nsess st1; sess_of := sess_of st1; nwr := nwr st1; wr := wr st1; ncl := ncl st1; cl_of := cl_of st1; cap := cap st1;
       backlog := backlog st1; delivered := delivered st1; closing := remove_w w (closing st1); aclosed := aclosed st1 ++ [w];
       enq_log := enq_log st1; recv_log := recv_log st1; lmark := lmark st1; closeCh := closeCh st1; lreleased := lreleased st1; hs_pending := hs_pending st1; panic := panic st1 |}
  | LCall =>
    {| nsess := nsess st; sess_of := sess_of st; nwr := nwr st; wr := wr st;
       ncl := S (ncl st); cl_of := updf (cl_of st) (ncl st) CStart; cap := cap st;
       backlog := backlog st; delivered := delivered st; closing := closing st; aclosed := aclosed st;
       enq_log := enq_log st; recv_log := recv_log st; lmark := lmark st; closeCh := closeCh st; lreleased := lreleased st; hs_pending := hs_pending st; panic := panic st |}
  | LStep k =>
    match cl_of st k with
    | CStart =>
      if lmark st then set_cl st k CDrain
      else
        {| nsess := nsess st; sess_of := sess_of st; nwr := nwr st; wr := wr st; ncl := ncl st;
           cl_of := updf (cl_of st) k CSig; cap := cap st;
           backlog := backlog st; delivered := delivered st; closing := closing st; aclosed := aclosed st;
           enq_log := enq_log st; recv_log := recv_log st; lmark := true; closeCh := closeCh st; lreleased := lreleased st; hs_pending := hs_pending st; panic := panic st |}
    | CSig =>
      {| nsess := nsess st; sess_of := sess_of st; nwr := nwr st; wr := wr st; ncl := ncl st;
         cl_of := updf (cl_of st) k CDrain; cap := cap st;
         backlog := backlog st; delivered := delivered st; closing := closing st; aclosed := aclosed st;
         enq_log := enq_log st; recv_log := recv_log st; lmark := lmark st; closeCh := true; lreleased := lreleased st; hs_pending := hs_pending st; panic := panic st |}
    | CDrain =>
      match backlog st with
      | [] => set_cl st k CRel
      | _ => take_head st
      end
    | CRel =>
      {| nsess := nsess st; sess_of := release1 (nsess st) (sess_of st); nwr := nwr st; wr := wr st; ncl := ncl st;
         cl_of := updf (cl_of st) k CDone; cap := cap st;
         backlog := backlog st; delivered := delivered st; closing := closing st; aclosed := aclosed st;
         enq_log := enq_log st; recv_log := recv_log st; lmark := lmark st; closeCh := closeCh st; lreleased := true;
         hs_pending := hs_pending st; panic := panic st || release_panics (nsess st) (sess_of st) |}
    | CDone => st
    end
  | RawAccept => set_hs st (S (hs_pending st))
  | HandshakeFail => set_hs st (pred (hs_pending st))
  end.

(* an event that is not enabled in the current state does not happen *)
Definition exec (st : state) (e : event) : state := if enabled st e then step st e else st.
Definition run (evs : list event) (st : state) : state := fold_left exec evs st.

Fixpoint accepts (st : state) (evs : list event) : bool :=
  match evs with
  | [] => true
  | e :: r => enabled st e && accepts (step st e) r
  end.

(* VARIANT used only to show that the closed-test must sit in the same critical section as the registration,
   AFTER the handshake (not the code that exists): the test is made when the raw connection is accepted, before
   the handshake; when the handshake returns the session is registered unconditionally. *)
Definition step_check_before_handshake (st : state) (e : event) : state :=
  match e with
  | RawAccept => if lmark st then st else set_hs st (S (hs_pending st))
  | SessionUp =>
    let x := {| refs := 1; in_map := true; registered := true; sclosed := false; wg_zero := false;
                loop := LAccepting; inq := 0; arrived := 0; wrapped := 0; refused := 0 |} in
    {| nsess := S (nsess st); sess_of := updf (sess_of st) (nsess st) x; nwr := nwr st; wr := wr st;
       ncl := ncl st; cl_of := cl_of st; cap := cap st;
       backlog := backlog st; delivered := delivered st; closing := closing st; aclosed := aclosed st;
       enq_log := enq_log st; recv_log := recv_log st; lmark := lmark st; closeCh := closeCh st; lreleased := lreleased st;
       hs_pending := pred (hs_pending st); panic := panic st |}
  | _ => step st e
  end.
Definition run_check_before_handshake (evs : list event) (st : state) : state :=
  fold_left (fun a e => if enabled a e then step_check_before_handshake a e else a) evs st.

(* VARIANT used only to show that the CAS in streamWrapper.Close is essential (not the code that exists):
   Close split into  check `closed == 0`  /  stream.Close()  /  `closed = 1`; wg.Done().  Two goroutines
   that both pass the check (wclose_check in the same state) both run the rest (wclose_finish): *)
Definition wclose_check (st : state) (w : nat) : bool := mem w (delivered st) && negb (w_closed (wr st w)).
Definition wclose_finish (st : state) (w : nat) : state :=
  let x := wr st w in
  let s := w_sess x in
  {| nsess := nsess st; sess_of := updf (sess_of st) s (done1 (sess_of st s)); nwr := nwr st;
     wr := updf (wr st) w {| w_sess := s; w_ord := w_ord x; w_closed := true |};
     ncl := ncl st; cl_of := cl_of st; cap := cap st;
     backlog := backlog st; delivered := delivered st; closing := closing st; aclosed := aclosed st;
     enq_log := enq_log st; recv_log := recv_log st; lmark := lmark st; closeCh := closeCh st; lreleased := lreleased st;
     hs_pending := hs_pending st; panic := panic st || done_panics (sess_of st s) |}.

(* VARIANT used only to show that the ORDER of listener.Close's steps matters (not the code that exists):
   the same machine, but a Close call drains the backlog right after its CAS and closes closeCh only
   afterwards (CStart -> CDrain -> CSig -> CRel).  Props/C19.v refutes the sessions-end statement for it. *)
Definition step_drain_first (st : state) (e : event) : state :=
  match e with
  | LStep k =>
    match cl_of st k with
    | CStart =>
      {| nsess := nsess st; sess_of := sess_of st; nwr := nwr st; wr := wr st; ncl := ncl st;
         cl_of := updf (cl_of st) k CDrain; cap := cap st;
         backlog := backlog st; delivered := delivered st; closing := closing st; aclosed := aclosed st;
         enq_log := enq_log st; recv_log := recv_log st; lmark := true; closeCh := closeCh st; lreleased := lreleased st; hs_pending := hs_pending st; panic := panic st |}
    | CDrain =>
      match backlog st with
      | [] => set_cl st k (if closeCh st then CRel else CSig)
      | _ => take_head st
      end
    | CSig =>
      {| nsess := nsess st; sess_of := sess_of st; nwr := nwr st; wr := wr st; ncl := ncl st;
         cl_of := updf (cl_of st) k CRel; cap := cap st;
         backlog := backlog st; delivered := delivered st; closing := closing st; aclosed := aclosed st;
         enq_log := enq_log st; recv_log := recv_log st; lmark := lmark st; closeCh := true; lreleased := lreleased st; hs_pending := hs_pending st; panic := panic st |}
    | _ => step st e
    end
  | _ => step st e
  end.
Definition exec_drain_first (st : state) (e : event) : state := if enabled st e then step_drain_first st e else st.
Definition run_drain_first (evs : list event) (st : state) : state := fold_left exec_drain_first evs st.

(* number of wrappers of session s that hold their reference (not yet closed) *)
Fixpoint count (f : nat -> bool) (n : nat) : nat :=
  match n with O => O | S m => ((if f m then 1 else 0) + count f m)%nat end.
Definition open_w (st : state) (s : nat) : nat :=
  count (fun w => Nat.eqb (w_sess (wr st w)) s && negb (w_closed (wr st w))) (nwr st).
Definition b2z (b : bool) : Z := if b then 1 else 0.

(* the adapter is at rest: no Close call in progress, no accept goroutine between its select and
   the follow-up of the branch it took, no conn taken aside and not yet Closed *)
Definition at_rest (st : state) : bool :=
  forallb (fun k => is_cdone (cl_of st k)) (seq 0 (ncl st))
  && forallb (fun s => match loop (sess_of st s) with LAccepting | LExited => true | _ => false end) (seq 0 (nsess st))
  && match closing st with [] => true | _ => false end.

(* ------------------------------------------------------------------------------------------ *)
(* Part 2: Read / Write                                                                         *)
(* ------------------------------------------------------------------------------------------ *)

Definition byte := Z.

(* the for-loop of linkedBuffer.read: `need` bytes still wanted, front slice first; a slice that
   holds at least `need` unread bytes ends the loop and stays at the front (even if now empty);
   a shorter one is consumed entirely and popped (readNextSlice) *)
Fixpoint lb_loop (sl : list (list byte)) (need : nat) : list byte * list (list byte) :=
  match need with
  | O => ([], sl)
  | _ =>
    match sl with
    | [] => ([], [])
    | f :: rest =>
      if (need <=? length f)%nat then (firstn need f, skipn need f :: rest)
      else let '(b, sl') := lb_loop rest (need - length f) in (f ++ b, sl')
    end
  end.

Inductive rerr := RTimeout | REndOfStream | RStreamClosed.

Record lbuf := { slices : list (list byte); blen : nat (* the field l.len *) }.

(* outcome of the readMore(1) call made when l.len < 1: an error, or success after which the
   slices `moved` (what pendingData.moveTo appended) are in the buffer *)
Inductive more := MoreErr (e : rerr) | MoreOk (moved : list (list byte)).

Definition total (sl : list (list byte)) : nat := length (concat sl).

(* linkedBuffer.read(p) with len(p) = lenp; result (bytes copied into p, error, buffer after) *)
Definition lb_read (b : lbuf) (lenp : nat) (m : more) : list byte * option rerr * lbuf :=
  match lenp with
  | O => ([], None, b)
  | _ =>
    let go (b : lbuf) :=
      let '(out, sl') := lb_loop (slices b) lenp in
      (out, None, {| slices := sl'; blen := blen b - length out |}) in
    if (blen b <? 1)%nat
    then match m with
         | MoreErr e => ([], Some e, b)
         | MoreOk moved => go {| slices := slices b ++ moved; blen := (blen b + total moved)%nat |}
         end
    else go b
  end.

(* linkedBuffer.copyWriteAndFlush(data): len 0 -> (0, nil); WriteBytes error -> (0, err);
   otherwise (written = len data, result of Flush) *)
Definition lb_write (lenp : nat) (wb_err flush_err : bool) : nat * bool (* error? *) :=
  match lenp with
  | O => (O, false)
  | _ => if wb_err then (O, true) else (lenp, flush_err)
  end.

(* a one-directional pipe: writer -> (slices in flight / in the reader's buffer) -> reader *)
Inductive io_op :=
| IoWrite (chunks : list (list byte)) (flush_err : bool)  (* Write(concat chunks); how the data is cut into slices is arbitrary *)
| IoRead (lenp : nat).                                     (* Read(p), len p = lenp, issued when data is buffered (else: C11) *)

Record pipe := { pbuf : lbuf; written : list byte; readout : list byte; io_ok : bool }.
Definition pipe0 : pipe := {| pbuf := {| slices := []; blen := 0 |}; written := []; readout := []; io_ok := true |}.

Definition io_step (p : pipe) (o : io_op) : pipe :=
  match o with
  | IoWrite chunks ferr =>
    let '(n, err) := lb_write (total chunks) false ferr in
    if err then p
    else {| pbuf := {| slices := slices (pbuf p) ++ chunks; blen := (blen (pbuf p) + total chunks)%nat |};
            written := written p ++ concat chunks; readout := readout p;
            io_ok := io_ok p && Nat.eqb n (total chunks) |}
  | IoRead lenp =>
    if (blen (pbuf p) <? 1)%nat then p     (* would wait in readMore: not this model's subject *)
    else
      let '(out, err, b') := lb_read (pbuf p) lenp (MoreErr RTimeout) in
      {| pbuf := b'; written := written p; readout := readout p ++ out;
         io_ok := io_ok p && match err with None => true | Some _ => false end
                  && ((lenp =? 0)%nat || ((1 <=? length out)%nat && (length out <=? lenp)%nat)) |}
  end.
Definition io_run (ops : list io_op) : pipe := fold_left io_step ops pipe0.

(* ------------------------------------------------------------------------------------------ *)
(* Part 3: one conn used full duplex - one goroutine Reads while another one Writes               *)
(* ------------------------------------------------------------------------------------------ *)
(* Stream.copyRead = s.recvBuf.read(p) touches the receive side only; Stream.copyWriteAndFlush =
   s.sendBuf.copyWriteAndFlush(p) touches the send side only: WriteBytes fills s.sendBuf, then Flush RE-READS
   the field s.sendBuf (Len, done, rootBufOffset, deferred clean) and hands its content to the peer.  The two
   calls interleave at these steps.  (That copyRead mentions only recvBuf and copyWriteAndFlush / Flush never
   recvBuf is checked against the current source on every run by the plugin.) *)
Record duplex := {
  dx_recv : lbuf;               (* s.recvBuf *)
  dx_sendbuf : list byte;       (* content of s.sendBuf *)
  dx_wire : list byte;          (* bytes handed to the peer by Flush, in order *)
  dx_got : list byte;           (* bytes returned by Read so far *)
  dx_arrived : list byte;       (* bytes the peer's writes delivered into recvBuf so far *)
  dx_wpc : option (list byte);  (* a Write is between WriteBytes and the end of Flush: its p *)
  dx_written : list byte;       (* bytes of the Writes that returned (len p, nil) *)
  dx_ok : bool }.               (* every Read so far kept the io.Reader contract *)

Inductive dxev :=
| DxArrive (chunks : list (list byte))   (* event loop: the peer's data appended to recvBuf *)
| DxRead (lenp : nat)                    (* reader goroutine: Read(p), issued when data is buffered *)
| DxWriteBytes (p : list byte)           (* writer goroutine: first half of Write(p) *)
| DxFlush.                               (* writer goroutine: second half: Flush, Write returns (len p, nil) *)

Definition dx0 : duplex :=
  {| dx_recv := {| slices := []; blen := 0 |}; dx_sendbuf := []; dx_wire := []; dx_got := []; dx_arrived := [];
     dx_wpc := None; dx_written := []; dx_ok := true |}.

(* swap = false is the code that exists.  swap = true is the VARIANT (not the code) in which a Read that drains
   the receive buffer swaps s.recvBuf and s.sendBuf (ReleaseReadAndReuse): used only to show that the frame
   property below is what the contract rests on. *)
Definition dx_step (swap : bool) (d : duplex) (e : dxev) : duplex :=
  match e with
  | DxArrive chunks =>
    {| dx_recv := {| slices := slices (dx_recv d) ++ chunks; blen := (blen (dx_recv d) + total chunks)%nat |};
       dx_sendbuf := dx_sendbuf d; dx_wire := dx_wire d; dx_got := dx_got d; dx_arrived := dx_arrived d ++ concat chunks;
       dx_wpc := dx_wpc d; dx_written := dx_written d; dx_ok := dx_ok d |}
  | DxRead lenp =>
    if (blen (dx_recv d) <? 1)%nat || Nat.eqb lenp 0 then d else
    let '(out, err, b') := lb_read (dx_recv d) lenp (MoreErr RTimeout) in
    let ok' := dx_ok d && match err with None => true | Some _ => false end
               && (1 <=? length out)%nat && (length out <=? lenp)%nat in
    if swap && Nat.eqb (blen b') 0 then
      (* the drained receive buffer becomes the send buffer and vice versa *)
      {| dx_recv := {| slices := [dx_sendbuf d]; blen := length (dx_sendbuf d) |};
         dx_sendbuf := []; dx_wire := dx_wire d; dx_got := dx_got d ++ out; dx_arrived := dx_arrived d;
         dx_wpc := dx_wpc d; dx_written := dx_written d; dx_ok := ok' |}
    else
      {| dx_recv := b'; dx_sendbuf := dx_sendbuf d; dx_wire := dx_wire d; dx_got := dx_got d ++ out;
         dx_arrived := dx_arrived d; dx_wpc := dx_wpc d; dx_written := dx_written d; dx_ok := ok' |}
  | DxWriteBytes p =>
    match dx_wpc d, p with
    | None, _ :: _ =>
      {| dx_recv := dx_recv d; dx_sendbuf := dx_sendbuf d ++ p; dx_wire := dx_wire d; dx_got := dx_got d;
         dx_arrived := dx_arrived d; dx_wpc := Some p; dx_written := dx_written d; dx_ok := dx_ok d |}
    | _, _ => d
    end
  | DxFlush =>
    match dx_wpc d with
    | Some p =>
      {| dx_recv := dx_recv d; dx_sendbuf := []; dx_wire := dx_wire d ++ dx_sendbuf d; dx_got := dx_got d;
         dx_arrived := dx_arrived d; dx_wpc := None; dx_written := dx_written d ++ p; dx_ok := dx_ok d |}
    | None => d
    end
  end.

Definition dx_run (swap : bool) (evs : list dxev) : duplex := fold_left (dx_step swap) evs dx0.
