(* Model of net_listener.go (the net.Listener / net.Conn adapter).  NO PROOFS in this file.

   Part 1 — reference counting and delivery.  One model event = one atomic step of the real code
   (a channel operation, a WaitGroup operation, or a critical section of l.mu):

     SessionUp      listenLoop's per-connection goroutine, lines 74-88: under l.mu, if l.closed = 1 the
                    session is closed on the spot, else wg.Add(1); l.sessions[session] = wg
     StreamIn s     the event loop of session s puts a new stream into acceptCh (session.go getStream)
     Wrap s         AcceptStream returned a stream (line 97); newStreamWrapper: wg.Add(1) (114, 191)
     Enqueue s      the select of lines 115-119 takes `l.backlog <- conn`
     Lose s         the same select takes `<-l.closeCh`: the goroutine returns, the wrapper is dropped
     SessionDie s   the session shuts down for an outside reason (peer gone, protocol error)
     AcceptErr s    AcceptStream returned an error (98-111): session.Close(); under l.mu delete + Done
                    only if the session is still in the map; return
     Accept         listener.Accept takes `conn := <-l.backlog`
     AcceptFail     listener.Accept takes `<-l.closeCh` and returns an error
     WClose w       streamWrapper.Close on a conn the user obtained from Accept: CAS closed 0->1, then
                    stream.Close and wg.Done; a failed CAS does nothing
     LMark          listener.Close line 140: CAS l.closed 0->1
     LSignal        line 144: close(l.closeCh) (only by the caller whose CAS succeeded, hence once)
     LRelease       lines 147-152: under l.mu, wg.Done() for every session in the map; clear the map

   wg.Done() that makes the counter negative PANICS (sync: negative WaitGroup counter): explicit flag.
   The goroutine `wg.Wait(); session.Close()` (90-94) is folded into Done: the counter reaching zero
   sets wg_zero and sclosed (that the parked waiter then runs is Go-runtime behaviour).

   Part 2 — the io.Reader / io.Writer face: linkedBuffer.read (buffer.go 275-298) over a list of
   slices, copyWriteAndFlush (118-129).                                                         *)
From Coq Require Import List ZArith Lia Bool Arith.
Import ListNotations.
Open Scope Z_scope.

(* ------------------------------------------------------------------------------------------ *)
(* Part 1                                                                                       *)
(* ------------------------------------------------------------------------------------------ *)

Inductive loop_pc := LAccepting | LSelecting (w : nat) | LExited.

Record sess := {
  refs : Z;            (* the sync.WaitGroup counter *)
  in_map : bool;       (* session is a key of l.sessions *)
  registered : bool;   (* ghost: went through lines 85-88 (false: rejected because l.closed was 1) *)
  sclosed : bool;      (* session.Close has been called / the session is shut down *)
  wg_zero : bool;      (* ghost: the counter has reached zero (the wg.Wait goroutine was released) *)
  loop : loop_pc;      (* the per-session accept goroutine *)
  inq : nat;           (* streams waiting in session.acceptCh *)
  arrived : nat;       (* ghost: streams ever put into acceptCh *)
  wrapped : nat }.     (* ghost: streams ever wrapped *)

Record wrapper := { w_sess : nat; w_ord : nat (* ghost: k-th stream of its session *); w_closed : bool }.

Record state := {
  nsess : nat; sess_of : nat -> sess;
  nwr : nat; wr : nat -> wrapper;
  cap : nat;                 (* capacity of the backlog channel *)
  backlog : list nat;        (* wrapper ids, head = next to be received *)
  delivered : list nat;      (* ghost: ids returned by Accept, in order *)
  lost : list nat;           (* ghost: ids dropped by the select (lost to closeCh) *)
  enq_log : list nat;        (* ghost: ids ever sent into the backlog, in order *)
  lmark : bool;              (* l.closed *)
  closeCh : bool;            (* l.closeCh is closed *)
  lreleased : bool;          (* ghost: lines 147-152 have run at least once *)
  panic : bool }.

Definition dflt_sess : sess :=
  {| refs := 0; in_map := false; registered := false; sclosed := false; wg_zero := false;
     loop := LExited; inq := 0; arrived := 0; wrapped := 0 |}.
Definition dflt_wr : wrapper := {| w_sess := 0; w_ord := 0; w_closed := false |}.

Definition init (c : nat) : state :=
  {| nsess := 0; sess_of := fun _ => dflt_sess; nwr := 0; wr := fun _ => dflt_wr; cap := c;
     backlog := []; delivered := []; lost := []; enq_log := [];
     lmark := false; closeCh := false; lreleased := false; panic := false |}.

Definition updf {A} (f : nat -> A) (k : nat) (v : A) : nat -> A :=
  fun i => if Nat.eqb i k then v else f i.

(* wg.Done() *)
Definition done1 (x : sess) : sess :=
  let r := refs x - 1 in
  {| refs := r; in_map := in_map x; registered := registered x;
     sclosed := sclosed x || (r =? 0); wg_zero := wg_zero x || (r =? 0);
     loop := loop x; inq := inq x; arrived := arrived x; wrapped := wrapped x |}.
Definition done_panics (x : sess) : bool := refs x - 1 <? 0.

Definition set_sess (st : state) (s : nat) (x : sess) (p : bool) : state :=
  {| nsess := nsess st; sess_of := updf (sess_of st) s x; nwr := nwr st; wr := wr st; cap := cap st;
     backlog := backlog st; delivered := delivered st; lost := lost st; enq_log := enq_log st;
     lmark := lmark st; closeCh := closeCh st; lreleased := lreleased st; panic := panic st || p |}.

Inductive event :=
| SessionUp | StreamIn (s : nat) | Wrap (s : nat) | Enqueue (s : nat) | Lose (s : nat)
| SessionDie (s : nat) | AcceptErr (s : nat)
| Accept | AcceptFail | WClose (w : nat)
| LMark | LSignal | LRelease.

Definition mem (w : nat) (l : list nat) : bool := existsb (Nat.eqb w) l.

Definition is_accepting (p : loop_pc) : bool := match p with LAccepting => true | _ => false end.
Definition is_selecting (p : loop_pc) : bool := match p with LSelecting _ => true | _ => false end.

Definition enabled (st : state) (e : event) : bool :=
  match e with
  | SessionUp => true
  | StreamIn s => (s <? nsess st)%nat && registered (sess_of st s)
  | Wrap s => (s <? nsess st)%nat && is_accepting (loop (sess_of st s)) && (0 <? inq (sess_of st s))%nat
  | Enqueue s => (s <? nsess st)%nat && is_selecting (loop (sess_of st s)) && (length (backlog st) <? cap st)%nat
  | Lose s => (s <? nsess st)%nat && is_selecting (loop (sess_of st s)) && closeCh st
  | SessionDie s => (s <? nsess st)%nat
  | AcceptErr s => (s <? nsess st)%nat && is_accepting (loop (sess_of st s)) && sclosed (sess_of st s)
  | Accept => match backlog st with [] => false | _ => true end
  | AcceptFail => closeCh st
  | WClose w => mem w (delivered st)
  | LMark => true
  | LSignal => lmark st && negb (closeCh st)
  | LRelease => lmark st
  end.

Definition with_loop (x : sess) (p : loop_pc) : sess :=
  {| refs := refs x; in_map := in_map x; registered := registered x; sclosed := sclosed x;
     wg_zero := wg_zero x; loop := p; inq := inq x; arrived := arrived x; wrapped := wrapped x |}.

Definition release1 (n : nat) (f : nat -> sess) : nat -> sess :=
  fun k => let x := f k in
           if (k <? n)%nat && in_map x
           then let y := done1 x in
                {| refs := refs y; in_map := false; registered := registered y; sclosed := sclosed y;
                   wg_zero := wg_zero y; loop := loop y; inq := inq y; arrived := arrived y; wrapped := wrapped y |}
           else x.
Definition release_panics (n : nat) (f : nat -> sess) : bool :=
  existsb (fun k => in_map (f k) && done_panics (f k)) (seq 0 n).

Definition step (st : state) (e : event) : state :=
  match e with
  | SessionUp =>
    let x := if lmark st
             then {| refs := 0; in_map := false; registered := false; sclosed := true; wg_zero := false;
                     loop := LExited; inq := 0; arrived := 0; wrapped := 0 |}
             else {| refs := 1; in_map := true; registered := true; sclosed := false; wg_zero := false;
                     loop := LAccepting; inq := 0; arrived := 0; wrapped := 0 |} in
    {| nsess := S (nsess st); sess_of := updf (sess_of st) (nsess st) x; nwr := nwr st; wr := wr st; cap := cap st;
       backlog := backlog st; delivered := delivered st; lost := lost st; enq_log := enq_log st;
       lmark := lmark st; closeCh := closeCh st; lreleased := lreleased st; panic := panic st |}
  | StreamIn s =>
    let x := sess_of st s in
    set_sess st s {| refs := refs x; in_map := in_map x; registered := registered x; sclosed := sclosed x;
                     wg_zero := wg_zero x; loop := loop x; inq := S (inq x); arrived := S (arrived x);
                     wrapped := wrapped x |} false
  | Wrap s =>
    let x := sess_of st s in
    let x' := {| refs := refs x + 1; in_map := in_map x; registered := registered x; sclosed := sclosed x;
                 wg_zero := wg_zero x; loop := LSelecting (nwr st); inq := pred (inq x); arrived := arrived x;
                 wrapped := S (wrapped x) |} in
    {| nsess := nsess st; sess_of := updf (sess_of st) s x'; nwr := S (nwr st);
       wr := updf (wr st) (nwr st) {| w_sess := s; w_ord := wrapped x; w_closed := false |}; cap := cap st;
       backlog := backlog st; delivered := delivered st; lost := lost st; enq_log := enq_log st;
       lmark := lmark st; closeCh := closeCh st; lreleased := lreleased st; panic := panic st |}
  | Enqueue s =>
    match loop (sess_of st s) with
    | LSelecting w =>
      {| nsess := nsess st; sess_of := updf (sess_of st) s (with_loop (sess_of st s) LAccepting);
         nwr := nwr st; wr := wr st; cap := cap st;
         backlog := backlog st ++ [w]; delivered := delivered st; lost := lost st; enq_log := enq_log st ++ [w];
         lmark := lmark st; closeCh := closeCh st; lreleased := lreleased st; panic := panic st |}
    | _ => st
    end
  | Lose s =>
    match loop (sess_of st s) with
    | LSelecting w =>
      {| nsess := nsess st; sess_of := updf (sess_of st) s (with_loop (sess_of st s) LExited);
         nwr := nwr st; wr := wr st; cap := cap st;
         backlog := backlog st; delivered := delivered st; lost := lost st ++ [w]; enq_log := enq_log st;
         lmark := lmark st; closeCh := closeCh st; lreleased := lreleased st; panic := panic st |}
    | _ => st
    end
  | SessionDie s =>
    let x := sess_of st s in
    set_sess st s {| refs := refs x; in_map := in_map x; registered := registered x; sclosed := true;
                     wg_zero := wg_zero x; loop := loop x; inq := inq x; arrived := arrived x;
                     wrapped := wrapped x |} false
  | AcceptErr s =>
    let x := sess_of st s in
    if in_map x
    then let y := done1 x in
         set_sess st s {| refs := refs y; in_map := false; registered := registered y; sclosed := sclosed y;
                          wg_zero := wg_zero y; loop := LExited; inq := inq y; arrived := arrived y;
                          wrapped := wrapped y |} (done_panics x)
    else set_sess st s (with_loop x LExited) false
  | Accept =>
    match backlog st with
    | [] => st
    | w :: r =>
      {| nsess := nsess st; sess_of := sess_of st; nwr := nwr st; wr := wr st; cap := cap st;
         backlog := r; delivered := delivered st ++ [w]; lost := lost st; enq_log := enq_log st;
         lmark := lmark st; closeCh := closeCh st; lreleased := lreleased st; panic := panic st |}
    end
  | AcceptFail => st
  | WClose w =>
    let x := wr st w in
    if w_closed x then st
    else
      let s := w_sess x in
      {| nsess := nsess st; sess_of := updf (sess_of st) s (done1 (sess_of st s)); nwr := nwr st;
         wr := updf (wr st) w {| w_sess := s; w_ord := w_ord x; w_closed := true |}; cap := cap st;
         backlog := backlog st; delivered := delivered st; lost := lost st; enq_log := enq_log st;
         lmark := lmark st; closeCh := closeCh st; lreleased := lreleased st;
         panic := panic st || done_panics (sess_of st s) |}
  | LMark =>
    {| nsess := nsess st; sess_of := sess_of st; nwr := nwr st; wr := wr st; cap := cap st;
       backlog := backlog st; delivered := delivered st; lost := lost st; enq_log := enq_log st;
       lmark := true; closeCh := closeCh st; lreleased := lreleased st; panic := panic st |}
  | LSignal =>
    {| nsess := nsess st; sess_of := sess_of st; nwr := nwr st; wr := wr st; cap := cap st;
       backlog := backlog st; delivered := delivered st; lost := lost st; enq_log := enq_log st;
       lmark := lmark st; closeCh := true; lreleased := lreleased st; panic := panic st |}
  | LRelease =>
    {| nsess := nsess st; sess_of := release1 (nsess st) (sess_of st); nwr := nwr st; wr := wr st; cap := cap st;
       backlog := backlog st; delivered := delivered st; lost := lost st; enq_log := enq_log st;
       lmark := lmark st; closeCh := closeCh st; lreleased := true;
       panic := panic st || release_panics (nsess st) (sess_of st) |}
  end.

(* an event that is not enabled in the current state does not happen *)
Definition exec (st : state) (e : event) : state := if enabled st e then step st e else st.
Definition run (evs : list event) (st : state) : state := fold_left exec evs st.

Fixpoint accepts (st : state) (evs : list event) : bool :=
  match evs with
  | [] => true
  | e :: r => enabled st e && accepts (step st e) r
  end.

(* number of wrappers of session s that hold their reference (not yet closed) *)
Fixpoint count (f : nat -> bool) (n : nat) : nat :=
  match n with O => O | S m => ((if f m then 1 else 0) + count f m)%nat end.
Definition open_w (st : state) (s : nat) : nat :=
  count (fun w => Nat.eqb (w_sess (wr st w)) s && negb (w_closed (wr st w))) (nwr st).
Definition b2z (b : bool) : Z := if b then 1 else 0.

(* ------------------------------------------------------------------------------------------ *)
(* Part 2: Read / Write                                                                         *)
(* ------------------------------------------------------------------------------------------ *)

Definition byte := Z.

(* the for-loop of linkedBuffer.read: `need` bytes still wanted, front slice first; a slice that
   holds at least `need` unread bytes ends the loop and stays at the front (even if now empty);
   a shorter one is consumed entirely and popped (readNextSlice) *)
Fixpoint lb_loop (sl : list (list byte)) (need : nat) : list byte * list (list byte) :=
  match need with
  | O => ([], sl)
  | _ =>
    match sl with
    | [] => ([], [])
    | f :: rest =>
      if (need <=? length f)%nat then (firstn need f, skipn need f :: rest)
      else let '(b, sl') := lb_loop rest (need - length f) in (f ++ b, sl')
    end
  end.

Inductive rerr := RTimeout | REndOfStream | RStreamClosed.

Record lbuf := { slices : list (list byte); blen : nat (* the field l.len *) }.

(* outcome of the readMore(1) call made when l.len < 1: an error, or success after which the
   slices `moved` (what pendingData.moveTo appended) are in the buffer *)
Inductive more := MoreErr (e : rerr) | MoreOk (moved : list (list byte)).

Definition total (sl : list (list byte)) : nat := length (concat sl).

(* linkedBuffer.read(p) with len(p) = lenp; result (bytes copied into p, error, buffer after) *)
Definition lb_read (b : lbuf) (lenp : nat) (m : more) : list byte * option rerr * lbuf :=
  match lenp with
  | O => ([], None, b)
  | _ =>
    let go (b : lbuf) :=
      let '(out, sl') := lb_loop (slices b) lenp in
      (out, None, {| slices := sl'; blen := blen b - length out |}) in
    if (blen b <? 1)%nat
    then match m with
         | MoreErr e => ([], Some e, b)
         | MoreOk moved => go {| slices := slices b ++ moved; blen := (blen b + total moved)%nat |}
         end
    else go b
  end.

(* linkedBuffer.copyWriteAndFlush(data): len 0 -> (0, nil); WriteBytes error -> (0, err);
   otherwise (written = len data, result of Flush) *)
Definition lb_write (lenp : nat) (wb_err flush_err : bool) : nat * bool (* error? *) :=
  match lenp with
  | O => (O, false)
  | _ => if wb_err then (O, true) else (lenp, flush_err)
  end.

(* a one-directional pipe: writer -> (slices in flight / in the reader's buffer) -> reader *)
Inductive io_op :=
| IoWrite (chunks : list (list byte)) (flush_err : bool)  (* Write(concat chunks); how the data is cut into slices is arbitrary *)
| IoRead (lenp : nat).                                     (* Read(p), len p = lenp, issued when data is buffered (else: C11) *)

Record pipe := { pbuf : lbuf; written : list byte; readout : list byte; io_ok : bool }.
Definition pipe0 : pipe := {| pbuf := {| slices := []; blen := 0 |}; written := []; readout := []; io_ok := true |}.

Definition io_step (p : pipe) (o : io_op) : pipe :=
  match o with
  | IoWrite chunks ferr =>
    let '(n, err) := lb_write (total chunks) false ferr in
    if err then p
    else {| pbuf := {| slices := slices (pbuf p) ++ chunks; blen := (blen (pbuf p) + total chunks)%nat |};
            written := written p ++ concat chunks; readout := readout p;
            io_ok := io_ok p && Nat.eqb n (total chunks) |}
  | IoRead lenp =>
    if (blen (pbuf p) <? 1)%nat then p     (* would wait in readMore: not this model's subject *)
    else
      let '(out, err, b') := lb_read (pbuf p) lenp (MoreErr RTimeout) in
      {| pbuf := b'; written := written p; readout := readout p ++ out;
         io_ok := io_ok p && match err with None => true | Some _ => false end
                  && ((lenp =? 0)%nat || ((1 <=? length out)%nat && (length out <=? lenp)%nat)) |}
  end.
Definition io_run (ops : list io_op) : pipe := fold_left io_step ops pipe0.
