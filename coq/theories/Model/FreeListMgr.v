(* Sequential model of the bufferManager layer above the free lists (buffer_manager.go:
   allocShmBuffer, allocShmBuffers, recycleBuffer): several size classes — possibly of EQUAL slice
   size, VerifyConfig does not forbid that — each an abstract FIFO of absolute buffer offsets
   (the per-list behaviour is what Proofs/FreeListSeq.v proves of the access-level model:
   pop hands out the oldest free slot unless it is the last one; push appends).   NO PROOFS here.

   allocShmBuffer(size): if size <= maxSliceSize: first class (ascending) with size <= capPerBuffer
                         whose pop succeeds.
   allocShmBuffers(size): from the LAST class downwards, pop until the remainder is <= 0 or the class fails.
   recycleBuffer(b):      pushed onto the FIRST class whose capPerBuffer equals b's capacity, and only that one. *)
From Coq Require Import List ZArith Bool Arith.
Import ListNotations.
Open Scope Z_scope.

Record cls := { c_cpb : Z; c_free : list Z }.
Record buf := { b_off : Z; b_cap : Z }.
Record mgr := { classes : list cls; mheld : list buf }.

Definition pop (c : cls) : option (Z * cls) :=
  match c_free c with
  | a :: (_ :: _) as r => Some (a, {| c_cpb := c_cpb c; c_free := r |})
  | _ => None
  end.
Definition push (c : cls) (o : Z) : cls := {| c_cpb := c_cpb c; c_free := c_free c ++ [o] |}.

Definition max_size (l : list cls) : Z := c_cpb (last l {| c_cpb := 0; c_free := [] |}).

(* first fitting class whose pop succeeds *)
Fixpoint alloc_in (l : list cls) (size : Z) : option (buf * list cls) :=
  match l with
  | [] => None
  | c :: r =>
      if size <=? c_cpb c then
        match pop c with
        | Some (o, c') => Some ({| b_off := o; b_cap := c_cpb c |}, c' :: r)
        | None => match alloc_in r size with Some (b, r') => Some (b, c :: r') | None => None end
        end
      else match alloc_in r size with Some (b, r') => Some (b, c :: r') | None => None end
  end.

Definition alloc1 (m : mgr) (size : Z) : option buf * mgr :=
  if size <=? max_size (classes m) then
    match alloc_in (classes m) size with
    | Some (b, l') => (Some b, {| classes := l'; mheld := mheld m ++ [b] |})
    | None => (None, m)
    end
  else (None, m).

(* pop from one class until remain <= 0 or it fails; fuel = number of free slots *)
Fixpoint drain (fuel : nat) (c : cls) (remain : Z) (acc : list buf) : cls * Z * list buf :=
  match fuel with
  | O => (c, remain, acc)
  | S f => if remain >? 0 then
             match pop c with
             | Some (o, c') => drain f c' (remain - c_cpb c) (acc ++ [{| b_off := o; b_cap := c_cpb c |}])
             | None => (c, remain, acc)
             end
           else (c, remain, acc)
  end.

(* classes given in REVERSE order (largest first); returns them in the same order *)
Fixpoint alloc_multi_rev (l : list cls) (remain : Z) (acc : list buf) : list cls * list buf :=
  match l with
  | [] => ([], acc)
  | c :: r => let '(c', rem', acc') := drain (length (c_free c)) c remain acc in
              let '(r', acc'') := alloc_multi_rev r rem' acc' in (c' :: r', acc'')
  end.

Definition alloc_multi (m : mgr) (size : Z) : list buf * mgr :=
  let '(lr, got) := alloc_multi_rev (rev (classes m)) size [] in
  (got, {| classes := rev lr; mheld := mheld m ++ got |}).

Fixpoint recycle_in (l : list cls) (b : buf) : list cls :=
  match l with
  | [] => []
  | c :: r => if b_cap b =? c_cpb c then push c (b_off b) :: r else c :: recycle_in r b
  end.

Fixpoint remove_nth {A} (n : nat) (l : list A) : list A :=
  match n, l with
  | _, [] => []
  | O, _ :: r => r
  | S k, x :: r => x :: remove_nth k r
  end.

Inductive mop := MAlloc (size : Z) | MAllocMulti (size : Z) | MRecycle (k : nat).
Inductive mres := RBuf (o : option Z) | RBufs (l : list Z) | RUnit.

Definition mstep (m : mgr) (o : mop) : mres * mgr :=
  match o with
  | MAlloc size => let '(b, m') := alloc1 m size in (RBuf (option_map b_off b), m')
  | MAllocMulti size => let '(l, m') := alloc_multi m size in (RBufs (map b_off l), m')
  | MRecycle k => match nth_error (mheld m) k with
                  | Some b => (RUnit, {| classes := recycle_in (classes m) b; mheld := remove_nth k (mheld m) |})
                  | None => (RUnit, m)
                  end
  end.

Fixpoint mrun (m : mgr) (ops : list mop) : list mres * mgr :=
  match ops with
  | [] => ([], m)
  | o :: r => let '(x, m') := mstep m o in let '(xs, m'') := mrun m' r in (x :: xs, m'')
  end.

Definition all_free (m : mgr) : list Z := flat_map c_free (classes m).
Definition all_slots (m : mgr) : list Z := all_free m ++ map b_off (mheld m).
