# Mechanism G: regenerate coq/theories/Gen/Consts.v from /repo's current source.
import json, os
from . import core

GEN_FILE = os.path.join(core.COQ, "theories", "Gen", "Consts.v")


def run_translator():
    h = core.tree_hash()
    cache = os.path.join(core.WORK, "gen_%s.json" % h)
    if os.path.exists(cache):
        return json.load(open(cache)), None
    with core.Lock("gen"):
        if os.path.exists(cache):
            return json.load(open(cache)), None
        tmp = cache + ".tmp%d" % os.getpid()
        rc, out, _ = core.go_test("gen", "^TestVerif_GenConsts$", {"VERIF_OUT": tmp}, timeout=600,
                                  files=[os.path.join(core.HARNESS, "gen_consts_test.go")])
        if rc != 0 or not os.path.exists(tmp):
            return None, "translator failed (does /repo still build?):\n" + out[-3000:]
        data = json.load(open(tmp))
        os.rename(tmp, cache)
        # keep only the two most recent caches
        olds = sorted([f for f in os.listdir(core.WORK) if f.startswith("gen_") and f.endswith(".json")],
                      key=lambda f: os.path.getmtime(os.path.join(core.WORK, f)))
        for f in olds[:-3]:
            os.unlink(os.path.join(core.WORK, f))
        return data, None


def render(data):
    L = ["(* GENERATED from /repo by go/harness/gen_consts_test.go (mechanism G). Do not edit. *)",
         "From Coq Require Import ZArith.", "Open Scope Z_scope.", ""]
    for k in sorted(data["consts"]):
        L.append("Definition c_%s : Z := %s." % (k, core.z(data["consts"][k])))
    L.append("")
    for grp in sorted(data["offsets"]):
        for k in sorted(data["offsets"][grp]):
            L.append("Definition off_%s_%s : Z := %s." % (grp, k, core.z(data["offsets"][grp][k])))
    L.append("")
    return "\n".join(L)


def regenerate():
    """Returns (data, error). Writes Gen/Consts.v only when its content changes."""
    data, err = run_translator()
    if err:
        return None, err
    if data.get("errors"):
        return data, "translator could not recognise: " + "; ".join(data["errors"])
    txt = render(data)
    os.makedirs(os.path.dirname(GEN_FILE), exist_ok=True)
    with core.Lock("coq"):
        old = open(GEN_FILE).read() if os.path.exists(GEN_FILE) else None
        if old != txt:
            with open(GEN_FILE, "w") as fh:
                fh.write(txt)
    return data, None
