# Shared by props/C01.py and props/C02.py: run the free-list harness (mechanism S) and evaluate the
# Coq model (Model/FreeList.v) on the same schedules.
import json, os, re
from . import core, sched

HFILES = None


def files():
    return sorted([f for f in core.harness_files("C01")])


def op(o):
    k = o["k"]
    if k == "alloc":
        return "Alloc"
    if k == "freeOldest":
        return "FreeOldest"
    if k == "freeNewest":
        return "FreeNewest"
    if k == "freeChain":
        return "FreeChain"
    return "Update %s %s" % (core.z(o.get("sz", 0)), "true" if o.get("link") else "false")


def event(ev):
    if ev is None:
        return "None"
    cell = ev["o"] if ev["r"] == 0 else -1000 - ev["r"]
    return "ev %s %s %s %s %s" % (core.z(ev["k"]), core.z(cell), core.z(ev["a"]), core.z(ev["b"]), core.z(ev["c"]))


def case_to_coq(c):
    progs = core.coq_list([core.coq_list([op(o) for o in p]) for p in c["progs"]])
    sch = core.coq_list(["%d%%nat" % s["tid"] for s in c["steps"]])
    evs = core.coq_list([event(s["ev"]) for s in c["steps"]])
    res = core.coq_list([core.coq_list([core.z(x) for x in (r or [])]) for r in c["res"]])
    fin = core.coq_list([core.z(x) for x in c["final"]])
    return ("{| f_n := %d; f_cpb := %d; f_base := %d; f_len := %d; f_progs := %s; f_sched := %s; f_events := %s; f_res := %s; f_final := %s |}"
            % (c["n"], c["cpb"], c["base"], c["len"], progs, sch, evs, res, fin))


def eval_cases(cases, tag):
    bad = []
    # shard by total number of steps (some cases spin through the 200-retry bound)
    shards, cur, cnt = [], [], 0
    for i, c in enumerate(cases):
        cur.append((i, c)); cnt += len(c["steps"]) + 20
        if cnt > 40000:
            shards.append(cur); cur, cnt = [], 0
    if cur:
        shards.append(cur)
    for k, sh in enumerate(shards):
        txt = ["From Coq Require Import List ZArith.", "From Shm Require Import Gen.Consts Model.FreeList Corr.FreeListCorr.",
               "Import ListNotations.", "Open Scope Z_scope.", "Definition cases : list fcase := ["]
        txt.append(";\n".join(case_to_coq(c) for _, c in sh))
        txt.append("].")
        txt.append("Definition M := Eval vm_compute in mismatches cases.")
        txt.append("Print M.")
        rc, out, _ = core.coq_eval("cases_freelist_%s_%d_%d" % (tag, os.getpid(), k), "\n".join(txt))
        if rc != 0:
            raise RuntimeError("coqc on the generated cases failed: " + out[-1500:])
        m = re.search(r"M\s*=\s*(.*?)\s*:\s*list", out, re.S)
        if not m:
            raise RuntimeError("cannot parse the mismatch list: " + out[-500:])
        body = m.group(1).strip()
        if body != "[]":
            found = False
            for mm in re.finditer(r"\((\d+)%?n?a?t?,\s*\(?(-?\d+)\)?(?:%Z)?,\s*(None|Some\s+(\d+))", body):
                bad.append((sh[int(mm.group(1))][0], int(mm.group(2)), mm.group(4)))
                found = True
            if not found:
                bad.append((sh[0][0], -1, body[:200]))
    return bad


def run_harness(n, seed, tag, corpus=True):
    ov, rep, err = sched.instrument(["buffer_manager.go", "buffer_slice.go"])
    if err:
        return None, err
    outp = os.path.join(core.WORK, "c01_%s_%d.jsonl" % (tag, os.getpid()))
    envs = {"VERIF_OUT": outp, "VERIF_N": str(n), "VERIF_SEED": str(seed)}
    cp = os.path.join(core.VERIF, "corpus", "freelist.json")
    if corpus and os.path.exists(cp):
        envs["VERIF_CORPUS"] = cp
    rc, out, secs = core.go_test("C01", "^TestVerif_C01$", envs, extra_replace=ov, timeout=1500, files=files())
    if rc != 0:
        return None, "harness failed (rc=%d): %s" % (rc, out[-2500:])
    cases = [json.loads(l) for l in open(outp)]
    os.unlink(outp)
    return cases, None


C01_ORACLES = ("double ownership", "not at a slot boundary", "advertised capacity", "payload of a held buffer",
               "header of a held buffer", "panicked", "panic while", "capacity of its slot", "smaller than requested", "panic in a manager")
C02_ORACLES = ("free count plus buffers held", "at quiescence", "did not finish", "recycling a message chain")


def classify(msg):
    for k in C01_ORACLES:
        if k in msg:
            return "C01"
    return "C02"


def signature(prop, c, msg):
    m = re.sub(r"\(holders.*?\)", "", msg).strip()
    base = "%s:%s" % (prop, re.sub(r"[^A-Za-z0-9]+", "-", m)[:70])
    # the ABA family: the first divergence from an ABA-free execution is a head CAS that succeeds although
    # the head was popped and re-pushed in between; recognised on the trace
    if aba_in_trace(c):
        return "%s:ABA-stale-head-CAS" % prop
    return base


def aba_in_trace(c):
    """True if a successful CAS on the list HEAD used a successor read before a foreign successful head-CAS
    (the head was popped and came back meanwhile): the signature of the known ABA of bufferList.pop."""
    from . import gen
    data, _ = gen.run_translator()
    head_cell = c["base"] - data["consts"]["bufferListHeaderSize"] + data["offsets"]["create_list"]["head"]
    succ = [(i, s["tid"]) for i, s in enumerate(c["steps"])
            if s["ev"] and s["ev"]["r"] == 0 and s["ev"]["k"] == 3 and s["ev"]["c"] == 1 and s["ev"]["o"] == head_cell]
    last_read = {}
    for i, s in enumerate(c["steps"]):
        ev = s["ev"]
        if not ev or ev["r"] != 0:
            continue
        t = s["tid"]
        if ev["k"] == 0:
            last_read[t] = i
        elif ev["k"] == 3 and ev["c"] == 1 and ev["o"] == head_cell and t in last_read:
            j = last_read[t]
            if any(j < k2 < i and t2 != t for (k2, t2) in succ):
                return True
    return False


# ---------------- manager layer (allocShmBuffer / allocShmBuffers / recycleBuffer over several classes) -----------
def mop(o):
    if o["k"] == "alloc":
        return "MAlloc %s" % core.z(o.get("size", 0))
    if o["k"] == "multi":
        return "MAllocMulti %s" % core.z(o.get("size", 0))
    return "MRecycle %d%%nat" % o.get("idx", 0)


def mcase_to_coq(c):
    cl = core.coq_list(["(%d, %d, %d)" % tuple(x) for x in (c["classes"] or [])])
    ops = core.coq_list([mop(o) for o in c["ops"] or []])
    res = core.coq_list([core.coq_list([core.z(x) for x in (r or [])]) for r in c["res"] or []])
    return "{| mc_classes := %s; mc_ops := %s; mc_res := %s |}" % (cl, ops, res)


def run_manager_harness(n, seed, tag):
    outp = os.path.join(core.WORK, "c01m_%s_%d.jsonl" % (tag, os.getpid()))
    rc, out, secs = core.go_test("C01", "^TestVerif_C01M$", {"VERIF_OUT": outp, "VERIF_N": str(n), "VERIF_SEED": str(seed)},
                                 timeout=900, files=files())
    if rc != 0:
        return None, "manager harness failed (rc=%d): %s" % (rc, out[-2000:])
    cases = [json.loads(l) for l in open(outp)]
    os.unlink(outp)
    return cases, None


def eval_manager_cases(cases, tag):
    bad = []
    SH = 400
    for k in range(0, len(cases), SH):
        chunk = cases[k:k + SH]
        txt = ["From Coq Require Import List ZArith.", "From Shm Require Import Gen.Consts Model.FreeListMgr Corr.FreeListMgrCorr.",
               "Import ListNotations.", "Open Scope Z_scope.", "Definition cases : list mcase := [",
               ";\n".join(mcase_to_coq(c) for c in chunk), "].",
               "Definition M := Eval vm_compute in mismatches cases.", "Print M."]
        rc, out, _ = core.coq_eval("cases_freelistmgr_%s_%d_%d" % (tag, os.getpid(), k), "\n".join(txt))
        if rc != 0:
            raise RuntimeError("coqc on the generated manager cases failed: " + out[-1500:])
        m = re.search(r"M\s*=\s*(.*?)\s*:\s*list", out, re.S)
        if not m:
            raise RuntimeError("cannot parse the mismatch list: " + out[-500:])
        body = m.group(1).strip()
        if body != "[]":
            bad += [k + int(x) for x in re.findall(r"(\d+)%nat", body)] or [k]
    return bad
