"""Reading /repo's Go sources for the source-shape translators (mechanism G, the model switches).

The translators match statement shapes of a handful of functions.  An extract-method refactoring moves
statements verbatim into a NEW unexported helper and leaves a call behind; that does not change what the
code does, but it would make every shape matcher fail (a false alarm, reported as a broken correspondence
with no failing input).  `read(name)` therefore returns the file with such helpers inlined again:

  * only functions/methods that did not exist when the translators were written (not listed in
    vlib/known_funcs.txt, the function inventory of the /repo commit the shapes were taken from) are
    candidates — calls to helpers the shapes already mention stay calls;
  * a call is inlined when it stands alone as a statement (`x.helper(a, b)`, helper body without `return`)
    or as `return x.helper(a, b)`, the arguments are plain identifiers / selectors (no side effects),
    and the helper is not recursive; the receiver and the parameters are renamed to the call's expressions;
  * a helper whose body is a single `return EXPR` is substituted as `(EXPR)` wherever it is called, also inside
    conditions;
  * everything else is left as it is (the translator then reports the unknown shape, as before).

On an unchanged tree nothing is a candidate and `read` returns the file text unchanged."""
import os
import re

from . import core

KNOWN = os.path.join(os.path.dirname(os.path.abspath(__file__)), "known_funcs.txt")

FUNC_RE = re.compile(
    r"^func (?:\((?P<rv>\w+) \*?(?P<rt>\w+)\) )?(?P<name>\w+)\((?P<params>[^)]*)\)(?P<res>[^{\n]*)\{\n(?P<body>.*?)\n\}\n",
    re.M | re.S)
SIMPLE = r"[A-Za-z_]\w*(?:\.[A-Za-z_]\w*)*"


def _files(repo):
    return sorted(f for f in os.listdir(repo) if f.endswith(".go") and not f.endswith("_test.go"))


def inventory(repo=None):
    repo = repo or core.REPO
    names = set()
    for f in _files(repo):
        for m in FUNC_RE.finditer(open(os.path.join(repo, f)).read()):
            names.add(((m.group("rt") + ".") if m.group("rt") else "") + m.group("name"))
    return names


def known():
    try:
        return set(l.strip() for l in open(KNOWN) if l.strip() and not l.startswith("#"))
    except OSError:
        return None


def _params(ps):
    """'a int, b, c *T' -> ['a','b','c'] ; None when a shape is not understood"""
    ps = ps.strip()
    if not ps:
        return []
    out = []
    for part in ps.split(","):
        toks = part.strip().split()
        if not toks or not re.fullmatch(r"\w+", toks[0]):
            return None
        out.append(toks[0])
    return out


def _subst(body, mapping):
    for old, new in mapping.items():
        if old != new and old != "_":
            body = re.sub(r"(?<![\w.])%s\b" % re.escape(old), new.replace("\\", "\\\\"), body)
    return body


def _reindent(body, indent):
    out = []
    for line in body.split("\n"):
        out.append((indent + line[1:]) if line.startswith("\t") else line)
    return "\n".join(out)


def _unwrap_if(text):
    """`if (COND) {` -> `if COND {` when the parentheses wrap the whole condition (left by an expression inlining)"""
    out = []
    for line in text.split("\n"):
        m = re.match(r"^(\s*(?:\} else )?if )\((.*)\)( \{)$", line)
        if m:
            depth, ok = 0, True
            for ch in m.group(2):
                if ch == "(":
                    depth += 1
                elif ch == ")":
                    depth -= 1
                    if depth < 0:
                        ok = False
                        break
            if ok and depth == 0:
                line = m.group(1) + m.group(2) + m.group(3)
        out.append(line)
    return "\n".join(out)


_cache = {}


def _normalized(repo):
    key = (repo, tuple((f, os.path.getmtime(os.path.join(repo, f))) for f in _files(repo)))
    if key in _cache:
        return _cache[key]
    texts = {f: open(os.path.join(repo, f)).read() for f in _files(repo)}
    kn = known()
    inlined = []
    if kn is not None:
        for _ in range(3):
            helpers = {}
            for f, t in texts.items():
                for m in FUNC_RE.finditer(t):
                    q = ((m.group("rt") + ".") if m.group("rt") else "") + m.group("name")
                    ps = _params(m.group("params"))
                    if q in kn or ps is None or m.group("name")[0].isupper():
                        continue
                    if re.search(r"\b%s\(" % m.group("name"), m.group("body")):
                        continue  # recursive
                    helpers[m.group("name")] = (f, m, ps)
            if not helpers:
                break
            changed = False
            for name, (hf, hm, ps) in helpers.items():
                body, rv = hm.group("body"), hm.group("rv")
                # (a) expression helpers: a body that is a single `return EXPR` is substituted wherever it is called
                one = re.fullmatch(r"\s*return (?P<e>[^\n]+)\s*", body)
                if one and hm.group("res").strip() and "," not in hm.group("res"):
                    recv_e = (r"(?P<recv>%s)\." % SIMPLE) if rv else ""
                    args_e = r"\s*,\s*".join(r"(%s)" % SIMPLE for _ in ps)
                    call_e = re.compile(r"(?<![\w.])%s%s\(%s\)" % (recv_e, name, args_e))
                    did = 0
                    for f in list(texts):
                        t = texts[f]
                        d = re.search(r"^func (?:\(\w+ \*?\w+\) )?%s\(" % name, t, re.M)
                        pre, post = (t, "") if not d else (t[:d.start()], t[d.start():])
                        e_end = post.find("\n}\n") + 3 if d else 0
                        defn, rest = post[:e_end], post[e_end:]

                        def rep_e(m):
                            mp = {}
                            if rv:
                                mp[rv] = m.group("recv")
                            for k, p_ in enumerate(ps):
                                mp[p_] = m.group(m.lastindex - len(ps) + 1 + k)
                            return "(" + _subst(one.group("e"), mp) + ")"
                        npre, n1 = call_e.subn(rep_e, pre)
                        nrest, n2 = call_e.subn(rep_e, rest)
                        did += n1 + n2
                        texts[f] = _unwrap_if(npre) + defn + _unwrap_if(nrest)
                    if did:
                        left = sum(len(re.findall(r"(?<![\w])%s\(" % name, texts[f])) for f in texts) - 1
                        if left == 0:
                            t = texts[hf]
                            d = re.search(r"(?:^//[^\n]*\n)*^func (?:\(\w+ \*?\w+\) )?%s\(" % name, t, re.M)
                            if d:
                                e = t.find("\n}\n", d.start())
                                texts[hf] = t[:d.start()] + t[e + 3:].lstrip("\n")
                        inlined.append(name + "(expr)")
                        changed = True
                    continue
                has_return = re.search(r"\breturn\b", body) is not None
                recv = (r"(?P<recv>%s)\." % SIMPLE) if rv else ""
                args = r"\s*,\s*".join(r"(%s)" % SIMPLE for _ in ps)
                call = re.compile(r"^(?P<ind>\t+)(?P<ret>return )?%s%s\(%s\)\n" % (recv, name, args), re.M)
                total_sites = 0
                done_sites = 0
                for f in list(texts):
                    def rep(m):
                        nonlocal done_sites
                        if not m.group("ret") and has_return:
                            return m.group(0)
                        if m.group("ret") and not hm.group("res").strip():
                            return m.group(0)
                        mp = {}
                        if rv:
                            mp[rv] = m.group("recv")
                        for k, p in enumerate(ps):
                            mp[p] = m.group(m.lastindex - len(ps) + 1 + k) if ps else None
                        done_sites += 1
                        return _reindent(_subst(body, mp), m.group("ind")) + "\n"
                    # do not touch the helper's own definition
                    t = texts[f]
                    total_sites += len(re.findall(r"(?<![\w])%s\(" % name, t)) - (1 if f == hf else 0)
                    texts[f] = call.sub(rep, t)
                if done_sites and done_sites == total_sites:
                    # every call was inlined: drop the definition (and its doc comment)
                    t = texts[hf]
                    d = re.search(r"(?:^//[^\n]*\n)*^func (?:\(\w+ \*?\w+\) )?%s\(" % name, t, re.M)
                    if d:
                        e = t.find("\n}\n", d.start())
                        texts[hf] = t[:d.start()] + t[e + 3:].lstrip("\n")
                    inlined.append(name)
                    changed = True
                elif done_sites:
                    inlined.append(name + "(partly)")
                    changed = True
            if not changed:
                break
    _cache[key] = (texts, inlined)
    return _cache[key]


def read(name, repo=None):
    """text of /repo/<name> with newly extracted helpers inlined (see module doc)"""
    return _normalized(repo or core.REPO)[0][name]


def inlined_helpers(repo=None):
    return list(_normalized(repo or core.REPO)[1])


if __name__ == "__main__":
    import sys
    if sys.argv[1:] == ["--write-inventory"]:
        with open(KNOWN, "w") as fh:
            fh.write("# function inventory of /repo at the commit the translators' shapes were taken from; regenerate with\n"
                     "# `python3 -m vlib.gosrc --write-inventory` only together with a review of the translators\n")
            for n in sorted(inventory()):
                fh.write(n + "\n")
    else:
        print(inlined_helpers())
