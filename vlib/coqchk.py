# Independent re-check of the compiled development with coqchk (thorough tier; once per state of the
# Coq sources).  `./check --coqchk` runs it explicitly.
import glob, hashlib, os, re, sys, time
from . import core


def sources_hash():
    h = hashlib.sha256()
    for f in core.coq_sources():
        h.update(open(f, "rb").read())
    return h.hexdigest()[:16]


def run(props=None, timeout=7200):
    """Returns dict {ok, axioms, log_tail, secs, cached}."""
    h = sources_hash() + ("_" + "_".join(sorted(props)) if props else "")
    marker = os.path.join(core.WORK, "coqchk_%s.json" % h)
    import json
    if os.path.exists(marker):
        r = json.load(open(marker)); r["cached"] = True
        return r
    mods = []
    for f in sorted(glob.glob(os.path.join(core.COQ, "theories", "Props", "*.vo"))):
        m = "Shm.Props." + os.path.basename(f)[:-3]
        if props is None or os.path.basename(f)[:-3] in props:
            mods.append(m)
    t0 = time.time()
    # coqchk only reads the .vo files: do not hold the build lock (it runs for many minutes)
    rc, out, secs = core.sh(["timeout", str(timeout), "coqchk", "-silent", "-o", "-Q", "theories", "Shm"] + mods,
                            cwd=core.COQ, timeout=timeout + 60)
    axioms = []
    m = re.search(r"\* Axioms:\s*(.*?)\n\* ", out, re.S)
    if m and "<none>" not in m.group(1):
        axioms = [x.strip() for x in m.group(1).splitlines() if x.strip()]
    r = {"ok": rc == 0, "modules": mods, "axioms": axioms, "log_tail": out[-3000:], "secs": round(time.time() - t0, 1), "cached": False}
    if rc == 0:
        for f in glob.glob(os.path.join(core.WORK, "coqchk_*.json")):
            if time.time() - os.path.getmtime(f) > 86400:
                os.unlink(f)
        json.dump(r, open(marker, "w"))
    return r


def main():
    r = run()
    print("coqchk ok=%s in %ss (cached=%s); modules=%d" % (r["ok"], r["secs"], r["cached"], len(r["modules"])))
    print(r["log_tail"][-1500:])
    return 0 if r["ok"] else 1
