# Common machinery for the /verif checks (python3, stdlib only).
#
# One check run = proof step (Coq) + correspondence step (model vs. /repo) + property oracle on
# /repo + verdict (VIOLATION / KNOWN-FINDING lines, replay files) + evidence file.
import fcntl, glob, hashlib, json, os, re, shutil, subprocess, sys, time

VERIF = os.path.dirname(os.path.dirname(os.path.abspath(__file__)))
REPO = os.environ.get("VERIF_REPO", "/repo")
WORK = os.path.join(VERIF, ".work")
COQ = os.path.join(VERIF, "coq")
HARNESS = os.path.join(VERIF, "go", "harness")
EVID = os.path.join(VERIF, "evidence")
REPLAYS = os.path.join(VERIF, "replays")

GOENV = dict(GOFLAGS="-mod=mod", GOPROXY="off", GOSUMDB="off", GOTOOLCHAIN="local",
             SHMIPC_LOG_LEVEL="5", CGO_ENABLED="0")

ALLOWED_AXIOMS = {
    # axioms declared by the standard library that the development may depend on (named in DESIGN.md §6)
    "functional_extensionality_dep", "proof_irrelevance", "classic", "JMeq_eq", "eq_rect_eq",
    "propositional_extensionality",
}

FORBIDDEN = re.compile(
    r"\b(Admitted|admit|Axiom|Axioms|Parameter|Parameters|Conjecture|Conjectures|Admit Obligations)\b"
    r"|Unset\s+Guard|bypass_check|type-in-type|impredicative-set|Unset\s+Universe\s+Checking|Unset\s+Positivity")


def env():
    e = dict(os.environ)
    e.update(GOENV)
    return e


def sh(cmd, cwd=None, timeout=600, extra_env=None, inp=None):
    e = env()
    if extra_env:
        e.update(extra_env)
    t0 = time.time()
    try:
        p = subprocess.run(cmd, cwd=cwd, env=e, shell=isinstance(cmd, str), input=inp,
                           stdout=subprocess.PIPE, stderr=subprocess.STDOUT, timeout=timeout, text=True,
                           errors="replace")
        return p.returncode, p.stdout, time.time() - t0
    except subprocess.TimeoutExpired as ex:
        out = ex.stdout if isinstance(ex.stdout, str) else (ex.stdout or b"").decode("utf8", "replace")
        return 124, (out or "") + "\n[timeout after %ss]" % timeout, time.time() - t0


class Lock:
    def __init__(self, name):
        os.makedirs(WORK, exist_ok=True)
        self.path = os.path.join(WORK, name + ".lock")

    def __enter__(self):
        self.f = open(self.path, "w")
        fcntl.flock(self.f, fcntl.LOCK_EX)
        return self

    def __exit__(self, *a):
        fcntl.flock(self.f, fcntl.LOCK_UN)
        self.f.close()


def tree_hash():
    h = hashlib.sha256()
    for f in sorted(glob.glob(os.path.join(REPO, "*.go")) + [os.path.join(REPO, "go.mod")]):
        h.update(f.encode())
        with open(f, "rb") as fh:
            h.update(fh.read())
    return h.hexdigest()[:16]


# ----------------------------------------------------------------------------------------------
# Go side: run an injected in-package harness test against /repo's current working tree
# ----------------------------------------------------------------------------------------------
def harness_files(prop):
    """common_*.go plus the files whose name starts with the lower-cased property id."""
    fs = sorted(glob.glob(os.path.join(HARNESS, "common_*.go")))
    fs += sorted(glob.glob(os.path.join(HARNESS, prop.lower() + "_*.go")))
    return fs


def write_overlay(prop, extra_replace=None, files=None):
    rep = {}
    for f in (files if files is not None else harness_files(prop)):
        base = os.path.basename(f)
        if not base.endswith("_test.go"):
            base = base[:-3] + "_test.go"
        rep[os.path.join(REPO, "zz_verif_" + base)] = f
    if extra_replace:
        rep.update(extra_replace)
    os.makedirs(WORK, exist_ok=True)
    p = os.path.join(WORK, "overlay_%s_%d.json" % (prop, os.getpid()))
    with open(p, "w") as fh:
        json.dump({"Replace": rep}, fh)
    return p


def go_test(prop, test_regex, extra_env=None, timeout=900, extra_replace=None, files=None, race=False):
    """go test -tags verif -overlay ... in /repo. Returns (rc, output, secs)."""
    ov = write_overlay(prop, extra_replace, files)
    cmd = ["go", "test", "-tags", "verif", "-vet=off", "-overlay", ov, "-run", test_regex, "-count=1",
           "-timeout", "%ds" % timeout]
    if race:
        cmd.insert(2, "-race")
    cmd.append(".")
    try:
        return sh(cmd, cwd=REPO, timeout=timeout + 60, extra_env=extra_env)
    finally:
        try:
            os.unlink(ov)
        except OSError:
            pass


# ----------------------------------------------------------------------------------------------
# Coq side
# ----------------------------------------------------------------------------------------------
def coq_sources():
    return sorted(glob.glob(os.path.join(COQ, "theories", "**", "*.v"), recursive=True))


def grep_forbidden():
    """Return list of (file, line, text) for forbidden vernacular in the development."""
    bad = []
    for f in coq_sources():
        in_comment = 0
        for n, line in enumerate(open(f, encoding="utf8", errors="replace"), 1):
            # strip comments (nesting-aware, line granular is enough for our sources)
            out = []
            i = 0
            while i < len(line):
                if line.startswith("(*", i):
                    in_comment += 1
                    i += 2
                elif line.startswith("*)", i) and in_comment:
                    in_comment -= 1
                    i += 2
                else:
                    if not in_comment:
                        out.append(line[i])
                    i += 1
            code = "".join(out)
            if FORBIDDEN.search(code):
                bad.append((os.path.relpath(f, VERIF), n, code.strip()))
    return bad


def coq_build(clean=False, timeout=3000, target=None):
    """.vo build of the development, or of one target and its dependency cone (incremental unless clean)."""
    with Lock("coq"):
        t0 = time.time()
        if clean:
            sh("make -f Makefile.coq clean >/dev/null 2>&1; find theories -name '*.vo*' -delete -o -name '*.glob' -delete -o -name '.*.aux' -delete", cwd=COQ)
        files = [os.path.relpath(f, COQ) for f in coq_sources()]
        proj = "-Q theories Shm\n" + "\n".join(files) + "\n"
        pp = os.path.join(COQ, "_CoqProject")
        old = open(pp).read() if os.path.exists(pp) else None
        if old != proj or not os.path.exists(os.path.join(COQ, "Makefile.coq")):
            with open(pp, "w") as fh:
                fh.write(proj)
            rc, out, _ = sh("coq_makefile -f _CoqProject -o Makefile.coq", cwd=COQ)
            if rc != 0:
                return False, out, time.time() - t0
        rc, out, _ = sh("timeout %d make -k -f Makefile.coq -j16 %s 2>&1" % (timeout, target or ""), cwd=COQ, timeout=timeout + 30)
        if rc != 0:
            # never leave a stale .vo behind for a file that no longer compiles: anything that depends
            # on it must fail too
            for m in re.finditer(r"\*\*\* \[[^\]]*?:\s*(theories/[\w/]+)\.vo\]", out):
                for ext in (".vo", ".vok", ".vos", ".glob"):
                    try:
                        os.unlink(os.path.join(COQ, m.group(1) + ext))
                    except OSError:
                        pass
        return rc == 0, out, time.time() - t0


def coqc_file(relpath, timeout=900):
    """Compile one file of the development (forces recompilation; output captured)."""
    with Lock("coq"):
        return sh(["timeout", str(timeout), "coqc", "-Q", "theories", "Shm", relpath], cwd=COQ, timeout=timeout + 30)


def coq_eval(name, text, timeout=900):
    """Compile a scratch .v file (cases) against the built development; returns (rc, stdout, secs)."""
    d = os.path.join(WORK, "cases")
    os.makedirs(d, exist_ok=True)
    p = os.path.join(d, name + ".v")
    with open(p, "w") as fh:
        fh.write(text)
    rc, out, secs = sh(["timeout", str(timeout), "coqc", "-Q", os.path.join(COQ, "theories"), "Shm", p],
                       cwd=d, timeout=timeout + 30)
    if rc != 0 and "inconsistent assumptions" in out:
        # a dependency was recompiled underneath a compiled evaluator: rebuild and try once more
        coq_build()
        rc, out, secs = sh(["timeout", str(timeout), "coqc", "-Q", os.path.join(COQ, "theories"), "Shm", p],
                           cwd=d, timeout=timeout + 30)
    for ext in (".vo", ".vok", ".vos", ".glob"):
        try:
            os.unlink(os.path.join(d, name + ext))
        except OSError:
            pass
    try:
        os.unlink(os.path.join(d, "." + name + ".aux"))
    except OSError:
        pass
    return rc, out, secs


def parse_assumptions(out):
    """Parse the output of a Props file: sequence of 'Print Assumptions' results.
    Returns list of dicts {closed: bool, axioms: [names]} in order of appearance."""
    res = []
    lines = out.splitlines()
    i = 0
    while i < len(lines):
        l = lines[i]
        if l.startswith("Closed under the global context"):
            res.append({"closed": True, "axioms": []})
        elif l.startswith("Axioms:"):
            ax = []
            i += 1
            while i < len(lines) and lines[i].strip() and not lines[i].startswith("Closed under") and not lines[i].startswith("Axioms:"):
                m = re.match(r"^([A-Za-z_][\w.']*)\s*:", lines[i])
                if m:
                    ax.append(m.group(1))
                i += 1
            res.append({"closed": False, "axioms": ax})
            continue
        i += 1
    return res


def props_theorems(prop):
    """Names of the Theorem statements of Props/<prop>.v in order."""
    p = os.path.join(COQ, "theories", "Props", prop + ".v")
    if not os.path.exists(p):
        return []
    src = open(p).read()
    return re.findall(r"^\s*Theorem\s+([A-Za-z_][\w']*)", src, re.M)


def proof_step(prop, tier):
    """Build the development and re-check Props/<prop>.v. Returns a dict describing the result."""
    t0 = time.time()
    r = {"ok": False, "obligations": 0, "discharged": 0, "theorems": [], "axioms": [], "failed": None,
         "log_tail": "", "forbidden": []}
    bad = grep_forbidden()
    r["forbidden"] = ["%s:%d: %s" % b for b in bad]
    # quick: the dependency cone of this property's theorems; thorough: the whole development from clean
    thorough_full = (tier == "thorough" and os.environ.get("VERIF_NO_CLEAN") != "1")
    if thorough_full:
        # one clean rebuild per state of (/repo tree, Coq sources); later thorough checks reuse it
        h = hashlib.sha256((tree_hash() + "".join(open(f).read() for f in coq_sources()
                                                  if "/Gen/" not in f)).encode()).hexdigest()[:16]
        marker = os.path.join(WORK, "clean_build_" + h)
        if os.path.exists(marker):
            thorough_full = False
        else:
            for f in glob.glob(os.path.join(WORK, "clean_build_*")):
                os.unlink(f)
            r["clean_rebuild"] = True
    # quick: the cone of this property's theorems plus the correspondence evaluators (they depend on Gen/Consts.v
    # too and must never be stale when the generated constants change)
    corr_targets = " ".join(os.path.relpath(f, COQ) + "o" for f in coq_sources() if "/Corr/" in f)
    ok, log, _ = coq_build(clean=thorough_full, target=None if (thorough_full or tier == "thorough")
                           else "theories/Props/%s.vo %s" % (prop, corr_targets))
    if r.get("clean_rebuild") and ok:
        open(marker, "w").write(time.strftime("%F %T"))
    thms = props_theorems(prop)
    r["theorems"] = thms
    r["obligations"] = len(thms)
    if not ok:
        # some file of the development does not compile; whether that concerns this property is decided
        # by compiling its Props file (the .vo of every failed file has been removed)
        r["build_log_tail"] = log[-1500:]
    rc, out, _ = coqc_file(os.path.join("theories", "Props", prop + ".v"))
    if rc != 0:
        m = re.search(r'File "([^"]+)", line (\d+)', out)
        r["failed"] = r["failed"] or ((m.group(1) + ":" + m.group(2)) if m else "Props/%s.v" % prop)
        r["log_tail"] = (r["log_tail"] + "\n" + out[-3000:])[-6000:]
        r["secs"] = time.time() - t0
        return r
    if tier == "thorough" and os.environ.get("VERIF_NO_COQCHK") != "1":
        # independent re-check of the compiled theorems of this property and everything they depend on
        from . import coqchk
        ck = coqchk.run(props=[prop])
        r["coqchk"] = {"ok": ck["ok"], "axioms": ck["axioms"], "secs": ck["secs"], "cached": ck.get("cached", False)}
        if not ck["ok"]:
            r["failed"] = "coqchk rejected the compiled development: " + ck["log_tail"][-400:]
            r["secs"] = time.time() - t0
            return r
    asm = parse_assumptions(out)
    axioms = sorted({a for x in asm for a in x["axioms"]})
    r["axioms"] = axioms
    unknown = [a for a in axioms if a.split(".")[-1] not in ALLOWED_AXIOMS]
    r["assumption_reports"] = len(asm)
    if len(asm) < len(thms):
        r["failed"] = "Props/%s.v: %d theorems but %d Print Assumptions" % (prop, len(thms), len(asm))
    elif unknown:
        r["failed"] = "Props/%s.v depends on axioms not in the trusted base: %s" % (prop, unknown)
    elif bad:
        r["failed"] = "forbidden vernacular: " + r["forbidden"][0]
    else:
        r["ok"] = True
        r["discharged"] = len(thms)
        r["failed"] = None
    r["secs"] = time.time() - t0
    return r


# ----------------------------------------------------------------------------------------------
# Known findings, replays, evidence, verdict
# ----------------------------------------------------------------------------------------------
def known_findings(prop):
    p = os.path.join(VERIF, "known_findings.json")
    if not os.path.exists(p):
        return []
    data = json.load(open(p))
    return [e for e in data.get("findings", []) if e.get("property") == prop and e.get("status") == "known"]


def write_replay(prop, name, obj):
    os.makedirs(REPLAYS, exist_ok=True)
    p = os.path.join(REPLAYS, "%s_%s.json" % (prop, name))
    with open(p, "w") as fh:
        json.dump(obj, fh, indent=1, sort_keys=True, default=str)
    return os.path.relpath(p, VERIF)


class Run:
    """Accumulates what one check run found and produces verdict + evidence."""

    def __init__(self, prop, tier, seed):
        self.prop, self.tier, self.seed = prop, tier, seed
        self.t0 = time.time()
        self.proof = None
        self.corr_breaks = []      # list of dicts {what, case}
        self.oracle_failures = []  # list of dicts {signature, what, case}
        self.coverage = {}
        self.assumptions = []
        self.notes = []
        self.known_seen = []

    def add_corr_break(self, what, case=None, shape=False):
        """shape=True: the break is only that a source-SHAPE matcher (a model-switch translator, a source-shape
        tie, the anchor of an overlay hook) did not recognise the current source text.  The model then keeps the
        variant its theorems were proved for and the behavioural correspondence (harness vs model) decides: see
        finish() and the driver `check` (soft shape policy)."""
        self.corr_breaks.append({"what": what, "case": case, "shape": bool(shape)})

    def add_oracle_failure(self, signature, what, case=None):
        self.oracle_failures.append({"signature": signature, "what": what, "case": case})

    def finish(self, search=None):
        """search: optional callable () -> list of oracle failures (dicts) used when proof/correspondence broke."""
        prop = self.prop
        known = known_findings(prop)
        ksigs = {k["signature"]: k for k in known}
        unlisted = []
        for f in self.oracle_failures:
            if f["signature"] in ksigs:
                if f["signature"] not in self.known_seen:
                    self.known_seen.append(f["signature"])
            else:
                unlisted.append(f)
        lines = []
        violations = 0
        for sig in self.known_seen:
            lines.append("KNOWN-FINDING: property=%s %s" % (prop, ksigs[sig]["what"]))
        broke = []
        if self.proof is not None and not self.proof["ok"]:
            broke.append("proof: " + str(self.proof["failed"]))
        for c in self.corr_breaks:
            broke.append("correspondence: " + c["what"])
        if unlisted:
            # concrete failing inputs on the implementation
            seen = set()
            for f in unlisted:
                if f["signature"] in seen:
                    continue
                seen.add(f["signature"])
                rp = write_replay(prop, re.sub(r"[^A-Za-z0-9_.-]+", "_", f["signature"])[:80],
                                  {"property": prop, "kind": "oracle-failure", "signature": f["signature"],
                                   "what": f["what"], "case": f["case"], "seed": self.seed, "tier": self.tier,
                                   "replay_cmd": "./check %s --replay <this file>" % prop,
                                   "broken_obligations": broke})
                lines.append("VIOLATION property=%s replay=%s" % (prop, rp))
                violations += 1
        elif broke:
            found = []
            if search is not None:
                try:
                    found = [f for f in (search() or []) if f["signature"] not in ksigs]
                except Exception as ex:  # the search is best effort
                    self.notes.append("violation search raised: %r" % (ex,))
            if found:
                f = found[0]
                rp = write_replay(prop, re.sub(r"[^A-Za-z0-9_.-]+", "_", f["signature"])[:80],
                                  {"property": prop, "kind": "oracle-failure-after-break", "signature": f["signature"],
                                   "what": f["what"], "case": f["case"], "seed": self.seed, "tier": self.tier,
                                   "broken_obligations": broke})
                lines.append("VIOLATION property=%s replay=%s" % (prop, rp))
            elif (self.proof is None or self.proof["ok"]) and self.corr_breaks and all(c.get("shape") for c in self.corr_breaks):
                # Soft shape policy.  Every broken obligation is an unrecognised source shape; the proofs stand for the
                # model variant in force and the harness, run against that variant, found no disagreement and no oracle
                # failure.  The model is then still tied to the code by the correspondence check (the second of the two
                # admissible ties), so this is not reported as a violation — but only after the driver has repeated the
                # behavioural check with further seeds (return code 3 asks for that; VERIF_SHAPE_SOFT=1 marks the repeats).
                self.coverage["source_shape_unrecognised"] = [c["what"] for c in self.corr_breaks]
                self.notes.append("source shape not recognised by %d matcher(s); model variant of the last successful translation kept; "
                                  "decided by the behavioural correspondence" % len(self.corr_breaks))
                if os.environ.get("VERIF_SHAPE_SOFT") == "1":
                    self.coverage["source_shape_confirmed_by_seed"] = self.seed
                    self.corr_breaks_soft = list(self.corr_breaks)
                    self.corr_breaks = []
                    self.write_evidence(0)
                    for l in lines:
                        print(l)
                    print("NOTE: property=%s source shape not recognised (%d matcher(s)); behaviour agrees with the model on every case of this run"
                          % (prop, len(self.corr_breaks_soft)))
                    sys.stdout.flush()
                    return 0
                self.shape_only = True
                self.pending_lines = lines
                self.write_evidence(0)
                return 3
            else:
                rp = write_replay(prop, "broken_obligation",
                                  {"property": prop, "kind": "broken-obligation", "broken_obligations": broke,
                                   "proof": self.proof, "correspondence_breaks": self.corr_breaks[:5],
                                   "seed": self.seed, "tier": self.tier,
                                   "note": "no concrete failing input was found by the violation search; the property is no longer shown to hold"})
                lines.append("VIOLATION property=%s replay=%s no-failing-input-found" % (prop, rp))
            violations += 1
        if not violations and search is not None and os.environ.get("VERIF_FORCE_SEARCH") == "1":
            # self-test of the violation search (it normally runs only after a break): on a tree where the property
            # holds it must find nothing that is not a listed known finding
            try:
                found = [f for f in (search() or []) if f["signature"] not in ksigs]
            except Exception as ex:
                found = [{"signature": "search-raised", "what": repr(ex), "case": None}]
            for f in found[:5]:
                lines.append("SEARCH-SELFTEST-FAILURE property=%s %s: %s" % (prop, f["signature"], str(f["what"])[:200]))
            self.coverage["search_selftest_failures"] = len(found)
            if found:
                violations += 1
        self.write_evidence(violations)
        for l in lines:
            print(l)
        sys.stdout.flush()
        return 1 if violations else 0

    def write_evidence(self, violations):
        os.makedirs(EVID, exist_ok=True)
        pr = self.proof or {}
        cov = dict(self.coverage)
        cov.setdefault("obligations", pr.get("obligations", 0))
        cov.setdefault("discharged", pr.get("discharged", 0))
        cov.setdefault("checker_cmd", "cd /verif/coq && coq_makefile -f _CoqProject -o Makefile.coq && make -f Makefile.coq -j16 "
                       "&& coqc -Q theories Shm theories/Props/%s.v   (thorough: make clean first; coqchk -silent -o via ./check --coqchk)" % self.prop)
        tb = ["coqc 8.16.1 kernel (vm_compute used; native_compute not used)",
              "Print Assumptions of every Theorem in Props/%s.v: %s" % (self.prop, ", ".join(pr.get("axioms") or []) or "Closed under the global context"),
              "hand-written Gallina model tied to /repo by the correspondence harness (go/harness/%s_*.go) and Gen/Consts.v regenerated from the Go source" % self.prop.lower(),
              "Go toolchain, -overlay injection, python driver"]
        cov.setdefault("trusted_base", tb)
        cov["theorems"] = pr.get("theorems", [])
        cov["proof_ok"] = bool(pr.get("ok"))
        if pr.get("coqchk"):
            cov["coqchk"] = pr["coqchk"]
        cov["known_findings_reproduced"] = self.known_seen
        cov["correspondence_breaks"] = len(self.corr_breaks)
        if self.notes:
            cov["notes"] = self.notes
        ev = {"property_id": self.prop, "tier": self.tier, "seed": self.seed, "level": "proof",
              "coverage": cov, "assumptions": self.assumptions, "wall_s": round(time.time() - self.t0, 2),
              "violations": violations}
        with open(os.path.join(EVID, self.prop + ".json"), "w") as fh:
            json.dump(ev, fh, indent=1, default=str)


def z(n):
    """Coq Z literal."""
    n = int(n)
    return "(%d)" % n if n < 0 else "%d" % n


def coq_list(items):
    return "[" + "; ".join(items) + "]"
