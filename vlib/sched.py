# Mechanism S support: instrument /repo's current lock-free sources (go/verisched) for the overlay.
import os, subprocess
from . import core

SRC_DIR = os.path.join(core.VERIF, "go", "verisched")


def build_tool():
    exe = os.path.join(core.WORK, "verisched")
    src = os.path.join(SRC_DIR, "main.go")
    with core.Lock("verisched"):
        if not os.path.exists(exe) or os.path.getmtime(exe) < os.path.getmtime(src):
            rc, out, _ = core.sh(["go", "build", "-o", exe, "."], cwd=SRC_DIR, timeout=300)
            if rc != 0:
                raise RuntimeError("cannot build verisched: " + out)
    return exe


def instrument(files):
    """Instrument the given /repo files (current working tree). Returns (overlay dict, report, error)."""
    exe = build_tool()
    h = core.tree_hash()
    out = os.path.join(core.WORK, "inst_" + h)
    with core.Lock("inst"):
        os.makedirs(out, exist_ok=True)
        need = [f for f in files if not os.path.exists(os.path.join(out, f))]
        report = ""
        if need:
            rc, o, _ = core.sh([exe, "-out", out] + [os.path.join(core.REPO, f) for f in need], timeout=120)
            report = o
            if rc != 0:
                return None, o, "instrumenter failed: " + o[-1500:]
        # drop instrumented copies of older trees
        for d in os.listdir(core.WORK):
            if d.startswith("inst_") and d != "inst_" + h:
                p = os.path.join(core.WORK, d)
                try:
                    if os.path.getmtime(p) < os.path.getmtime(out) - 600:
                        import shutil
                        shutil.rmtree(p, ignore_errors=True)
                except OSError:
                    pass
    return {os.path.join(core.REPO, f): os.path.join(out, f) for f in files}, report, None


def selftest(files, run_regex, timeout=900):
    """Trusted-base check for the instrumenter: the repository's OWN tests for the instrumented files must
    pass on the instrumented build (wrappers are pass-throughs when no controlled run is active).
    Returns (ok, output tail)."""
    ov, rep, err = instrument(files)
    if err:
        return False, err
    rt = [f for f in core.harness_files("none") if f.endswith("common_vsched_rt.go")]
    rc, out, _ = core.go_test("selftest", run_regex, {}, extra_replace=ov, timeout=timeout, files=rt)
    return rc == 0, out[-1500:]
