#!/bin/bash
# tools_iso_check.sh <patch.diff|-> <out-file> <prop> [<prop>...]
# Runs the quick check of the given properties against a PRIVATE copy of /repo (HEAD + working tree)
# with the patch applied, using a PRIVATE copy of /verif (so /repo, /verif/evidence and the shared Coq
# build are untouched and several of these can run side by side).  Used for the seeded-change sweep and
# for the harmless-refactoring (false-alarm) sweep; never for the registered checks or the evidence.
patch=$1; out=$(readlink -f $2); shift 2; [ "$patch" != "-" ] && patch=$(readlink -f $patch)
S=$(mktemp -d /var/tmp/vsw_XXXXXX)
trap 'rm -rf "$S"' EXIT
mkdir -p $S/repo $S/verif
git -C /repo archive HEAD | tar -x -C $S/repo
( cd $S/repo && git init -q . && git add -A >/dev/null 2>&1 && git -c user.name=x -c user.email=x@x commit -qm base )
if [ "$patch" != "-" ]; then
  ( cd $S/repo && git apply "$patch" ) || { echo "PATCH-DOES-NOT-APPLY $(basename $(dirname $patch))/$(basename $patch)" >> $out; exit 3; }
fi
rsync -a --exclude .git --exclude .work --exclude replays /verif/ $S/verif/
mkdir -p $S/verif/.work $S/verif/replays
cd $S/verif
for p in "$@"; do
  t0=$(date +%s)
  log=$S/log_$p.txt
  VERIF_REPO=$S/repo timeout 2700 ./check $p > $log 2>&1; rc=$?
  t1=$(date +%s)
  if [ $rc -ne 0 ]; then mkdir -p /verif/.work/iso_logs; cp $log /verif/.work/iso_logs/$(basename $patch .diff)_$(basename $(dirname $patch))_$p.log; cp $S/verif/replays/${p}_* /verif/.work/iso_logs/ 2>/dev/null; fi
  v=$(grep "^VIOLATION" $log | head -3 | sed 's/^VIOLATION //; s#replay=replays/##; s/property=C[0-9]* //' | tr '\n' ';')
  k=$(grep -c "^KNOWN-FINDING" $log)
  sig=$(python3 - "$S/verif/evidence/$p.json" <<'EOF'
import json,sys
try:
    e=json.load(open(sys.argv[1])); c=e.get("coverage",{})
    print("breaks=%s oracle=%s"%(len(c.get("correspondence_breaks",[])) if isinstance(c.get("correspondence_breaks"),list) else c.get("correspondence_breaks"), sorted((c.get("oracle_failures_by_signature") or {}).keys())[:4]))
except Exception as ex:
    print("noevidence")
EOF
)
  echo "$(basename $(dirname $patch 2>/dev/null))/$(basename $patch) $p rc=$rc ${v:+VIOLATION: $v} known=$k $((t1-t0))s $sig" >> $out
done
