#!/bin/bash
# False-alarm sweep: behaviour-preserving refactorings of /repo (seeded/harmless/h*.diff, written by an
# independent agent) must NOT make any check fail.  Each patch is run against the checks of the properties
# anchored in the files it touches, on private copies (tools_iso_check.sh).  usage: [-j N] [ids...]
cd /verif
J=3; if [ "$1" = "-j" ]; then J=$2; shift 2; fi
declare -A P
P[h01]="C04 C05 C03 C07"; P[h02]="C01 C02 C09 C06"; P[h03]="C01 C02 C09 C06"; P[h04]="C06 C08 C09"
P[h05]="C06 C08 C01 C02"; P[h06]="C10 C11 C20 C09 C07"; P[h07]="C10 C11 C20 C15"; P[h08]="C13 C07 C05 C14"
P[h09]="C07 C10 C19 C13"; P[h10]="C15 C17 C16"; P[h11]="C12 C13 C07 C05"; P[h12]="C16 C19 C17"
P[h13]="C18 C13 C14"; P[h14]="C03 C12"
P[g01]="C07 C09 C10 C05 C11"; P[g02]="C10 C11 C07 C20"; P[g03]="C15 C09"; P[g04]="C20 C09 C07 C10"; P[g05]="C06 C19 C08"
P[g06]="C09 C06"; P[g07]="C09 C06 C08"; P[g08]="C15"; P[g09]="C17"; P[g10]="C17 C16"; P[g11]="C12 C13"; P[g12]="C18 C11 C14"
ids="$@"; [ -z "$ids" ] && ids=$(ls seeded/harmless | grep "^[hg][0-9]*.diff" | sed 's/.diff//')
raw=.work/harmless_raw.txt; : > $raw
for h in $ids; do echo "$h ${P[$h]}"; done | xargs -P $J -L1 sh -c './tools_iso_check.sh seeded/harmless/$0.diff '$raw' "$@"'
{ echo "# harmless-refactoring sweep against /repo $(git -C /repo rev-parse --short HEAD), /verif $(git rev-parse --short HEAD), $(date -u +%FT%TZ)"; sort $raw; } > seeded/harmless/SWEEP.txt
cat seeded/harmless/SWEEP.txt
