# C14 — Peer death and session close are contained and release every resource.
# proof: Props/C14.v (Model/Lifecycle.v, Proofs/LifecycleProofs.v); tie: G (stream states) + T: real sessions
# driven through close / peer-kill / socket-sever scenarios; the bookkeeping observables at quiescent points
# (table reference counts, membership, released sessions) are compared with the model run on the same event
# segments (Corr/LifecycleCorr.v); the property clauses are evaluated as oracles on every scenario.
import json, os, re, shutil
from vlib import core, gen

PROP = "C14"
META = {
    "technique": "Coq proof: bookkeeping invariant of session shutdown over ALL schedules (any sessions/streams/Close/remote-close/lambda/user-thread events), close procedure proved from ANY invariant state (crash points are not enumerated), CAS idempotence, exact reference counts; tie: real sessions closed / peer SIGKILLed / socket severed at several kinds of point, table reference counts compared with the model at quiescent points, oracles on IsClosed, pending and later calls, callbacks, hangs, fd/maps//dev/shm census; crash-prone scenarios in child processes",
    "level_text": "PARTIAL. Proved for every schedule: C14_invariant_reachable; C14_close_from_any_state (shutdown, every stream dead, connection / manager reference / queue released, count drops by exactly one, the last reference unmaps+unlinks exactly then); C14_idempotent_close / _cleanup / C14_flags; C14_refcount (count = live holders, never negative, at most one unmap per mapping). Refuted with a machine-checked witness: no access to the queue after the unmap (a user thread past Flush's state check when the posted cleanup runs); partial: schedules without a user thread in flight never fault.",
    "level_note": "Observed, not proved: kernel release of descriptors / mappings / files (census against the scenario's unique names and socket inodes), process death and EPOLLRDHUP delivery, the dispatcher running the posted cleanup within ~2.6 s, absence of hangs (generous bounds). Close callbacks of a stream whose OnData is running belong to C10. Interleavings of real runs are whatever the Go scheduler produces.",
}

WHAT = {
    "C14:unmap-while-user-thread-inside-flush": "Close racing Flush: the posted cleanup sets queueManager = nil / unmaps while a user thread is past Flush's state check; the process crashes",
    "C14:write-after-cleanup-touches-unmapped-memory": "a later call on a stream of a closed and cleaned-up session (BufferWriter().WriteBytes) allocates from the unmapped buffer manager: SIGSEGV instead of an error",
    "C14:openstream-racing-close-panics-on-nil-stream-map": "Session.OpenStream passed its IsClosed check before the session died and took streamLock after the posted cleanup had set s.streams = nil: panic 'assignment to entry in nil map' on a user goroutine (process crash caused by a concurrent Close / peer death)",
    "C14:flush-parked-at-session-death-loses-slices": "Flushes were waiting in the queue-full retry loop when their session was closed / its peer died; after the cleanup the slices of their outgoing chains are missing from the free lists of the buffer manager shared with a live sibling session",
    "C14:dead-session-keeps-shared-buffer-slices": "after the cleanup of a session whose connection broke, slices its streams held (unread received data, written-but-unflushed data) are missing from the free lists of the buffer manager it shared with a live sibling session",
    "C14:survivor-not-closed-after-peer-death": "the peer died / the socket was severed but the surviving session did not become closed within the bound",
    "C14:pending-call-hangs-after-session-closed": "a call that was pending when the session died has not returned",
    "C14:pending-call-does-not-fail-after-session-closed": "a pending call returned without an error although the session died",
    "C14:later-call-succeeds-on-closed-session": "a call made after the session was closed did not fail",
    "C14:close-callback-count-not-one": "a callback-mode stream did not get exactly one close callback when its session died",
    "C14:close-does-not-release-pending-calls": "Session.Close returned but parked calls were not released / closeNotifyCh of a stream or shutdownCh not closed before the dispatcher's cleanup ran",
    "C14:cleanup-leaves-queue-mapped": "after both ends are closed and the cleanup ran, the session's queue is still mapped (or its file / memfd still exists)",
    "C14:session-not-closed-after-peer-close": "a session whose peer was closed did not close",
}


def label(s):
    t = s.split()
    if t[0] == "open":
        return "LOpen %s %s 0" % (t[1], t[2])
    if t[0] == "openfail":
        return "LOpenFail %s" % t[1]
    return {"close": "LClose", "lambda": "LLambda", "remote": "LRemote"}[t[0]] + " %s%%nat" % t[1]


def case_to_coq(c):
    segs = ["{| lg_labels := %s; lg_obs := %s |}" % (core.coq_list([label(x) for x in s["labels"]]), core.coq_list([core.z(x) for x in s["obs"]]))
            for s in c["segs"]]
    return "{| lc_p1 := 1; lc_p2 := 2; lc_segs := %s |}" % core.coq_list(segs)


def eval_cases(cases, tag):
    if not cases:
        return []
    txt = ["From Coq Require Import List ZArith.", "From Shm Require Import Gen.Consts Model.Lifecycle Corr.LifecycleCorr.",
           "Import ListNotations.", "Open Scope Z_scope.", "Definition cases : list lcase := [",
           ";\n".join(case_to_coq(c) for c in cases), "].",
           "Definition M := Eval vm_compute in mismatches cases.", "Print M.",
           "Definition O := Eval vm_compute in map model_obs cases.", "Print O."]
    rc, out, _ = core.coq_eval("cases_%s_%s_%d" % (PROP, tag, os.getpid()), "\n".join(txt))
    if rc != 0:
        raise RuntimeError("coqc on the generated cases failed: " + out[-1500:])
    m = re.search(r"M\s*=\s*(.*?)\s*:\s*list", out, re.S)
    if not m:
        raise RuntimeError("cannot parse the mismatch list: " + out[-500:])
    body = m.group(1).strip()
    bad = []
    if body != "[]":
        for mm in re.finditer(r"\((\d+)%?n?a?t?,\s*(\d+)%?n?a?t?\)", body):
            bad.append((int(mm.group(1)), int(mm.group(2))))
        if not bad:
            bad.append((0, -1))
    return bad


def run_harness(seed, tag, rounds=1):
    outp = os.path.join(core.WORK, "c14_%s_%d.jsonl" % (tag, os.getpid()))
    scratch = os.path.join(core.WORK, "c14scr_%d" % os.getpid())
    rc, out, secs = core.go_test(PROP, "^TestVerif_C14$", {"VERIF_OUT": outp, "VERIF_SEED": str(seed), "VERIF_ROUNDS": str(rounds),
                                                         "VERIF_SCRATCH": scratch}, timeout=1200)
    shutil.rmtree(scratch, ignore_errors=True)
    if rc != 0 or not os.path.exists(outp):
        return None, "harness failed (rc=%d): %s" % (rc, out[-2500:])
    cases = [json.loads(l) for l in open(outp)]
    os.unlink(outp)
    return cases, None


def brief(c):
    return {k: v for k, v in c.items() if v not in (None, [], "", 0, False, {}) or k in ("id", "kind", "name")}


def check(run):
    data, gerr = gen.regenerate()
    if gerr:
        run.add_corr_break("G: " + gerr)
    run.proof = core.proof_step(PROP, run.tier)
    rounds = 1 if run.tier == "quick" else 6
    cases, err = run_harness(run.seed, run.tier, rounds)
    if err:
        run.add_corr_break("T: " + err)
        cases = []
    kinds, feats = {}, {}
    for c in cases:
        kinds[c["kind"]] = kinds.get(c["kind"], 0) + 1
        for f in set(c.get("feat") or []):
            feats[f] = feats.get(f, 0) + 1
        if c["kind"] == "source" and c.get("err"):
            run.add_corr_break("G: stream.go Flush no longer has the modelled shape: " + c["err"], brief(c))
        if c["kind"] == "broken":
            run.add_corr_break("T: scenario %s could not be set up: %s" % (c.get("name"), c.get("err")), brief(c))
        for m in c.get("oracle") or []:
            run.add_oracle_failure(m, WHAT.get(m, m), brief(c))
    traces = [c for c in cases if c["kind"] == "trace"]
    if traces:
        try:
            bad = eval_cases(traces, run.tier)
        except RuntimeError as ex:
            bad = []
            run.add_corr_break("T: model evaluation failed: %s" % ex)
        for (idx, seg) in bad:
            c = traces[idx] if idx < len(traces) else {}
            run.add_corr_break("T: %s: reference counts / table membership / released sessions differ from the model after segment %s" % (c.get("name"), seg), brief(c))
    run.coverage.update({
        "evaluations": len(cases), "distinct_nontrivial": len({c["name"] for c in cases if c["kind"] != "broken"}),
        "rule": "a case = one scenario (trace of shared-manager sessions closed in turn; peer SIGKILLed / socket severed when idle after k round trips, mid-flush, mid-read; Close racing flushes and calls after cleanup in child processes); all are non-trivial, distinct by name",
        "samples": [brief(c) for c in cases if c["kind"] in ("killed", "trace")][:2], "kinds": kinds, "features": feats,
        "compared_with_model": len(traces),
        "observed_only": ["IsClosed within the bound", "error classes of pending and later calls", "close-callback counts", "no hang", "census of /proc/self/fd (socket inode, memfd names), /proc/self/maps, /dev/shm after the cleanup"],
    })
    run.assumptions += [
        "kernel: a dead peer / shut-down socket is reported to the dispatcher (EPOLLRDHUP / read 0); closing and unmapping releases the resource (observed by census)",
        "the dispatcher runs posted lambdas (observed: cleanup within ~2.6 s)",
        "model granularity: Close and the cleanup lambda are atomic steps; a user thread inside Flush is one Enter and one Access step",
        "close callbacks of a stream whose OnData is running are property C10's subject"]

    def search():
        cs, e = run_harness(run.seed + 7919, "search", 2)
        return [{"signature": m, "what": WHAT.get(m, m), "case": brief(c)} for c in (cs or []) for m in (c.get("oracle") or [])]
    return run.finish(search)


def replay(path):
    r = json.load(open(path))
    print(json.dumps(r, indent=1)[:6000])
    print("re-run: VERIF_SEED=%s ./check C14 --tier %s   (scenario name: %s)" % (r.get("seed"), r.get("tier"), (r.get("case") or {}).get("name")))
    return 0
