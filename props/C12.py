# C12 — Handshake yields one shared memory and the lower version, or errors on both ends.
# proof: Props/C12.v (Model/Handshake.v, Proofs/HandshakeProofs.v); tie: G (event numbers, header size, magic,
# versions) + D (codec byte for byte; one real end against scripted byte-level peers: frames written, outcome
# class, version compared with the model's end on the same script) + T (two real ends, in one and in two
# processes: outcome classes, versions, write-through/read-back across the mappings, census).
import json, os, re, shutil
from vlib import core, gen

PROP = "C12"
META = {
    "technique": "Coq proof: byte-exact codec round trip; wire/script invariant of the two initialiser state machines over ALL schedules of thread steps, select/timer events, stalls, deaths and file removals; tie: regenerated constants + differential runs of the real generateShmMetadata/extractShmMetadata and of real newSession ends against scripted byte-level peers + real pairings (also across two processes) with write-through/read-back and fd/maps//dev/shm census",
    "level_text": "PARTIAL. Proved for every configuration with paths < 2^16 bytes and every schedule: C12_codec, C12_version (whoever succeeds holds min(client,3)), C12_same_memory (whoever succeeds maps the client's two objects), C12_both_ends_partial_v3 (with the V3 acknowledgement a successful client implies a server initialiser that mapped that memory), C12_fault_timer (return once the timer fired and the shut-down goroutine finished), C12_no_residue (ANY error return, the timeout included, leaves no mapping, no dup'ed descriptor and no initialiser goroutine — provable since newSession/initProtocol shut the socket down, wait for the goroutine and close the descriptor; the former counter-examples, stalled peer and late peer, are regression scenarios), C12_fault_files. Refuted with machine-checked witnesses reproduced on the real code: success-on-both-ends-or-error-on-both (V2 has no acknowledgement), codec without the 2^16 bound.",
    "level_note": "Observed, not proved: kernel fd passing and mmap identity (write-through/read-back across the two mappings, also between two processes), timers (elapsed time vs InitializeTimeout with generous slack), descriptor/mapping/file release (census of /proc/self/fd, /proc/self/maps, /dev/shm). Model granularity: one step = one blocking read plus the writes up to the next read; writes of these few bytes never block; initialiser keys 2/3 are literals of protocol_initializer.go (not exported by G).",
}

WHAT = {
    "C12:v2-client-succeeds-while-server-fails": "V2 (file mapping) has no acknowledgement: the client's newSession returns success although the server failed to map the shared memory (queue file removed before the server ran)",
    "C12:stalled-peer-leaks-initializer-goroutine-and-fd": "a peer that stalls mid-handshake: newSession returns the timeout error but the initialiser goroutine stays blocked in a raw read on the dup'ed descriptor, which nobody closes (only a GC finalizer does)",
    "C12:version-not-the-lower-common-one": "a complete, valid exchange did not end with the lower common protocol version on the real end",
    "C12:ends-map-different-memory": "a pattern written through one end's mapping is not read through the other end's: the ends do not map the same buffer / queue memory",
    "C12:error-path-leaves-mapping": "after newSession returned an error the process still maps the session's shared memory",
    "C12:error-path-leaves-file": "after newSession returned an error the session's /dev/shm file is still there",
    "C12:error-path-leaves-memfd-descriptor": "after newSession returned an error the client's memfd is still open",
    "C12:handshake-call-does-not-return-within-the-timeout": "newSession / Server did not return — neither success nor error — within InitializeTimeout plus a generous slack: the peer's fault script (silent from the first byte, stopped inside a header, or later) is in the replay",
    "C12:failed-handshake-releases-sibling-session-memory": "a session establishment that FAILED took the shared buffer memory away from an ESTABLISHED sibling session on the same buffer path (table reference count / mapping / file changed, or the sibling stopped working)",
    "C12:failed-handshake-leaves-stale-registry-entry": "after a failed handshake (no other user of the path) the process-wide buffer-manager table still holds an entry for the path",
    "C12:establishment-after-failed-handshake-has-no-mapped-memory": "a new establishment on the path of an earlier failed handshake reports success but the buffer memory is not mapped / does not carry data",
    "C12:establishment-after-failed-handshake-fails": "a new establishment on the path of an earlier failed handshake fails",
    "C12:client-rejects-newer-server-instead-of-lower-common-version": "a server of a newer protocol generation (it answers the version exchange with 4, 5, ...) makes the generation-3 client fail instead of settling on the lower common version",
    "C12:extract-metadata-panics": "extractShmMetadata panicked on a malformed body instead of returning an error",
    "C12:late-peer-after-timeout-leaks-mapping": "a peer that sends valid metadata after the server's InitializeTimeout: the initialiser goroutine, never cancelled, maps the shared memory after newSession returned the timeout error; nobody unmaps it",
    "C12:error-path-leaves-received-descriptor": "server received an SCM_RIGHTS message with the wrong number of descriptors: it reports an error and never closes the descriptor(s) it did receive",
}


def zl(xs):
    return core.coq_list([core.z(x) for x in xs])


def frame(f):
    if f.get("fds", 0) > 0:
        return "FFds " + core.coq_list(["0"] * f["fds"])
    return "FBytes " + zl(f.get("b") or [])


def config(c):
    return ("{| mt := %s; unix := %s; qpath := %s; bpath := %s; qobj := 11; bobj := 22; sgen := c_maxSupportProtoVersion |}"
            % ("MMemfd" if c["mt"] == 1 else "MFile", "true" if c["unix"] else "false", zl(c["q"] or []), zl(c["b"] or [])))


def b(x):
    return "true" if x else "false"


def case_to_coq(c):
    k = c["kind"]
    if k == "codec":
        return ("HCodec {| cc_ver := %d; cc_ty := %d; cc_q := %s; cc_b := %s; cc_bytes := %s; cc_body := %s; cc_err := %s; cc_ext_b := %s; cc_ext_q := %s |}"
                % (c["ver"], c["ty"], zl(c["q"]), zl(c["b"]), zl(c["bytes"]), zl(c["body"]), b(c["ext_err"]), zl(c["ext_b"]), zl(c["ext_q"])))
    if k == "peer":
        files = []
        if c["file_q"]:
            files.append("(%s, 11)" % zl(c["q"]))
        if c["file_b"]:
            files.append("(%s, 22)" % zl(c["b"]))
        return ("HPeer {| pc_client := %s; pc_cfg := %s; pc_script := %s; pc_close := %s; pc_late := %s; pc_files := %s; pc_obs_frames := %s; pc_obs_class := %d; pc_obs_ver := %d; pc_obs_mapped := %s |}"
                % (b(c["client"]), config(c), core.coq_list([frame(f) for f in c["script"] or []]), b(c["close"]), b(c.get("late")),
                   core.coq_list(files), core.coq_list([frame(f) for f in c["frames"] or []]), c["class"], c["obs_ver"], b(c["mapped"])))
    if k == "valid":
        return "HValid {| vc_magic := %d; vc_ver := %d; vc_type := %d; vc_obs := %d |}" % (c["obs_ver"], c["ver"], c["ty"], c["class"])
    if k in ("pair", "xproc"):
        return ("HPair {| pp_cfg := %s; pp_sched := %d; pp_c_class := %d; pp_s_class := %d; pp_c_ver := %d; pp_s_ver := %d; pp_same := %s |}"
                % (config(c), c.get("sched", 0), c["c_class"], c["s_class"], c["c_ver"], c["s_ver"], b(c["same"])))
    return None


MISMATCH = {1: "generateShmMetadata's bytes differ from the model's generate", 2: "extractShmMetadata's result / error differs from the model's extract",
            11: "frames written by the real end differ from the model's", 12: "outcome class of the real end differs from the model's",
            13: "negotiated version of the real end differs from the model's", 14: "the real server mapped / did not map unlike the model",
            21: "client outcome differs from the model's run", 22: "server outcome differs from the model's run",
            23: "client version differs from the model's run", 24: "server version differs from the model's run",
            25: "same-memory observation differs from the model's run",
            31: "checkEventValid's verdict on this magic / version byte / type differs from the model's header validity predicate"}


def eval_cases(cases, tag):
    todo = [(i, case_to_coq(c)) for i, c in enumerate(cases)]
    todo = [(i, t) for (i, t) in todo if t is not None]
    bad = []
    SH = 150
    for k in range(0, len(todo), SH):
        chunk = todo[k:k + SH]
        txt = ["From Coq Require Import List ZArith.", "From Shm Require Import Gen.Consts Model.Handshake Corr.HandshakeCorr.",
               "Import ListNotations.", "Open Scope Z_scope.", "Definition cases : list hcase := ["]
        txt.append(";\n".join(t for (_, t) in chunk))
        txt.append("].")
        txt.append("Definition M := Eval vm_compute in mismatches cases.")
        txt.append("Print M.")
        rc, out, _ = core.coq_eval("cases_%s_%s_%d_%d" % (PROP, tag, os.getpid(), k), "\n".join(txt))
        if rc != 0:
            raise RuntimeError("coqc on the generated cases failed: " + out[-1500:])
        m = re.search(r"M\s*=\s*(.*?)\s*:\s*list", out, re.S)
        if not m:
            raise RuntimeError("cannot parse the mismatch list: " + out[-500:])
        body = m.group(1).strip()
        if body != "[]":
            found = False
            for mm in re.finditer(r"\((\d+)%?n?a?t?,\s*\(?(-?\d+)\)?(?:%Z)?\)", body):
                bad.append((chunk[int(mm.group(1))][0], int(mm.group(2))))
                found = True
            if not found:
                bad.append((chunk[0][0], -1))
    return bad


def run_harness(n, seed, tag, rounds=1):
    outp = os.path.join(core.WORK, "c12_%s_%d.jsonl" % (tag, os.getpid()))
    scratch = os.path.join(core.WORK, "c12scr_%d" % os.getpid())
    rc, out, secs = core.go_test(PROP, "^TestVerif_C12$", {"VERIF_OUT": outp, "VERIF_N": str(n), "VERIF_SEED": str(seed),
                                                         "VERIF_ROUNDS": str(rounds), "VERIF_SCRATCH": scratch},
                                 timeout=300 if rounds <= 3 else 900)
    shutil.rmtree(scratch, ignore_errors=True)
    if rc != 0 or not os.path.exists(outp):
        return None, "harness failed (rc=%d): %s" % (rc, out[-2500:])
    cases = [json.loads(l) for l in open(outp)]
    os.unlink(outp)
    return cases, None


def brief(c):
    keep = ("id", "kind", "name", "client", "mt", "unix", "close", "class", "obs_ver", "mapped", "sched", "c_class", "s_class",
            "c_ver", "s_ver", "same", "elapsed_c_ms", "elapsed_s_ms", "timeout_ms", "err", "residue", "census", "feat")
    d = {k: c.get(k) for k in keep if c.get(k) not in (None, [], "", 0, False) or k in ("id", "kind", "name")}
    if c.get("script"):
        d["script"] = c["script"]
    if c.get("frames"):
        d["frames_written_by_the_real_end"] = c["frames"]
    if c["kind"] == "codec":
        d.update({k: c[k] for k in ("ver", "ty", "q", "b", "body", "ext_err", "ext_b", "ext_q")})
    return d


def oracle_failures(cases):
    res = []
    for c in cases:
        for m in c.get("oracle") or []:
            res.append((m, c))
    return res


def check(run):
    data, gerr = gen.regenerate()
    if gerr:
        run.add_corr_break("G: " + gerr)
    run.proof = core.proof_step(PROP, run.tier)
    n = 120 if run.tier == "quick" else 1500
    rounds = 1 if run.tier == "quick" else 4
    cases, err = run_harness(n, run.seed, run.tier, rounds)
    if err:
        run.add_corr_break("D: " + err)
        cases = []
    feats, kinds = {}, {}
    distinct = set()
    for c in cases:
        kinds[c["kind"]] = kinds.get(c["kind"], 0) + 1
        if c["kind"] == "broken":
            run.add_corr_break("T: scenario %s could not be set up: %s" % (c.get("name"), c.get("err")), brief(c))
        for f in set(c.get("feat") or []):
            feats[f] = feats.get(f, 0) + 1
        if c["kind"] == "codec":
            key = json.dumps([c["ver"], c["ty"], c["q"], c["b"], c["body"]])
            nontrivial = bool(c.get("feat")) or len(c["q"]) in (0, 255, 256, 65535) or len(c["b"]) in (0, 255, 256, 65535)
        elif c["kind"] == "valid":
            key = json.dumps(["valid", c["ver"], c["ty"], c["obs_ver"]])
            nontrivial = c["ver"] in (0, 1, 2, 3, 4, 255) or c["class"] != 0
        else:
            key = json.dumps([c["kind"], c["name"]])
            nontrivial = True
        if nontrivial:
            distinct.add(key)
    for (m, c) in oracle_failures(cases):
        if m.startswith("harness:"):
            run.add_corr_break("T: %s (%s)" % (m, c.get("name")), brief(c))
        else:
            run.add_oracle_failure(m, WHAT.get(m, m), brief(c))
    long_codec = [c for c in cases if c["kind"] == "codec" and (len(c["q"]) > 5000 or len(c["b"]) > 5000)]
    short = [c for c in cases if not (c["kind"] == "codec" and (len(c["q"]) > 5000 or len(c["b"]) > 5000))
             and c["kind"] not in ("census", "source", "sibling") and c.get("class") != 4 and "C12:handshake-call-does-not-return-within-the-timeout" not in (c.get("oracle") or [])]
    for c in cases:
        if c["kind"] == "source" and c.get("err"):
            run.add_corr_break("G: session.go initProtocol no longer has the modelled shape (timer armed, then the goroutine that selects and runs the initializer, select on result/timer): " + c["err"], brief(c), shape=True)
    if cases:
        try:
            bad = eval_cases(short, run.tier)
        except RuntimeError as ex:
            bad = []
            run.add_corr_break("D: model evaluation failed: %s" % ex)
        for (idx, kind) in bad[:20]:
            c = short[idx] if 0 <= idx < len(short) else {}
            run.add_corr_break("D: case %s (%s %s): %s" % (c.get("id"), c.get("kind"), c.get("name", ""), MISMATCH.get(kind, "model/implementation mismatch")), brief(c) if c else None)
    # the long paths cannot be written as Coq literals: the theorem C12_codec_refuted predicts that exactly the
    # paths of 2^16 bytes and more do not survive the round trip; check that prediction on the real code
    for c in long_codec:
        lq, lb = len(c["q"]), len(c["b"])
        survives = (not c["ext_err"]) and c["ext_q"] == c["q"] and c["ext_b"] == c["b"]
        untouched = "truncated-body" not in (c.get("feat") or []) and "corrupted-length" not in (c.get("feat") or [])
        if untouched and survives != (lq < 65536 and lb < 65536):
            run.add_corr_break("D: case %s: round trip of paths of %d / %d bytes %s, the model predicts the opposite"
                               % (c["id"], lq, lb, "succeeds" if survives else "fails"), {"id": c["id"], "len_q": lq, "len_b": lb})
    samples = [brief(c) for c in cases if c["kind"] == "peer"][:1] + [brief(c) for c in cases if c["kind"] == "pair"][:1]
    run.coverage.update({
        "evaluations": len(cases), "distinct_nontrivial": len(distinct),
        "rule": "a case = one codec input (paths / possibly malformed body), or one scenario (real end vs scripted peer, two real ends, two processes, stalled-peer census); "
                "codec cases are non-trivial when a length sits on a boundary (0, 255/256, 65535/65536) or the body is truncated/corrupted; every scenario is distinct by name",
        "samples": samples, "kinds": kinds, "features": feats,
        "compared_with_model": len(short), "long_paths_checked_against_refutation": len(long_codec),
        "observed_only": ["write-through/read-back across the mappings (in one process and between two processes)", "elapsed time vs InitializeTimeout",
                          "census of /proc/self/fd, /proc/self/maps, /dev/shm after an error", "goroutines blocked in blockReadFull after the timeout error"],
    })
    run.assumptions += [
        "kernel: unix-socket fd passing, mmap of the same inode/memfd yields the same memory, timers fire (observed by the harness, not modelled)",
        "one model step = one blocking read plus everything up to the next blocking read; the few bytes written never block",
        "paths shorter than 2^16 bytes (u16 length fields; longer ones are refuted, unreachable with PATH_MAX / memfd name limits)",
        "the adversary stalls or kills an end and removes /dev/shm files; it does not forge bytes inside the theorems (forged events are exercised by the scripted peers only)",
        "protocol initialiser keys 2 and 3 and Version() results are literals of protocol_initializer.go"]

    def search():
        cs, e = run_harness(200, run.seed + 7919, "search", 3)
        return [{"signature": m, "what": WHAT.get(m, m), "case": brief(c)} for (m, c) in oracle_failures(cs or []) if not m.startswith("harness:")]
    return run.finish(search)


def replay(path):
    r = json.load(open(path))
    print(json.dumps(r, indent=1)[:6000])
    print("re-run: VERIF_SEED=%s ./check C12 --tier %s   (scenario name: %s)" % (r.get("seed"), r.get("tier"), (r.get("case") or {}).get("name")))
    return 0
