# C18 — the event connection moves bytes exactly once and in order under any kernel IO.
# proof: Props/C18.v (Model/EventConn.v, Proofs/EventConnProofs.v); tie: D (the real connEventHandler over unix
# socketpairs with varied SO_SNDBUF/SO_RCVBUF and generated consumption patterns; the buffer geometry at every
# callback is replayed on the model; concurrent writers through the real Session writing-flag protocol).
import json, os, re
from vlib import core, gen

PROP = "C18"
META = {
    "technique": "Coq proof: invariant of the read buffer (window = received-but-unconsumed part of the stream) over all sequences of kernel read sizes and commit sizes incl. growth, compaction and shrink; induction over all kernel answers for write; inductive invariant over all schedules of the writing-flag protocol (mutual exclusion, contiguous events); tie: differential execution of the real connEventHandler over socketpairs, callback geometry replayed on the model",
    "level_text": "C18_wakeup / C18_wakeup_kept (an epoll event carrying EPOLLOUT or EPOLLRDHUP releases a writer parked after EAGAIN whatever else it carries; a notification that overtakes the writer is kept), C18_read / C18_read_bounds (every configuration, stream, read/commit sequence), C18_on_read_ready (the real onReadReady loop incl. the threshold callback is an instance of those sequences for every kernel that returns 1..count bytes), C18_write (every message and kernel answer sequence), C18_mutex / C18_contiguous (any number of writers, event sizes, every schedule) are proved in Coq. The model's buffer geometry is compared with the real connEventHandler at every callback of every generated transfer; an independent oracle checks on every callback that the buffer shown is the unconsumed bytes followed by the new ones and that everything written arrives exactly once, in order, events of concurrent writers intact.",
    "level_note": "Trusted: coqc kernel; the hand-written model; kernel socket semantics (read returns at most `count` bytes that were written, in order); the read sizes chosen by the kernel are not observable, the replay uses the fact that the geometry depends only on the number of bytes between two callbacks; EAGAIN / partial writes are provoked by small socket buffers but not counted; doWritev is modelled (iovec bookkeeping) but only write is exercised and proved, the session never calls writev; sequential consistency of the writing flag.",
}

SRC = "event_dispatcher_linux.go"


def source_cfg():
    """The three size literals of event_dispatcher_linux.go (they are not named package constants)."""
    from vlib import gosrc
    txt = gosrc.read(SRC)

    def ev(expr):
        if not re.fullmatch(r"[\d\s\*]+", expr):
            raise ValueError(expr)
        v = 1
        for f in expr.split("*"):
            v *= int(f.strip())
        return v
    pats = {"init_len": r"readBuffer:\s*make\(\[\]byte,\s*([\d\s\*]+)\)",
            "threshold": r"onDataThreshold\s*=\s*([\d\s\*]+)",
            "shrink_limit": r"minResizedBufferSize\s*:=\s*([\d\s\*]+)"}
    res, errs = {}, []
    for k, p in pats.items():
        m = re.search(p, txt)
        if not m:
            errs.append("pattern for %s not found in %s" % (k, SRC))
            continue
        try:
            res[k] = ev(m.group(1).strip())
        except ValueError:
            errs.append("cannot evaluate %s literal %r" % (k, m.group(1)))
    return res, errs


def case_to_coq(c, cfg):
    return ("{| cc_cfg := {| init_len := %d; threshold := %d; shrink_limit := %d |}; cc_cbs := [%s] |}"
            % (cfg["init_len"], cfg["threshold"], cfg["shrink_limit"],
               ";".join("(%d,%d,%d,%d)" % tuple(cb) for cb in (c["cbs"] or []))))


def eval_cases(cases, cfg, tag):
    bad = []
    SH = 12
    for k in range(0, len(cases), SH):
        chunk = cases[k:k + SH]
        txt = ["From Coq Require Import List ZArith.", "From Shm Require Import Model.EventConn Corr.EventConnCorr.",
               "Import ListNotations.", "Open Scope Z_scope.", "Definition cases : list ccase := [",
               ";\n".join(case_to_coq(c, cfg) for c in chunk), "].",
               "Definition M := Eval vm_compute in mismatches cases.", "Print M."]
        rc, out, _ = core.coq_eval("cases_%s_%s_%d_%d" % (PROP, tag, os.getpid(), k), "\n".join(txt))
        if rc != 0:
            raise RuntimeError("coqc on the generated cases failed: " + out[-1500:])
        m = re.search(r"M\s*=\s*(.*?)\s*:\s*list", out, re.S)
        if not m:
            raise RuntimeError("cannot parse the mismatch list: " + out[-500:])
        body = m.group(1).strip()
        if body != "[]":
            hits = re.findall(r"\((\d+)%?n?a?t?,\s*(\d+)%?n?a?t?\)", body)
            for a, b in hits:
                bad.append((chunk[int(a)], int(b)))
            if not hits:
                bad.append((chunk[0], -1))
    return bad


def eval_dispatch(cases, tag):
    """handleEvent dispatch table observed on the implementation vs. the model's handle_event"""
    ds = [d for c in cases if c["kind"] == "dispatch" for d in (c.get("disp") or [])]
    if not ds:
        return ["no dispatch observations in the harness output"]
    b = lambda x: "true" if x else "false"
    txt = ["From Coq Require Import List ZArith.", "From Shm Require Import Model.EventConn Corr.EventConnCorr.",
           "Import ListNotations.", "Definition ds : list dcase := [",
           ";\n".join("{| dc_rdhup := %s; dc_in := %s; dc_out := %s; dc_ran_close := %s; dc_ran_read := %s; dc_ran_write := %s |}"
                      % (b(d["rdhup"]), b(d["in"]), b(d["out"]), b(d["ran_close"]), b(d["ran_read"]), b(d["ran_write"])) for d in ds), "].",
           "Definition M := Eval vm_compute in dispatch_mismatches ds.", "Print M."]
    rc, out, _ = core.coq_eval("cases_%s_disp_%s_%d" % (PROP, tag, os.getpid()), "\n".join(txt))
    if rc != 0:
        raise RuntimeError("coqc on the dispatch cases failed: " + out[-1500:])
    m = re.search(r"M\s*=\s*(.*?)\s*:\s*list", out, re.S)
    body = m.group(1).strip() if m else "?"
    if body == "[]":
        return []
    return ["handleEvent ran other handlers than the model for event mask rdhup=%s in=%s out=%s (ran close=%s read=%s write=%s)"
            % (ds[int(i)]["rdhup"], ds[int(i)]["in"], ds[int(i)]["out"], ds[int(i)]["ran_close"], ds[int(i)]["ran_read"], ds[int(i)]["ran_write"])
            for i in re.findall(r"(\d+)", body.replace("%nat", "")) if int(i) < len(ds)] or ["unparsed: " + body[:200]]


def run_harness(n, nbig, seed, tag, nbidir=3, nrec=8, cfg=None):
    outp = os.path.join(core.WORK, "c18_%s_%d.jsonl" % (tag, os.getpid()))
    rc, out, secs = core.go_test(PROP, "^TestVerif_C18$", {"VERIF_OUT": outp, "VERIF_N": str(n), "VERIF_NBIG": str(nbig),
                                                            "VERIF_NBIDIR": str(nbidir), "VERIF_NREC": str(nrec), "VERIF_SEED": str(seed),
                                                            "VERIF_INIT_LEN": str((cfg or {}).get("init_len", 65536)),
                                                            "VERIF_THRESHOLD": str((cfg or {}).get("threshold", 1 << 20)),
                                                            "VERIF_SHRINK_LIMIT": str((cfg or {}).get("shrink_limit", 4 << 20))}, timeout=2400)
    if rc != 0:
        try:
            os.unlink(outp)
        except OSError:
            pass
        return None, "harness failed (rc=%d): %s" % (rc, out[-2500:])
    cases = [json.loads(l) for l in open(outp)]
    os.unlink(outp)
    return cases, None


def slim(c, at=None):
    d = {k: c.get(k) for k in ("id", "kind", "net", "sndbuf", "rcvbuf", "sizes", "total", "policy", "writers", "events", "init_len",
                               "parked_at", "acks", "disp", "feat") if c.get(k) is not None}
    cbs = c.get("cbs") or []
    if at is not None and at >= 0:
        d["callbacks_around_divergence"] = {"first_index": max(0, at - 3), "callbacks(len,start,window,consumed)": cbs[max(0, at - 3):at + 2]}
    else:
        d["first_callbacks(len,start,window,consumed)"] = cbs[:12]
    d["callbacks"] = len(cbs)
    return d


def oracle_failures(cases):
    res = []
    for c in cases or []:
        for f in c.get("oracle") or []:
            res.append({"signature": f["sig"], "what": f["what"], "case": slim(c)})
    return res


def check(run):
    data, gerr = gen.regenerate()
    if gerr:
        run.add_corr_break("G: " + gerr)
    cfg, errs = source_cfg()
    for e in errs:
        run.add_corr_break("G: " + e, shape=True)
    run.proof = core.proof_step(PROP, run.tier)
    n, nbig, nbidir, nrec = (66, 2, 3, 8) if run.tier == "quick" else (2000, 40, 30, 150)
    cases, err = run_harness(n, nbig, run.seed, run.tier, nbidir, nrec, cfg)
    if err:
        run.add_corr_break("D: " + err)
        cases = []
    for f in oracle_failures(cases):
        run.add_oracle_failure(f["signature"], f["what"], f["case"])
    if cases and not errs:
        try:
            bad = eval_cases(cases, cfg, run.tier)
        except RuntimeError as ex:
            bad = []
            run.add_corr_break("D: model evaluation failed: %s" % ex)
        for (c, at) in bad[:20]:
            run.add_corr_break("D: case %s (%s): buffer geometry at callback %d differs from the model" % (c.get("id"), c.get("kind"), at),
                               slim(c, at))
        try:
            for what in eval_dispatch(cases, run.tier):
                run.add_corr_break("D: " + what, [c.get("disp") for c in cases if c["kind"] == "dispatch"][:1])
        except RuntimeError as ex:
            run.add_corr_break("D: model evaluation failed: %s" % ex)
    feats, distinct = {}, 0
    for c in cases:
        fs = set(c.get("feat") or [])
        if fs & {"buffer-grew", "buffer-shrank", "nonzero-start", "partial-consumption", "zero-consumption", "concurrent-writers", "message>sndbuf",
                 "bidirectional", "dispatch-all-event-masks", "record-consumer"}:
            distinct += 1
        for f in fs:
            feats[f] = feats.get(f, 0) + 1
    run.coverage.update({
        "evaluations": len(cases), "distinct_nontrivial": distinct,
        "rule": "a case = one transfer over a fresh socketpair (socket buffer sizes, message sizes, consumption policy) or one "
                "concurrent-writer run through the real writing-flag protocol; non-trivial = the buffer grew or shrank, a callback "
                "started at a non-zero offset, consumed only part or nothing, a message exceeded the send buffer, or writers ran "
                "concurrently; every transfer uses a fresh random stream, so all are distinct",
        "samples": [slim(c) for c in cases[:1] + [c for c in cases if c["kind"] == "concurrent"][:1]],
        "features": feats, "source_literals": cfg,
        "callbacks": sum(len(c.get("cbs") or []) for c in cases),
        "bytes_transferred": sum(c.get("total") or 0 for c in cases),
        "sndbuf_values": sorted({c["sndbuf"] for c in cases}), "rcvbuf_values": sorted({c["rcvbuf"] for c in cases}),
        "policies": sorted({(c.get("policy") or {}).get("kind") or "events" for c in cases}),
        "kinds": {k: sum(1 for c in cases if c["kind"] == k) for k in sorted({c["kind"] for c in cases})},
        "bidirectional_parked_at": [c.get("parked_at") for c in cases if c["kind"] == "bidir"][:10],
    })
    run.assumptions += [
        "kernel socket semantics: read(2) returns between 1 and `count` of the bytes written, in order; write(2) accepts between 1 and the remaining bytes or fails with EAGAIN",
        "the kernel's individual read sizes are not observed; the replay relies on the geometry depending only on the number of bytes delivered between two callbacks",
        "sequential consistency of Session.writing (atomic CAS / store) and of the channel operations",
        "epoll: a readiness change of a registered fd is reported by at least one event whose mask contains it (edge-triggered); which other bits share that event is arbitrary and quantified over",
        "connEventHandler.writev/doWritev is modelled but not proved nor exercised (no caller in the library; it would index an empty slice out of range)",
        "the three buffer-size literals are read from event_dispatcher_linux.go by pattern; the theorems hold for every value"]

    def search():
        cs, e = run_harness(150, 4, run.seed + (1 << 50), "search", 3, 20, cfg)  # far away in the PRNG stream (seeds d apart = streams shifted by d draws)
        return oracle_failures(cs)
    return run.finish(search)


def replay(path):
    r = json.load(open(path))
    print(json.dumps(r, indent=1)[:6000])
    print("re-run: VERIF_SEED=%s ./check C18 --tier %s" % (r.get("seed"), r.get("tier")))
    return 0
