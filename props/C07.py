# C07 — multiplexed streams stay isolated and ordered; close never overtakes data.
# proof: Props/C07.v (Model/Mux.v extends Model/Wakeup.v; Proofs/MuxProofs.v, Proofs/MuxOrderProofs.v).
# Isolation / no duplication, per-transport FIFO and — after the two repairs (close through the socket in
# fallback state; empty the queue before a socket item is handed to its stream) — the ORDER statement at
# full strength hold for all schedules and fault patterns.  The callback-mode end-of-stream clause is
# refuted (Model/MuxCallback.v; known finding c).
# tie: T — real client/server session pairs, keyed messages on 2-6 streams, induced shm exhaustion,
# generated sequential scenarios (replayed on the model, delivery sequences compared) and concurrent
# bursts; the deterministic scenarios of the two repaired races stay as regression scenarios (a: public
# callback API, b: the instrumented wakeUpPeer paused after markWorking); c: callback mode.
import json, os, re
from vlib import core, gen, sched, gosrc

PROP = "C07"
META = {
    "technique": "Coq proof: invariants over all schedules x fault patterns of a two-transport multiplexing model built on the C05 wake-up model (per-transport FIFO, item validity/uniqueness, end mark last, a stream only switches from the queue to the socket, a socket item is delivered only when the queue is empty); callback-mode end-of-stream clause refuted by a vm_compute witness; tie: real session pairs driven by generated scenarios whose histories are replayed on the model, plus deterministic regression scenarios of the repaired races on the real code",
    "level_text": "C07_isolation, C07_transport_fifo and C07_order (the order / end-mark statement at full strength) hold for any number of streams, all programs, all exhaustion/queue-full patterns and all schedules, including streams that switch to the socket fallback in mid-flight and writers paused between markWorking and the write of their polling event. The two ordering races of the original code (close element overtakes fallback data; socket item overtakes data whose wake-up is published but unwritten) are repaired in /repo; their deterministic scenarios stay as regression scenarios and their former witness schedules as regression Examples. The callback-mode end-of-stream clause is refuted (C07_refuted_callback_mode) and reproduced on the real code under a stable signature (known finding).",
    "level_note": "Trusted: coqc kernel; the model treats queue.put/pop as atomic (C04) and one direction of a session at a time; one writer thread per stream; timers of waitForSend/Flush retries are not modelled; real-session scenarios are sampled; the callback-mode clause has its own small model (Model/MuxCallback.v: fillDataToReadBuffer's goroutine and halfClose) tied to the code by the directed scenario c only.",
}

SWITCH_FILE = os.path.join(core.COQ, "theories", "Gen", "SwitchC07.v")


def strip_comments(src):
    src = re.sub(r"/\*.*?\*/", "", src, flags=re.S)
    return re.sub(r"//[^\n]*", "", src)


def func_body(src, header):
    i = src.find(header)
    if i < 0:
        return None
    j = src.find("\n}\n", i)
    return re.sub(r"\s+", " ", strip_comments(src[i:j]))


def scan_switch():
    """Translator for the switch of Model/Mux.v: how do the statements of the source that set / test
    Stream.inFallbackState maintain it?  Returns (sticky, description, error); anything that is not one of the
    known shapes is an error (= broken correspondence)."""
    try:
        stream = gosrc.read("stream.go")
    except OSError as ex:
        return None, None, "cannot read stream.go: %s" % ex
    flush = func_body(stream, "func (s *Stream) Flush(endStream bool) error {")
    close = func_body(stream, "func (s *Stream) close() error {")
    reset = func_body(stream, "func (s *Stream) reset() error {")
    move = func_body(stream, "func (r *pendingData) moveToWithoutLock(toBuf *linkedBuffer) {")
    if None in (flush, close, reset, move):
        return None, None, "cannot find Stream.Flush / close / reset / pendingData.moveToWithoutLock in stream.go"
    def count(body):
        return len(re.findall(r"inFallbackState", body))
    if "if s.inFallbackState { return s.writeFallback(" not in flush:
        return None, None, "Stream.Flush no longer tests inFallbackState right before writeFallback"
    if "if !s.inFallbackState { err := s.session.sendQueue().put(queueElement{seqID: s.id, status: uint32(streamClosed)})" not in close or count(close) != 1:
        return None, None, "Stream.close no longer has the shape 'put the close element only if !inFallbackState, else the stream-close event through the socket'"
    if "s.inFallbackState = false" not in reset or count(reset) != 1:
        return None, None, "Stream.reset does not clear inFallbackState in the known way"
    if "r.stream.inFallbackState = true" not in move or count(move) != 1:
        return None, None, "pendingData.moveToWithoutLock does not set inFallbackState on received fallback data in the known way"
    total = len(re.findall(r"inFallbackState", strip_comments(stream)))
    if total != 1 + count(flush) + 3:   # the field declaration + the four functions
        return None, None, "stream.go mentions inFallbackState in a place the translator does not know (%d mentions)" % total
    others = []
    for f in sorted(os.listdir(core.REPO)):
        if f.endswith(".go") and not f.endswith("_test.go") and f != "stream.go":
            n = len(re.findall(r"inFallbackState", strip_comments(gosrc.read(f))))
            if n:
                others.append((f, n))
    if others != [("session_manager.go", 1)]:
        return None, None, "inFallbackState is used outside stream.go in an unknown way: %s" % others
    sticky = "if !s.sendBuf.isFromShareMemory() { s.inFallbackState = true } if s.inFallbackState {" in flush and count(flush) == 2
    unsticky = "s.inFallbackState = !s.sendBuf.isFromShareMemory() if s.inFallbackState {" in flush and count(flush) == 2
    if sticky:
        return True, "Flush only ever sets inFallbackState (sticky)", None
    if unsticky:
        return False, "Flush assigns inFallbackState from the current buffer (a stream returns to the queue when shm recovers)", None
    return None, None, "Stream.Flush maintains inFallbackState in a way the translator does not know"


READ_HDR = "func (s *Stream) readMore(minSize int) (err error) {"


def scan_reader():
    """Translator for the switch of Model/MuxReader.v: does the closeNotifyCh branch of Stream.readMore move pending
    data before its length test?  Returns (moves, description, error); the rest of readMore must have the shape the
    model mirrors (entry: moveTo, length, IsOpen test; select over the three channels; data branch: moveTo, test)."""
    try:
        stream = open(os.path.join(core.REPO, "stream.go")).read()
    except OSError as ex:
        return None, None, "cannot read stream.go: %s" % ex
    body = func_body(stream, READ_HDR)
    if body is None:
        return None, None, "cannot find Stream.readMore in stream.go"
    # local variable names do not matter: the length local is the one assigned from s.recvBuf.Len(), the timer
    # channel the one declared `var <ident> <-chan time.Time`
    m = re.search(r"\b(\w+) := s\.recvBuf\.Len\(\)", body)
    if m:
        body = re.sub(r"\b%s\b" % re.escape(m.group(1)), "recvLen", body)
    m = re.search(r"\bvar (\w+) <-chan time\.Time", body)
    if m:
        body = re.sub(r"\b%s\b" % re.escape(m.group(1)), "timeoutCh", body)
    head = "s.pendingData.moveTo(s.recvBuf) recvLen := s.recvBuf.Len() if recvLen >= minSize { return nil } if recvLen == 0 && !s.IsOpen() { "
    e_old = head + "return ErrEndOfStream } var timeoutCh"
    e_new = head + "s.pendingData.moveTo(s.recvBuf) if s.recvBuf.Len() >= minSize { return nil } if s.recvBuf.Len() == 0 { return ErrEndOfStream } } var timeoutCh"
    if e_old in body:
        entry = False
    elif e_new in body:
        entry = True
    else:
        return None, None, "the entry of Stream.readMore (moveTo; length; `recvLen == 0 && !IsOpen()` -> ErrEndOfStream [after another moveTo]) has changed: Model/MuxReader.v no longer mirrors it"
    if "case <-s.recvNotifyCh: s.pendingData.moveTo(s.recvBuf) if s.recvBuf.Len() >= minSize { return nil } case <-s.closeNotifyCh:" not in body:
        return None, None, "the recvNotifyCh branch of Stream.readMore no longer is `moveTo; length test`"
    if body.count("select {") != 1 or "case <-timeoutCh: return ErrTimeout" not in body:
        return None, None, "Stream.readMore no longer waits in one select over recvNotifyCh / closeNotifyCh / timeoutCh"
    tail = " if s.recvBuf.Len() >= minSize { return nil } if s.getStreamState() == uint32(streamHalfClosed) { return ErrEndOfStream } return ErrStreamClosed case <-timeoutCh:"
    if "case <-s.closeNotifyCh: s.pendingData.moveTo(s.recvBuf)" + tail in body:
        return (True, entry), "the closeNotifyCh branch moves pending data before its length test; the entry test %s" % ("moves pending data again before reporting the end" if entry else "reports the end from the length read before"), None
    if "case <-s.closeNotifyCh:" + tail in body:
        return (False, entry), "the closeNotifyCh branch tests the length WITHOUT moving pending data first", None
    return None, None, "the closeNotifyCh branch of Stream.readMore has a shape the translator does not know"


def rewrite_stream():
    """A copy of the current stream.go in which readMore's select / entry test call the harness (see
    go/harness/c07_mux_test.go, c07ReadSelect / c07ReadEntryIsOpen).  Returns (overlay dict, error)."""
    src = open(os.path.join(core.REPO, "stream.go")).read()
    i = src.find(READ_HDR)
    j = src.find("\n}\n", i)
    if i < 0 or j < 0:
        return None, "cannot find Stream.readMore"
    fn = src[i:j]
    m = re.search(r"\bvar (\w+) <-chan time\.Time", fn)
    if not m:
        return None, "Stream.readMore: no `var <ident> <-chan time.Time` (the timer channel of the select)"
    tch = m.group(1)
    subs = [(r"\bselect \{", "switch c07ReadSelect(s, %s) {" % tch),
            (r"\bcase <-s\.recvNotifyCh:", "case 0:"),
            (r"\bcase <-s\.closeNotifyCh:", "case 1:"),
            (r"\bcase <-%s:" % re.escape(tch), "case 2:"),
            (r"(\bif \w+ == 0 && )!s\.IsOpen\(\) \{", r"\1!c07ReadEntryIsOpen(s) {")]
    for a, b in subs:
        n = len(re.findall(a, fn))
        if n != 1:
            return None, "Stream.readMore: the anchor /%s/ occurs %d times (expected once)" % (a, n)
        fn = re.sub(a, b, fn)
    out = os.path.join(core.WORK, "c07_stream_%s" % core.tree_hash())
    for d in os.listdir(core.WORK):   # copies of older trees
        if d.startswith("c07_stream_") and os.path.join(core.WORK, d) != out:
            try:
                if os.path.getmtime(os.path.join(core.WORK, d)) < __import__("time").time() - 600:
                    __import__("shutil").rmtree(os.path.join(core.WORK, d), ignore_errors=True)
            except OSError:
                pass
    os.makedirs(out, exist_ok=True)
    dst = os.path.join(out, "stream.go")
    with open(dst, "w") as fh:
        fh.write(src[:i] + fn + src[j:])
    return {os.path.join(core.REPO, "stream.go"): dst}, None


def write_switch(sticky, moves_entry):
    moves, entry = moves_entry
    txt = ("(* GENERATED from /repo's stream.go by props/C07.py (mechanism G for the switch of Model/Mux.v). Do not edit. *)\n"
           "(* true: Stream.Flush only ever SETS inFallbackState (sticky: a stream switches from the queue to the socket once);\n"
           "   false: Flush assigns it from the current buffer (the stream returns to the queue when shm recovers). *)\n"
           "Definition sw_fallback_sticky : bool := %s.\n"
           "(* true: the closeNotifyCh branch of Stream.readMore moves pending data into recvBuf before its length test. *)\n"
           "Definition sw_close_branch_moves : bool := %s.\n"
           "(* true: the entry test of Stream.readMore moves pending data again before it reports the end of the stream. *)\n"
           "Definition sw_entry_rechecks : bool := %s.\n" % ("true" if sticky else "false", "true" if moves else "false", "true" if entry else "false"))
    with core.Lock("coq"):
        old = open(SWITCH_FILE).read() if os.path.exists(SWITCH_FILE) else None
        if old != txt:
            with open(SWITCH_FILE, "w") as fh:
                fh.write(txt)


EXPECTED_RACES = ["C07:close-overtakes-fallback-data", "C07:fallback-overtakes-unpublished-wakeup",
                  "C07:callback-mode-data-before-peer-close-never-offered"]


def ditems(got):
    out, last_end = [], False
    for m in got or []:
        if m.get("end"):
            if not last_end:
                out.append("DEnd")
            last_end = True
        else:
            out.append("DData %d" % m["seq"])
            last_end = False
    # a second end mark after late data is the same (sticky) end mark
    res, seen_end = [], False
    for x in out:
        if x == "DEnd":
            if seen_end:
                continue
            seen_end = True
        res.append(x)
    return res


def model_case(c, d):
    """Build the model case for direction d of an implementation case; None if not applicable."""
    pipes = sorted([p for p in c["pipes"] if p["dir"] == d], key=lambda p: p["stream"])
    if not pipes:
        return None
    idx = {p["stream"]: i for i, p in enumerate(pipes)}
    progs = [[] for _ in pipes]
    acts = []
    kind = c["kind"]
    hist = [h for h in c.get("hist") or [] if h["dir"] == d]
    for h in hist:
        i = idx.get(h["stream"])
        if i is None:
            return None
        if h["kind"] == "w":
            if h["ok"]:
                progs[i].append("OFlush %s false" % ("true" if h["via"] == "shm" else "false"))
            elif "queue is full" in (h.get("err") or "").lower() or "queue full" in (h.get("err") or "").lower():
                progs[i].append("OFlush true true")
            else:
                return None   # a failure the one-directional model does not describe (e.g. peer closed)
        else:
            if h["via"] == "unknown":
                return None
            # qfull = the put failed; a stream in fallback state closes through the socket by itself (model)
            progs[i].append("OClose %s" % ("true" if h["via"] == "sock" else "false"))
        if kind == "sequential":
            acts += ["ADo %d" % i, "AStep WSend 6", "AStep WCons 90"]
        elif kind.startswith(("directed-a", "directed-d", "directed-f")):
            acts += ["ADo %d" % i]
    if kind.startswith(("directed-a", "directed-d", "directed-f")):
        acts += ["AStep WCons 150"]
    elif kind.startswith("directed-b"):
        if [(h["stream"], h["kind"], h["via"]) for h in hist] != [(pipes[1]["stream"], "w", "shm"), (pipes[1]["stream"], "w", "sock"), (pipes[0]["stream"], "w", "shm")]:
            return None
        # the history log records completions: T1 (stream index 0) started first and was paused after markWorking
        progs = [["OFlush true false"], ["OFlush true false", "OFlush false false"]]
        acts = ["AStep (WProd 0) 2", "ADo 1", "ADo 1", "AStep WCons 20", "AStep (WProd 0) 4", "AStep WCons 90"]
    elif kind.startswith("directed-g"):
        if [(h["stream"], h["kind"]) for h in hist] != [(pipes[1]["stream"], "w"), (pipes[1]["stream"], "c"), (pipes[0]["stream"], "w")]:
            return None
        # T1 (stream index 0) paused after markWorking; stream 1: first data element, then Close with the queue full
        progs = [["OFlush true false"], ["OFlush true false", "OClose %s" % ("true" if hist[1]["via"] == "sock" else "false")]]
        acts = ["AStep (WProd 0) 2", "ADo 1", "ADo 1", "AStep WCons 20", "AStep (WProd 0) 4", "AStep WCons 90"]
    elif kind != "sequential":
        return None
    # a reader whose own side closed the stream ends locally (and drops unread data by design): its end mark is
    # not the peer's; compare the data it did read as a prefix of the model's delivery sequence
    seen = [core.coq_list([x for x in ditems(p["got"]) if not (p.get("reader_closed") and x == "DEnd")]) for p in pipes]
    pref = ["true" if p.get("reader_closed") else "false" for p in pipes]
    return ("{| c_progs := %s; c_acts := %s; c_seen := %s; c_prefix := %s |}"
            % (core.coq_list([core.coq_list(p) for p in progs]), core.coq_list(acts), core.coq_list(seen), core.coq_list(pref)))


def eval_cases(items, tag):
    """items: list of (case id, dir, coq text). Returns list of (case id, dir, stream index)."""
    if not items:
        return []
    txt = ["From Coq Require Import List ZArith.", "From Shm Require Import Gen.Consts Model.Wakeup Model.Mux Corr.MuxCorr.",
           "Import ListNotations.", "Open Scope nat_scope.",
           "Definition cases : list mcase := [", ";\n".join(t for (_, _, t) in items), "].",
           "Definition M := Eval vm_compute in mismatches cases.", "Print M."]
    rc, out, _ = core.coq_eval("cases_%s_%s_%d" % (PROP, tag, os.getpid()), "\n".join(txt))
    if rc != 0:
        raise RuntimeError("coqc on the generated cases failed: " + out[-1500:])
    m = re.search(r"M\s*=\s*(.*?)\s*:\s*list", out, re.S)
    if not m:
        raise RuntimeError("cannot parse the mismatch list: " + out[-500:])
    bad = []
    for mm in re.finditer(r"\((\d+),\s*(\d+)\)", m.group(1)):
        k = int(mm.group(1))
        bad.append((items[k][0], items[k][1], int(mm.group(2))))
    return bad


RES = {"ok": 1, "eos": 2, "closed": 3, "timeout": 4, "nothing": 0}


def eval_reader(cases, tag):
    """Replay the driver histories of the synchronous reader on Model/MuxReader.v. Returns list of (case id, model code)."""
    items = [c for c in cases if c.get("reader")]
    if not items:
        return []
    def q(a):   # the constructors of Model/MuxReader.v (AStep also names a constructor of Corr/MuxCorr.v)
        return "(" + " ".join("MuxReader." + w if w[0].isalpha() else w for w in a.split()) + ")"
    rows = ["{| ra := %s; rm := %d; rr := %d |}" % (core.coq_list([q(a) for a in c["reader"]["acts"]]), c["reader"]["min"],
                                                   RES.get(c["reader"]["first"], 0)) for c in items]
    txt = ["From Coq Require Import List ZArith.", "From Shm Require Import Model.MuxReader Corr.MuxCorr.",
           "Import ListNotations.", "Open Scope nat_scope.",
           "Definition cases : list rcase := [", ";\n".join(rows), "].",
           "Definition M := Eval vm_compute in rmismatches cases.", "Print M."]
    rc, out, _ = core.coq_eval("rcases_%s_%s_%d" % (PROP, tag, os.getpid()), "\n".join(txt))
    if rc != 0:
        raise RuntimeError("coqc on the reader cases failed: " + out[-1500:])
    m = re.search(r"M\s*=\s*(.*?)\s*:\s*list", out, re.S)
    if not m:
        raise RuntimeError("cannot parse the reader mismatch list: " + out[-500:])
    return [(items[int(a)]["id"], int(b)) for a, b in re.findall(r"\((\d+),\s*(\d+)\)", m.group(1))]


REWRITE_NOTE = []


def run_harness(n, seed, tag):
    ov, rep, err = sched.instrument(["queue.go", "session.go", "protocol_manager.go"])
    if err:
        return None, err
    ov = dict(ov)
    env = {"VERIF_OUT": None, "VERIF_N": str(n), "VERIF_SEED": str(seed)}
    ov2, rerr = rewrite_stream()
    if rerr:
        # an anchor of the overlay rewrite is an unrecognised SHAPE, not evidence against the property: run without the
        # controlled select (the families that need it are skipped by the harness), report it as a shape break
        REWRITE_NOTE.append("cannot put Stream.readMore under control (anchor of the overlay rewrite): " + rerr)
        env["VERIF_C07_NOCTL"] = "1"
    else:
        ov.update(ov2)
    outp = os.path.join(core.WORK, "c07_%s_%d.jsonl" % (tag, os.getpid()))
    env["VERIF_OUT"] = outp
    rc, out, secs = core.go_test(PROP, "^TestVerif_C07$", env, extra_replace=ov, timeout=1500)
    if rc != 0:
        return None, "harness failed (rc=%d): %s" % (rc, out[-2500:])
    cases = [json.loads(l) for l in open(outp)]
    os.unlink(outp)
    return cases, None


def brief(c):
    return {"id": c["id"], "kind": c["kind"], "ops": c.get("ops"), "notes": c.get("notes"), "reader": c.get("reader"),
            "pipes": [{k: p.get(k) for k in ("stream", "dir", "flushed", "failed", "closed", "close_via", "got", "reader_closed")} for p in c["pipes"]]}


def check(run):
    data, gerr = gen.regenerate()
    if gerr:
        run.add_corr_break("G: " + gerr)
    sticky, sdesc, serr = scan_switch()
    moves, mdesc, merr = scan_reader()
    for e in (serr, merr):
        if e:
            run.add_corr_break("G: " + e, shape=True)
    if not serr and not merr:
        write_switch(sticky, moves)
    run.proof = core.proof_step(PROP, run.tier)
    n = 24 if run.tier == "quick" else 600
    del REWRITE_NOTE[:]
    cases, err = run_harness(n, run.seed, run.tier)
    for nt in REWRITE_NOTE[:1]:
        run.add_corr_break("T: " + nt + " — the directed reader families h/j were skipped", shape=True)
    if err:
        run.add_corr_break("T: " + err)
        cases = []
    feats, kinds, distinct = {}, {}, set()
    items = []
    msgs = 0
    for c in cases:
        for f in c.get("oracle") or []:
            run.add_oracle_failure(f["sig"], f["what"], brief(c))
        for nt in c.get("notes") or []:
            run.notes.append("case %s (%s): %s" % (c["id"], c["kind"], nt))
        k = re.sub(r"^directed-(.).*", r"directed-\1", c["kind"])
        kinds[k] = kinds.get(k, 0) + 1
        for f in set(c.get("feat") or []):
            feats[f] = feats.get(f, 0) + 1
        if c.get("feat"):
            distinct.add(json.dumps([c["kind"], c.get("ops")]))
        msgs += sum(len(p.get("flushed") or []) for p in c["pipes"])
        for d in (0, 1):
            t = model_case(c, d)
            if t:
                items.append((c["id"], d, t))
    compared = len(items)
    if items:
        try:
            for (cid, d, si) in eval_cases(items, run.tier)[:20]:
                c = next(x for x in cases if x["id"] == cid)
                run.add_corr_break("T: case %s (%s) direction %d: the delivery sequence of stream index %d differs from the model's for the same history"
                                   % (cid, c["kind"], d, si), brief(c))
        except RuntimeError as ex:
            run.add_corr_break("T: model evaluation failed: %s" % ex)
    try:
        for (cid, code) in eval_reader(cases, run.tier):
            c = next(x for x in cases if x["id"] == cid)
            run.add_corr_break("T: case %s (%s): the blocking read returned %r, Model/MuxReader.v says code %d for the same history"
                               % (cid, c["kind"], c["reader"]["first"], code), brief(c))
    except RuntimeError as ex:
        run.add_corr_break("T: reader model evaluation failed: %s" % ex)
    reproduced = sorted({f["signature"] for f in run.oracle_failures if f["signature"] in EXPECTED_RACES})
    run.coverage.update({
        "evaluations": len(cases), "distinct_nontrivial": len(distinct),
        "rule": "a case = one real client/server session pair with 1-6 streams driven by a generated or directed scenario "
                "(flush / flush under induced shm exhaustion / close / read, both directions); non-trivial = a stream switched "
                "transport, fallback, a close, a close through the socket or a flush error occurred; distinct by (kind, operation list)",
        "samples": [{"id": c["id"], "kind": c["kind"], "ops": (c.get("ops") or [])[:12]} for c in cases[5:7]],
        "kinds": kinds, "features": feats, "messages_flushed": msgs,
        "histories_replayed_on_model": compared,
        "races_reproduced_on_unchanged_code": reproduced,
        "switch_fallback_sticky": sdesc if not serr else "UNKNOWN SHAPE: " + serr,
        "switch_close_branch_moves": mdesc if not merr else "UNKNOWN SHAPE: " + merr,
    })
    run.assumptions += [
        "one writer thread per stream and direction (Stream is not safe for concurrent writers)",
        "queue.put/pop atomic at their publication points (C04); one direction of a session per model instance",
        "timeouts of waitForSend / the 10 x 10 ms retry of Flush are not modelled (a queue-full Flush is an adversary choice)",
        "the callback-mode clause is modelled separately (Model/MuxCallback.v) and tied to the code by the directed scenario c only",
        "real-session scenarios are sampled; the concurrent bursts depend on the Go scheduler"]

    def search():
        cs, e = run_harness(60, run.seed + 7919, "search")
        found = []
        for c in cs or []:
            for f in c.get("oracle") or []:
                found.append({"signature": f["sig"], "what": f["what"], "case": brief(c)})
        return found
    return run.finish(search)


def replay(path):
    r = json.load(open(path))
    print(json.dumps(r, indent=1)[:6000])
    print("re-run: VERIF_SEED=%s ./check C07 --tier %s   (the directed scenarios a/b/c run first in every check)" % (r.get("seed"), r.get("tier")))
    return 0
