# C17 — the session manager heals lost sessions and only those.
# proof: Props/C17.v (Model/Rebuild.v, Proofs/RebuildProofs.v); tie: G (state constants) + T (histories
# observed on the real SessionManager accepted by the watcher model) + an independent property oracle.
import json, os, re
from vlib import core, gen

PROP = "C17"
META = {
    "technique": "Coq proof over a model of the per-pool rebuild watchers of session_manager.go (program counters, pool OBJECT identity, epoch comparison, dial that may fail, hot-restart swap/park/time-out on the same heap, SessionManager.Close): step-level theorems for every state and invariants over ALL event histories; tie: histories observed on the real SessionManager (hot-restart handler wrapped through sessionManagerHandlers, snapshots under the manager's lock, pool objects identified by pointer) must be accepted by the model run with a deterministic schedule of the unobservable watcher steps, plus an independent oracle",
    "level_text": "PARTIAL. Proved: from any state in which pool id's watcher waits on the lost session of sm.pools[id], no hot restart in progress, manager open, the watcher's steps wake; timer; (failed dial; timer)^k; successful dial (any k) end with GetStream on that pool succeeding and exactly one session created (C17_heals); hotRestartState pauses the watcher; the watcher is modelled by its real steps (detect loss / close pool; wait; one critical section: identity check `sm.pools[id] != pool`, dial, Store) with the order read from the source on every run (go/ast: position of the comparison relative to the timer receive, Lock region shared with the dial and with the Store; order of Close's statements): a watcher whose pool object was swapped out does not dial (C17_not_twice_guard); over ALL histories no rebuilt session is ever stored into a pool object that is no longer sm.pools[id] (C17_not_twice : C17_not_twice_full) — the proof depends on the check being made after the wait and on check, dial and Store being one critical section (C17_example_check_after_wait, C17_example_store_race: the two other orders violate it; the second was the code's order before its repair and is replayed on the real code through one overlay-compiled hook after the dial's Unlock, scenario storerace); GetStream never blocks and fails exactly on a closed session (C17_fail_fast); after cancel, over all histories, watchers create at most as many sessions as were already past their timer, and none once all have returned (C17_close_stops, C17_close_final); SessionManager.Close is modelled statement by statement in the order of the code (cancelFunc; wg.Wait; one critical section closing pools and parked pools) and the hot-restart handler ignores events once the context is cancelled: for ALL histories, whenever Close has returned every watcher has returned, every pool's session is closed and nothing is parked (C17_close_returned_full — the proof depends on wg.Wait preceding the closing section; C17_example_close_order shows the swapped order returning with a live session), and that state is final: nothing is created by a watcher or by the handler over any further history (C17_close_quiesced_forever, C17_hr_event_after_cancel); after cancel and outside hotRestartState every watcher has a path of its own steps to its return (C17_close_exit_path), whereas at its loop head in hotRestartState it cannot move (C17_close_waits_for_hot_restart: Close waits for the end of the hot restart, measured ~2 s, bounded by C16's checker). Observed only: the rebuild timer fires after rebuildInterval, dials reach a listening server, the client end notices a dead peer, a cancelled context is seen before a fresh timer, goroutine termination (census).",
    "level_note": "Trusted: coqc kernel; the hand-written model (tied by accepted histories of 7 scenario kinds per round); the acceptor's deterministic schedule of unobservable watcher steps (immediate reactions right after each observed event; timer + dial exactly when a rebuilt session is observed); Go runtime timers/scheduling. C17_heals is stated without interference on that pool between loss and rebuild (interference by hot restart is covered by the not_twice / paused theorems). The watcher blocks in select on the session it loaded: a NEW-epoch session lost while the parked old session is still open is only noticed when the old one closes (model and code agree; not part of the property's statement).",
}


def b(x):
    return "true" if x else "false"


def n(x):
    return "%d%%nat" % x


def obs_to_coq(o):
    objs = core.coq_list(["(%s, %s)" % (core.z(p[0]), b(p[1])) for p in o["objs"]])
    res = core.coq_list([("Some " + n(r)) if r is not None else "None" for r in o["reserve"]])
    return ("{| ro_state := %s; ro_epoch := %s; ro_pools := %s; ro_objs := %s; ro_reserve := %s |}"
            % (core.z(o["st"]), core.z(o["ep"]), core.coq_list([n(x) for x in o["pools"]]), objs, res))


def ev_to_coq(e):
    k = e["k"]
    if k == "lost":
        return "OLost " + n(e["o"])
    if k == "rebuilt":
        return "ORebuilt %s %s" % (n(e["i"]), n(e["o"]))
    if k == "hr":
        return "OHREvent %s %s %s" % (n(e["i"]), core.z(e["e"]), b(e["ok"]))
    if k == "tick":
        return "OHRTick"
    if k == "timeout":
        return "OHRTimeout"
    if k == "dial":
        return "ODialled " + n(e["i"])
    if k == "timer":
        return "OTimer " + n(e["i"])
    if k == "closebegin":
        return "OCloseBegin"
    if k == "closeend":
        return "OCloseEnd"
    if k == "gs":
        return "OGetStreamR %s %s" % (n(e["i"]), b(e["ok"]))
    raise RuntimeError("unknown event %r" % (e,))


def case_to_coq(c):
    items = []
    for e in c["hist"] or []:
        o = e.get("obs")
        items.append("(%s, %s)" % (ev_to_coq(e), ("Some " + obs_to_coq(o)) if o else "None"))
    return "{| rc_n := %s; rc_early := %s; rc_late := %s; rc_hist := %s |}" % (n(c["n"]), b(c.get("_early", False)), b(c.get("_late", False)), core.coq_list(items))


CODES = {1: "manager state", 2: "manager epoch", 3: "pool object behind a pool id", 4: "pool objects (epoch / liveness of their session)",
         5: "reserve pools", 20: "event not enabled in the model", 23: "GetStream result differs",
         24: "a rebuilt session was observed but the model's watcher is not waiting for its rebuild timer",
         25: "the rebuilt session was stored into another pool object than the model's watcher holds",
         27: "SessionManager.Close returned although the model's Close cannot (wg.Wait: a watcher has not returned)",
         26: "a rebuilt session was observed where the model's watcher does not rebuild (pool-identity guard)"}


def eval_cases(cases, tag):
    """Returns (list of (case index, position, code), list of (created, bad) per case)."""
    if not cases:
        return [], []
    txt = ["From Coq Require Import List ZArith.", "From Shm Require Import Gen.Consts Model.HotRestart Model.Rebuild Corr.RebuildCorr.",
           "Import ListNotations.", "Open Scope Z_scope.", "Definition cases : list rcase := ["]
    txt.append(";\n".join(case_to_coq(c) for c in cases))
    txt.append("].")
    txt.append("Definition M := Eval vm_compute in r_mismatches cases.")
    txt.append("Print M.")
    txt.append("Definition K := Eval vm_compute in map r_counters cases.")
    txt.append("Print K.")
    rc, out, _ = core.coq_eval("cases_%s_%s_%d" % (PROP, tag, os.getpid()), "\n".join(txt))
    if rc != 0:
        raise RuntimeError("coqc on the generated histories failed: " + out[-1500:])
    m = re.search(r"M\s*=\s*(.*?)\s*:\s*list", out, re.S)
    k = re.search(r"K\s*=\s*(.*?)\s*:\s*list", out, re.S)
    if not m or not k:
        raise RuntimeError("cannot parse the result: " + out[-500:])
    body = m.group(1).strip()
    bad = []
    if body != "[]":
        for mm in re.finditer(r"\(\s*(\d+)(?:%nat)?,\s*(\d+)(?:%nat)?,\s*\(?\s*(-?\d+)\s*\)?(?:%Z)?\s*\)", body):
            bad.append((int(mm.group(1)), int(mm.group(2)), int(mm.group(3))))
        if not bad:
            bad.append((0, -1, -1))
    counters = [(int(a), int(c)) for a, c in re.findall(r"\(\s*(\d+)(?:%nat)?,\s*(\d+)(?:%nat)?\s*\)", k.group(1))]
    return bad, counters


def instrument_watcher():
    """Mechanism S (light): the CURRENT session_manager.go with ONE test hook in the watcher, right after the
    <recv>.Unlock() that ends the critical section of the rebuild dial (nil except in the scenario storerace).
    If <pool>.session.Store(...) stands after that Unlock the hook sits between the two (stored=false),
    otherwise after the Unlock that follows the Store (stored=true).  The anchor is structural: the statement
    with the newClientSession call, the <x>.session.Store(...) statement after it, the Unlock statements at
    the indentation of the dial; receiver, id, pool and error variable are read from those statements.
    Nothing is written to /repo: the copy goes into the overlay.  Returns (path, None) or (None, reason)."""
    src = open(os.path.join(core.REPO, "session_manager.go")).read()
    lines = src.split("\n")
    idial = next((i for i, l in enumerate(lines) if re.search(r"[:]?=\s*newClientSession\(", l) and not l.lstrip().startswith("//")
                  and re.match(r"\s*\w+\s*,\s*\w+\s*:?=", l) and i > 0 and "hParams" not in l
                  and any("go func(" in x for x in lines[max(0, i - 80):i])), -1)
    if idial < 0:
        return None, "the rebuild dial `<s>, <err> := newClientSession(<id>, ...)` of the watcher was not found"
    dl = lines[idial]
    ind = dl[:len(dl) - len(dl.lstrip())]
    m = re.match(r"\s*(\w+)\s*,\s*(\w+)\s*:?=\s*newClientSession\(\s*(\w+)\s*,", dl)
    if not m:
        return None, "the rebuild dial statement has an unexpected form: " + dl.strip()
    errv, idv = m.group(2), m.group(3)
    istore, poolv = -1, None
    for i in range(idial + 1, min(idial + 40, len(lines))):
        ms = re.match(r"\s*(\w+)\.session\.Store\(", lines[i])
        if ms and lines[i].startswith(ind) and not lines[i][len(ind):].startswith(("\t", " ")):
            istore, poolv = i, ms.group(1)
            break
    if istore < 0:
        return None, "no `<pool>.session.Store(...)` statement follows the rebuild dial in its statement list"
    mr = None
    for i in range(idial, -1, -1):
        mr = re.match(r"func \((\w+) \*SessionManager\)", lines[i])
        if mr:
            break
    if not mr:
        return None, "the method that holds the watcher was not found"
    recv = mr.group(1)
    unlock = ind + recv + ".Unlock()"
    unl = [i for i in range(idial + 1, istore) if lines[i].rstrip() == unlock]
    if unl:
        at = unl[-1]
        hook = (ind + "if %s == nil && vhookC17AfterDialUnlock != nil {\n" % errv + ind + "\tvhookC17AfterDialUnlock(%s, %s, %s, false)\n" % (recv, idv, poolv) + ind + "}")
    else:
        at = next((i for i in range(istore + 1, min(istore + 10, len(lines))) if lines[i].rstrip() == unlock), -1)
        if at < 0:
            return None, "the %s.Unlock() that ends the critical section of the rebuild dial was not found" % recv
        hook = (ind + "if vhookC17AfterDialUnlock != nil {\n" + ind + "\tvhookC17AfterDialUnlock(%s, %s, %s, true)\n" % (recv, idv, poolv) + ind + "}")
    out = "\n".join(lines[:at + 1] + [hook] + lines[at + 1:])
    path = os.path.join(core.WORK, "c17_sm_instr_%d.go" % os.getpid())
    with open(path, "w") as fh:
        fh.write(out)
    return path, None


def run_harness(rounds, seed, tag):
    outp = os.path.join(core.WORK, "c17_%s_%d.jsonl" % (tag, os.getpid()))
    ipath, ierr = instrument_watcher()
    HOOK["anchor_missing"] = ierr
    try:
        # anchor not found: the harness runs on the plain source, the scenario storerace then has no hook
        rc, out, secs = core.go_test(PROP, "^TestVerif_C17$", {"VERIF_OUT": outp, "VERIF_N": str(rounds), "VERIF_SEED": str(seed),
                                                              "VERIF_C17_NOHOOK": "1" if ierr else ""},
                                     timeout=900, extra_replace=({os.path.join(core.REPO, "session_manager.go"): ipath} if ipath else None))
    finally:
        try:
            if ipath:
                os.unlink(ipath)
        except OSError:
            pass
    if rc != 0 or not os.path.exists(outp):
        return None, "harness failed (rc=%d): %s" % (rc, out[-2500:]), secs
    recs = [json.loads(l) for l in open(outp) if l.strip()]
    os.unlink(outp)
    shape = None
    cases = []
    for r in recs:
        if r.get("id") == "source-shape":
            shape = r.get("shape") or {}
        else:
            cases.append(r)
    SHAPE["last"] = shape
    # model variant: only what was positively read as different; an unreadable fact keeps the code's order
    early = bool(shape) and (shape.get("check_after_timer") is False or shape.get("check_in_lock_with_dial") is False)
    late = bool(shape) and shape.get("store_after_unlock") is True
    for c in cases:
        c["_early"] = early
        c["_late"] = late
    return cases, None, secs


SHAPE = {"last": None}
HOOK = {"anchor_missing": None}

# what Model/Rebuild.v assumes about the order of statements in session_manager.go
SHAPE_EXPECTED = {
    "check_after_timer": "background(): the comparison sm.pools[id] != pool stands after the receive from rebuildTimer.C",
    "check_in_lock_with_dial": "background(): that comparison and the newClientSession call stand in one sm.Lock() region",
    "store_after_unlock": "background(): pool.session.Store(session) stands inside the sm.Lock() region of the dial, before its sm.Unlock()",
    "close_wait_before_closing": "SessionManager.Close: sm.wg.Wait() precedes the closing of the pools",
    "close_under_lock": "SessionManager.Close: pools and parked pools are closed between sm.Lock() and sm.Unlock()",
}


def brief(c, around=None):
    h = [e for e in (c.get("hist") or []) if e["k"] != "gs"]
    d = {"id": c["id"], "n": c["n"], "stats": c.get("stats"), "notes": c.get("notes"),
         "events_without_probes": [{k: v for k, v in e.items() if k != "obs"} for e in h][:80],
         "probes": [[e["i"], e["ok"], e.get("us", 0)] for e in (c.get("hist") or []) if e["k"] == "gs"][:60]}
    if around is not None:
        hh = c.get("hist") or []
        d["history_around_rejection"] = hh[max(0, around - 4):around + 2]
    return d


def setup_failures(cases):
    """Scenarios that could not be set up (a handshake timing out on a loaded machine ...): they say nothing
    about the property and are not oracle failures."""
    return ["%s: %s" % (c.get("id"), m.partition(" | ")[2].strip()) for c in cases for m in (c.get("oracle") or [])
            if m.partition(" | ")[0].strip().endswith(":harness-setup")]


def oracle_failures(cases):
    res = []
    for c in cases:
        for m in c.get("oracle") or []:
            sig, _, what = m.partition(" | ")
            if sig.strip().endswith(":harness-setup"):
                continue
            res.append({"signature": sig.strip(), "what": "%s: %s" % (c["id"], what.strip()), "case": brief(c)})
    return res


def check(run):
    data, gerr = gen.regenerate()
    if gerr:
        run.add_corr_break("G: " + gerr)
    run.proof = core.proof_step(PROP, run.tier)
    rounds = 1 if run.tier == "quick" else 6
    cases, err, hsecs = run_harness(rounds, run.seed, run.tier)
    if err:
        run.add_corr_break("T: " + err)
        cases = []
    shape = SHAPE["last"]
    if not err:
        if not shape or not shape.get("found"):
            run.add_corr_break("G: the shape of the watcher / of SessionManager.Close could not be read from the source: %s" % ((shape or {}).get("err"),), shape=True)
        else:
            for k, what in SHAPE_EXPECTED.items():
                want = (k != "store_after_unlock")
                got = shape.get(k)
                if got is None:
                    run.add_corr_break("G: could not be read from the source — " + what, {"shape": shape}, shape=True)
                elif bool(got) != want:
                    run.add_corr_break("G: the source positively has another order than the model assumes — " + what, {"shape": shape})
        if HOOK["anchor_missing"]:
            run.add_corr_break("S: the anchor of the test hook in the watcher was not found (%s); the scenario storerace ran without its hook" % HOOK["anchor_missing"], shape=True)
    if not HOOK["anchor_missing"] and any((c.get("notes") or {}).get("hook") for c in cases):
        run.add_corr_break("S: the hook compiled into the watcher never ran: the scenario storerace was not executed", shape=True)
    sf = setup_failures(cases)
    if sf:
        run.coverage["scenarios_not_set_up"] = sf
        if 2 * len(sf) > len(cases):
            run.add_corr_break("T: most scenarios could not be set up: " + "; ".join(sf[:4]))
    for f in oracle_failures(cases):
        run.add_oracle_failure(f["signature"], f["what"], f["case"])
    model_cases = [c for c in cases if not c.get("skip_model") and not c.get("ambiguous") and c.get("hist")
                   and not any(m.partition(" | ")[0].strip().endswith(":harness-setup") for m in (c.get("oracle") or []))]
    ambiguous = [c["id"] for c in cases if c.get("ambiguous")]
    counters = []
    if model_cases:
        try:
            bad, counters = eval_cases(model_cases, run.tier)
        except RuntimeError as ex:
            bad = []
            run.add_corr_break("T: model evaluation failed: %s" % ex)
        for (idx, pos, code) in bad[:10]:
            c = model_cases[idx] if idx < len(model_cases) else {}
            run.add_corr_break("T: history of scenario %s is not accepted by the model at event %s: %s"
                               % (c.get("id"), pos, CODES.get(code, "code %s" % code)), brief(c, pos))
        # the model's ghost counters against what was counted on the server side
        for c, (created, badc) in zip(model_cases, counters):
            st = c.get("stats") or {}
            if created != st.get("rebuilt", 0):
                run.add_corr_break("T: scenario %s: the model's watchers created %d sessions, %d rebuilt sessions were observed" % (c["id"], created, st.get("rebuilt", 0)), brief(c))
            if badc != st.get("rebuilt_into_unreferenced_pool", 0):
                run.add_corr_break("T: scenario %s: model counts %d rebuilds into a stale pool object, observed %d" % (c["id"], badc, st.get("rebuilt_into_unreferenced_pool", 0)), brief(c))
    feats, kinds = {}, {}
    nontrivial = set()
    lat = []
    for c in cases:
        for f in c.get("feat") or []:
            feats[f] = feats.get(f, 0) + 1
        for e in c.get("hist") or []:
            kinds[e["k"]] = kinds.get(e["k"], 0) + 1
            if e["k"] == "gs" and not e["ok"]:
                lat.append(e.get("us", 0))
        if any(e["k"] in ("lost", "rebuilt", "hr") for e in c.get("hist") or []):
            nontrivial.add(json.dumps([c["n"]] + [[e["k"], e["i"], e["o"], e["ok"]] for e in c["hist"] if e["k"] != "gs"]))
    run.coverage.update({
        "evaluations": len(cases), "distinct_nontrivial": len(nontrivial),
        "rule": "a case = one scenario on the real SessionManager + Listener(s) (unix sockets, memfd, rebuildInterval 60-600 ms); "
                "non-trivial = contains a lost session, a rebuild or a hot-restart swap; distinct by the event history without probes",
        "samples": [brief(c) for c in cases[:2]],
        "scenario_features": feats, "event_kinds": kinds,
        "histories_checked_by_model": len(model_cases), "histories_ambiguous_skipped": ambiguous,
        "model_counters_created_bad": counters,
        "getstream_in_gap_calls": len(lat), "getstream_in_gap_max_us": max(lat) if lat else None,
        "heal_ms": {c["id"]: (c.get("stats") or {}).get("heal_ms") for c in cases if (c.get("stats") or {}).get("heal_ms") is not None},
        "close_ms": {c["id"]: (c.get("stats") or {}).get("close_ms") for c in cases if (c.get("stats") or {}).get("close_ms") is not None},
        "close_with_parked": [{k: v for k, v in (c.get("stats") or {}).items() if "parked" in k} for c in cases if "close-with-parked-sessions" in (c.get("feat") or [])],
        "close_during_hot_restart": [{k: v for k, v in (c.get("stats") or {}).items() if k in ("close_ms", "close_called_ms_after_hot_restart", "in_hot_restart_at_close")} for c in cases if "close-during-hot-restart" in (c.get("feat") or [])],
        "goroutine_census": [{k: v for k, v in (c.get("stats") or {}).items() if k.startswith("goroutines")} for c in cases if "goroutine-census" in (c.get("feat") or [])],
        "harness_wall_s": round(hsecs, 1),
        "source_shape": shape,
        "swap_during_wait": {c["id"]: {k: v for k, v in (c.get("stats") or {}).items() if k.startswith("accepts") or k == "live_server_sessions"}
                             for c in cases if "swap-during-rebuild-wait" in (c.get("feat") or [])},
    })
    run.assumptions += [
        "timers: the rebuild happens rebuildInterval after the loss and a cancelled context wins over a fresh timer — observed with generous bounds, not proved",
        "the acceptor schedules the unobservable watcher steps deterministically (immediate reactions after each observed event)",
        "sessions accepted by the server are counted by polling the listener's table every ~2 ms",
        "a hot-restart event reaches the manager only on a live session of that pool id (current or parked)",
    ]

    def search():
        cs, e, _ = run_harness(2, run.seed + 7919, "search")
        return oracle_failures(cs or [])
    return run.finish(search)


def replay(path):
    r = json.load(open(path))
    print(json.dumps(r, indent=1)[:6000])
    print("re-run: VERIF_SEED=%s ./check C17 --tier %s" % (r.get("seed"), r.get("tier")))
    return 0
