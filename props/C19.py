# C19 — the net.Listener / net.Conn adapter behaves like a stream socket.
# proof: Props/C19.v (Model/NetAdapter.v, Proofs/NetAdapterProofs.v); tie: T — the real
# Listen/ListenWithBacklog/Accept adapter is driven through its public API by generated scenarios, the
# observed API-level history must be accepted by the model (Corr/NetAdapterCorr.v, vm_compute) and every
# Read/Write trace must replay through lb_read; an independent oracle runs on every scenario.
import json, os, re
from vlib import core, gen, gosrc

PROP = "C19"
SIG_PINNED = "C19:undelivered-wrapper-pins-session-after-listener-close"
META = {
    "technique": "Coq proof: reference-count, exactly-once-placement and backlog-drain invariants over all event histories of a model of net_listener.go (any number of overlapping listener.Close calls stepped action by action, both outcomes of the delivery select and their follow-ups, double Close, session death), Read/Write contract of linkedBuffer.read / copyWriteAndFlush by refinement to a byte queue; tie: real Listen/Accept/net.Conn driven by generated scenarios, history accepted by the model run as a non-deterministic acceptor (vm_compute)",
    "level_text": "PARTIAL. Proved for every history: C19_once (each wrapped stream is sent into the backlog at most once, received at most once, FIFO), C19_refcount (WaitGroup counter never negative = listener ref + unclosed wrappers), C19_refcount_closed_iff, C19_io_read/_read_wait/_write/_stream (io.Reader/io.Writer contracts for every slicing and size). C19_sessions_end: the FULL statement 'after listener.Close, at rest, every session whose Accept-ed conns are closed is closed' holds for the repaired adapter (it was refuted before the fix: a conn left in the backlog or dropped by the select pinned its session; both histories are kept as regression scenarios 0/1 and as Coq examples, together with the enqueue-after-drain race).",
    "level_note": "Observed, not proved: that goroutines parked in wg.Wait/select/Accept are eventually scheduled, deadline behaviour (C11), the byte transport (C06), handshake timing. Trusted: coqc kernel, the harness, Go runtime semantics of channels / select / sync.WaitGroup (incl. the documented misuse window of Add-from-zero concurrent with Wait, which the model's atomic Done cannot exhibit).",
}


def nat(n):
    return "%d%%nat" % int(n)


def obs_to_coq(o):
    k = o["k"]
    if k == "connect":
        return "OConnect"
    if k == "open":
        return "OOpen %s" % nat(o["s"])
    if k == "accept":
        return "OAccept %s %s" % (nat(o["s"]), nat(o["i"]))
    if k == "accepterr":
        return "OAcceptErr"
    if k == "close":
        return "OClose %s %s" % (nat(o["s"]), nat(o["i"]))
    if k == "die":
        return "ODie %s" % nat(o["s"])
    if k == "lclose":
        return "OLClose"
    if k == "rawconnect":
        return "ORawConnect"
    if k == "handshakedone":
        return "OHandshakeDone"
    if k == "lclosecall":
        return "OLCloseCall"
    if k == "rawclose":
        return "ORawClose %s %s %s" % ("true" if o["s"] else "false", nat(o["i"]), nat(o.get("n", 0)))
    if k == "backloglen":
        return "OBacklogLen %s" % nat(o["i"])
    if k == "hookend":
        return "OHookEnd"
    if k == "lcloseret":
        return "OLCloseRet"
    if k == "final":
        return "OFinal %s" % core.coq_list(["true" if b else "false" for b in (o.get("f") or [])])
    raise ValueError(k)


def io_to_coq(e):
    if e["k"] == "w":
        return "IOW %s" % core.coq_list([str(b) for b in e.get("b") or []])
    if e["k"] == "pc":
        return "IOPeerClose"
    return "IOR %s %d %s" % (nat(e.get("len", 0)), e.get("err", 0), core.coq_list([str(b) for b in e.get("b") or []]))


def case_to_coq(c):
    return "{| n_cap := %s; n_obs := %s; n_pipes := %s |}" % (
        nat(c["backlog"]), core.coq_list([obs_to_coq(o) for o in (c.get("obs") or [])]),
        core.coq_list([core.coq_list([io_to_coq(e) for e in p]) for p in (c.get("pipes") or []) if p]))


def eval_cases(cases, tag):
    bad = []
    SH = 60
    for k in range(0, len(cases), SH):
        chunk = cases[k:k + SH]
        txt = ["From Coq Require Import List ZArith.", "From Shm Require Import Model.NetAdapter Corr.NetAdapterCorr.",
               "Import ListNotations.", "Open Scope Z_scope.", "Definition cases : list ncase := ["]
        txt.append(";\n".join(case_to_coq(c) for c in chunk))
        txt.append("].")
        txt.append("Definition M := Eval vm_compute in (selftest, mismatches cases).")
        txt.append("Print M.")
        rc, out, _ = core.coq_eval("cases_%s_%s_%d_%d" % (PROP, tag, os.getpid(), k), "\n".join(txt))
        if rc != 0:
            raise RuntimeError("coqc on the generated cases failed: " + out[-1500:])
        m = re.search(r"M\s*=\s*\((.*?)\)\s*:\s*list", out, re.S)
        if not m:
            raise RuntimeError("cannot parse the mismatch list: " + out[-500:])
        body = re.sub(r"%nat|%Z|\s+", " ", m.group(1))
        st, _, mm = body.partition(",")
        if st.strip() != "[]":
            raise RuntimeError("the acceptor's self-test no longer passes: " + st[:200])
        for q in re.finditer(r"\(\s*(\d+)\s*,\s*(\d+)\s*,\s*(\d+)\s*,\s*(\d+)\s*\)", mm):
            bad.append((k + int(q.group(1)), int(q.group(2)), int(q.group(3)), int(q.group(4))))
        if mm.strip() != "[]" and not any(b[0] >= k for b in bad):
            bad.append((k, -1, 0, 0))
    return bad


def run_harness(n, seed, tag):
    outp = os.path.join(core.WORK, "c19_%s_%d.jsonl" % (tag, os.getpid()))
    rc, out, secs = core.go_test(PROP, "^TestVerif_C19$", {"VERIF_OUT": outp, "VERIF_N": str(n), "VERIF_SEED": str(seed)},
                                 timeout=1500)
    cases = []
    if os.path.exists(outp):
        for l in open(outp):
            try:
                cases.append(json.loads(l))
            except ValueError:
                pass
        os.unlink(outp)
    err = None
    if rc != 0:
        err = "harness failed (rc=%d): %s" % (rc, out[-2500:])
    return cases, err, out


def signature(msg):
    if msg.startswith("KNOWN:"):
        return SIG_PINNED
    return "C19:" + re.sub(r"[^a-z0-9]+", "-", re.sub(r"\d+", "#", msg.lower()))[:70].strip("-")


def brief(c):
    return {k: c.get(k) for k in ("id", "seed", "backlog", "script", "obs")}


def crash_failures(out):
    fs = []
    if "negative WaitGroup counter" in out:
        fs.append(("C19:negative-waitgroup-counter-panic", "the real adapter panicked: sync: negative WaitGroup counter"))
    elif "WaitGroup is reused before previous Wait has returned" in out:
        fs.append(("C19:waitgroup-reused-before-wait-returned-panic", "the real adapter panicked: sync: WaitGroup is reused before previous Wait has returned (listener.Close releasing the last session reference races with wg.Add(1) in newStreamWrapper)"))
    elif "WaitGroup misuse" in out:
        fs.append(("C19:waitgroup-misuse-panic", "the real adapter panicked: sync: WaitGroup misuse"))
    elif "close of closed channel" in out:
        fs.append(("C19:close-of-closed-channel-panic", "the real adapter panicked: close of closed channel"))
    elif re.search(r"^panic:|fatal error:", out, re.M):
        fs.append(("C19:harness-process-crashed", "the test process crashed: " + (re.search(r"^(panic:.*|fatal error:.*)$", out, re.M).group(1))[:200]))
    return fs


def func_body(src, header):
    i = src.find(header)
    if i < 0:
        return None
    j = src.find("\n}\n", i)
    return src[i:j] if j > 0 else None


def source_frame_check():
    """Translator-style check of the frame property the duplex theorems rest on (C19_io_read_frame /
    C19_io_write_frame): in the CURRENT source the copy-read path mentions only the receive buffer and the
    copy-write path only the send buffer.  Returns a list of violations (strings)."""
    bad = []
    try:
        st = gosrc.read("stream.go")
        bf = gosrc.read("buffer.go")
    except OSError as ex:
        return ["cannot read the source: %s" % ex]
    def sel(body, recv):
        return set(re.findall(r"\b%s\.(\w+)" % recv, body or ""))
    checks = [
        (st, "func (s *Stream) copyRead(", "s", {"recvBuf"}),
        (st, "func (s *Stream) copyWriteAndFlush(", "s", {"sendBuf"}),
        (bf, "func (l *linkedBuffer) read(", "l.stream", {"readMore"}),
        (bf, "func (l *linkedBuffer) copyWriteAndFlush(", "l.stream", {"Flush"}),
    ]
    for src, hdr, recv, allowed in checks:
        body = func_body(src, hdr)
        if body is None:
            bad.append("cannot find %s" % hdr)
            continue
        extra = sel(body.split("{", 1)[1], re.escape(recv)) - allowed
        if extra:
            bad.append("%s...) touches %s besides %s" % (hdr, sorted(extra), sorted(allowed)))
    for hdr, forbidden in (("func (s *Stream) Flush(", "recvBuf"), ("func (s *Stream) readMore(", "sendBuf")):
        body = func_body(st, hdr)
        if body is None:
            bad.append("cannot find %s" % hdr)
        elif forbidden in body:
            bad.append("%s...) mentions %s" % (hdr, forbidden))
    return bad


def listen_loop_shape():
    """Source-shape tie for the accept path: in listenLoop, AFTER `Server(conn, DefaultConfig())` returns, the
    closed-test `atomic.LoadUint32(&l.closed) == 1` and the insert `l.sessions[session] = wg` sit in the same
    l.mu region.  Returns (kind, text): kind None = ok, "shape" = not recognised, "hard" = positively different."""
    try:
        src = gosrc.read("net_listener.go")
    except OSError as ex:
        return "shape", "cannot read net_listener.go: %s" % ex
    body = func_body(src, "func (l *listener) listenLoop()")
    if body is None:
        return "shape", "cannot find listenLoop"
    ps = body.find("Server(conn, DefaultConfig())")
    pi = body.find("l.sessions[session] = wg")
    if ps < 0 or pi < 0 or pi < ps:
        return "shape", "cannot find the handshake call followed by the registration in listenLoop"
    pl = body.rfind("l.mu.Lock()", ps, pi)
    test = "atomic.LoadUint32(&l.closed) == 1"
    if pl >= 0 and test in body[pl:pi]:
        # between that Lock and the insert the only Unlock allowed is the one of the rejecting branch (followed by return)
        region = body[pl:pi]
        unlocks = [m.start() for m in re.finditer(r"l\.mu\.Unlock\(\)", region)]
        for u in unlocks:
            if "return" not in region[u:]:
                return "hard", "l.mu is released between the closed-test and the registration"
        return None, ""
    if test in body[:ps] or (pl < 0 and test in body[ps:pi]) or test not in body[ps:pi]:
        return "hard", "the closed-test is not in the l.mu region of the registration after the handshake (listener.Close can fall between them)"
    return "shape", "unrecognised arrangement of the closed-test and the registration"


def check(run):
    data, gerr = gen.regenerate()
    if gerr:
        run.add_corr_break("G: " + gerr)
    run.proof = core.proof_step(PROP, run.tier)
    kind, text = listen_loop_shape()
    if kind == "shape":
        run.add_corr_break("G: accept path of listenLoop: " + text, shape=True)
    elif kind == "hard":
        run.add_corr_break("G: accept path of listenLoop differs from the model (SessionUp = closed-test + registration in one critical section after the handshake): " + text)
    for v in source_frame_check():
        run.add_corr_break("G: frame property of Read/Write (C19_io_read_frame / _write_frame) not matched by the source: " + v, shape=v.startswith("cannot find"))
    n = 40 if run.tier == "quick" else 1200
    cases, err, out = run_harness(n, run.seed, run.tier)
    if err:
        cf = crash_failures(out)
        for sig, what in cf:
            run.add_oracle_failure(sig, what, {"last_cases": [brief(c) for c in cases[-3:]], "output_tail": out[-1500:]})
        if not cf:
            run.add_corr_break("T: " + err)
    feats, distinct, skipped = {}, set(), 0
    usable = []
    for c in cases:
        if c.get("skipped"):
            skipped += 1
            continue
        usable.append(c)
        for m in c.get("oracle") or []:
            run.add_oracle_failure(signature(m), m.replace("KNOWN: ", ""), brief(c))
        fs = set(c.get("feat") or [])
        for f in fs:
            feats[f] = feats.get(f, 0) + 1
        if fs - {"accept", "read"}:
            distinct.add(json.dumps([c["backlog"], c.get("obs"), c.get("script")]))
    if cases and skipped > len(cases) // 3:
        run.add_corr_break("T: %d of %d scenarios could not be set up (machine overloaded?)" % (skipped, len(cases)))
    if usable:
        try:
            bad = eval_cases(usable, run.tier)
        except RuntimeError as ex:
            bad = []
            run.add_corr_break("T: model evaluation failed: %s" % ex)
        for (idx, kind, a, b) in bad[:20]:
            c = usable[idx] if idx < len(usable) else {}
            if kind == 1:
                what = "observation #%d (%s) of the history is not accepted by the model" % (a, (c.get("obs") or [None] * (a + 1))[a])
            elif kind == 2:
                what = "Read/Write trace %d differs from lb_read at event %d" % (a, b)
            else:
                what = "model/implementation mismatch"
            run.add_corr_break("T: scenario %s: %s" % (c.get("id"), what), brief(c))
    nio = sum(len(p or []) for c in usable for p in (c.get("pipes") or []))
    run.coverage.update({
        "evaluations": len(usable), "distinct_nontrivial": len(distinct), "skipped_setups": skipped,
        "rule": "a case = one generated scenario run on the real Listen/Accept adapter (backlog 1-3, up to 3 client sessions, up to 9 streams, "
                "Read/Write of sizes 0/1/small/around and above the 64-byte slice/above what is buffered, closes from both sides, double Close, "
                "listener Close at a random moment, client session death); non-trivial = exercises more than a plain accept+read; distinct by (backlog, observed history)",
        "samples": [{"backlog": c["backlog"], "script": c["script"], "obs": c["obs"]} for c in usable[2:4]],
        "features": feats, "io_events_replayed_through_lb_read": nio,
        "observations_accepted_by_model": sum(len(c.get("obs") or []) for c in usable),
    })
    run.assumptions += [
        "goroutines parked in wg.Wait / select / Accept are scheduled once enabled (Go runtime; observed within generous bounds, not proved)",
        "sync.WaitGroup: Done is atomic in the model and releases the waiter at once; C19_no_waitgroup_reuse proves that the adapter never Adds to a counter that reached zero (the pre-repair panic 'WaitGroup is reused before previous Wait has returned' is a regression family of the harness)",
        "deadline behaviour of Read is C11's subject; only 'times out when nothing is buffered, not early' is observed here",
        "the harness observes at quiescence (bounded waits); the acceptor tolerates lag by tracking every state reachable through unobservable steps of the accept goroutines",
        "byte transport between the two ends of a stream (C06/C07) is taken as a FIFO of written chunks",
    ]

    def search():
        cs, e, o = run_harness(160, run.seed + 7919, "search")
        found = []
        for sig, what in crash_failures(o) if e else []:
            found.append({"signature": sig, "what": what, "case": {"output_tail": o[-1500:]}})
        for c in cs or []:
            for m in c.get("oracle") or []:
                found.append({"signature": signature(m), "what": m, "case": brief(c)})
        return found
    return run.finish(search)


def replay(path):
    r = json.load(open(path))
    print(json.dumps(r, indent=1)[:6000])
    print("re-run: VERIF_SEED=%s ./check C19 --tier %s   (scenario ids 0 and 1 are the deterministic regression histories of the repaired pinned-session defect)" % (r.get("seed"), r.get("tier")))
    return 0
