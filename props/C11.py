# C11 — no stream or session call blocks forever.
# proof: Props/C11.v (Model/Wait.v, Proofs/WaitInv.v, Proofs/WaitProofs.v); tie: T — real session pairs,
# scenarios in which the releasing event is known to have happened, with seeded delays between the steps;
# the observed outcome must be producible by the model (Corr/WaitCorr.v explores every interleaving of the
# reader with the scenario's helper events, vm_compute) and the model must have no blocked interleaving.
import json, os, re
from vlib import core, gen

PROP = "C11"
META = {
    "technique": "Coq proof: inductive invariants over all schedules of the readMore wake-up protocol (reader / event loop / peer close / local close / session close / deadline timer with an abstract clock), stability of an enabled wake-up, Flush's retry bound as a total function over every queue behaviour, AcceptStream/initProtocol state machines; tie: timed scenarios on real session pairs, outcome set computed from the model by exhaustive interleaving",
    "level_text": "PARTIAL. Proved for every schedule: C11_no_lost_notify, C11_wake_or_helper (a parked reader whose releasing event happened has a ready select branch or the thread that readies it is at that step), C11_wake_stable (a ready branch stays ready until taken), C11_timeout_not_early / C11_timer_sound / C11_wake_or_helper_deadline (over every schedule INCLUDING the runtime's two-step timer expiry FireA/FireB; the statement was refuted while readMore re-armed one shared timer - stale tick, reproduced on the real code - and is a theorem again since readMore uses a timer of its own per wait; regression: C11_regression_stale_tick and the scenario deadline-race), C11_enough, C11_flush_bounded (<= c_flushRetryBound rounds whatever the queue does), C11_session_waiters. Observed on the real code (not proved): every scenario's call returned within 4 s of its releasing event with the right error class and no timeout was early.",
    "level_note": "Outside the model (Go runtime / kernel): that an enabled goroutine is scheduled, timer accuracy, epoll delivery to the single dispatcher goroutine. One full statement is REFUTED on the faithful model and reproduced on the real code: C11_wakeup_never_blocks (the unbounded `s.sendCh <- ...` of wakeUpPeer/hotRestart blocks Flush for ever once sendCh is full behind a peer that stopped consuming; partial: blocks only then, C11_stuck_until_peer_resumes) (C11_close_releases - a read parked inside OnData is released by a Stream.Close that was deferred because a callback is in progress - was refuted before the repair of stream.go Close and is now proved; regression scenarios ondata-deferred-close-*; the stream state machine has the four states of the source: opened / closed / halfClosed by the peer / localHalfClosed by a deferred Close, with readMore's error-class rule). ASSUMPTIONS: user callbacks (OnShutdown, OnNewStream) return; one reader per stream, deadlines set by the reading goroutine between calls.",
}

# scenario kind -> (prefix events, helper events) in terms of Model/Wait.v; %d = size / deadline
KINDS = {
    "data-before": ("[EAdd %(p)s; EFin]", "[]"),
    "data-while": ("[]", "[EAdd %(p)s; EFin]"),
    "data-race": ("[]", "[EAdd %(p)s; EFin]"),
    "deadline": ("[SetDL (Some %(z)s)]", "[Tick %(z)s]"),
    "deadline-twice": ("[SetDL (Some 30); RCall 1; RStep; RStep; RStep; Tick 30; Fire; RWake BTimer; SetDL (Some (30 + %(z)s))]", "[Tick %(z)s]"),
    "local-close": ("[]", "[LLoad; LCas; LClean; LNotify]"),
    "peer-close": ("[]", "[PClose1; PClose2]"),
    "session-close": ("[]", "[SClose; LLoad; LCas; LClean; LNotify]"),
    "peer-session-close": ("[]", "[SClose; LLoad; LCas; LClean; LNotify]"),
    "peer-death": ("[]", "[SClose; LLoad; LCas; LClean; LNotify]"),
    "peer-close-queue-full": ("[]", "[PClose1; PClose2]"),
    "peer-gone-unread-read": ("[]", "[SClose; LLoad; LCas; LClean; LNotify]"),
    "close-vs-callback-start": ("[SetCb; EAdd 4; EFin]", "[LLoad; LCas; LNotify; LClean]"),
    # a read for 8 bytes parked inside OnData with 4 bytes there (w_min = 8, see case_to_coq)
    "ondata-local-session-close": ("[SetCb; EAdd 4; EFin]", "[SClose; LLoad; LCas; LNotify; LClean]"),
    "ondata-peer-session-close": ("[SetCb; EAdd 4; EFin]", "[SClose; LLoad; LCas; LNotify; LClean]"),
    "ondata-peer-death": ("[SetCb; EAdd 4; EFin]", "[SClose; LLoad; LCas; LNotify; LClean]"),
    "ondata-deferred-close-local-session-close": ("[SetCb; EAdd 4; EFin]", "[LDefer1; LDefer2; SClose; LLoad; LCas; LNotify; LClean]"),
    "ondata-deferred-close-peer-session-close": ("[SetCb; EAdd 4; EFin]", "[LDefer1; LDefer2; SClose; LLoad; LCas; LNotify; LClean]"),
    "ondata-deferred-close-peer-death": ("[SetCb; EAdd 4; EFin]", "[LDefer1; LDefer2; SClose; LLoad; LCas; LNotify; LClean]"),
    "ondata-deferred-close-only": ("[SetCb; EAdd 4; EFin]", "[LDefer1; LDefer2]"),
    "ondata-deferred-close-peer-close": ("[SetCb; EAdd 4; EFin]", "[LDefer1; LDefer2; PClose1; PClose2]"),
}


def case_to_coq(c):
    pre, helpers = KINDS[c["kind"]]
    sub = {"p": "%d%%nat" % max(1, c["param"]), "z": "%d" % c["param"]}
    wmin = 8 if (c["kind"].startswith("ondata") or c["kind"] == "close-vs-callback-start") else 1
    return "{| w_prefix := %s; w_min := %d%%nat; w_helpers := %s; w_obs := %d |}" % (pre % sub, wmin, helpers % sub, c["class"])


MODEL_HANGUP = None


def eval_cases(cases, tag):
    txt = ["From Coq Require Import List ZArith.", "From Shm Require Import Model.Wait Corr.WaitCorr.",
           "Import ListNotations.", "Open Scope Z_scope.", "Definition cases : list wcase := ["]
    txt.append(";\n".join(case_to_coq(c) for c in cases))
    txt.append("].")
    txt.append("Definition M := Eval vm_compute in (selftest, mismatches cases).")
    txt.append("Print M.")
    txt.append("Definition F := Eval vm_compute in flush_full_result.")
    txt.append("Print F.")
    txt.append("Definition Q := Eval vm_compute in peer_close_queue_full.")
    txt.append("Print Q.")
    txt.append("Definition H := Eval vm_compute in map (fun io => closes_session {| EventConn.ev_rdhup := true; EventConn.ev_in := fst io; EventConn.ev_out := snd io |} RdErr) [(false, false); (false, true); (true, false); (true, true)].")
    txt.append("Print H.")
    rc, out, _ = core.coq_eval("cases_%s_%s_%d" % (PROP, tag, os.getpid()), "\n".join(txt))
    if rc != 0:
        raise RuntimeError("coqc on the generated cases failed: " + out[-1500:])
    m = re.search(r"M\s*=\s*\((.*?)\)\s*:\s*list", out, re.S)
    if not m:
        raise RuntimeError("cannot parse the mismatch list: " + out[-500:])
    body = re.sub(r"%nat|%Z|\s+", " ", m.group(1))
    st, _, mm = body.partition(",")
    if st.strip() != "[]":
        raise RuntimeError("the model's self-test no longer passes: " + st[:200])
    bad = [(int(q.group(1)), int(q.group(2))) for q in re.finditer(r"\(\s*(\d+)\s*,\s*(\d+)\s*\)", mm)]
    fm = re.search(r"F\s*=\s*\(\s*(\w+)\s*,\s*(\d+)", out)
    flush = (fm.group(1), int(fm.group(2))) if fm else None
    qm = re.search(r"Q\s*=\s*\(\s*(true|false)\s*,\s*(true|false)\s*,\s*(true|false)\s*\)", out)
    if not qm or (qm.group(1), qm.group(2), qm.group(3)) != ("false", "false", "true"):
        raise RuntimeError("model: a Close issued while the io queue is full must succeed and leave its notification in the socket; got %r" % (qm and qm.groups(),))
    hm = re.search(r"H\s*=\s*\[(.*?)\]", out, re.S)
    global MODEL_HANGUP
    MODEL_HANGUP = [x.strip() == "true" for x in hm.group(1).split(";")] if hm else None
    return bad, flush


HOOK_SHAPE_ERR = None
HOOK_ANCHOR = "\n\treturn s.close()\n}"
HOOK_CODE = "\n\tif vhookC11BeforeClose != nil {\n\t\tvhookC11BeforeClose(s)\n\t}\n\treturn s.close()\n}"


def instrument_stream():
    """Mechanism S (light): the CURRENT stream.go with one scheduling hook in Stream.Close, between the load of
    callbackInProcess and the call of close() (the hook is nil except in the scenario close-vs-callback-start).
    Nothing is written to /repo: the copy goes into the overlay."""
    src = open(os.path.join(core.REPO, "stream.go")).read()
    i = src.find("func (s *Stream) Close() error {")
    j = src.find(HOOK_ANCHOR, i)
    k = src.find("\nfunc ", i + 10)
    if i < 0 or j < 0 or (k >= 0 and j > k):
        return None, "cannot find `return s.close()` at the end of Stream.Close in stream.go"
    out = src[:j] + HOOK_CODE + src[j + len(HOOK_ANCHOR):]
    path = os.path.join(core.WORK, "c11_stream_instr_%d.go" % os.getpid())
    with open(path, "w") as fh:
        fh.write(out)
    return path, None


def run_harness(reps, seed, tag):
    outp = os.path.join(core.WORK, "c11_%s_%d.jsonl" % (tag, os.getpid()))
    ipath, ierr = instrument_stream()
    global HOOK_SHAPE_ERR
    HOOK_SHAPE_ERR = ierr
    envv = {"VERIF_OUT": outp, "VERIF_N": str(reps), "VERIF_SEED": str(seed)}
    if ierr:
        # the anchor of the overlay hook was not recognised: run everything else without the hook
        envv["VERIF_C11_NOHOOK"] = "1"
        rc, out, secs = core.go_test(PROP, "^TestVerif_C11$", envv, timeout=1500)
    else:
        try:
            rc, out, secs = core.go_test(PROP, "^TestVerif_C11$", envv, timeout=1500,
                                         extra_replace={os.path.join(core.REPO, "stream.go"): ipath})
        finally:
            try:
                os.unlink(ipath)
            except OSError:
                pass
    cases = []
    if os.path.exists(outp):
        for l in open(outp):
            try:
                cases.append(json.loads(l))
            except ValueError:
                pass
        os.unlink(outp)
    err = None
    if rc != 0:
        err = "harness failed (rc=%d): %s" % (rc, out[-2500:])
    return cases, err, out


SIG_SENDCH = "C11:flush-blocks-forever-when-sendch-full"
SIG_CLOSEWAIT = "C11:close-waits-for-ondata-that-waits-for-close-notification"
SIG_DEFERRED = "C11:read-in-ondata-not-released-by-deferred-stream-close"


SIG_STALE = "C11:stale-timer-tick-makes-next-read-time-out-early"


def signature(msg):
    if msg.startswith("deadline-race: a Read with a") and "stale timer tick" in msg:
        return SIG_STALE
    if msg.startswith("close-vs-callback-start: Stream.Close and the read inside OnData block each other"):
        return SIG_CLOSEWAIT
    if msg.startswith("flush-sendch-full: Flush blocks for ever"):
        return SIG_SENDCH
    if msg.startswith("ondata-deferred-close: a read parked inside OnData is not released"):
        return SIG_DEFERRED
    kind, _, rest = msg.partition(":")
    rest = re.sub(r"\d+(\.\d+)?(ms|µs|us|s)?", "#", rest.lower())
    return "C11:" + kind.strip() + ":" + re.sub(r"[^a-z#]+", "-", rest)[:60].strip("-")


def brief(c):
    return {k: c.get(k) for k in ("id", "kind", "delay_us", "param", "class", "n", "us", "call_us", "min_us")}


def check(run):
    data, gerr = gen.regenerate()
    if gerr:
        run.add_corr_break("G: " + gerr)
    run.proof = core.proof_step(PROP, run.tier)
    reps = 4 if run.tier == "quick" else 60
    cases, err, out = run_harness(reps, run.seed, run.tier)
    if err:
        run.add_corr_break("T: " + err)
    if HOOK_SHAPE_ERR:
        run.add_corr_break("S: the scheduling hook could not be compiled into Stream.Close (%s): the scenario close-vs-callback-start was not run, everything else was" % HOOK_SHAPE_ERR, shape=True)
    usable, skipped = [], 0
    kinds, worst = {}, {}
    for c in cases:
        if c.get("skipped"):
            skipped += 1
            continue
        usable.append(c)
        kinds[c["kind"]] = kinds.get(c["kind"], 0) + 1
        worst[c["kind"]] = max(worst.get(c["kind"], 0), c.get("us", 0))
        for m in c.get("oracle") or []:
            run.add_oracle_failure(signature(m), m, brief(c))
    if any("hook in Stream.Close did not run" in (c.get("skipped") or "") for c in cases):
        run.add_corr_break("S: the scheduling hook compiled into Stream.Close never ran: the scenario close-vs-callback-start was not executed")
    if cases and skipped > len(cases) // 3:
        run.add_corr_break("T: %d of %d scenarios could not be set up (machine overloaded?)" % (skipped, len(cases)))
    # class 8 (the call did not return) is an oracle failure; the model has no blocked interleaving for these kinds
    modelled = [c for c in usable if c["kind"] in KINDS and c["class"] != 8]
    if modelled:
        try:
            bad, flush = eval_cases(modelled, run.tier)
        except RuntimeError as ex:
            bad, flush = [], None
            run.add_corr_break("T: model evaluation failed: %s" % ex)
        for (idx, kind) in bad[:20]:
            c = modelled[idx]
            what = {1: "the observed error class %d cannot be produced by the model in any interleaving" % c["class"],
                    2: "the model has an interleaving in which the call blocks for ever",
                    3: "model exploration ran out of fuel"}.get(kind, "mismatch")
            run.add_corr_break("T: scenario %s (%s): %s" % (c["id"], c["kind"], what), brief(c))
        # Flush: the implementation's ErrQueueFull after ~bound x 10 ms vs the model's (FRQueueFull, bound)
        # handleEvent's hang-up dispatch observed on the real connEventHandler (read fails) vs. the model
        for c in usable:
            if c["kind"] == "dispatch-hangup" and c.get("disp"):
                for o in c["disp"]:
                    idx = (2 if o["in"] else 0) + (1 if o["out"] else 0)
                    want = MODEL_HANGUP[idx] if MODEL_HANGUP else None
                    if want is not None and bool(o["closed"]) != want:
                        run.add_corr_break("D: handleEvent(EPOLLRDHUP, in=%s, out=%s) with a failing read: onRemoteClose called = %s, the model's dispatch (EventConn.handle_event) says %s" % (o["in"], o["out"], o["closed"], want), brief(c))
        ff = [c for c in usable if c["kind"] == "flush-queue-full"]
        if flush and ff:
            bound = int((data or {}).get("consts", {}).get("flushRetryBound", flush[1]))
            if flush != ("FRQueueFull", bound):
                run.add_corr_break("T: model's Flush on an always-full queue is %r, expected (FRQueueFull, %d)" % (flush, bound))
            for c in ff:
                # each retry waits one 10 ms timer: the call lasts at least (bound-1) x 10 ms (and not for ever)
                if c["class"] == 5 and c["call_us"] < (bound - 1) * 10000 - 5000:
                    run.add_corr_break("T: Flush returned ErrQueueFull after %d us: fewer than %d retries" % (c["call_us"], bound), brief(c))
    run.coverage.update({
        "evaluations": len(usable), "distinct_nontrivial": len({(c["kind"], c["delay_us"], c["param"]) for c in usable}),
        "skipped_setups": skipped, "scenarios_by_kind": kinds, "worst_completion_us_by_kind": worst,
        "rule": "a case = one scenario on a fresh real session pair: (kind of releasing event, injected delay between the caller entering its wait and the event, size/deadline); "
                "every case is non-trivial (a blocking call and its releasing event); distinct by (kind, delay, parameter); data-race runs 150 write/read rounds with 0-60 us skews each",
        "samples": [brief(c) for c in usable[:3]],
        "model_checked_cases": len(modelled),
        "bound_s": 4,
    })
    run.assumptions += [
        "an enabled goroutine is eventually scheduled; timers fire close to their time; epoll delivers to the dispatcher goroutine (Go runtime / kernel; observed, not proved)",
        "the send hand-off is modelled with one fast-path thread; hotRestart's slow-path send is the same statement as wakeUpPeer's",
        "user callbacks (ListenCallback.OnNewStream / OnShutdown, StreamCallbacks) return: the single dispatcher goroutine of the process runs them inline",
        "the timer model: expiry in one step (Fire) or two (FireA: expired, Stop() reports false / FireB: the value reaches the channel); each wait has a timer and a channel of its own",
        "one reader per stream; SetReadDeadline is called by the reading goroutine between two calls (a deadline set while a Read is parked does not re-arm its timer)",
        "callback mode is modelled only as far as the deferred Stream.Close (state marked half-closed without notification) is concerned",
    ]

    def search():
        cs, e, o = run_harness(12, run.seed + 7919, "search")
        found = []
        for c in cs or []:
            for m in c.get("oracle") or []:
                found.append({"signature": signature(m), "what": m, "case": brief(c)})
        return found
    return run.finish(search)


def replay(path):
    r = json.load(open(path))
    print(json.dumps(r, indent=1)[:6000])
    print("re-run: VERIF_SEED=%s ./check C11 --tier %s" % (r.get("seed"), r.get("tier")))
    return 0
