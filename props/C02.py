# C02 — the allocator neither loses nor duplicates buffers (shares model, harness and corpus with C01).
from props import C01
from vlib import core

PROP = "C02"
META = {
    "technique": "Coq proof: counting invariant (free count + held + in-flight = capacity) by induction over ALL schedules of the access-granular free-list model; refutation of the quiescent-chain clause by a computed ABA schedule; tie: generated offsets/flags/retry bound + real instrumented pop/push/recycleBuffers under a controlled scheduler compared access by access with the model",
    "level_text": "C02_count_bound and C02_count_exact_at_rest are proved for every list size, any number of threads, all programs of alloc/free/update and every schedule; the clause 'at quiescence the chain visits every slot once' is refuted (C02_refuted, ABA in bufferList.pop, known finding) and is checked on the real code by the quiescence oracle on every explored schedule.",
    "level_note": "Trusted: coqc kernel; sequential consistency; go/verisched instrumenter + scheduler; schedules sampled plus corpus; recycle-chain operations are covered by the correspondence and the oracles, not by the counting theorem.",
}


def check(run):
    return C01.check(run, PROP)


def replay(path):
    return C01.replay(path)
