# C02 — the allocator neither loses nor duplicates buffers (shares model, harness and corpus with C01).
from props import C01
from vlib import core

PROP = "C02"
META = {
    "technique": "Coq proof: counting invariant (free count + held + in-flight = capacity) by induction over ALL schedules of the access-granular free-list model; structural invariant (quiescent chain whole, no slot lost, exact size accounting) for every schedule without a stale head-CAS; sequential refinement (never the last slot, a failed allocation restores everything); refutation of the unrestricted quiescence clause by a computed ABA schedule. Tie: G + S (real instrumented pop/push/recycleBuffers, trace comparison) + D (multi-class manager)",
    "level_text": "C02_count_bound and C02_count_exact_at_rest are proved for every list size, any number of threads, all programs of alloc/free/update and EVERY schedule (ABA or not); C02_partial_aba_free* prove the quiescent-chain, no-slot-lost and size-accounting clauses for every schedule without a stale head-CAS, C02_single_allocator without that hypothesis for one allocating thread; C02_sequential_never_last / _failed_alloc for sequential use. The unrestricted quiescence clause is REFUTED (C02_refuted, ABA in bufferList.pop, known finding, replayed on the real code every run). Quiescence / counting / chain-completeness oracles run on every explored schedule of the real code, incl. the retry-bound path and mappings that end exactly behind the last slot.",
    "level_note": "Trusted: coqc kernel; sequential consistency; go/verisched instrumenter + scheduler; schedules sampled plus corpus; recycle-chain operations are covered by the correspondence and the oracles, not by the concurrent theorems.",
}


def check(run):
    return C01.check(run, PROP)


def replay(path):
    return C01.replay(path)
