# C20 — callback mode offers every received byte to OnData once, in order, serially.
# proof: Props/C20.v (Model/StreamState.v, Proofs/StreamStateProofs.v); tie: mechanism S — the real
# fillDataToReadBuffer / halfClose / Close / close / SetCallbacks and the real callback goroutine
# (instrumented from the current stream.go) under a controlled scheduler, access trace + OnData offers +
# final state compared with the model run under the same schedule.
import json, os, re
from vlib import core, gen, sched

PROP = "C20"
META = {
    "technique": "Coq proof: inductive invariant (thread counts per program point + ghost byte equations) over all schedules of an access-granular model of the callback hand-off in stream.go (event loop, SetCallbacks, callback goroutines, Close); tie: the real instrumented stream.go functions under a controlled scheduler compared access by access with the model",
    "level_text": "Theorems C20_serial / C20_no_strand / C20_quiescent / C20_order_once / C20_stop hold for every list of inbound events, any number of Close() calls, any OnData behaviour and every schedule (induction over the schedule, unbounded number of goroutines), whether the callbacks are installed before the first event or later by SetCallbacks at any point (C20_late_no_strand, C20_late_serial: the two statements that were refuted before SetCallbacks was repaired); C20_view_stable: while an OnData runs the event loop never touches recvBuf (refuted until the closed path of fillDataToReadBuffer stopped recycling recvBuf under installed callbacks). The model is tied to /repo's stream.go by running the real functions, instrumented from the current source, under random, sticky, systematic single-pre-emption and exhaustive (two arrivals) schedules whose access traces, OnData offers and final states must equal the model's; an independent serial/no-strand/order-once/stop oracle runs on every case; the former witness schedules are regression scenarios. Blocking reads inside OnData (ReadBytes/Peek of more than was offered parks in readMore with callbackInProcess = 1): C20_parked_resumed / C20_parked_enabled / C20_parked_quiescent — whatever arrives while an invocation is parked is announced by the recvNotifyCh token (the asyncNotify in fillDataToReadBuffer is a model step and a scheduling point of the instrumented build: it must appear in the trace in callback mode too), the parked invocation is then enabled, and at rest nothing is left in pendingData; readMore's select is a controlled choice of the harness, and a real-pair family reads framed messages flushed in two parts with blocking reads.",
    "level_note": "Reading: a byte is 'offered' while the local state is opened (data pending when the peer's close is handled is never offered: booked under C07). Trusted: coqc kernel; sequential consistency; go/verisched instrumenter + scheduler (scheduling points only at the atomic accesses of stream.go and at harness marks: the model is finer and its theorems cover a superset of these schedules); the session stays open; one FIFO transport; payload = heap fallback slices.",
}

EXH_CAP_QUICK, EXH_CAP_THOROUGH = 3000, 120000

SIG_LATE = "C20:data-before-SetCallbacks-not-offered-until-next-arrival"
SIG_RACE = "C20:SetCallbacks-racing-arrival-resets-callbackInProcess-OnData-overlaps"


def who(tid, c):
    ncl = c["ncl"]
    if tid == 0:
        return "WEv"
    if tid <= ncl:
        return "WClo %d%%nat" % (tid - 1)
    base = 1 + ncl
    if c.get("setter"):
        if tid == base:
            return "WSet"
        base += 1
    if c.get("sync") and not c.get("setter"):
        if tid == base:
            return "WSync"
        base += 1
    nu = len(c.get("ups") or [])
    if tid < base + nu:
        return "WUser %d%%nat" % (tid - base)
    base += nu
    return "WGor %d%%nat" % (tid - base)


def schedule(c):
    """model thread of every implementation step; a Flush made inside OnData (mark 13 and the state load that
    follows it, both on the goroutine's tid) is the extra user thread of the model"""
    out, inflush = [], {}
    nu = len(c.get("ups") or [])
    user_tid = 1 + c["ncl"] if (c.get("setter") and c.get("sync")) else None
    in_set = False
    for s in c["steps"]:
        w = who(s["tid"], c)
        ev = s.get("ev")
        if s["tid"] == user_tid:
            # one user goroutine: its synchronous reads (WSync) come first; SetCallbacks (WSet) begins with the step
            # that has no event (the explicit scheduling point) — reads that needed no readMore have no step of their
            # own, so a synthetic, event-less WSync step is placed in front of it
            if not in_set and (ev is None or (ev["k"] == 3 and ev["r"] == 1)):
                in_set = True
                out.append(("WSync", "synthetic"))
            w = "WSet" if in_set else "WSync"
        if w.startswith("WGor"):
            if ev and ev["k"] == 7 and ev["a"] == 13:
                inflush[s["tid"]] = 2      # the mark, then two state loads: WriteBytes' alloc and Flush
                w = "WUser %d%%nat" % nu
            elif inflush.get(s["tid"], 0) > 0:
                inflush[s["tid"]] -= 1
                w = "WUser %d%%nat" % nu
        out.append((w, s))
    return out


def event(ev):
    if ev is None:
        return "None"
    cell = ev["r"] if (ev["r"] < 0 or ev["o"] == 0) else 1000 + ev["r"]   # -2 pendingData mutex, -3 wg, -4 mark, -5 walk
    return "ev_ %s %s %s %s %s" % (core.z(ev["k"]), core.z(cell), core.z(ev["a"]), core.z(ev["b"]), core.z(ev["c"]))


def zl(xs):
    return core.coq_list([core.z(x) for x in (xs or [])])


def case_to_coq(c):
    inb = core.coq_list([("EData " + zl(e)) if e else "EClose" for e in c["inb"]])
    scr = core.coq_list(["(%d%%nat, %d%%nat)" % (k, cl) for (k, cl) in (c.get("script") or [])])
    sy = core.coq_list(["%d%%nat" % k for k in (c.get("sync") or [])])
    pairs = schedule(c)
    sch = core.coq_list([w for (w, _) in pairs])
    ups = [[[b] for b in u] for u in (c.get("ups") or [])]
    if c.get("infl"):
        ups.append([[9]] * sum(c["infl"]))
    upsq = core.coq_list([core.coq_list([zl(m) for m in u]) for u in ups])
    uresq = core.coq_list([core.coq_list(["true" if b else "false" for b in (u or [])]) for u in (c.get("ures") or [])])
    evs = core.coq_list([("None" if st == "synthetic" else event(st["ev"])) for (_, st) in pairs])
    offers = core.coq_list([zl(o) for o in (c["offers"] or [])])
    needs = core.coq_list(["%d%%nat" % k for k in (c.get("needs") or [])])
    picks = core.coq_list(["true" if b else "false" for b in (c.get("picks") or [])])
    return ("{| s_cb0 := %s; s_inb := %s; s_ncl := %d%%nat; s_script := %s; s_sy := %s; s_ups := %s; s_needs := %s; s_picks := %s; "
            "s_sched := %s; s_events := %s; "
            "s_offers := %s; s_consumed := %s; s_final := %s; s_recv := %s; s_pend := %s; s_finished := %s; s_ures := %s |}"
            % ("true" if c["cb0"] else "false", inb, c["ncl"], scr, sy, upsq, needs, picks, sch, evs, offers, zl(c["consumed"]),
               zl(c["final"]), zl(c["recv"]), zl(c["pend"]), "true" if c.get("finished") else "false", uresq))


def eval_cases(cases, tag, prop=PROP):
    bad = []
    SH = 300
    for k in range(0, len(cases), SH):
        chunk = cases[k:k + SH]
        txt = ["From Coq Require Import List ZArith.",
               "From Shm Require Import Gen.Consts Model.StreamState Corr.StreamStateCorr.",
               "Import ListNotations.", "Open Scope Z_scope.", "Definition cases : list scase := ["]
        txt.append(";\n".join(case_to_coq(c) for c in chunk))
        txt.append("].")
        txt.append("Definition M := Eval vm_compute in mismatches cases.")
        txt.append("Print M.")
        rc, out, _ = core.coq_eval("cases_%s_%s_%d_%d" % (prop, tag, os.getpid(), k), "\n".join(txt))
        if rc != 0:
            raise RuntimeError("coqc on the generated cases failed: " + out[-1500:])
        m = re.search(r"M\s*=\s*(.*?)\s*:\s*list", out, re.S)
        if not m:
            raise RuntimeError("cannot parse the mismatch list: " + out[-500:])
        body = m.group(1).strip()
        if body != "[]":
            found = False
            for mm in re.finditer(r"\((\d+)%?n?a?t?,\s*\(?(-?\d+)\)?(?:%Z)?,\s*(None|Some\s+(\d+))", body):
                bad.append((k + int(mm.group(1)), int(mm.group(2)), mm.group(4)))
                found = True
            if not found:
                bad.append((k, -1, body[:200]))
    return bad


KIND = {1: "access trace differs from the model at step %s", 2: "the bytes offered to the OnData invocations differ from the model",
        3: "the bytes consumed differ from the model", 4: "final state/flag/closeState/table/callback counters/close elements differ from the model",
        5: "bytes left in recvBuf/pendingData differ from the model",
        6: "every implementation thread finished but a model thread still has steps to take",
        7: "the results of the user Flush calls (nil / ErrStreamClosed) differ from the model"}


def instrument_stream():
    """stream.go instrumented by go/verisched (atomics) plus, textually on the instrumented copy: the pendingData
    mutex as a scheduling point (r.Lock()/r.Unlock() in the methods of *pendingData, s.pendingData.Lock()/Unlock()
    -> vsLock/vsUnlock), a scheduling point in front of every element access of the walks over
    pendingData.unread (c20Walk(i) at the head of each `for i := range [r.]unread` loop) and one in front of
    asyncGoroutineWg.Add(1) (mark 14); a scheduling point of its own in front of every asyncNotify(s.recvNotifyCh)
    (mark 16: the token that hands a late arrival to an OnData parked in a blocking read), and readMore's select as a
    controlled choice (c20Select: which channel was ready is part of the trace; parked = busy).  Returns (overlay, error)."""
    ov, rep, err = sched.instrument(["stream.go"])
    if err:
        return None, err
    key = os.path.join(core.REPO, "stream.go")
    src = open(ov[key]).read()
    n = [0]

    def in_pending(m):
        body = m.group(0)
        body, k1 = re.subn(r"\br\.Lock\(\)", "vsLock(&r.Mutex)", body)
        body, k2 = re.subn(r"\br\.Unlock\(\)", "vsUnlock(&r.Mutex)", body)
        n[0] += k1 + k2
        return body
    src = re.sub(r"func \(r \*pendingData\) \w+\(.*?\n}\n", in_pending, src, flags=re.S)
    src, k3 = re.subn(r"\bs\.pendingData\.Lock\(\)", "vsLock(&s.pendingData.Mutex)", src)
    src, k4 = re.subn(r"\bs\.pendingData\.Unlock\(\)", "vsUnlock(&s.pendingData.Mutex)", src)
    if n[0] < 4:
        return None, "cannot find the pendingData critical sections in stream.go (found %d Lock/Unlock)" % n[0]
    src, k5 = re.subn(r"(for i := range (?:\w+\.)?unread \{)", r"\1\n\t\tc20Walk(i)", src)
    if k5 < 2:
        return None, "cannot find the walks over pendingData.unread in stream.go (found %d loops)" % k5
    # a scheduling point between winning callbackInProcess and asyncGoroutineWg.Add(1) (close()'s Wait can fall in between)
    src, k6 = re.subn(r"(\n\s*)(vsWgAdd\(&s\.asyncGoroutineWg, 1\))", r"\1c20Mark(14)\1\2", src)
    if k6 < 1:
        return None, "cannot find asyncGoroutineWg.Add(1) in stream.go"
    # the token for a parked reader: every asyncNotify(s.recvNotifyCh) becomes a scheduling point with an event
    src, k7 = re.subn(r"\basyncNotify\(s\.recvNotifyCh\)", "c20Notify(s.recvNotifyCh)", src)
    if k7 < 1:
        return None, "cannot find asyncNotify(s.recvNotifyCh) in stream.go"
    # readMore's select: a controlled choice between recvNotifyCh, closeNotifyCh and the deadline

    def in_readmore(m):
        body = m.group(0)
        body, a = re.subn(r"\bselect \{", "switch c20Select(s.recvNotifyCh, s.closeNotifyCh, timeoutCh) {", body)
        body, b1 = re.subn(r"case <-s\.recvNotifyCh:", "case 0:", body)
        body, b2 = re.subn(r"case <-s\.closeNotifyCh:", "case 1:", body)
        body, b3 = re.subn(r"case <-timeoutCh:", "case 2:", body)
        n.append((a, b1, b2, b3))
        return body
    src = re.sub(r"func \(s \*Stream\) readMore\(.*?\n}\n", in_readmore, src, flags=re.S)
    if len(n) < 2 or n[-1] != (1, 1, 1, 1):
        return None, "cannot find readMore's select on recvNotifyCh / closeNotifyCh / the deadline in stream.go (%r)" % (n[1:],)
    d = os.path.join(core.WORK, "inst_c20_" + core.tree_hash())
    os.makedirs(d, exist_ok=True)
    p = os.path.join(d, "stream.go")
    with open(p, "w") as fh:
        fh.write(src)
    return {key: p}, None


def run_harness(test, files_prop, n, seed, tag, extra_env=None):
    ov, err = instrument_stream()
    if err:
        return None, None, err
    outp = os.path.join(core.WORK, "%s_%s_%d.jsonl" % (test, tag, os.getpid()))
    envd = {"VERIF_OUT": outp, "VERIF_N": str(n), "VERIF_SEED": str(seed)}
    envd.update(extra_env or {})
    files = core.harness_files("C20") if files_prop == "C20" else core.harness_files("C20") + [
        f for f in core.harness_files(files_prop) if not os.path.basename(f).startswith("common_")]
    rc, out, secs = core.go_test(files_prop, "^%s$" % test, envd, extra_replace=ov, timeout=1500, files=files)
    if rc != 0:
        return None, None, "harness failed (rc=%d): %s" % (rc, out[-2500:])
    lines = [json.loads(l) for l in open(outp)]
    os.unlink(outp)
    summ = [l for l in lines if l.get("summary")]
    return [l for l in lines if not l.get("summary")], (summ[0] if summ else {}), None


def brief(c):
    return {k: c.get(k) for k in ("id", "strat", "kind", "cb0", "inb", "ncl", "setter", "sync", "script", "needs", "picks", "read_err", "parked_ok", "deadlock", "ups", "infl", "ures", "ndata", "offers", "consumed",
                                  "final", "recv", "pend", "finished")} | {"schedule": [s["tid"] for s in (c.get("steps") or [])]}


SIG_RECYCLE = "C20:event-loop-recycles-recvBuf-while-OnData-is-reading"


def signature(c, msg):
    if msg.startswith("zero-copy:"):
        return SIG_RECYCLE
    if c.get("setter"):
        if msg.startswith("no-strand"):
            return SIG_LATE
        if msg.startswith("serial"):
            return SIG_RACE
    return "C20:" + re.sub(r"\d+", "#", msg)[:70]


def check(run):
    data, gerr = gen.regenerate()
    if gerr:
        run.add_corr_break("G: " + gerr)
    run.proof = core.proof_step(PROP, run.tier)
    quick = run.tier == "quick"
    n = 240 if quick else 6000
    cases, summ, err = run_harness("TestVerif_C20", "C20", n, run.seed, run.tier,
                                   {"VERIF_EXH": str(EXH_CAP_QUICK if quick else EXH_CAP_THOROUGH)})
    feats, distinct, kinds, strat = {}, set(), {}, {}
    if err:
        run.add_corr_break("S: " + err)
        cases = []
    for c in cases:
        for m in c.get("oracle") or []:
            run.add_oracle_failure(signature(c, m), m, brief(c))
        if c.get("feat"):
            distinct.add(json.dumps([c["inb"], c["ncl"], c.get("script"), c["final"], c["offers"], sorted(set(c["feat"]))]))
        for f in set(c.get("feat") or []):
            feats[f] = feats.get(f, 0) + 1
        kinds[c["kind"]] = kinds.get(c["kind"], 0) + 1
        s = re.sub(r"\(.*", "", c["strat"])
        strat[s] = strat.get(s, 0) + 1
    # real-pair family (probabilistic support): numbered multi-slice messages, continuous sender, pausing callback
    tcases, _, terr = run_harness("TestVerif_C20T", "C20", 3 if quick else 40, run.seed, run.tier + "t")
    if terr:
        run.add_corr_break("T: " + terr)
    for c in tcases or []:
        for m in c.get("oracle") or []:
            run.add_oracle_failure("C20:real-pair:" + re.sub(r"\d+", "#", m)[:60], m, c)
    run.coverage["real_pair_rounds"] = len([c for c in (tcases or []) if not c.get("skipped")])
    run.coverage["real_pair_messages"] = sum(c.get("got", 0) for c in (tcases or []))
    run.coverage["real_pair_framed_rounds"] = len([c for c in (tcases or []) if c.get("framed") and not c.get("skipped")])
    run.coverage["real_pair_blocking_reads_that_waited"] = sum(c.get("parks", 0) for c in (tcases or []))
    cmp_cases = [c for c in cases if c.get("cmp") and c.get("steps") is not None]
    if cmp_cases:
        try:
            bad = eval_cases(cmp_cases, run.tier)
        except RuntimeError as ex:
            bad = []
            run.add_corr_break("S: model evaluation failed: %s" % ex)
        for (idx, kind, pos) in bad[:20]:
            c = cmp_cases[idx] if idx < len(cmp_cases) else {}
            what = KIND.get(kind, "model/implementation mismatch")
            if kind == 1:
                what = what % pos
            b = brief(c)
            if pos:
                b["impl_events_around"] = c.get("steps", [])[max(0, int(pos) - 2):int(pos) + 3]
            run.add_corr_break("S: case %s (%s, %s): %s" % (c.get("id"), c.get("kind"), c.get("strat"), what), b)
    run.coverage.update({
        "evaluations": len(cases), "compared_with_model": len(cmp_cases), "distinct_nontrivial": len(distinct),
        "rule": "a case = (inbound events, Close() threads, OnData script, schedule) run on the real instrumented stream.go; "
                "non-trivial = a second goroutine, a lost CAS on callbackInProcess, a goroutine re-taking the flag after its re-check, "
                "Close inside OnData, a closer thread, a peer close, or a blocked wg.Wait; distinct by (config, outcome, features)",
        "samples": [brief(c) for c in cases[:2]],
        "kinds": kinds, "strategies": strat, "features": feats,
        "exhaustive_two_arrivals": {"schedules": summ.get("exhaustive"), "complete": summ.get("exhaustive_complete"),
                                    "cap": EXH_CAP_QUICK if quick else EXH_CAP_THOROUGH,
                                    "note": "depth-first enumeration of the schedules of two arrivals against the callback goroutine(s) over the fine steps "
                                            "(mutex, element walks, notify); a thread that just found the mutex / wait group / select busy is not polled again "
                                            "before another thread has moved (a no-op, not a different schedule); the enumeration is cut at the cap (the thorough "
                                            "cap was lowered from 200000 so that the thorough command ends within about ten minutes on a shared machine) and is "
                                            "not complete at either cap"},
        "total_steps": sum(len(c.get("steps") or []) for c in cases),
        # runs whose driven schedule was cut at the step / busy-poll bound and that then ran to completion undriven: the
        # recorded steps are a prefix, so they are neither compared with the model nor judged by the step-bound oracle
        "truncated_runs_not_compared": len([c for c in cases if c.get("truncated")]),
    })
    run.assumptions += [
        "sequential consistency of the instrumented accesses",
        "'offered' = offered while the local state is opened (C07 owns data pending at the peer's close)",
        "callbacks installed before the first event or by SetCallbacks at any later point",
        "the session stays open; pendingData/recvBuf operations are atomic (they are mutex-protected or owner-only in the source)",
        "go/verisched preserves the semantics of stream.go apart from added scheduling points; value of streamLocalHalfClosed pinned by the trace"]

    def search():
        cs, _, e = run_harness("TestVerif_C20", "C20", 1500, run.seed + 7919, "search", {"VERIF_EXH": "20000"})
        found = []
        for c in cs or []:
            for m in c.get("oracle") or []:
                found.append({"signature": signature(c, m), "what": m, "case": brief(c)})
        return found
    return run.finish(search)


def replay(path):
    r = json.load(open(path))
    print(json.dumps(r, indent=1)[:4000])
    print("re-run: VERIF_SEED=%s ./check C20 --tier %s" % (r.get("seed"), r.get("tier")))
    return 0
