# C06 — a stream is a faithful byte pipe whatever the write and read granularity.
# proof: Props/C06.v (Model/LinkedBuffer.v, Proofs/LinkedBufferProofs.v); tie: D level (i) — the real
# linkedBuffer / pendingData.moveToWithoutLock / Stream.readMore over a heap-backed bufferManager with
# small size classes, compared op by op with the model (Corr/LinkedBufferCorr.v) + byte-queue oracle.
import json, os, re
from vlib import core, gen, gosrc

PROP = "C06"
META = {
    "technique": "Coq proof: refinement of an executable model of linkedBuffer/bufferSlice/allocator/done/moveTo to a byte queue via a global inductive invariant (store well-formedness, ownership of every slot as multiset accounting, send buffer, header chains, receive buffer) preserved by every operation; tie: differential execution of the real linkedBuffer pair (real moveToWithoutLock/readMore, heap-backed bufferManager, small classes) against the model on generated op sequences, plus an independent byte-queue oracle",
    "level_text": "Theorem C06 (= C06_full): for every size-class configuration with positive capacities, every slot count, every op sequence over the whole op set (all writer ops, Flush, all reader ops of any size incl. 0 and more than available, both releases, recycle, the reused reset slice, allocate/overwrite/free by other owners) the model never panics and agrees op by op with the byte queue (bytes, n, Len of both buffers, Peek consumes nothing, oversized reads block), independent of transport (single slice, multi-slice, heap fallback, chains with empty slices, fallback after shm). C06_no_panic, C06_step (the invariant), C06_move_to (transfer lemma), C06_write_bytes / C06_reserve (writer refinement in every allocator state), size-0 regression theorems. Two transports: the model's flush takes the sticky fallback flag from Gen/SwitchC07.v (translated from Stream.Flush; C06's proof is about that variant), C06_transport_keeps_order (any resumption pattern of a queue-first receiver delivers in flush order) and C06_nonsticky_transport_reorders. Both directions of a stream pair (Model dstep, swap decision of Stream.ReleaseReadAndReuse translated from stream.go on every run into Gen/SwitchC06.v): theorem C06_duplex - for every configuration and every op sequence of both directions incl. ReleaseReadAndReuse by either stream (swap, adopted slice, echo) the model agrees op by op with two byte queues and never panics, under the explicit guard that ReleaseReadAndReuse is not called with written-but-unflushed bytes (C06_duplex_unguarded_refuted: without the guard the swap moves them into the read buffer - the documented misuse); C06_reuse_keeps_unread; C06_duplex_invariant_op/_reuse.",
    "level_note": "Trusted: coqc kernel; the hand-written model is tied to /repo by sampled differential runs (sizes relative to slice capacities, exhaustion, fallback, empty slices in chains); negative sizes and uint32 truncation of sizes are outside the model; sequential (one writer, one reader per direction; the lock-free allocator is C01/C02); Stream.Flush is mirrored without queue/socket (level (i)).",
}

SWITCH_FILE = os.path.join(core.COQ, "theories", "Gen", "SwitchC06.v")
CONJ_LEN0 = "s.recvBuf.len == 0"
CONJ_ONE = "s.recvBuf.sliceList.size() == 1"


def scan_reuse():
    """Translator (mechanism G) for the swap decision of Stream.ReleaseReadAndReuse in stream.go.
    Returns ((need_len0, need_one), error).  The body must be exactly
        s.recvBuf.releasePreviousReadAndReserve()
        if <conjunction of the two known tests> { s.recvBuf, s.sendBuf = s.sendBuf, s.recvBuf }
    anything else is an unknown shape (broken correspondence)."""
    try:
        src = gosrc.read("stream.go")
    except OSError as ex:
        return None, "cannot read stream.go: %s" % ex
    m = re.search(r"func \(s \*Stream\) ReleaseReadAndReuse\(\) \{(.*?)\n}\n", src, re.S)
    if not m:
        return None, "cannot find Stream.ReleaseReadAndReuse in stream.go"
    body = re.sub(r"/\*.*?\*/", "", m.group(1), flags=re.S)
    body = re.sub(r"//[^\n]*", "", body)
    stmts = [l.strip() for l in body.splitlines() if l.strip()]
    swap = "s.recvBuf, s.sendBuf = s.sendBuf, s.recvBuf"
    if not stmts or stmts[0] != "s.recvBuf.releasePreviousReadAndReserve()":
        return None, "Stream.ReleaseReadAndReuse no longer starts with releasePreviousReadAndReserve(): %r" % (stmts,)
    # accepted shapes:  if C { swap }   and the equivalent nesting   if C1 { if C2 { swap } }   (C, C1, C2 conjunctions)
    rest = stmts[1:]
    conds = []
    while rest and re.match(r"^if (.*) \{$", rest[0]):
        conds.append(re.match(r"^if (.*) \{$", rest[0]).group(1))
        rest = rest[1:]
    if not conds or rest != [swap] + ["}"] * len(conds):
        return None, "Stream.ReleaseReadAndReuse no longer has the shape the model mirrors (release; if cond { swap }, ifs possibly nested): %r" % (stmts,)
    conj = [c.strip() for cond in conds for c in cond.split("&&")]
    if not conj or any(c not in (CONJ_LEN0, CONJ_ONE) for c in conj) or len(set(conj)) != len(conj):
        return None, "Stream.ReleaseReadAndReuse: swap condition %r is not a conjunction of the two known tests" % (" && ".join(conds),)
    return (CONJ_LEN0 in conj, CONJ_ONE in conj), None


def write_switch(sw):
    txt = ("(* GENERATED from /repo's stream.go by props/C06.py (mechanism G for the swap decision of\n"
           "   Stream.ReleaseReadAndReuse, used by Model/LinkedBuffer.dstep). Do not edit. *)\n"
           "(* true: the swap requires recvBuf.len == 0 *)\n"
           "Definition sw_reuse_needs_len0 : bool := %s.\n"
           "(* true: the swap requires recvBuf.sliceList.size() == 1 *)\n"
           "Definition sw_reuse_needs_one_slice : bool := %s.\n" % tuple("true" if x else "false" for x in sw))
    with core.Lock("coq"):
        old = open(SWITCH_FILE).read() if os.path.exists(SWITCH_FILE) else None
        if old != txt:
            with open(SWITCH_FILE, "w") as fh:
                fh.write(txt)


SWITCH8_FILE = os.path.join(core.COQ, "theories", "Gen", "SwitchC08.v")


def scan_sweep():
    """Translator for the sweep of the callback goroutine (stream.go, startCallbackGoroutine): after the OnData loop
    `if <cond> { s.pendingData.clear(); s.recvBuf.recycle() }`.  Returns (needs_closed, error)."""
    try:
        src = open(os.path.join(core.REPO, "stream.go")).read()
    except OSError as ex:
        return None, "cannot read stream.go: %s" % ex
    i = src.find("func (s *Stream) startCallbackGoroutine() {")
    if i < 0:
        return None, "cannot find Stream.startCallbackGoroutine in stream.go"
    j = src.find("\n}\n", i)
    body = re.sub(r"/\*.*?\*/", "", src[i:j], flags=re.S)
    body = re.sub(r"//[^\n]*", "", body)
    flat = re.sub(r"\s+", " ", body)
    ms = re.findall(r"if ([^{}]*) \{ s\.pendingData\.clear\(\) s\.recvBuf\.recycle\(\) \}", flat)
    if len(ms) != 1 or flat.count("s.recvBuf.recycle()") != 1:
        return None, "startCallbackGoroutine no longer has exactly one guarded sweep `if cond { pendingData.clear(); recvBuf.recycle() }`"
    cond = ms[0].strip()
    if cond == "s.getStreamState() == uint32(streamClosed)":
        return True, None
    if cond == "!s.IsOpen()":
        return False, None
    return None, "startCallbackGoroutine: unknown sweep condition %r" % cond


def write_switch8(needs_closed):
    txt = ("(* GENERATED from /repo's stream.go by props/C06.py (mechanism G for the sweep of the callback goroutine,\n"
           "   used by Model/LinkedBuffer.step RPeerClose). Do not edit. *)\n"
           "(* true: the sweep after the OnData loop (pendingData.clear + recvBuf.recycle) runs only when the stream is\n"
           "   CLOSED locally; false: it also runs when only the peer has closed (half closed) *)\n"
           "Definition sw_sweep_needs_closed : bool := %s.\n" % ("true" if needs_closed else "false"))
    with core.Lock("coq"):
        old = open(SWITCH8_FILE).read() if os.path.exists(SWITCH8_FILE) else None
        if old != txt:
            with open(SWITCH8_FILE, "w") as fh:
                fh.write(txt)


def set_sticky(path, sticky):
    """Rewrite the definition of sw_fallback_sticky in Gen/SwitchC07.v (same text C07's plugin writes)."""
    with core.Lock("coq"):
        old = open(path).read()
        txt, n = re.subn(r"(Definition sw_fallback_sticky : bool := )(true|false)\.", r"\g<1>%s." % ("true" if sticky else "false"), old)
        if n != 1:
            raise RuntimeError("Gen/SwitchC07.v has no definition of sw_fallback_sticky")
        if txt != old:
            with open(path, "w") as fh:
                fh.write(txt)


def ensure_switch(run):
    sw, err = scan_reuse()
    if err:
        run.add_corr_break("G: " + err, shape=True)
        sw = (True, True)      # the model keeps the shape it was proved for; the harness decides
    write_switch(sw)
    # the sticky fallback flag of Stream.Flush: C07's translator and switch file (Gen/SwitchC07.v) are reused;
    # only the line of sw_fallback_sticky is refreshed here (the other switches of that file are C07's)
    try:
        from props import C07 as c07
        sticky, _desc, serr = c07.scan_switch()
        if serr:
            run.add_corr_break("G: " + serr, shape=True)
        else:
            set_sticky(c07.SWITCH_FILE, sticky)
    except Exception as ex:  # C07's plugin not importable: keep the file that is there
        run.add_corr_break("G: the translator of Stream.Flush's fallback flag (props/C07.py scan_switch) is not usable: %r" % (ex,), shape=True)
    nc, err8 = scan_sweep()
    if err8:
        run.add_corr_break("G: " + err8, shape=True)
        nc = True
    write_switch8(nc)
    return sw


KOP = {"WB": "WBytes", "WS": "WString", "WR": "WReserve", "WW": "WWrite"}
KRD = {"RB": "RBytes", "PK": "RPeek", "DC": "RDiscard", "RS": "RString", "RD": "RRead"}


def op_to_coq(o):
    d = "true" if o.get("d", 0) else "false"
    if o["k"] == "RU":
        return "DReuse %s" % d
    return "DOp %s (%s)" % (d, op1_to_coq(o))


def op1_to_coq(o):
    k = o["k"]
    n = o.get("n", 0)
    a = o.get("a", 0)
    if k in KOP:
        return "%s (kb %d%%Z %d)" % (KOP[k], a, n)
    if k == "WY":
        return "WByte (kbyte %d%%Z)" % a
    if k == "FL":
        return "WFlush"
    if k == "WA":
        return "WAdopt %d" % n
    if k in KRD:
        return "%s %d" % (KRD[k], n)
    if k == "RY":
        return "RByte"
    if k == "RL":
        return "RRelease"
    if k == "CL":
        return "RClose"
    if k == "PC":
        return "RPeerClose"
    if k == "OA":
        return "OAlloc %d" % n
    if k == "OF":
        return "OFill %d (fb %d 256)" % (a, n)
    if k == "OX":
        return "OFree %d" % a
    raise ValueError(k)


def obs_to_coq(o):
    return ("{| o_cls := %s; o_n := %s; o_dlen := %s; o_dhash := %s; o_rlen := %s; o_slen := %s; o_rlen1 := %s; o_slen1 := %s; o_free := %s |}"
            % (core.z(o["c"]), core.z(o["n"]), core.z(o["dl"]), core.z(o["dh"]), core.z(o["rl"]), core.z(o["sl"]),
               core.z(o.get("rl1", 0)), core.z(o.get("sl1", 0)),
               core.coq_list(["%s%%Z" % core.z(x) for x in (o.get("fr") or [])])))


def case_to_coq(c):
    cfg = core.coq_list(["(%d, %d)" % (a, b) for a, b in (c.get("cfg") or [])])
    return "{| c_cfg := %s; c_ops := %s; c_obs := %s |}" % (
        cfg, core.coq_list([op_to_coq(o) for o in (c.get("ops") or [])]), core.coq_list([obs_to_coq(o) for o in (c.get("obs") or [])]))


FIELD = {1: "outcome class (ok/error/panic/blocked)", 2: "numeric result", 3: "length of the returned bytes",
         4: "returned bytes", 5: "Len() of the receive buffer", 6: "Len() of the send buffer",
         7: "per-class free counts", 8: "the model's lease is no longer valid", 9: "length of the run",
         10: "Len() of the receive buffer of the echo direction", 11: "Len() of the send buffer of the echo direction"}


def _eval_chunk(prop, chunk, k, tag):
    txt = ["From Coq Require Import List ZArith.",
           "From Shm Require Import Gen.Consts Model.LinkedBuffer Corr.LinkedBufferCorr.",
           "Import ListNotations.", "Close Scope Z_scope.", "Open Scope nat_scope.",
           "Definition cases : list lcase := ["]
    txt.append(";\n".join(case_to_coq(c) for c in chunk))
    txt.append("].")
    txt.append("Definition M := Eval vm_compute in mismatches cases.")
    txt.append("Print M.")
    rc, out, _ = core.coq_eval("cases_%s_%s_%d_%d" % (prop, tag, os.getpid(), k), "\n".join(txt))
    if rc != 0:
        raise RuntimeError("coqc on the generated cases failed: " + out[-1500:])
    m = re.search(r"M\s*=\s*(.*?)\s*:\s*list", out, re.S)
    if not m:
        raise RuntimeError("cannot parse the mismatch list: " + out[-500:])
    body = m.group(1).strip()
    bad = []
    if body != "[]":
        for mm in re.finditer(r"\((\d+),\s*(\d+),\s*\(?(-?\d+)\)?(?:%Z)?\)", body):
            bad.append((k + int(mm.group(1)), int(mm.group(2)), int(mm.group(3))))
        if not bad:
            bad.append((k, -1, -1))
    return bad


def eval_cases(prop, cases, tag):
    """the model on the same histories (vm_compute); chunks are evaluated by parallel coqc processes"""
    from concurrent.futures import ThreadPoolExecutor
    workers = max(1, min(10, (os.cpu_count() or 2) * 2 // 3))
    nch = max(1, min(workers, (len(cases) + 19) // 20))
    # strided chunks: the expensive histories (heap slices of 4096 bytes, level (ii)) are spread evenly
    idxs = [list(range(j, len(cases), nch)) for j in range(nch)]
    bad = []
    with ThreadPoolExecutor(max_workers=workers) as ex:
        for j, r in enumerate(ex.map(lambda ix: _eval_chunk(prop, [cases[i] for i in ix], 0, "%s_%d" % (tag, ix[0])), idxs)):
            for (loc, pos, kind) in r:
                bad.append((idxs[j][loc] if 0 <= loc < len(idxs[j]) else -1, pos, kind))
    return sorted(bad)


def run_harness(prop, test, n, seed, tag, files=None, n2=None):
    outp = os.path.join(core.WORK, "%s_%s_%d.jsonl" % (prop.lower(), tag, os.getpid()))
    envv = {"VERIF_OUT": outp, "VERIF_N": str(n), "VERIF_SEED": str(seed)}
    if n2 is not None:
        envv["VERIF_N2"] = str(n2)     # level (ii): histories on real session pairs
    rc, out, secs = core.go_test(prop, "^%s$" % test, envv, timeout=900, files=files)
    if rc != 0 or not os.path.exists(outp):
        return None, "harness failed (rc=%d): %s" % (rc, out[-2500:])
    cases = [json.loads(l) for l in open(outp)]
    os.unlink(outp)
    return cases, None


def short_case(c, upto=None):
    allops, allobs = c.get("ops") or [], c.get("obs") or []
    ops = allops if upto is None else allops[:upto + 1]
    return {"id": c["id"], "mode": c.get("mode"), "cfg": c.get("cfg") or [], "ops": ops,
            "obs": (allobs if upto is None else allobs[:upto + 1]), "feat": c.get("feat")}


def digest(prop, run, cases, own_prefix):
    """oracle failures -> run; returns (feature histogram, distinct nontrivial count, op histogram)"""
    feats, ops, distinct = {}, {}, set()
    for c in cases:
        for m in c.get("oracle") or []:
            sig, _, what = m.partition("|")
            if sig == "harness":
                run.add_corr_break("D: " + what, short_case(c))
                continue
            # a history is reported under one property only: C06 reports C06:* signatures, C08 reports C08:*
            if not sig.startswith(own_prefix):
                continue
            run.add_oracle_failure(sig, what, short_case(c))
        fs = set(c.get("feat") or [])
        if fs & {"multi-slice-read", "fallback", "blocked", "panic"}:
            distinct.add(json.dumps([(c.get("cfg") or []), (c.get("ops") or [])]))
        for f in fs:
            feats[f] = feats.get(f, 0) + 1
        for o in c.get("ops") or []:
            ops[o["k"]] = ops.get(o["k"], 0) + 1
    return feats, len(distinct), ops


def correspond(prop, run, cases, tag):
    try:
        bad = eval_cases(prop, cases, tag)
    except RuntimeError as ex:
        run.add_corr_break("D: model evaluation failed: %s" % ex)
        return
    for (idx, pos, kind) in bad[:20]:
        c = cases[idx] if 0 <= idx < len(cases) else {}
        opd = c.get("ops", [])[pos] if c and 0 <= pos < len(c.get("ops", [])) else None
        run.add_corr_break("D: case %s op %s %s: model and implementation differ in %s"
                           % (c.get("id"), pos, opd, FIELD.get(kind, "?")), short_case(c, pos) if c else None)


def size_distribution(cases):
    """sizes relative to the class capacities of the case"""
    d = {}
    for c in cases:
        caps = [a for a, _ in (c.get("cfg") or [])]
        if not caps:
            continue
        for o in (c.get("ops") or []):
            if o["k"] not in ("WB", "WR", "WS", "WW", "RB", "PK", "DC", "RS", "RD"):
                continue
            n = o.get("n", 0)
            if n == 0:
                k = "0"
            elif n > max(caps):
                k = ">max"
            elif n in caps:
                k = "=c"
            elif n + 1 in caps:
                k = "c-1"
            elif n - 1 in caps:
                k = "c+1"
            elif n < min(caps):
                k = "<min"
            else:
                k = "between"
            d[k] = d.get(k, 0) + 1
    return d


def check(run):
    data, gerr = gen.regenerate()
    if gerr:
        run.add_corr_break("G: " + gerr)
    sw = ensure_switch(run)
    run.proof = core.proof_step(PROP, run.tier)
    n = 400 if run.tier == "quick" else 12000
    n2 = 40 if run.tier == "quick" else 1000
    cases, err = run_harness(PROP, "TestVerif_C06", n, run.seed, run.tier, n2=n2)
    if err:
        run.add_corr_break("D: " + err)
        cases = []
    # self-test: a small slice of what the violation search would run (its seed, both levels), on every run
    st_cases, st_err = run_harness(PROP, "TestVerif_C06", 40, run.seed + 7919, run.tier + "_st", n2=20)
    if st_err:
        run.add_corr_break("D: search self-test: " + st_err)
        st_cases = []
    for c in st_cases:
        c["id"] = "st%s" % c["id"]
    cases = cases + st_cases
    feats, distinct, ops = digest(PROP, run, cases, "C06:")
    if cases:
        correspond(PROP, run, cases, run.tier)
    run.coverage.update({
        "evaluations": len(cases), "distinct_nontrivial": distinct,
        "rule": "a case = (size classes with slot counts, op sequence incl. slots pre-held by others) run on the real linkedBuffer pair; "
                "non-trivial = a read spanning several slices, a fallback flush, a blocked read or a reproduced panic; distinct by (config, ops)",
        "samples": [short_case(c) for c in cases[2:4]],
        "features": feats, "ops": ops, "sizes_relative_to_class_caps": size_distribution(cases),
        "total_ops": sum(len((c.get("ops") or [])) for c in cases),
        "search_selftest_histories": len(st_cases),
        "switch_reuse_swap_needs": {"recvBuf.len == 0": sw[0], "sliceList.size() == 1": sw[1]},
        "level_i_histories": sum(1 for c in cases if c.get("mode") not in ("c06s", "c06m")),
        "level_ii_histories": sum(1 for c in cases if c.get("mode") in ("c06s", "c06m")),
        "level_ii_mixed_transport_histories": sum(1 for c in cases if c.get("mode") == "c06m"),
        "level_ii_note": "level (ii) = real session pair, real Stream.Flush/writeFallback/socket/event loop/handleFallbackData/readMore; "
                         "all shm slots held by the harness so every flush is a fallback delivery; the reader lags behind several arrivals; "
                         "the model evaluates these histories with no size class (cfg = []); mixed transport (c06m): real session pair with ONE 4096-byte class and free shm, one stream alternates "
                         "socket-sized (Reserve above the class) and shm-sized flushes while the receiver's event loop is blocked in a helper stream's callback, then the reader's byte sequence is compared",
    })
    run.assumptions += [
        "sizes are non-negative and below 2^31 (negative sizes move the indices backwards in Discard/Reserve; uint32 truncation not modelled)",
        "level (i): Stream.Flush is mirrored without the queue / the socket, the receiver side runs the real moveToWithoutLock through the real readMore; level (ii): real session pairs, fallback transport only (the shm queue transport of real sessions is C07's subject)",
        "one writer and one reader goroutine per direction (sequential model)"]

    def search():
        cs, e = run_harness(PROP, "TestVerif_C06", 4000, run.seed + 7919, "search", n2=200)
        found = []
        for c in cs or []:
            for m in c.get("oracle") or []:
                sig, _, what = m.partition("|")
                if sig.startswith("C06:") or sig.startswith("C08:"):
                    found.append({"signature": sig, "what": what, "case": short_case(c)})
        return found
    return run.finish(search)


def replay(path):
    r = json.load(open(path))
    print(json.dumps(r, indent=1)[:6000])
    print("re-run: VERIF_SEED=%s ./check C06 --tier %s" % (r.get("seed"), r.get("tier")))
    return 0
