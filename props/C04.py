# C04 — the IO queue delivers every element exactly once, intact and in order.
# proof: Props/C04.v (Model/Queue.v, Proofs/QueueProofs.v); tie: G (offsets, element size) + S (real
# queue.put/pop under a controlled scheduler, access-by-access trace compared with the model).
import json, os, re
from vlib import core, gen, sched

PROP = "C04"
META = {
    "technique": "Coq proof: inductive invariant over all schedules of an access-granular model of queue.put/pop; tie: generated offsets + real instrumented put/pop under a controlled scheduler compared access by access with the model",
    "level_text": "Theorems C04_delivery/bound/per_producer/honest_full/put_mutex/log_owned hold for every capacity > 0, any number of producers, all programs and all schedules (induction over the schedule). The model is tied to /repo's queue.go by regenerated constants and by running the real put/pop, instrumented from the current source, under hundreds of controlled schedules whose access traces must equal the model's; an independent FIFO/exactly-once/bound/honest-full oracle runs on every case.",
    "level_note": "Trusted: coqc kernel; sequential consistency of the instrumented accesses; go/verisched instrumenter + scheduler; schedules are sampled (random, sticky, systematic single pre-emption), not exhaustive; head/tail below 2^63; one consumer.",
}


def elem(e):
    return "{| f1 := %s; f2 := %s; f3 := %s |}" % (core.z(e[0]), core.z(e[1]), core.z(e[2]))


def who(tid, nprod):
    return "None" if tid == nprod else "Some %d%%nat" % tid


def event(ev):
    if ev is None:
        return "None"
    cell = ev["o"] if ev["r"] == 0 else ev["r"]
    return "ev %s %s %s %s %s" % (core.z(ev["k"]), core.z(cell), core.z(ev["a"]), core.z(ev["b"]), core.z(ev["c"]))


def case_to_coq(c):
    nprod = len(c["progs"])
    progs = core.coq_list([core.coq_list([elem(e) for e in p]) for p in c["progs"]])
    sch = core.coq_list([who(s["tid"], nprod) for s in c["steps"]])
    evs = core.coq_list([event(s["ev"]) for s in c["steps"]])
    res = core.coq_list([core.coq_list(["true" if b else "false" for b in (r or [])]) for r in c["results"]])
    out = core.coq_list([("Some " + elem(e)) if e is not None else "None" for e in (c["out"] or [])])
    return ("{| q_cap := %s; q_progs := %s; q_npop := %d%%nat; q_sched := %s; q_events := %s; q_results := %s; q_out := %s |}"
            % (core.z(c["cap"]), progs, c["npop"], sch, evs, res, out))


def eval_cases(cases, tag):
    """Returns list of (case index, kind, pos) mismatches, or raises."""
    bad = []
    SH = 500
    for k in range(0, len(cases), SH):
        chunk = cases[k:k + SH]
        txt = ["From Coq Require Import List ZArith.", "From Shm Require Import Gen.Consts Model.Queue Corr.QueueCorr.",
               "Import ListNotations.", "Open Scope Z_scope.",
               "Definition cases : list qcase := ["]
        txt.append(";\n".join(case_to_coq(c) for c in chunk))
        txt.append("].")
        txt.append("Definition M := Eval vm_compute in mismatches cases.")
        txt.append("Print M.")
        rc, out, _ = core.coq_eval("cases_%s_%s_%d_%d" % (PROP, tag, os.getpid(), k), "\n".join(txt))
        if rc != 0:
            raise RuntimeError("coqc on the generated cases failed: " + out[-1500:])
        m = re.search(r"M\s*=\s*(.*?)\s*:\s*list", out, re.S)
        if not m:
            raise RuntimeError("cannot parse the mismatch list: " + out[-500:])
        body = m.group(1).strip()
        if body != "[]":
            for mm in re.finditer(r"\((\d+)%?n?a?t?,\s*\(?(-?\d+)\)?(?:%Z)?,\s*(None|Some\s+(\d+))", body):
                bad.append((k + int(mm.group(1)), int(mm.group(2)), mm.group(4)))
            if not bad:
                bad.append((k, -1, body[:200]))
    return bad


def run_harness(run, n, seed, tag):
    ov, rep, err = sched.instrument(["queue.go"])
    if err:
        return None, err
    outp = os.path.join(core.WORK, "c04_%s_%d.jsonl" % (tag, os.getpid()))
    rc, out, secs = core.go_test(PROP, "^TestVerif_C04$", {"VERIF_OUT": outp, "VERIF_N": str(n), "VERIF_SEED": str(seed)},
                                 extra_replace=ov, timeout=1200)
    if rc != 0:
        return None, "harness failed (rc=%d): %s" % (rc, out[-2500:])
    cases = [json.loads(l) for l in open(outp)]
    os.unlink(outp)
    return cases, None


def signature(msg):
    return "C04:" + re.sub(r"[\[\(].*?[\]\)]|\d+", "#", msg)[:60]


def check(run):
    data, gerr = gen.regenerate()
    if gerr:
        run.add_corr_break("G: " + gerr)
    run.proof = core.proof_step(PROP, run.tier)
    n = 300 if run.tier == "quick" else 6000
    cases, err = run_harness(run, n, run.seed, run.tier)
    feats = {}
    distinct = set()
    if err:
        run.add_corr_break("S: " + err)
        cases = []
    for c in cases:
        for m in c.get("oracle") or []:
            run.add_oracle_failure(signature(m), m, {k: c[k] for k in ("id", "strat", "cap", "progs", "npop", "results", "out")} | {"schedule": [s["tid"] for s in c["steps"]]})
        key = json.dumps([c["cap"], c["progs"], c["npop"], [s["tid"] for s in c["steps"]]])
        if c.get("feat"):
            distinct.add(key)
        for f in set(c.get("feat") or []):
            feats[f] = feats.get(f, 0) + 1
    if cases and run.proof.get("ok") or cases:
        try:
            bad = eval_cases(cases, run.tier)
        except RuntimeError as ex:
            bad = []
            run.add_corr_break("S: model evaluation failed: %s" % ex)
        for (idx, kind, pos) in bad[:20]:
            c = cases[idx] if idx < len(cases) else {}
            what = {1: "access trace differs from the model at step %s" % pos, 2: "put results differ from the model",
                    3: "pop results differ from the model"}.get(kind, "model/implementation mismatch")
            run.add_corr_break("S: case %s (%s): %s" % (c.get("id"), c.get("strat"), what),
                               {"id": c.get("id"), "cap": c.get("cap"), "progs": c.get("progs"), "npop": c.get("npop"),
                                "schedule": [s["tid"] for s in c.get("steps", [])], "diverges_at": pos,
                                "impl_events_around": c.get("steps", [])[max(0, int(pos or 0) - 2):int(pos or 0) + 3] if pos else None})
    strat = {}
    for c in cases:
        s = re.sub(r"\(.*", "", c["strat"])
        strat[s] = strat.get(s, 0) + 1
    run.coverage.update({
        "evaluations": len(cases), "distinct_nontrivial": len(distinct),
        "rule": "a case = (capacity, producer programs, number of pops, schedule) run on the real instrumented queue.put/pop; "
                "non-trivial = index wrap-around, a put that found the queue full, lock contention or >=3 context switches; distinct by (config, schedule)",
        "samples": [{"cap": c["cap"], "progs": c["progs"], "npop": c["npop"], "strat": c["strat"],
                     "schedule": [s["tid"] for s in c["steps"]], "results": c["results"], "out": c["out"]} for c in cases[:2]],
        "strategies": strat, "features": feats,
        "capacities": sorted({c["cap"] for c in cases}),
        "total_steps": sum(len(c["steps"]) for c in cases),
    })
    run.assumptions += [
        "sequential consistency of the instrumented accesses (plain slot accesses are data races in Go's memory model)",
        "head/tail do not reach 2^63 (the model uses unbounded Z)",
        "single consumer per queue (as in the session: only the event loop pops)",
        "the instrumenter go/verisched preserves the semantics of queue.go apart from added scheduling points"]

    def search():
        cs, e = run_harness(run, 3000, run.seed + 7919, "search")
        found = []
        for c in cs or []:
            for m in c.get("oracle") or []:
                found.append({"signature": signature(m), "what": m,
                              "case": {k: c[k] for k in ("id", "strat", "cap", "progs", "npop", "results", "out")} | {"schedule": [s["tid"] for s in c["steps"]]}})
        return found
    return run.finish(search)


def replay(path):
    r = json.load(open(path))
    print(json.dumps(r, indent=1)[:4000])
    print("re-run: VERIF_SEED=%s ./check C04 --tier %s" % (r.get("seed"), r.get("tier")))
    return 0
