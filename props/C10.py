# C10 — stream close is final, propagates to the peer and is reported exactly once.
# proof: Props/C10.v (Model/StreamState.v, Proofs/StreamStateProofs.v); tie: T (real client/server session
# pairs, generated close scenarios, property clauses on the observables of both ends) + S (the real
# Close/close/halfClose/goroutine exit path under the controlled scheduler, compared with the model; shared
# driver with C20).
import json, os, re
from vlib import core, gen
from props import C20 as S

PROP = "C10"
META = {
    "technique": "Coq proof: monotone state machine + counting invariants (close accounting, table, notifications, 'whoever must finish the close is still there') over all schedules of an access-granular model of Close/close/halfClose and the callback goroutine's exit path, lifted to two ends joined by FIFO inboxes; tie: real session pairs driven through generated close scenarios (T) and the real instrumented stream.go under a controlled scheduler compared access by access with the model (S)",
    "level_text": "C10_monotone, C10_callbacks_at_most_once, C10_final_flush, C10_peer and the full statement C10_full (at quiescence after a returned Close(): closed, out of the table, exactly one close callback, peer told unless it told us) hold for every schedule, any number of concurrent/repeated Close calls from any goroutine (inside OnData, while OnData runs, racing the peer's close notification), either mode; C10_propagates lifts it to both ends. The three former refutations (Close inside OnData, Close while OnData runs, close() losing its state CAS) were repaired in stream.go and are regression scenarios/examples. Calls already pending at the close: C10_wake (closeNotifyCh is closed once nobody stands between the state transition and its report), C10_close_wakes_parked (a close() that waits for the callback goroutine has closed it before the Wait) and C10_parked_woken_by_close (an OnData parked in a read leaves its select); the harness compares closeNotifyCh with the model at the end of every controlled run (either mode), parks an OnData in a read across Close() calls under the scheduler, and parks real synchronous readers across a local / a peer close. One forced hypothesis remains (callbacks installed before the run or SetCallbacks not racing Close: C10_setcallbacks_race_refuted, a two-instruction window).",
    "level_note": "Known finding kept: data in flight to a stream the server already closed re-creates the stream id (session.getStream; protocol-level). Trusted: coqc kernel; sequential consistency; go/verisched; the session stays open (Session.Close is C14's); one FIFO transport (C07 owns queue/socket re-ordering); T scenarios are sampled real runs with generous time bounds, S schedules are sampled (random, sticky, systematic single pre-emption) plus the deterministic former-witness schedules.",
}

SIG_INSIDE = "C10:Close-inside-OnData-no-peer-notification-no-OnLocalClose"
SIG_DURING = "C10:Close-while-OnData-runs-no-peer-notification-no-OnLocalClose"
SIG_CAS = "C10:close-loses-state-CAS-returns-nil-stream-not-closed"
SIG_GHOST = "C10:data-in-flight-to-locally-closed-server-stream-recreates-stream-id"
SIG_SELFWAIT = "C10:Close-inside-OnData-waits-for-its-own-goroutine"
SIG_FLUSH = "C10:Flush-after-a-returned-Close-succeeds"
SIG_RESIDUE = "C10:late-arrival-moved-into-recvBuf-after-clean-is-never-recycled"


def t_signature(c, msg):
    sc = c.get("scenario")
    if msg.startswith("SIG:"):
        return msg[4:].split("|")[0]
    if msg.startswith("setup:"):
        return "C10:harness-setup-failed"
    if msg.startswith("ghost:"):
        return SIG_GHOST
    if sc in ("inside-ops", "during-ops") and msg.startswith("finality:"):
        return SIG_FLUSH
    if sc in ("inside-twice", "inside-after-peer-close"):
        return SIG_SELFWAIT if "did not return" in " ".join(c.get("oracle") or []) else "C10:" + sc + ":" + re.sub(r"\d+", "#", msg)[:60]
    if sc == "inside":
        return SIG_INSIDE
    if sc == "during":
        return SIG_DURING
    o = c.get("obs") or {}
    if c.get("mode") == "callback" and (
            (o.get("closer_local") == 0 and o.get("closer_remote") == 0 and o.get("closer_state") == 1) or
            (o.get("peer_local") == 0 and o.get("peer_remote") == 0 and o.get("peer_state") == 1)):
        # fingerprint of the half-close branch of Close(): an end is closed without having received any close
        # callback.  By the accounting invariant (InvA.b_acc: nlocal + nremote + pending + lhalf = 1 once the
        # state has left opened) this happens at quiescence exactly when Close() took its silent half-close branch.
        return SIG_DURING
    return "C10:" + re.sub(r"\d+", "#", msg)[:70]


def s_signature(msg):
    if msg.startswith("SIG:"):
        return msg[4:].split("|")[0]
    return "C10:S:" + re.sub(r"\d+", "#", msg)[:70]


def run_t(n, seed, tag):
    outp = os.path.join(core.WORK, "c10t_%s_%d.jsonl" % (tag, os.getpid()))
    files = core.harness_files("C20") + [f for f in core.harness_files("C10") if not os.path.basename(f).startswith("common_")]
    rc, out, secs = core.go_test(PROP, "^TestVerif_C10$", {"VERIF_OUT": outp, "VERIF_N": str(n), "VERIF_SEED": str(seed)},
                                 timeout=1500, files=files)
    if rc != 0:
        return None, "T harness failed (rc=%d): %s" % (rc, out[-2500:])
    cases = [json.loads(l) for l in open(outp)]
    os.unlink(outp)
    return cases, None


def check(run):
    data, gerr = gen.regenerate()
    if gerr:
        run.add_corr_break("G: " + gerr)
    run.proof = core.proof_step(PROP, run.tier)
    quick = run.tier == "quick"
    # ---- S ----
    scases, _, err = S.run_harness("TestVerif_C10S", "C10", 160 if quick else 5000, run.seed, run.tier)
    feats = {}
    if err:
        run.add_corr_break("S: " + err)
        scases = []
    for c in scases:
        for m in c.get("oracle10") or []:
            run.add_oracle_failure(s_signature(m), m, S.brief(c))
        for f in set(c.get("feat") or []):
            feats[f] = feats.get(f, 0) + 1
    cmp_cases = [c for c in scases if c.get("cmp") and c.get("steps") is not None]
    if cmp_cases:
        try:
            bad = S.eval_cases(cmp_cases, run.tier, PROP)
        except RuntimeError as ex:
            bad = []
            run.add_corr_break("S: model evaluation failed: %s" % ex)
        for (idx, kind, pos) in bad[:20]:
            c = cmp_cases[idx] if idx < len(cmp_cases) else {}
            what = S.KIND.get(kind, "model/implementation mismatch")
            if kind == 1:
                what = what % pos
            b = S.brief(c)
            if pos:
                b["impl_events_around"] = c.get("steps", [])[max(0, int(pos) - 2):int(pos) + 3]
            run.add_corr_break("S: case %s (%s, %s): %s" % (c.get("id"), c.get("kind"), c.get("strat"), what), b)
    # ---- T ----
    tcases, err = run_t(24 if quick else 600, run.seed, run.tier)
    if err:
        run.add_corr_break("T: " + err)
        tcases = []
    scen = {}
    skipped = [c for c in tcases if c.get("skipped")]
    if tcases and len(skipped) * 4 > len(tcases):
        run.add_corr_break("T: %d of %d scenarios could not be set up (%s)" % (len(skipped), len(tcases), skipped[0]["skipped"]))
    tcases = [c for c in tcases if not c.get("skipped")]
    for c in tcases:
        for m in c.get("oracle") or []:
            run.add_oracle_failure(t_signature(c, m), m, c)
        k = c["mode"] + "/" + c["scenario"]
        scen[k] = scen.get(k, 0) + 1
    distinct = {json.dumps([c["inb"], c["ncl"], c.get("script"), c["final"], sorted(set(c.get("feat") or []))]) for c in scases if c.get("feat")}
    distinct |= {json.dumps([c["mode"], c["scenario"], c["pre"], c["peer_pre"]]) for c in tcases}
    run.coverage.update({
        "evaluations": len(scases) + len(tcases), "s_cases": len(scases), "s_compared_with_model": len(cmp_cases), "s_truncated_runs_not_compared": len([c for c in scases if c.get("truncated")]), "t_cases": len(tcases), "t_skipped_setup": len(skipped),
        "distinct_nontrivial": len(distinct),
        "rule": "S case = (inbound events incl. peer close, Close() threads, OnData script incl. Close inside OnData, schedule) on the real instrumented stream.go; "
                "T case = (mode, who closes / both at once / repeated / inside OnData / during OnData / data in flight to a closed stream, traffic before the close) on a real session pair; "
                "non-trivial = has a closer, a peer close, Close inside OnData, a blocked wg.Wait or a second goroutine; distinct by configuration and outcome",
        "samples": [S.brief(c) for c in scases[:1]] + tcases[:1],
        "t_scenarios": scen, "s_features": feats,
        "total_steps": sum(len(c.get("steps") or []) for c in scases),
    })
    run.assumptions += [
        "sequential consistency of the instrumented accesses",
        "the session stays open during the scenario; one FIFO transport to the peer",
        "T: quiescence is awaited with a 4 s bound per condition; a condition not reached within it is reported",
        "Read after a local Close returns ErrEndOfStream (readMore line 142) — accepted as a closed-stream error class",
        "go/verisched preserves the semantics of stream.go apart from added scheduling points"]

    def search():
        found = []
        cs, _, e = S.run_harness("TestVerif_C10S", "C10", 1500, run.seed + 7919, "search")
        for c in cs or []:
            for m in c.get("oracle10") or []:
                found.append({"signature": s_signature(m), "what": m, "case": S.brief(c)})
        ts, e = run_t(60, run.seed + 7919, "search")
        for c in ts or []:
            for m in c.get("oracle") or []:
                found.append({"signature": t_signature(c, m), "what": m, "case": c})
        return found
    return run.finish(search)


def replay(path):
    r = json.load(open(path))
    print(json.dumps(r, indent=1)[:4000])
    print("re-run: VERIF_SEED=%s ./check C10 --tier %s" % (r.get("seed"), r.get("tier")))
    return 0
