# C08 — zero-copy read results stay valid until they are released.
# proof: Props/C08.v (Model/LinkedBuffer.v with ghost leases, Proofs/LinkedBufferProofs.v); tie: D level (i),
# same pipe harness as C06 with a read-heavy op mix: every slice returned by ReadBytes/Peek is re-compared
# after every later op until the release while other owners allocate, overwrite and free slots.
import json, os
from vlib import core, gen
from props import C06 as base

PROP = "C08"
META = {
    "technique": "Coq proof: the pipe's global inductive invariant (ownership of every slot as multiset accounting + ghost leases held by the pinned front slice or a parked slice) preserved by every operation of the model; tie: differential execution of the real linkedBuffer pair against the model (incl. the model's lease check) + an oracle that re-compares every handed-out slice after every later op",
    "level_text": "Theorem C08: in every state reachable by ANY op sequence (writes, flushes, reads of any size, releases, and allocations / overwrites / frees by other owners interleaved arbitrarily) every live lease's slot is in no free list, is not a slice of the send buffer, is held by no other owner, and denotes exactly the bytes handed out; C08_duplex: the same for both directions of a stream pair incl. Stream.ReleaseReadAndReuse with its swap; C08_lease_survives_peer_close: the peer's half close ends no lease (sweep condition of the callback goroutine translated into Gen/SwitchC08.v); callback-mode family on real sessions (results kept past OnData while the peer closes and another owner overwrites every free slot); C08_release_frees: after ReleasePreviousRead every parked slot is free again; C08_lease_only_fast_*: only fast-path ReadBytes/Peek results alias shared memory, every slow-path result is a copy. Results that came through the socket fallback (heap slices) are covered by the level (ii) family: real session pairs, results kept while later events arrive on the connection.",
    "level_note": "Trusted: coqc kernel; model tied to /repo by sampled differential runs (level (i) linkedBuffer pairs incl. the real Stream.ReleaseReadAndReuse; level (ii) real session pairs, fallback transport); sequential histories.",
}

FILES = None


def files():
    hs = core.HARNESS
    fs = sorted(f for f in core.harness_files(PROP))
    return fs + [os.path.join(hs, "c06_common_test.go"), os.path.join(hs, "c06_session_test.go")]


def check(run):
    data, gerr = gen.regenerate()
    if gerr:
        run.add_corr_break("G: " + gerr)
    base.ensure_switch(run)
    run.proof = core.proof_step(PROP, run.tier)
    n = 300 if run.tier == "quick" else 10000
    n2 = 30 if run.tier == "quick" else 800
    cases, err = base.run_harness(PROP, "TestVerif_C08", n, run.seed, run.tier, files=files(), n2=n2)
    if err:
        run.add_corr_break("D: " + err)
        cases = []
    # self-test: a small slice of what the violation search would run (its seed, both families), on every run
    st_cases, st_err = base.run_harness(PROP, "TestVerif_C08", 30, run.seed + 7919, run.tier + "_st", files=files(), n2=15)
    if st_err:
        run.add_corr_break("D: search self-test: " + st_err)
        st_cases = []
    for c in st_cases:
        c["id"] = "st%s" % c["id"]
    cases = cases + st_cases
    feats, distinct, ops = base.digest(PROP, run, cases, "C08:")
    if cases:
        base.correspond(PROP, run, cases, run.tier)
    held = sum(1 for c in cases for o in (c.get("ops") or []) if o["k"] in ("RB", "PK") and o.get("n", 0) > 0)
    run.coverage.update({
        "evaluations": len(cases), "distinct_nontrivial": distinct,
        "rule": "a case = an op history on the real linkedBuffer pair with other owners allocating/overwriting/freeing slots; every ReadBytes/Peek result is kept "
                "and re-compared after each later op until ReleasePreviousRead/releasePreviousReadAndReserve/recycle; non-trivial = a read spanning slices, a fallback flush or a blocked read; distinct by (config, ops)",
        "samples": [base.short_case(c) for c in cases[:2]],
        "features": feats, "ops": ops, "zero_copy_results_tracked": held,
        "total_ops": sum(len((c.get("ops") or [])) for c in cases),
        "level_ii_histories": sum(1 for c in cases if c.get("mode") in ("c08s", "c08cb")),
        "callback_mode_histories": sum(1 for c in cases if c.get("mode") == "c08cb"),
        "search_selftest_histories": len(st_cases),
        "level_ii_note": "real session pairs, every flush through the socket fallback, the reader keeps ReadBytes/Peek results of "
                         "fallback (heap) slices while later events arrive on the connection; model evaluated with cfg = []",
    })
    run.assumptions += [
        "level (i): linkedBuffer pair over a heap-backed bufferManager; Stream.Flush mirrored without queue/socket",
        "sequential histories (one goroutine drives writer, reader and the other owners)"]

    def search():
        cs, e = base.run_harness(PROP, "TestVerif_C08", 3000, run.seed + 7919, "search", files=files(), n2=150)
        found = []
        for c in cs or []:
            for m in c.get("oracle") or []:
                sig, _, what = m.partition("|")
                if sig.startswith("C08:") or sig.startswith("C06:"):
                    found.append({"signature": sig, "what": what, "case": base.short_case(c)})
        return found
    return run.finish(search)


def replay(path):
    r = json.load(open(path))
    print(json.dumps(r, indent=1)[:6000])
    print("re-run: VERIF_SEED=%s ./check C08 --tier %s" % (r.get("seed"), r.get("tier")))
    return 0
