# C03 — both processes derive the same memory layout from any configuration.
# proof: Props/C03.v (Model/Layout.v, Proofs/LayoutProofs.v); tie: G (header sizes, per-field offsets of
# the creating and of the mapping side) + D (real create*/mapping* functions on generated configurations,
# outcome class and geometry compared with the model; independent layout oracle on the Go structures).
import json, os, re
from vlib import core, gen

PROP = "C03"
META = {
    "technique": "Coq proof: integer arithmetic with explicit uint32/uint64 wraps over an executable model of createBufferManager/mappingBufferManager/create*/mapping* queue code, induction over the (size, percent) list; tie: generated constants, per-side field offsets, percent literals and queue half indices + differential execution of the real functions on generated configurations",
    "level_text": "Queues: C03_queues / C03_queues_memfd hold in full (every uint32 capacity, both back-ends, cross-wiring over the generated half indices) since /repo 97d22d3. Buffers and peer view: C03_buffers_config / C03_peer_view_config hold for every configuration VerifyConfig accepts (capacity < 2^32, sizes <= capacity, percent sum = 100 in int) up to the last byte below 4 GiB, under one hypothesis the code does not enforce (the list headers fit: 36*#pairs+8 <= capacity); a size whose stride wraps is rejected since /repo db4e530; C03_buffers_partial / C03_peer_view_partial hold for ARBITRARY uint32 percentages, any pair list and any initial memory below 4 GiB - 36 B; the unrestricted statements are kept and refuted by computed witnesses. C03_peer_view_independent_of_allocation_state: for every value of the size/head/tail words (any allocator history) the peer maps the same classes - extents come from cap/capPerBuffer only. C03_initial_chain: the free chain visits exactly the slots. The model is tied to /repo by regenerated constants/offsets/percent literals/half indices (a creator/mapper mismatch breaks the proof at coqc time) and by an AST pattern over mappingFreeBufferList/mappingBufferManager (extent = countBufferListMemSize(cap, capPerBuffer), never size), and by running the real functions on hundreds of configurations (heap bytes, /dev/shm files, memfds, lazily backed 4 GiB mappings; the creator allocates 0..cap-1 slots per class through the real pop before the peer maps, the peer then pops/pushes at the region end and recycles the creator's slots) whose outcome class and class/queue geometry must equal the model's; an independent oracle checks disjointness, bounds, header placement, peer equality, the initial free chain and queue cross-wiring on the Go structures of every case.",
    "level_note": "Trusted: coqc kernel; cell-granular memory (aligned 4-byte header words); offset argument 0 (all callers); amd64 branch of mappingQueueFromBytes; mmap/ftruncate/memfd semantics of the kernel; configurations are sampled; queue capacities beyond 200000 on the real code: three capacities above 2^32/12 on lazily backed anonymous mappings (put/pop at the last element), the rest only against memory that is too short. Not covered by a theorem: accepted configurations with a capacity within 36 bytes of 4 GiB AND more than 119 million pairs.",
}


def cls(c):
    return ("{| cl_off := %s; cl_regionOff := %s; cl_regionLen := %s; cl_size := %s; cl_cap := %s; cl_head := %s; cl_tail := %s; cl_capPerBuffer := %s |}"
            % tuple(core.z(c[k]) for k in ("off", "roff", "rlen", "size", "cap", "head", "tail", "cpb")))


def que(q):
    return ("{| q_cap := %s; q_head_at := %s; q_tail_at := %s; q_flag_at := %s; q_lo := %s; q_hi := %s |}"
            % tuple(core.z(q[k]) for k in ("cap", "head_at", "tail_at", "flag_at", "lo", "hi")))


KIND = {"Ok": 0, "Err": 1, "Panic": 2, "": 3, None: 3}


def bcase_to_coq(c):
    pairs = core.coq_list(["(%s, %s)" % (core.z(p[0]), core.z(p[1])) for p in c.get("pairs") or []])
    return ("{| b_pairs := %s; b_memLen := %s; b_fill := %s; b_create := %d; b_cclasses := %s; b_listnum := %s; b_usedlen := %s; b_map := %d; b_mclasses := %s; b_alloc := %s |}"
            % (pairs, core.z(c["memlen"]), core.z(c["fill"]), KIND[c.get("create")],
               core.coq_list([cls(x) for x in c.get("cclasses") or []]), core.z(c["listnum"]), core.z(c["usedlen"]),
               KIND[c.get("map")], core.coq_list([cls(x) for x in c.get("mclasses") or []]),
               core.coq_list(["(%s, %s, %s)" % tuple(core.z(v) for v in a) for a in c.get("alloc") or []])))


def qcase_to_coq(c):
    mgr = c["kind"] != "q"
    kind = {"q": 0, "qmfile": 1, "qmmemfd": 2}[c["kind"]]
    return ("{| qc_kind := %d; qc_cap := %s; qc_dataLen := %s; qc_fill := %s; qc_create := %d; qc_a := %s; qc_map := %d; qc_b := %s; qc_memSize := %s |}"
            % (kind, core.z(c["qcap"]), core.z(c["qdatalen"]), core.z(0 if mgr else 0xEEEEEEEE),
               KIND[c.get("qcreate")], core.coq_list([que(q) for q in c.get("qa") or []]),
               KIND[c.get("qmap")], core.coq_list([que(q) for q in c.get("qb") or []]), core.z(c["qmemsize"])))


WHAT = {1: "create outcome class (Ok/Err/Panic) differs from the model", 2: "class geometry on the creating side differs from the model",
        3: "manager header words (list count, used length) differ from the model", 4: "mapper outcome class differs from the model",
        5: "class geometry on the mapping side differs from the model",
        11: "queue create outcome class differs from the model", 12: "queue geometry/wiring on the creating side differs from the model",
        13: "queue mapping size differs from the model", 14: "queue mapper outcome class differs from the model",
        15: "queue geometry/wiring on the mapping side differs from the model"}


def eval_cases(cases, tag):
    """cases: harness records. Returns list of (case, code)."""
    bad = []
    bs = [c for c in cases if c["kind"].startswith("bm") and not c.get("skipped")]
    qs = [c for c in cases if c["kind"].startswith("q") and not c.get("skipped")]
    for (lst, ty, conv, fn) in ((bs, "bcase", bcase_to_coq, "mismatches_b"), (qs, "qcase", qcase_to_coq, "mismatches_q")):
        SH = 400
        for k in range(0, len(lst), SH):
            chunk = lst[k:k + SH]
            txt = ["From Coq Require Import List ZArith.", "From Shm Require Import Gen.Consts Model.Layout Corr.LayoutCorr.",
                   "Import ListNotations.", "Open Scope Z_scope.", "Definition cases : list %s := [" % ty,
                   ";\n".join(conv(c) for c in chunk), "].",
                   "Definition M := Eval vm_compute in %s cases." % fn, "Print M."]
            rc, out, _ = core.coq_eval("cases_%s_%s_%s_%d_%d" % (PROP, tag, ty, os.getpid(), k), "\n".join(txt))
            if rc != 0 and "inconsistent assumptions" in out:
                # a concurrent check regenerated Gen/Consts.v between our build and this evaluation: rebuild, retry once
                core.coq_build()
                rc, out, _ = core.coq_eval("cases_%s_%s_%s_%d_%d" % (PROP, tag, ty, os.getpid(), k), "\n".join(txt))
            if rc != 0:
                raise RuntimeError("coqc on the generated cases failed: " + out[-1500:])
            m = re.search(r"M\s*=\s*(.*?)\s*:\s*list", out, re.S)
            if not m:
                raise RuntimeError("cannot parse the mismatch list: " + out[-500:])
            body = m.group(1).strip()
            if body != "[]":
                found = False
                for mm in re.finditer(r"\((\d+)%nat,\s*\(?(-?\d+)\)?\)", body):
                    bad.append((chunk[int(mm.group(1))], int(mm.group(2))))
                    found = True
                if not found:
                    bad.append((chunk[0], -1))
    return bad


def run_harness(n, seed, tag):
    outp = os.path.join(core.WORK, "c03_%s_%d.jsonl" % (tag, os.getpid()))
    rc, out, secs = core.go_test(PROP, "^TestVerif_C03$", {"VERIF_OUT": outp, "VERIF_N": str(n), "VERIF_SEED": str(seed)},
                                 timeout=1200)
    if rc != 0:
        try:
            os.unlink(outp)
        except OSError:
            pass
        return None, "harness failed (rc=%d): %s" % (rc, out[-2500:])
    cases = [json.loads(l) for l in open(outp)]
    os.unlink(outp)
    return cases, None


# behaviours outside the proved guards that were reproduced on the real code with inputs VerifyConfig accepts:
# message -> stable signature for known_findings.json.  (The three queue-capacity-wrap entries are `fixed`
# since /repo 97d22d3 and the harness now checks the repaired behaviour as part of the property.)
DEGEN_SIG = {}


def signature(msg):
    # stable class of the failure: the oracle's message up to the first colon-separated detail, no numbers
    parts = msg.split(": ")
    return "C03:" + re.sub(r"\d+", "#", ": ".join(parts[:2]))[:90]


def brief(c):
    keys = ("id", "kind", "gen", "pairs", "memlen", "fill", "guard", "create", "cerr", "cclasses", "map", "merr", "mclasses",
            "listnum", "usedlen", "held", "alloc", "qcap", "qdatalen", "qcreate", "qmap", "qa", "qb", "qmemsize")
    return {k: c[k] for k in keys if k in c and c[k] not in (None, "", [])}


def check(run):
    data, gerr = gen.regenerate()
    if gerr:
        run.add_corr_break("G: " + gerr)
    run.proof = core.proof_step(PROP, run.tier)
    n = 600 if run.tier == "quick" else 20000
    cases, err = run_harness(n, run.seed, run.tier)
    if err:
        run.add_corr_break("D: " + err)
        cases = []
    ksigs = {k["signature"] for k in core.known_findings(PROP)}
    feats, kinds, gens, outcomes, degen = {}, {}, {}, {}, {}
    distinct = set()
    skipped = 0
    for c in cases:
        for m in c.get("oracle") or []:
            run.add_oracle_failure(signature(m), m, brief(c))
        for m in c.get("degen") or []:
            # misbehaviour outside the proved guards (4 GiB corners, configurations VerifyConfig rejects):
            # counted; reported through the verdict only once it is listed centrally as a known finding
            s = DEGEN_SIG.get(m) or signature("degenerate: " + m)
            degen[m] = degen.get(m, 0) + 1
            if s in ksigs:
                run.add_oracle_failure(s, m, brief(c))
        for m in c.get("tie") or []:
            run.add_corr_break("D: case %s (%s): modelling assumption violated: %s" % (c.get("id"), c.get("kind"), m), brief(c))
        kinds[c["kind"]] = kinds.get(c["kind"], 0) + 1
        g = c.get("gen", "")
        for part in g.split(", "):
            gens[part] = gens.get(part, 0) + 1
        o = "%s/%s" % (c.get("create") or c.get("qcreate"), c.get("map") or c.get("qmap") or "-")
        outcomes[c["kind"][:2] + ":" + o] = outcomes.get(c["kind"][:2] + ":" + o, 0) + 1
        if c.get("skipped"):
            skipped += 1
        for f in set(c.get("feat") or []):
            feats[f] = feats.get(f, 0) + 1
        nontrivial = (c.get("create") == "Ok" and len(c.get("cclasses") or []) >= 1) or (c.get("qcreate") == "Ok" and c.get("qcap", 0) > 0)
        if nontrivial:
            distinct.add(json.dumps([c["kind"], c.get("pairs"), c["memlen"], c["qcap"], c["qdatalen"]]))
    if cases:
        try:
            bad = eval_cases(cases, run.tier)
        except RuntimeError as ex:
            bad = []
            run.add_corr_break("D: model evaluation failed: %s" % ex)
        for (c, code) in bad[:20]:
            run.add_corr_break("D: case %s (%s; %s): %s" % (c.get("id"), c.get("kind"), c.get("gen"), WHAT.get(code, "model/implementation mismatch")),
                               brief(c))
    if skipped:
        run.notes.append("%d real-back-end cases could not run in this environment (no /dev/shm or memfd)" % skipped)
    if degen:
        run.notes.append("misbehaviour outside the proved guards (not part of the verdict until listed in known_findings.json): " +
                         "; ".join("%s [%d cases]" % kv for kv in sorted(degen.items())))
    bm = [c for c in cases if c["kind"] == "bm"]
    run.coverage.update({
        "evaluations": len(cases), "distinct_nontrivial": len(distinct),
        "rule": "a case = one configuration run through the real create*/mapping* functions (buffer manager: pair list + mapping length "
                "+ initial fill; queue: capacity + memory length; real back-ends: /dev/shm file and memfd); non-trivial = the layout was "
                "accepted with at least one class / a queue with at least one element; distinct by configuration",
        "samples": [brief(c) for c in (bm[:1] + [c for c in cases if c["kind"] == "qmfile"][:1])],
        "kinds": kinds, "generator_branches": gens, "outcomes": outcomes, "features": feats,
        "degenerate_observations": degen, "skipped_backend_cases": skipped,
        "memlen_min_max": [min([c["memlen"] for c in bm] or [0]), max([c["memlen"] for c in bm] or [0])],
        "classes_total": sum(len(c.get("cclasses") or []) for c in cases),
        "slots_total": sum(x["cap"] for c in cases for x in (c.get("cclasses") or [])),
    })
    run.assumptions += [
        "C03_buffers_config: 36*#pairs + 8 <= capacity (VerifyConfig does not bound the number of pairs)",
        "C03_buffers_partial / C03_peer_view_partial (arbitrary percentages): mapping shorter than 4 GiB - 36 B; fewer than 65536 classes for the peer view",
        "buffer-manager offset argument 0 (every caller); amd64 branch of mappingQueueFromBytes; mapping sizes are 64-bit ints",
        "memory is cell-granular in the model: header fields are aligned 4-byte words (checked against the generated offsets)"]

    def search():
        found = []
        for k in range(3):
            cs, e = run_harness(3000, run.seed + 7919 * (k + 1), "search%d" % k)
            for c in cs or []:
                for m in c.get("oracle") or []:
                    found.append({"signature": signature(m), "what": m, "case": brief(c)})
            if found:
                break
        return found
    return run.finish(search)


def replay(path):
    r = json.load(open(path))
    print(json.dumps(r, indent=1)[:6000])
    print("re-run: VERIF_SEED=%s ./check C03 --tier %s   (the case id/gen inside the replay identifies the configuration; "
          "the harness is deterministic in the seed)" % (r.get("seed"), r.get("tier")))
    return 0
