# C01 — a shared-memory buffer never has two owners at once.
import json, os, re
from vlib import core, gen, freelist

PROP = "C01"
META = {
    "technique": "Coq proof over an access-granular model of bufferList.pop/push/update/recycleBuffers (any number of threads, one shared access per step): structural inductive invariant for every schedule without a stale head-CAS, unconditional for a single allocating thread; sequential refinement to a FIFO; permutation invariant of the multi-class manager; refutation of the unrestricted statement by a computed ABA schedule. Tie: generated offsets/flags/retry bound (G), access-by-access trace comparison of the real instrumented code under a controlled scheduler (S), differential run of the real bufferManager over several classes (D)",
    "level_text": "C01_partial_aba_free* / C01_store_target_exact hold for any thread count, all programs of alloc/free/update and every schedule that contains no stale head-CAS (a decidable predicate of the run); C01_single_allocator needs no such hypothesis; C01_sequential_functional refines a single thread to a FIFO spec; C01_manager_no_double_ownership covers allocShmBuffer/allocShmBuffers/recycleBuffer over any list of size classes (equal sizes included); C01_held_bounded holds in every execution. The unrestricted ownership statement is REFUTED in Coq (C01_refuted): the ABA schedule is replayed on the real bufferList on every run and is a known finding. 400+ schedules of the real instrumented code per run agree with the model access by access; ownership / bounds / foreign-write / payload oracles run on every case.",
    "level_note": "Trusted: coqc kernel; sequential consistency of the instrumented accesses; go/verisched instrumenter + scheduler (self-tested on the repo's own tests); schedules sampled (random, sticky, systematic single pre-emption, directed) plus the corpus of explicit schedules; FreeChain (recycleBuffers) programs are covered by the correspondence and the oracles, not by the concurrent theorems; payload bytes are not modelled.",
}


def check(run, prop=PROP):
    data, gerr = gen.regenerate()
    if gerr:
        run.add_corr_break("G: " + gerr)
    run.proof = core.proof_step(prop, run.tier)
    n = 160 if run.tier == "quick" else 5000
    cases, err = freelist.run_harness(n, run.seed, prop + run.tier)
    if err:
        run.add_corr_break("S: " + err)
        cases = []
    feats, distinct, strat = {}, set(), {}
    for c in cases:
        for m in c.get("oracle") or []:
            if freelist.classify(m) != prop:
                continue
            run.add_oracle_failure(freelist.signature(prop, c, m), m,
                                   {"id": c["id"], "strat": c["strat"], "n": c["n"], "cpb": c["cpb"], "progs": c["progs"],
                                    "schedule": [s["tid"] for s in c["steps"]], "results": c["res"]})
        if c.get("feat"):
            distinct.add(json.dumps([c["n"], c["cpb"], c["progs"], [s["tid"] for s in c["steps"]]]))
        for f in set(c.get("feat") or []):
            feats[f] = feats.get(f, 0) + 1
        s = re.sub(r"[\(:].*", "", c["strat"])
        strat[s] = strat.get(s, 0) + 1
    if cases:
        try:
            bad = freelist.eval_cases(cases, prop + run.tier)
        except RuntimeError as ex:
            bad = []
            run.add_corr_break("S: model evaluation failed: %s" % ex)
        for (idx, kind, pos) in bad[:20]:
            c = cases[idx]
            what = {1: "access trace differs from the model at step %s" % pos, 2: "operation results differ from the model",
                    3: "final size/head/tail/counter differ from the model"}.get(kind, "mismatch")
            p = int(pos) if pos else 0
            run.add_corr_break("S: case %s (%s): %s" % (c["id"], c["strat"], what),
                               {"id": c["id"], "n": c["n"], "cpb": c["cpb"], "progs": c["progs"],
                                "schedule": [s["tid"] for s in c["steps"]], "diverges_at": pos,
                                "impl_events_around": c["steps"][max(0, p - 3):p + 3]})
    # manager layer: several size classes (equal sizes included), sequential op sequences (mechanism D)
    mcases, merr = freelist.run_manager_harness(300 if run.tier == "quick" else 6000, run.seed, prop + run.tier)
    if merr:
        run.add_corr_break("D: " + merr)
        mcases = []
    mfeat = {}
    for c in mcases:
        for m in c.get("oracle") or []:
            if freelist.classify(m) != prop:
                continue
            run.add_oracle_failure("%s:manager:%s" % (prop, re.sub(r"[^A-Za-z0-9]+", "-", m)[:70]), m,
                                   {"id": c["id"], "classes": c["classes"], "ops": c["ops"], "results": c["res"]})
        for f in set(c.get("feat") or []):
            mfeat[f] = mfeat.get(f, 0) + 1
        if c.get("feat"):
            distinct.add(json.dumps([c["classes"], c["ops"]]))
    if mcases:
        try:
            for idx in freelist.eval_manager_cases(mcases, prop + run.tier)[:10]:
                c = mcases[idx]
                run.add_corr_break("D: manager case %s: allocation results differ from the model" % c["id"],
                                   {"id": c["id"], "classes": c["classes"], "ops": c["ops"], "results": c["res"]})
        except RuntimeError as ex:
            run.add_corr_break("D: manager model evaluation failed: %s" % ex)
    run.coverage.update({
        "manager_cases": len(mcases), "manager_features": mfeat,
        "evaluations": len(cases) + len(mcases), "distinct_nontrivial": len(distinct),
        "rule": "a case = (slots, capPerBuffer, per-thread programs of alloc/free/update/freeChain, schedule) run on the real instrumented "
                "bufferList.pop/push, bufferSlice.update, bufferManager.recycleBuffers; non-trivial = a failed CAS, a failed allocation, a "
                "message chain, the retry bound, or >=3 context switches; distinct by (config, schedule)",
        "samples": [{"n": c["n"], "cpb": c["cpb"], "progs": c["progs"], "strat": c["strat"],
                     "schedule": [s["tid"] for s in c["steps"]][:200], "results": c["res"]} for c in cases[:2]],
        "strategies": strat, "features": feats, "total_steps": sum(len(c["steps"]) for c in cases),
    })
    run.assumptions += [
        "sequential consistency of the instrumented accesses (header bytes are accessed non-atomically by the code)",
        "the instrumenter go/verisched preserves the semantics of buffer_manager.go / buffer_slice.go apart from added scheduling points",
        "int32/uint32 counters do not wrap (lists have fewer than 2^31 slots)"]

    def search():
        cs, e = freelist.run_harness(4000, run.seed + 104729, prop + "search")
        found = []
        for c in cs or []:
            for m in c.get("oracle") or []:
                if freelist.classify(m) == prop:
                    found.append({"signature": freelist.signature(prop, c, m), "what": m,
                                  "case": {"id": c["id"], "strat": c["strat"], "n": c["n"], "cpb": c["cpb"], "progs": c["progs"],
                                           "schedule": [s["tid"] for s in c["steps"]], "results": c["res"]}})
        return found
    return run.finish(search)


def replay(path):
    r = json.load(open(path))
    print(json.dumps(r, indent=1)[:4000])
    return 0
