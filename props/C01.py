# C01 — a shared-memory buffer never has two owners at once.
import json, os, re
from vlib import core, gen, freelist

PROP = "C01"
META = {
    "technique": "Coq proof over an access-granular model of bufferList.pop/push/update/recycleBuffers: refutation of the full statement by a computed ABA schedule, ownership theorems for ABA-free executions; tie: generated offsets/flags/retry bound + real instrumented pop/push under a controlled scheduler compared access by access with the model",
    "level_text": "The full ownership statement is refuted in Coq (C01_refuted: ABA in bufferList.pop, replayed on the real code on every run, known finding); C01_held_bounded holds for every schedule. Every explored schedule of the real instrumented code is compared access by access with the model and judged by ownership / bounds / foreign-write / payload oracles.",
    "level_note": "Trusted: coqc kernel; sequential consistency; go/verisched instrumenter + scheduler; schedules sampled (random, sticky, systematic single pre-emption) plus the corpus of explicit schedules.",
}


def check(run, prop=PROP):
    data, gerr = gen.regenerate()
    if gerr:
        run.add_corr_break("G: " + gerr)
    run.proof = core.proof_step(prop, run.tier)
    n = 160 if run.tier == "quick" else 5000
    cases, err = freelist.run_harness(n, run.seed, prop + run.tier)
    if err:
        run.add_corr_break("S: " + err)
        cases = []
    feats, distinct, strat = {}, set(), {}
    for c in cases:
        for m in c.get("oracle") or []:
            if freelist.classify(m) != prop:
                continue
            run.add_oracle_failure(freelist.signature(prop, c, m), m,
                                   {"id": c["id"], "strat": c["strat"], "n": c["n"], "cpb": c["cpb"], "progs": c["progs"],
                                    "schedule": [s["tid"] for s in c["steps"]], "results": c["res"]})
        if c.get("feat"):
            distinct.add(json.dumps([c["n"], c["cpb"], c["progs"], [s["tid"] for s in c["steps"]]]))
        for f in set(c.get("feat") or []):
            feats[f] = feats.get(f, 0) + 1
        s = re.sub(r"[\(:].*", "", c["strat"])
        strat[s] = strat.get(s, 0) + 1
    if cases:
        try:
            bad = freelist.eval_cases(cases, prop + run.tier)
        except RuntimeError as ex:
            bad = []
            run.add_corr_break("S: model evaluation failed: %s" % ex)
        for (idx, kind, pos) in bad[:20]:
            c = cases[idx]
            what = {1: "access trace differs from the model at step %s" % pos, 2: "operation results differ from the model",
                    3: "final size/head/tail/counter differ from the model"}.get(kind, "mismatch")
            p = int(pos) if pos else 0
            run.add_corr_break("S: case %s (%s): %s" % (c["id"], c["strat"], what),
                               {"id": c["id"], "n": c["n"], "cpb": c["cpb"], "progs": c["progs"],
                                "schedule": [s["tid"] for s in c["steps"]], "diverges_at": pos,
                                "impl_events_around": c["steps"][max(0, p - 3):p + 3]})
    # manager layer: several size classes (equal sizes included), sequential op sequences (mechanism D)
    mcases, merr = freelist.run_manager_harness(300 if run.tier == "quick" else 6000, run.seed, prop + run.tier)
    if merr:
        run.add_corr_break("D: " + merr)
        mcases = []
    mfeat = {}
    for c in mcases:
        for m in c.get("oracle") or []:
            if freelist.classify(m) != prop:
                continue
            run.add_oracle_failure("%s:manager:%s" % (prop, re.sub(r"[^A-Za-z0-9]+", "-", m)[:70]), m,
                                   {"id": c["id"], "classes": c["classes"], "ops": c["ops"], "results": c["res"]})
        for f in set(c.get("feat") or []):
            mfeat[f] = mfeat.get(f, 0) + 1
        if c.get("feat"):
            distinct.add(json.dumps([c["classes"], c["ops"]]))
    if mcases:
        try:
            for idx in freelist.eval_manager_cases(mcases, prop + run.tier)[:10]:
                c = mcases[idx]
                run.add_corr_break("D: manager case %s: allocation results differ from the model" % c["id"],
                                   {"id": c["id"], "classes": c["classes"], "ops": c["ops"], "results": c["res"]})
        except RuntimeError as ex:
            run.add_corr_break("D: manager model evaluation failed: %s" % ex)
    run.coverage.update({
        "manager_cases": len(mcases), "manager_features": mfeat,
        "evaluations": len(cases) + len(mcases), "distinct_nontrivial": len(distinct),
        "rule": "a case = (slots, capPerBuffer, per-thread programs of alloc/free/update/freeChain, schedule) run on the real instrumented "
                "bufferList.pop/push, bufferSlice.update, bufferManager.recycleBuffers; non-trivial = a failed CAS, a failed allocation, a "
                "message chain, the retry bound, or >=3 context switches; distinct by (config, schedule)",
        "samples": [{"n": c["n"], "cpb": c["cpb"], "progs": c["progs"], "strat": c["strat"],
                     "schedule": [s["tid"] for s in c["steps"]][:200], "results": c["res"]} for c in cases[:2]],
        "strategies": strat, "features": feats, "total_steps": sum(len(c["steps"]) for c in cases),
    })
    run.assumptions += [
        "sequential consistency of the instrumented accesses (header bytes are accessed non-atomically by the code)",
        "the instrumenter go/verisched preserves the semantics of buffer_manager.go / buffer_slice.go apart from added scheduling points",
        "int32/uint32 counters do not wrap (lists have fewer than 2^31 slots)"]

    def search():
        cs, e = freelist.run_harness(4000, run.seed + 104729, prop + "search")
        found = []
        for c in cs or []:
            for m in c.get("oracle") or []:
                if freelist.classify(m) == prop:
                    found.append({"signature": freelist.signature(prop, c, m), "what": m,
                                  "case": {"id": c["id"], "strat": c["strat"], "n": c["n"], "cpb": c["cpb"], "progs": c["progs"],
                                           "schedule": [s["tid"] for s in c["steps"]], "results": c["res"]}})
        return found
    return run.finish(search)


def replay(path):
    r = json.load(open(path))
    print(json.dumps(r, indent=1)[:4000])
    return 0
