# C15 — the stream pool only hands out clean live streams and never leaks one.
# proof: Props/C15.v (Model/Pool.v, Proofs/PoolProofs.v); tie: D/T — scripted histories on a REAL
# SessionManager + server sessions (small MaxStreamNum), model evaluated on the same histories, property
# oracle evaluated on every quiescent point; a concurrent Get/Put scenario checks the ring clauses.
import json, os, re
from vlib import core, gen, sched, gosrc

PROP = "C15"
META = {
    "technique": "Coq proof: inductive invariants over all histories of the pool operations (GetStream atomic; PutBack as its two real phases: work on the still-held stream, then the push; any number of callers, peer closes, late data, fallback, session loss/rebuild); tie: differential execution of the model against a real SessionManager/server pair on generated histories + independent oracle, a real-concurrency PutBack-vs-spinning-GetStream scenario, and mechanism S: the real PutBack and GetStream as controlled threads (free-list accesses and the pool mutex as steps) under every single-pre-emption schedule, with the observed position of the push compared with the model (PutPush is the last step)",
    "level_text": "For every capacity, any number of callers and every history: C15_ring (exclusive ownership, ring bound, wrap-around incl. capacity 0 and 1), C15_put_exclusive (a stream inside PutBack is still held by the putting caller and not in the ring until PutBack's last step), C15_table, C15_clean_live (returned stream open, session live, not in fallback, sole holder), and - for the current tree, whose two repairs are translated from the source into Gen/SwitchC15.v on every run - C15_clean_buffers (recvBuf and sendBuf of a returned stream are empty) and C15_no_leak (active = held + pooled in every live session) hold without hypothesis. The remaining clause (no pending data) is refuted (C15_clean_refuted: a response that arrives after PutBack reaches the next holder; known finding, the protocol has no stream generation) and proved under 'the peer sends nothing to a pooled stream' (C15_partial_no_pending). The two repaired defects stay as directed cases 0/1 of every run and as regression Examples about the old-code variants.",
    "level_note": "Trusted: coqc kernel; Get/Put modelled as atomic labels (push/pop run under the pool mutex, flags are monotone atomics); buffers abstracted to per-slice byte counts; correspondence is sampled (directed + random histories, one concurrent stress scenario), timing of the event loop is waited for with generous bounds.",
}

STATE_NAMES = {0: "opened", 1: "closed", 2: "half-closed"}


SWITCH_FILE = os.path.join(core.COQ, "theories", "Gen", "SwitchC15.v")


def strip_comments(src):
    src = re.sub(r"/\*.*?\*/", "", src, flags=re.S)
    return re.sub(r"//[^\n]*", "", src)


def stmts_of(body):
    return [l.strip() for l in strip_comments(body).splitlines() if l.strip()]


def scan_switches():
    """Translator for the two switches of Model/Pool.v. Returns ((fx, fy), [descriptions], error).
    Only the exact known shapes are accepted; anything else is an error (a broken correspondence)."""
    try:
        sm = gosrc.read("session_manager.go")
        st = gosrc.read("stream.go")
    except OSError as ex:
        return None, None, "cannot read the source: %s" % ex
    m = re.search(r"func \(p \*streamPool\) getOrOpenStream\(\) \(\*Stream, error\) \{(.*?)\n}\n", sm, re.S)
    if not m:
        return None, None, "cannot find getOrOpenStream in session_manager.go"
    ss = stmts_of(m.group(1))
    try:
        i = ss.index("for stream := p.pop(); stream != nil; stream = p.pop() {")
        j = ss.index("stream, err := p.Session().OpenStream()")
    except ValueError:
        return None, None, "getOrOpenStream no longer has the pop loop followed by OpenStream that the model mirrors"
    loop = ss[i + 1:j]
    keep = ["if !stream.Session().IsClosed() {", "if stream.IsOpen() {", "return stream, nil", "}", "}"]
    if loop == keep + ["}"]:
        fx, d1 = False, "getOrOpenStream drops a popped stream it does not hand out WITHOUT closing it"
    elif loop == keep + ["stream.Close()", "}"]:
        fx, d1 = True, "getOrOpenStream closes a popped stream it does not hand out (stream.Close() at the end of the pop loop)"
    else:
        return None, None, "the pop loop of getOrOpenStream has a shape the translator does not know: %r" % (loop,)
    m = re.search(r"func \(s \*Stream\) reset\(\) error \{(.*?)\n}\n", st, re.S)
    if not m:
        return None, None, "cannot find Stream.reset in stream.go"
    body = strip_comments(m.group(1))
    rs = stmts_of(m.group(1))
    for need in ("if !s.IsOpen() {", "unreadSize := s.recvBuf.Len()", "if unreadSize > 0 {", "if len(s.pendingData.unread) > 0 {", "s.inFallbackState = false"):
        if need not in rs:
            return None, None, "Stream.reset no longer has the checks the model mirrors (missing: %s)" % need
    mentions = len(re.findall(r"sendBuf", body))
    guard = re.search(r"if\s+(\w+)\s*:=\s*s\.sendBuf\.Len\(\);\s*\1\s*>\s*0\s*\{\s*return\s+fmt\.Errorf\([^\n]*\)\s*\}", body)
    if mentions == 0:
        fy, d2 = False, "Stream.reset() does not look at the send buffer"
    elif mentions == 1 and guard and body.index("s.sendBuf.Len()") < body.index("s.readDeadline = zeroTime"):
        fy, d2 = True, "Stream.reset() returns an error when sendBuf.Len() > 0 (before it clears any state)"
    else:
        return None, None, "Stream.reset mentions sendBuf in a way the translator does not know (%d mention(s))" % mentions
    return (fx, fy), [d1, d2], None


def write_switches(fx, fy):
    txt = ("(* GENERATED from /repo's session_manager.go and stream.go by props/C15.py (mechanism G for the switches of Model/Pool.v). Do not edit. *)\n"
           "(* sw_close_discarded: getOrOpenStream closes a popped stream it does not hand out. *)\n"
           "(* sw_reset_rejects_unflushed: Stream.reset() fails when the send buffer holds unflushed bytes. *)\n"
           "Definition sw_close_discarded : bool := %s.\n"
           "Definition sw_reset_rejects_unflushed : bool := %s.\n" % ("true" if fx else "false", "true" if fy else "false"))
    with core.Lock("coq"):
        old = open(SWITCH_FILE).read() if os.path.exists(SWITCH_FILE) else None
        if old != txt:
            with open(SWITCH_FILE, "w") as fh:
                fh.write(txt)


def current_switches():
    try:
        t = open(SWITCH_FILE).read()
        return tuple("true" in re.search(r"Definition %s : bool := (\w+)\." % n, t).group(1) for n in ("sw_close_discarded", "sw_reset_rejects_unflushed"))
    except (OSError, AttributeError):
        return None


def b(x):
    return "true" if x else "false"


def nat(n):
    return "%d%%nat" % int(n)


def op_to_coq(o):
    k = o["op"]
    c, s, n = o["c"], o["s"], o["n"]
    if k == "get":
        return "HL (Get %s)" % nat(c)
    if k == "put":
        return "HPut %s %s" % (nat(c), nat(s))
    if k == "write":
        return "HL (Write %s %s %s %s)" % (nat(c), nat(s), core.z(n), b(o["fb"]))
    if k == "flush":
        return "HL (Flush %s %s)" % (nat(c), nat(s))
    if k == "read":
        return "HL (Read %s %s %s)" % (nat(c), nat(s), core.z(n))
    if k == "release":
        return "HL (Release %s %s)" % (nat(c), nat(s))
    if k == "closes":
        return "HL (CloseS %s %s)" % (nat(c), nat(s))
    if k == "srvsend":
        return "HL (PeerData %s %s %s)" % (nat(s), core.z(n), b(o["fb"]))
    if k == "srvclose":
        return "HL (PeerClose %s)" % nat(s)
    if k == "heal":
        return "HL Heal"
    if k == "sessloss":
        return "HSessLoss"
    if k == "shutwin":
        return "HL SessLoss"
    if k == "endwin":
        return "HEndWin"
    raise ValueError("unknown op " + k)


def snap_to_coq(sn):
    return ("{| sn_active := %s; sn_head := %s; sn_tail := %s; sn_ring := %s; sn_streams := %s; sn_unhealthy := %s; sn_sess := %s; sn_shut := %s |}"
            % (core.z(sn["active"]), core.z(sn["head"]), core.z(sn["tail"]),
               core.coq_list([core.z(x) for x in sn["ring"]]),
               core.coq_list([core.coq_list([core.z(x) for x in st]) for st in sn["streams"]]),
               core.z(sn["unhealthy"]), core.z(sn["sess"]), core.z(sn["shut"])))


def case_to_coq(c, sw):
    steps = []
    for o in c["ops"]:
        steps.append("{| p_op := %s; p_res := %s; p_got := %s; p_snap := %s |}"
                     % (op_to_coq(o), core.z(o["res"] if o["op"] == "get" else -1), core.z(o["s"] if o["op"] == "get" else -1),
                        snap_to_coq(o["snap"])))
    return "{| p_fx := %s; p_fy := %s; p_cap := %s; p_steps := %s |}" % (b(sw[0]), b(sw[1]), core.z(c["cap"]), core.coq_list(steps))


def eval_cases(cases, fx, tag):
    """Returns list of (case index, step, field) mismatches, or raises."""
    bad = []
    SH = 40
    for k in range(0, len(cases), SH):
        chunk = cases[k:k + SH]
        txt = ["From Coq Require Import List ZArith Bool.", "From Shm Require Import Gen.Consts Model.Pool Corr.PoolCorr.",
               "Import ListNotations.", "Open Scope Z_scope.",
               "Definition cases : list pcase := ["]
        txt.append(";\n".join(case_to_coq(c, fx) for c in chunk))
        txt.append("].")
        txt.append("Definition M := Eval vm_compute in mismatches cases.")
        txt.append("Print M.")
        rc, out, _ = core.coq_eval("cases_%s_%s_%d_%d" % (PROP, tag, os.getpid(), k), "\n".join(txt))
        if rc != 0:
            raise RuntimeError("coqc on the generated cases failed: " + out[-1500:])
        m = re.search(r"M\s*=\s*(.*?)\s*:\s*list", out, re.S)
        if not m:
            raise RuntimeError("cannot parse the mismatch list: " + out[-500:])
        body = m.group(1).strip()
        if body != "[]":
            found = False
            for mm in re.finditer(r"\((\d+)%nat,\s*(\d+)%nat,\s*\(?(-?\d+)\)?(?:%Z)?\)", body):
                bad.append((k + int(mm.group(1)), int(mm.group(2)), int(mm.group(3))))
                found = True
            if not found:
                bad.append((k, -1, body[:200]))
    return bad


FIELDS = {1: "GetActiveStreamCount", 2: "ring head/tail", 3: "identity of the pooled streams", 4: "stream flags/lengths",
          5: "session unhealthy flag", 6: "current session / shutdown flag", 7: "result of the op (error class / identity of the returned stream)"}


def run_harness(n, seed, tag, nops=40):
    outp = os.path.join(core.WORK, "c15_%s_%d.jsonl" % (tag, os.getpid()))
    rc, out, secs = core.go_test(PROP, "^TestVerif_C15$", {"VERIF_OUT": outp, "VERIF_N": str(n), "VERIF_SEED": str(seed),
                                                          "VERIF_OPS": str(nops)}, timeout=900)
    if rc != 0 or not os.path.exists(outp):
        return None, "harness failed (rc=%d): %s" % (rc, out[-2500:])
    cases = [json.loads(l) for l in open(outp)]
    os.unlink(outp)
    for c in cases:
        c["ops"] = c.get("ops") or []
        c["oracle"] = c.get("oracle") or []
        c["feat"] = c.get("feat") or []
    return cases, None


def brief(c, upto=None):
    ops = c["ops"] if upto is None else c["ops"][:upto + 1]
    return {"id": c["id"], "kind": c["kind"], "cap": c["cap"], "note": c.get("note"),
            "ops": [{k: o[k] for k in ("op", "c", "s", "n", "fb", "res")} for o in ops],
            "last_snapshot": ops[-1]["snap"] if ops else None}


def collect_oracle(cases):
    res = []
    for c in cases:
        seen = set()
        for m in c["oracle"]:
            sig, _, what = m.partition("|")
            if sig in seen:
                continue
            seen.add(sig)
            mm = re.search(r"after op (\d+)", what)
            res.append({"signature": sig, "what": what, "case": brief(c, int(mm.group(1)) if mm else None)})
    return res


def instrument_pool():
    """buffer_manager.go instrumented by go/verisched (every free-list access is a scheduling point) plus - done
    here, textually, on a copy of session_manager.go - streamPool's mutex as a scheduling point: p.Lock()/p.Unlock()
    in the methods of *streamPool become vsLock/vsUnlock(&p.Mutex).  Returns (overlay dict, error)."""
    ov, rep, err = sched.instrument(["buffer_manager.go"])
    if err:
        return None, err
    key = os.path.join(core.REPO, "session_manager.go")
    src = open(key).read()
    n = [0]

    def in_pool(m):
        body = m.group(0)
        body, k1 = re.subn(r"\bp\.Lock\(\)", "vsLock(&p.Mutex)", body)
        body, k2 = re.subn(r"\bp\.Unlock\(\)", "vsUnlock(&p.Mutex)", body)
        n[0] += k1 + k2
        return body
    src = re.sub(r"func \(p \*streamPool\) (?:pop|push)\(.*?\n}\n", in_pool, src, flags=re.S)
    if n[0] < 5:
        return None, "cannot find the critical sections of streamPool.pop/push in session_manager.go (found %d Lock/Unlock)" % n[0]
    d = os.path.join(core.WORK, "inst_c15_" + core.tree_hash())
    os.makedirs(d, exist_ok=True)
    p = os.path.join(d, "session_manager.go")
    with open(p, "w") as fh:
        fh.write(src)
    ov = dict(ov)
    ov[key] = p
    return ov, None


def run_sched(tag, n):
    ov, err = instrument_pool()
    if err:
        return None, "instrumenting the pool failed: " + err
    outp = os.path.join(core.WORK, "c15s_%s_%d.jsonl" % (tag, os.getpid()))
    rc, out, secs = core.go_test(PROP, "^TestVerif_C15Sched$", {"VERIF_OUT": outp, "VERIF_N": str(n)}, extra_replace=ov, timeout=900)
    if rc != 0 or not os.path.exists(outp):
        return None, "scheduled harness failed (rc=%d): %s" % (rc, out[-2500:])
    cases = [json.loads(l) for l in open(outp)]
    os.unlink(outp)
    return cases, None


def check(run):
    data, gerr = gen.regenerate()
    if gerr:
        run.add_corr_break("G: " + gerr)
    fx, fdesc, ferr = scan_switches()
    if ferr:
        # never a silent default: a failing translator is a broken correspondence; the model comparison below then
        # uses the variant recorded by the last successful translation and says so
        run.add_corr_break("G: switch translator: " + ferr, shape=True)
        fx = current_switches()
        fdesc = ["TRANSLATION FAILED (%s); variant of the last successful translation used: %s" % (ferr, fx)]
        if fx is None:
            fx = (False, False)
            fdesc.append("no recorded variant: old-code variant used for the comparison only")
    else:
        write_switches(*fx)
    run.proof = core.proof_step(PROP, run.tier)
    n = 40 if run.tier == "quick" else 1500
    cases, err = run_harness(n, run.seed, run.tier)
    if err:
        run.add_corr_break("D: " + err)
        cases = []
    for c in cases:
        if "HARNESS:" in (c.get("note") or ""):
            run.add_corr_break("D: case %s: %s" % (c["id"], c["note"]), brief(c))
    for f in collect_oracle(cases):
        run.add_oracle_failure(f["signature"], f["what"], f["case"])
    seq = [c for c in cases if c["ops"]]
    if seq:
        try:
            bad = eval_cases(seq, fx, run.tier)
        except RuntimeError as ex:
            bad = []
            run.add_corr_break("D: model evaluation failed: %s" % ex)
        for (idx, step, field) in bad[:20]:
            c = seq[idx] if idx < len(seq) else {"id": None, "kind": "?", "ops": [], "cap": None}
            o = c["ops"][step] if 0 <= step < len(c["ops"]) else {}
            run.add_corr_break("D: case %s (%s): after op %s (%s) the model and the real pool differ in: %s"
                               % (c["id"], c["kind"], step, o.get("op"), FIELDS.get(field, field)),
                               dict(brief(c, step), differs_in=FIELDS.get(field, field), model_switches=list(fx)))
    # ---- mechanism S: PutBack against GetStream, on the real code, one free-list / pool-mutex access per step ----
    scases, serr = run_sched(run.tier, 60 if run.tier == "quick" else 100000)
    if serr:
        run.add_corr_break("S: " + serr)
        scases = []
    push_last = set()
    for sc in scases:
        if "HARNESS" in (sc.get("note") or ""):
            run.add_corr_break("S: schedule %s: %s" % (sc.get("id"), sc["note"]), sc)
        for m in sc.get("oracle") or []:
            sig, _, what = m.partition("|")
            run.add_oracle_failure(sig, what, {"scheduled_scenario": "caller A (thread 0) puts back a stream whose read slices are parked in the pinned list while caller B (thread 1) calls GetStream on the otherwise empty pool; one free-list / pool-mutex access per step",
                                               "a_steps_before_b": sc.get("k"), "schedule": sc.get("schedule"), "state_at_handout": sc.get("state_at_handout")})
        kinds = sc.get("a_kinds") or []
        locks = [i for i, k in enumerate(kinds) if k == 4]
        others = [i for i, k in enumerate(kinds) if k not in (4, 6)]
        if locks and others:
            push_last.add(locks[0] > others[-1])
    if scases and push_last != {True}:
        run.add_corr_break("S: PutBack takes the pool mutex (push) before its last free-list access (ReleaseReadAndReuse still releasing pinned slices): "
                           "in Model/Pool.v the push (PutPush) is the LAST step of PutBack, after PutPrepare has finished with the stream",
                           {"a_kinds_of_first_schedule": (scases[0].get("a_kinds") if scases else None)})
    # the deterministic schedule makes the better replay: put scheduled witnesses first (stable sort)
    run.oracle_failures.sort(key=lambda f: 0 if isinstance(f.get("case"), dict) and "scheduled_scenario" in f["case"] else 1)
    sched_cov = {"scheduled_cases": len(scases), "push_is_last_step_of_putback": sorted(push_last),
                 "putback_steps": len((scases[0].get("a_kinds") or [])) if scases else 0}
    feats = {}
    distinct = set()
    nops = 0
    opmix = {}
    for c in cases:
        for f in set(c["feat"]):
            feats[f] = feats.get(f, 0) + 1
        nops += len(c["ops"])
        for o in c["ops"]:
            opmix[o["op"]] = opmix.get(o["op"], 0) + 1
        if set(c["feat"]) & {"ring-wrapped", "put-on-full-ring", "peer-close-while-pooled", "put-with-unread-data", "put-fallback-stream",
                             "session-loss", "peer-data-for-pooled-stream", "put-with-unflushed-bytes", "concurrent", "put-race"}:
            distinct.add(json.dumps([c["kind"], c["cap"], [[o["op"], o["c"], o["s"], o["n"]] for o in c["ops"]], c.get("note") if c["kind"] == "concurrent" else None]))
    run.coverage.update({
        "evaluations": len(cases), "distinct_nontrivial": len(distinct),
        "rule": "a case = one history (directed pattern, random ~40 ops, or the concurrent stress run) on a fresh real SessionManager + server; "
                "non-trivial = the ring wrapped or overflowed, a stream was put back dirty / in fallback state / with unflushed bytes, the peer closed or wrote to a pooled stream, or the session was lost and rebuilt; distinct by op list",
        "samples": [brief(c) for c in cases if c["kind"].startswith("random")][:2],
        "features": feats, "op_mix": opmix, "total_ops": nops,
        "histories_rerun_after_an_expired_harness_wait": sum(1 for c in cases if c.get("retries")),
        "expired_waits": [w for c in cases for w in (c.get("expired") or [])][:10],
        "capacities": sorted({c["cap"] for c in cases}),
        "scheduled_putback_vs_getstream": sched_cov,
        "model_switches": {"sw_close_discarded": fx[0], "sw_reset_rejects_unflushed": fx[1]},
        "model_switches_chosen_because": fdesc,
        "oracle_failures_by_signature": {s: sum(1 for f in run.oracle_failures if f["signature"] == s) for s in sorted({f["signature"] for f in run.oracle_failures})},
    })
    run.assumptions += [
        "GetStream is one atomic label (push/pop run under the pool mutex, a popped stream is owned exclusively, the flags read afterwards are monotone atomics); PutBack is two labels: PutPrepare (its work on the still held stream) and PutPush (the hand-over)",
        "mechanism S part: go/verisched instruments buffer_manager.go; props/C15.py additionally turns streamPool's mutex into a scheduling point (textual rewrite of a copy of session_manager.go); sequential consistency; schedules = PutBack k steps | GetStream completely | PutBack rest",
        "callers give back only streams they were given, once (PutBack of a foreign stream is outside the property's quantifier)",
        "writes fit one buffer slice in the model (slice-level behaviour is C06's, slot accounting C09's subject)",
        "the 30 s circuit-breaker timer is simulated by the harness (store 0 to session.unhealthy); every harness wait polls up to 60 s; a history in which a wait expires is re-run from scratch up to 2 more times and only a wait that expires in all 3 runs is reported, as an oracle failure (C15:awaited-event-never-happens)",
        "buffers of a stream whose session has shut down are never touched by the harness (that faults: unmapped memory, C14)"]

    def search():
        cs, e = run_harness(300, run.seed + 7919, "search")
        return collect_oracle(cs or [])
    return run.finish(search)


def replay(path):
    r = json.load(open(path))
    print(json.dumps(r, indent=1)[:6000])
    print("re-run: VERIF_SEED=%s ./check C15 --tier %s   (directed cases replay the three known patterns on every run)" % (r.get("seed"), r.get("tier")))
    return 0
