# C16 — hot restart moves every session to the new server without a stuck state.
# proof: Props/C16.v (Model/HotRestart.v, Proofs/HotRestartProofs.v); tie: G (state / event constants) +
# T (event histories observed on the real Listener / SessionManager accepted by the model) + an
# independent property oracle on every scenario.
import json, os, re
from vlib import core, gen

PROP = "C16"
META = {
    "technique": "Coq proof: invariants over ALL event histories of a model of the hot-restart bookkeeping (listener state/epoch/ack count/session states; manager state/epoch/pools/reservePools; per-connection FIFOs with arbitrary delay, loss and foreign traffic; dials that may fail; both checkers with tick/time-out events that may fire at any step); tie: histories observed on the real Listener/SessionManager (handlers wrapped through the package dispatch tables, snapshots under the code's own locks) must be accepted by the model, plus an independent oracle",
    "level_text": "PARTIAL. Proved for any number of sessions and every event history: no reachable hotRestartState without a running checker on either side (under the guard Listener.Run enforces: sessions enter the table after their handshake — without it `return ErrInHandshakeStage` leaves a state that is stuck for ever, C16_exit_unguarded_refuted), a checker's time-out case leaves defaultState, a parked pool implies its pool holds a session of the announced epoch on the new server and the parked session was not closed by the manager, the manager only completes when every pool is parked, GetStream fails only on a pool whose session died by itself, outside hotRestartState (after a completed hand-over) the manager's checker is not running and no step but the first event of a new hot restart removes or closes a parked pool — parked sessions only die by themselves (C16_old_sessions_survive_done, C16_manager_done_returns; tied to the code by snapshots compared at every GetStream probe while an old server drains for longer than the time-out), events/acks with another epoch change nothing. hotRestartAckCount is never negative, covers every session in the table still waiting, and outside hotRestartState no session in the table is still waiting (C16_ack_full, all histories; holds since the repair of handleHotRestartAck — an ack counts only in hotRestartState, for the epoch in progress, on a session still waiting; the late-ack history that refuted it before stays as a regression scenario). Observed only (harness): the 2 s timers really fire and bound the exit, dials reach the new server, goroutine scheduling, traffic round trips.",
    "level_note": "Trusted: coqc kernel; the hand-written model (tied by accepted histories on 8 scenario kinds per round, not exhaustive); Go runtime timers and scheduling; the harness infers checker and session-death events from snapshots taken every ~2 ms (histories whose order is not observable are counted and skipped). Go map iteration order in Listener.HotRestart is modelled as list order (only matters on the unreachable early return). The rebuild watcher is outside this model (C17).",
}

NAMES0 = {"ManagerTick", "ManagerTimeout", "ListenerTick", "ListenerTimeout"}
NAMES1 = {"PoolSessionDies", "ParkedSessionDies", "ListenerSessionGone", "DropRestart", "DropAck"}
NAMES2 = {"SendRestart", "SendAck"}


def b(x):
    return "true" if x else "false"


def obs_to_coq(o):
    pools = core.coq_list(["(%s, %s)" % (core.z(p[0]), b(p[1])) for p in o["pools"]])
    res = core.coq_list([("Some (%s, %s)" % (core.z(r[0]), b(r[1]))) if r is not None else "None" for r in o["reserve"]])
    return ("{| o_lstate := %s; o_lepoch := %s; o_lack := %s; o_lsess := %s; o_mstate := %s; o_mepoch := %s; o_pools := %s; o_reserve := %s |}"
            % (core.z(o["ls"]), core.z(o["le"]), core.z(o["la"]), core.coq_list([core.z(x) for x in o["lsess"]]),
               core.z(o["ms"]), core.z(o["me"]), pools, res))


def ev_to_coq(e):
    k = e["k"]
    if k == "hr":
        return "OHotRestart %s %s" % (core.z(e["e"]), core.z(e["res"]))
    if k == "dr":
        return "ODeliverRestart %d%%nat %s %s" % (e["i"], core.z(e["e"]), b(e["ok"]))
    if k == "da":
        return "ODeliverAck %d%%nat %s" % (e["i"], core.z(e["e"]))
    if k == "gs":
        return "OGetStream %d%%nat %s" % (e["i"], b(e["ok"]))
    nm = e["nm"]
    if nm in NAMES0:
        return "OEv %s" % nm
    if nm in NAMES1:
        return "OEv (%s %d%%nat)" % (nm, e["i"])
    if nm in NAMES2:
        return "OEv (%s %d%%nat %s)" % (nm, e["i"], core.z(e["e"]))
    raise RuntimeError("unknown event %r" % (e,))


def case_to_coq(c):
    items = []
    for e in c["hist"] or []:
        o = e.get("obs")
        items.append("(%s, %s)" % (ev_to_coq(e), ("Some " + obs_to_coq(o)) if o else "None"))
    return "{| h_n := %d%%nat; h_hist := %s |}" % (c["n"], core.coq_list(items))


CODES = {1: "listener state", 2: "listener epoch", 3: "ack count", 4: "server session states", 5: "manager state",
         6: "manager epoch", 7: "pools (epoch / liveness)", 8: "reserve pools", 20: "event not enabled in the model",
         21: "epoch on the wire differs from the model's FIFO head", 22: "HotRestart result differs",
         23: "GetStream result differs"}


def eval_cases(cases, tag):
    """Returns list of (case index, position, code)."""
    if not cases:
        return []
    txt = ["From Coq Require Import List ZArith.", "From Shm Require Import Gen.Consts Model.HotRestart Corr.HotRestartCorr.",
           "Import ListNotations.", "Open Scope Z_scope.", "Definition cases : list hcase := ["]
    txt.append(";\n".join(case_to_coq(c) for c in cases))
    txt.append("].")
    txt.append("Definition M := Eval vm_compute in mismatches cases.")
    txt.append("Print M.")
    rc, out, _ = core.coq_eval("cases_%s_%s_%d" % (PROP, tag, os.getpid()), "\n".join(txt))
    if rc != 0:
        raise RuntimeError("coqc on the generated histories failed: " + out[-1500:])
    m = re.search(r"M\s*=\s*(.*?)\s*:\s*list", out, re.S)
    if not m:
        raise RuntimeError("cannot parse the mismatch list: " + out[-500:])
    body = m.group(1).strip()
    bad = []
    if body != "[]":
        for mm in re.finditer(r"\(\s*(\d+)(?:%nat)?,\s*(\d+)(?:%nat)?,\s*\(?\s*(-?\d+)\s*\)?(?:%Z)?\s*\)", body):
            bad.append((int(mm.group(1)), int(mm.group(2)), int(mm.group(3))))
        if not bad:
            bad.append((0, -1, -1))
    return bad


def run_harness(rounds, seed, tag):
    outp = os.path.join(core.WORK, "c16_%s_%d.jsonl" % (tag, os.getpid()))
    rc, out, secs = core.go_test(PROP, "^TestVerif_C16$", {"VERIF_OUT": outp, "VERIF_N": str(rounds), "VERIF_SEED": str(seed)},
                                 timeout=900)
    if rc != 0 or not os.path.exists(outp):
        return None, "harness failed (rc=%d): %s" % (rc, out[-2500:]), secs
    cases = [json.loads(l) for l in open(outp) if l.strip()]
    os.unlink(outp)
    return cases, None, secs


def brief(c, around=None):
    h = [e for e in (c.get("hist") or []) if e["k"] != "gs"]
    d = {"id": c["id"], "n": c["n"], "stats": c.get("stats"), "notes": c.get("notes"),
         "events_without_probes": [{k: v for k, v in e.items() if k != "obs"} for e in h][:80]}
    if around is not None:
        hh = c.get("hist") or []
        d["history_around_rejection"] = hh[max(0, around - 4):around + 2]
    return d


def setup_failures(cases):
    """Scenarios that could not be set up (a handshake timing out on a loaded machine ...): they say nothing
    about the property and are not oracle failures."""
    return ["%s: %s" % (c.get("id"), m.partition(" | ")[2].strip()) for c in cases for m in (c.get("oracle") or [])
            if m.partition(" | ")[0].strip().endswith(":harness-setup")]


def oracle_failures(cases):
    res = []
    for c in cases:
        for m in c.get("oracle") or []:
            sig, _, what = m.partition(" | ")
            if sig.strip().endswith(":harness-setup"):
                continue
            res.append({"signature": sig.strip(), "what": "%s: %s" % (c["id"], what.strip()), "case": brief(c)})
    return res


def check(run):
    data, gerr = gen.regenerate()
    if gerr:
        run.add_corr_break("G: " + gerr)
    run.proof = core.proof_step(PROP, run.tier)
    rounds = 1 if run.tier == "quick" else 6
    cases, err, hsecs = run_harness(rounds, run.seed, run.tier)
    if err:
        run.add_corr_break("T: " + err)
        cases = []
    sf = setup_failures(cases)
    if sf:
        run.coverage["scenarios_not_set_up"] = sf
        if 2 * len(sf) > len(cases):
            run.add_corr_break("T: most scenarios could not be set up: " + "; ".join(sf[:4]))
    for f in oracle_failures(cases):
        run.add_oracle_failure(f["signature"], f["what"], f["case"])
    model_cases = [c for c in cases if not c.get("skip_model") and not c.get("ambiguous") and c.get("hist")
                   and not any(m.partition(" | ")[0].strip().endswith(":harness-setup") for m in (c.get("oracle") or []))]
    ambiguous = [c["id"] for c in cases if c.get("ambiguous")]
    if model_cases:
        try:
            bad = eval_cases(model_cases, run.tier)
        except RuntimeError as ex:
            bad = []
            run.add_corr_break("T: model evaluation failed: %s" % ex)
        for (idx, pos, code) in bad[:10]:
            c = model_cases[idx] if idx < len(model_cases) else {}
            run.add_corr_break("T: history of scenario %s is not accepted by the model at event %s: %s"
                               % (c.get("id"), pos, CODES.get(code, "code %s" % code)), brief(c, pos))
    feats, kinds = {}, {}
    nontrivial = set()
    for c in cases:
        for f in c.get("feat") or []:
            feats[f] = feats.get(f, 0) + 1
        for e in c.get("hist") or []:
            k = e["nm"] if e["k"] == "ev" else e["k"]
            kinds[k] = kinds.get(k, 0) + 1
        if c.get("hist"):
            key = json.dumps([c["n"]] + [[e["k"], e.get("nm"), e["i"], e["ok"], e["res"]] for e in c["hist"] if e["k"] != "gs"])
            if any(e["k"] == "ev" and e["nm"] in ("ManagerTimeout", "ListenerTimeout", "PoolSessionDies", "SendRestart", "SendAck")
                   or (e["k"] == "dr" and not e["ok"]) or (e["k"] == "hr" and e["res"] != 0) for e in c["hist"]) or c["n"] >= 2:
                nontrivial.add(key)
    latent = [c for c in cases if c.get("notes", {}).get("early-return")]
    run.coverage.update({
        "evaluations": len(cases), "distinct_nontrivial": len(nontrivial),
        "rule": "a case = one scenario on the real Listener/SessionManager (unix sockets, memfd) with traffic running; "
                "non-trivial = at least two sessions, or a time-out, a failed dial, a rejected HotRestart call, a session death or an injected foreign epoch; "
                "distinct by the event history without probes",
        "samples": [brief(c) for c in cases[:2]],
        "scenario_features": feats, "event_kinds": kinds,
        "histories_checked_by_model": len(model_cases), "histories_ambiguous_skipped": ambiguous,
        "events_total": sum(len(c.get("hist") or []) for c in cases),
        "harness_wall_s": round(hsecs, 1),
        "exit_times_ms": {c["id"]: {k: v for k, v in (c.get("stats") or {}).items() if k.endswith("_exit_ms")} for c in cases},
        "latent_early_return": [c["notes"]["early-return"] for c in latent],
        "late_ack_consequence": [c["notes"].get("next-restart") for c in cases if (c.get("notes") or {}).get("next-restart")],
    })
    run.assumptions += [
        "timers fire: the 2 s bound on leaving hotRestartState is observed (generous bound 2 s + 2.5 s), not proved",
        "a session enters Listener.sessions only after newSession returned (handshakeDone = true); checked on every snapshot",
        "handleHotRestartAck runs only on a server session that is still in the listener's table (Session.Close removes it and closes the connection; the window between the two is not modelled)",
        "the harness's inferred events (checker done / time-out, session deaths) are in causal order; windows where the order is not observable are skipped",
        "the rebuild watcher does not interfere within a scenario (rebuildInterval 60 s); its interplay is C17",
    ]

    def search():
        cs, e, _ = run_harness(2, run.seed + 7919, "search")
        return oracle_failures(cs or [])
    return run.finish(search)


def replay(path):
    r = json.load(open(path))
    print(json.dumps(r, indent=1)[:6000])
    print("re-run: VERIF_SEED=%s ./check C16 --tier %s" % (r.get("seed"), r.get("tier")))
    return 0
