# C09 — all shared memory comes back once streams are finished.
# proof: Props/C09.v (Model/Accounting.v, Proofs/AccountingProofs.v); tie: D — generated histories on REAL
# session pairs (small QueueCap, two slice classes, harness-induced exhaustion / queue-full / injected data
# for unknown streams); the model is run on the same histories with the real allocator's choices and the
# observed slice sizes as inputs; per-class in-use counts and queue occupancy compared after every op;
# the property oracle (in-use == 0 after closing everything) runs on every history.
import json, os, re
from vlib import core, gen, sched, gosrc

PROP = "C09"
META = {
    "technique": "Coq proof: slot-ownership invariant (the location lists are a permutation of all slots) by induction over all histories, allocation choices and fault patterns - at API granularity (Model/Accounting.v) and at the granularity of the code's critical sections with every interleaving of user threads and both event loops (Model/AccountingConc.v); quiescence corollaries; tie: differential execution of BOTH models against real session pairs (sequential ops compared after every op, concurrent traffic phases compared at the following quiescent point) + independent in-use==0 oracle, also after phases in which closes race with the peer's flushes; plus mechanism S for the event-loop/owner hand-off: the real Stream.fillDataToReadBuffer and Stream.Close as controlled threads (instrumented stream.go, pendingData mutex as scheduling point) under every single-pre-emption schedule, with the leak oracle after each and the observed access order (pendingData.add before the state re-check) compared with the model's LoopAdd/LoopCheck order",
    "level_text": "C09_inv / C09_inv_interleaved (every slot in exactly one location, for every history resp. every interleaving of critical sections, every allocation outcome and fault pattern) and C09 / C09_interleaved (once every stream is closed on both ends - every close() has returned, both event loops are between elements -, nothing is in flight and the application holds nothing, every slot is free) hold unconditionally - for histories that include writes, Reserve, ReleaseReadAndReuse and flushes AFTER a stream's Close - for the tree whose recycle() cleans the pinned list and whose write side takes no shared memory for a closed stream (switches sw_recycle_cleans_pinned / sw_write_after_close_rejected regenerated from buffer.go on every run; Props/C09.v stops compiling when one of them is off, and the harness then shows the leaking history). The former defect (pinned slices leaked at Close: 4096 B stayed in use) is repaired by a234a74; its history stays as directed case 0 of every run and as a regression Example about the old-code variant of the model.",
    "level_note": "Trusted: coqc kernel; allocation and slice sizes are inputs of the model (the allocator itself is C01/C02's subject); the fine-grained model keeps Write/Flush/Release/Reuse atomic (they touch owner-local buffers, the free lists - atomic per slot, C01/C02 - and one atomic queue put) and assumes one owner thread per stream object; socket events (fallback data, close notification) carry no slots and are delivered in one step; correspondence is sampled; event-loop delivery is waited for with generous bounds.",
}


SWITCH_FILE = os.path.join(core.COQ, "theories", "Gen", "SwitchC09.v")


def strip_comments(src):
    src = re.sub(r"/\*.*?\*/", "", src, flags=re.S)
    return re.sub(r"//[^\n]*", "", src)


def scan_pinned(src):
    m = re.search(r"func \(l \*linkedBuffer\) recycle\(\) \{(.*?)\n}\n", src, re.S)
    if not m:
        return None, None, "cannot find linkedBuffer.recycle in buffer.go"
    body = strip_comments(m.group(1))
    stmts = [l.strip() for l in body.splitlines() if l.strip()]
    if "slice := l.sliceList.popFront()" not in stmts or "l.clean()" not in stmts:
        return None, None, "linkedBuffer.recycle no longer has the pop-loop + clean() shape the model mirrors"
    calls = stmts.count("l.cleanPinnedList()")
    mentions = len(re.findall(r"pinned", body, re.I))
    if calls == 1 and mentions == 1:
        return True, "recycle() calls l.cleanPinnedList() (pinned slices go back with the buffer)", None
    if calls == 0 and mentions == 0:
        return False, "recycle() does not touch the pinned list (slices parked there leak at Close)", None
    return None, None, "linkedBuffer.recycle mentions the pinned list in a way the translator does not know (%d call(s), %d mention(s))" % (calls, mentions)


def scan_write_guard(src):
    """do the two places where the write side takes shared memory (linkedBuffer.alloc, step 3 of Reserve) skip it
    for a stream that has been closed?"""
    def closed_cond(expr, body):
        expr = expr.strip()
        if "getStreamState() == uint32(streamClosed)" in expr:
            return True
        m = re.fullmatch(r"l\.(\w+)\(\)", expr)
        if m:
            hm = re.search(r"func \(l \*linkedBuffer\) %s\(\) bool \{(.*?)\n}\n" % m.group(1), src, re.S)
            return bool(hm) and "getStreamState() == uint32(streamClosed)" in strip_comments(hm.group(1))
        if re.fullmatch(r"\w+", expr):      # a local: closed := l.helper()
            d = re.search(r"\b%s := ([^\n]+)" % expr, body)
            return bool(d) and closed_cond(d.group(1), "")
        return False

    res = []
    for fn, call in (("alloc", r"buf, err := l\.bufferManager\.allocShmBuffer\(size\)"),
                     ("Reserve", r"buf, err :?= l\.bufferManager\.allocShmBuffer\(uint32\(size\)\)")):
        m = re.search(r"func \(l \*linkedBuffer\) %s\([^)]*\)[^{\n]*\{(.*?)\n}\n" % fn, src, re.S)
        if not m:
            return None, None, "cannot find linkedBuffer.%s in buffer.go" % fn
        body = strip_comments(m.group(1))
        if len(re.findall(r"allocShmBuffer\(", body)) != 1 or not re.search(call, body):
            return None, None, "linkedBuffer.%s does not take shared memory the way the model mirrors (one allocShmBuffer call)" % fn
        g = re.search(r"if !([^{\n]+) \{\s*" + call, body)
        if g:
            if not closed_cond(g.group(1), body):
                return None, None, "linkedBuffer.%s guards its shared-memory allocation with a condition the translator does not know: %s" % (fn, g.group(1).strip())
            res.append(True)
        elif re.search(r"closed|streamClosed", body, re.I):
            return None, None, "linkedBuffer.%s mentions the closed state in a way the translator does not know" % fn
        else:
            res.append(False)
    if all(res):
        return True, "linkedBuffer.alloc and Reserve take no shared memory for a stream that has been closed (heap slice instead)", None
    if not any(res):
        return False, "linkedBuffer.alloc / Reserve have no state check: a write after Close allocates shared memory", None
    return None, None, "only one of linkedBuffer.alloc / Reserve checks the closed state: %s" % res


def scan_fx():
    """Translator for the two switches of Model/Accounting.v.  Returns ((fx, gx), description, error).
    Anything that is not exactly one of the known shapes is an error."""
    try:
        src = gosrc.read("buffer.go")
    except OSError as ex:
        return None, None, "cannot read buffer.go: %s" % ex
    f, d1, e1 = scan_pinned(src)
    if e1:
        return None, None, e1
    g, d2, e2 = scan_write_guard(src)
    if e2:
        return None, None, e2
    # shape assertion (no model variant): writeFallback = copy; recycle; send - the recycle precedes the socket send
    # and does not depend on its outcome (the model's fallback exit of Flush frees the send buffer unconditionally)
    try:
        st = gosrc.read("stream.go")
    except OSError as ex:
        return None, None, "cannot read stream.go: %s" % ex
    m = re.search(r"func \(s \*Stream\) writeFallback\([^)]*\) error \{(.*?)\n}\n", st, re.S)
    if not m:
        return None, None, "cannot find Stream.writeFallback in stream.go"
    stmts = [l.strip() for l in strip_comments(m.group(1)).splitlines() if l.strip()]
    rec = [i for i, l in enumerate(stmts) if l == "s.sendBuf.recycle()"]
    snd = [i for i, l in enumerate(stmts) if "waitForSend(" in l]
    if len(rec) != 1 or len(snd) != 1 or rec[0] > snd[0] or any(l.startswith(("if ", "for ", "switch ", "select ")) for l in stmts[:rec[0]] if "range underlyingSlices" not in l):
        return None, None, "Stream.writeFallback does not recycle the send buffer unconditionally before the socket send (copy; recycle; send is what the model mirrors)"
    return (f, g), d1 + "; " + d2 + "; writeFallback recycles the send buffer before (and independently of) the socket send", None


def write_switch(sw):
    txt = ("(* GENERATED from /repo's buffer.go by props/C09.py (mechanism G for the switches of Model/Accounting.v). Do not edit. *)\n"
           "(* sw_recycle_cleans_pinned: linkedBuffer.recycle() also cleans the pinned list. *)\n"
           "(* sw_write_after_close_rejected: the write side takes no shared memory for a stream that has been closed (its writes go to heap slices). *)\n"
           "Definition sw_recycle_cleans_pinned : bool := %s.\n"
           "Definition sw_write_after_close_rejected : bool := %s.\n" % ("true" if sw[0] else "false", "true" if sw[1] else "false"))
    with core.Lock("coq"):
        old = open(SWITCH_FILE).read() if os.path.exists(SWITCH_FILE) else None
        if old != txt:
            with open(SWITCH_FILE, "w") as fh:
                fh.write(txt)


def current_switch():
    try:
        t = open(SWITCH_FILE).read()
        return tuple("true" in re.search(r"Definition %s : bool := (\w+)\." % n, t).group(1)
                     for n in ("sw_recycle_cleans_pinned", "sw_write_after_close_rejected"))
    except (OSError, AttributeError):
        return None


def b(x):
    return "true" if x else "false"


def nat(n):
    return "%d%%nat" % int(n)


def natlist(l):
    return "[" + "; ".join("%d" % int(x) for x in l) + "]%nat"


def zlist(l):
    return "[" + "; ".join(core.z(x) for x in l) + "]"


def op_to_coq(o):
    k = o["op"]
    e = b(o["e"] == 1)
    sid = nat(o["sid"])
    if k == "open":
        return "HL (Open %s)" % sid
    if k == "write":
        return "HL (Write %s %s %s %s)" % (e, sid, zlist(o["slots"] or []), b(o["heap"]))
    if k == "flush":
        return "HFlush %s %s %s %s" % (e, sid, core.coq_list([core.z(x) for x in (o["sizes"] or [])]), nat(o["wpos"]))
    if k == "read":
        return "HL (Read %s %s %s %s)" % (e, sid, ["RBytes", "RDiscard", "RPeek"][o["kind"]], core.z(o["n"]))
    if k == "release":
        return "HL (Release %s %s)" % (e, sid)
    if k == "reuse":
        return "HL (Reuse %s %s)" % (e, sid)
    if k == "close":
        return "HClose %s %s" % (e, sid)
    if k == "exthold":
        return "HL (ExtHold %s)" % zlist(o["slots"] or [])
    if k == "extreturn":
        return "HL ExtReturn"
    if k == "inject":
        chain = "[" + "; ".join("(%s, %s)" % (core.z(s), core.z(z)) for s, z in zip(o["slots"], o["sizes"])) + "]"
        return "HL (Inject %s %s %s)" % (e, sid, chain)
    if k == "poll":
        return "HL (Poll %s)" % e
    if k == "sync":
        return "HSync"
    raise ValueError("unknown op " + k)


def case_to_coq(c, fx):
    steps = []
    upto = c.get("compare_upto") or len(c["ops"])    # ops after a racy phase are schedule dependent: end oracle only
    for o in c["ops"][:upto]:
        steps.append("{| a_op := %s; a_cmp := %s; a_inuse := %s; a_qs := %s; a_qc := %s |}"
                     % (op_to_coq(o), b(not o.get("nocmp")), core.coq_list([core.z(x) for x in (o["inuse"] or [])]), core.z(o["q"][0]), core.z(o["q"][1])))
    return "{| a_fx := %s; a_gx := %s; a_caps := %s; a_qcap := %s; a_steps := %s |}" % (b(fx[0]), b(fx[1]), natlist(c["caps"]), core.z(c["qcap"]), core.coq_list(steps))


def eval_chunk(args):
    k, chunk, fx, tag = args
    txt = ["From Coq Require Import List ZArith Bool.", "From Shm Require Import Gen.Consts Model.Accounting Corr.AccountingCorr.",
           "Import ListNotations.", "Open Scope Z_scope.",
           "Definition cases : list acase := ["]
    txt.append(";\n".join(case_to_coq(c, fx) for c in chunk))
    txt.append("].")
    txt.append("Definition M := Eval vm_compute in mismatches cases.")
    txt.append("Print M.")
    rc, out, _ = core.coq_eval("cases_%s_%s_%d_%d" % (PROP, tag, os.getpid(), k), "\n".join(txt))
    if rc != 0:
        raise RuntimeError("coqc on the generated cases failed: " + out[-1500:])
    m = re.search(r"M\s*=\s*(.*?)\s*:\s*list", out, re.S)
    if not m:
        raise RuntimeError("cannot parse the mismatch list: " + out[-500:])
    body = m.group(1).strip()
    bad = []
    if body != "[]":
        for mm in re.finditer(r"\((\d+)%nat,\s*(\d+)%nat,\s*\(?(-?\d+)\)?(?:%Z)?\)", body):
            bad.append((k + int(mm.group(1)), int(mm.group(2)), int(mm.group(3))))
        if not bad:
            bad.append((k, -1, body[:200]))
    return bad


def eval_cases(cases, fx, tag):
    """Returns list of (case index, step, field) mismatches, or raises. Chunks are evaluated by parallel coqc processes."""
    from concurrent.futures import ThreadPoolExecutor
    SH = 10
    jobs = [(k, cases[k:k + SH], fx, tag) for k in range(0, len(cases), SH)]
    bad = []
    with ThreadPoolExecutor(max_workers=8) as ex:
        for r in ex.map(eval_chunk, jobs):
            bad += r
    return sorted(bad)


FIELDS = {11: "per-class in-use slot counts (fine-grained model AccountingConc)", 12: "number of elements in flight in the queues (fine-grained model AccountingConc)",
          19: "the op is not enabled in the fine-grained model AccountingConc",
          1: "per-class in-use slot counts", 2: "number of elements in flight in the queues",
          9: "the op is not enabled in the model (the allocator handed out a slot the model holds elsewhere, or the stream is not live)"}


def run_harness(n, seed, tag, nops=30):
    outp = os.path.join(core.WORK, "c09_%s_%d.jsonl" % (tag, os.getpid()))
    rc, out, secs = core.go_test(PROP, "^TestVerif_C09$", {"VERIF_OUT": outp, "VERIF_N": str(n), "VERIF_SEED": str(seed),
                                                          "VERIF_OPS": str(nops)}, timeout=900)
    if rc != 0 or not os.path.exists(outp):
        return None, "harness failed (rc=%d): %s" % (rc, out[-2500:])
    cases = [json.loads(l) for l in open(outp)]
    os.unlink(outp)
    for c in cases:
        c["ops"] = c.get("ops") or []
        c["oracle"] = c.get("oracle") or []
        c["feat"] = c.get("feat") or []
    return cases, None


def brief_op(o):
    d = {k: o[k] for k in ("op", "e", "sid", "n", "kind", "heap", "wpos", "err", "sizes") if o.get(k) not in (None, "", 0, [])}
    if o.get("slots"):
        d["slots"] = o["slots"] if len(o["slots"]) <= 12 else ("%d slots" % len(o["slots"]))
    d["inuse"] = o["inuse"]
    if o.get("nocmp"):
        d["inside_concurrent_phase"] = True
    return d


def brief(c, upto=None):
    ops = c["ops"] if upto is None else c["ops"][:upto + 1]
    return {"id": c["id"], "qcap": c["qcap"], "caps": c["caps"], "slice_sizes": c.get("slice_sizes"), "note": c.get("note"),
            "ops": [brief_op(o) for o in ops]}


def collect_oracle(cases):
    res = []
    for c in cases:
        seen = set()
        for m in c["oracle"]:
            sig, _, what = m.partition("|")
            if sig in seen:
                continue
            seen.add(sig)
            res.append({"signature": sig, "what": what, "case": brief(c)})
    return res


def instrument_stream():
    """stream.go instrumented by go/verisched (atomics) plus - done here, textually, on the instrumented copy - the
    pendingData mutex as a scheduling point: r.Lock()/r.Unlock() in the methods of *pendingData and
    s.pendingData.Lock()/Unlock() become vsLock/vsUnlock.  Returns (overlay dict, error)."""
    ov, rep, err = sched.instrument(["stream.go"])
    if err:
        return None, err
    key = os.path.join(core.REPO, "stream.go")
    src = open(ov[key]).read()
    n = [0]

    def in_pending(m):
        body = m.group(0)
        body, k1 = re.subn(r"\br\.Lock\(\)", "vsLock(&r.Mutex)", body)
        body, k2 = re.subn(r"\br\.Unlock\(\)", "vsUnlock(&r.Mutex)", body)
        n[0] += k1 + k2
        return body
    src = re.sub(r"func \(r \*pendingData\) \w+\(.*?\n}\n", in_pending, src, flags=re.S)
    src, k3 = re.subn(r"\bs\.pendingData\.Lock\(\)", "vsLock(&s.pendingData.Mutex)", src)
    src, k4 = re.subn(r"\bs\.pendingData\.Unlock\(\)", "vsUnlock(&s.pendingData.Mutex)", src)
    if n[0] < 4:
        return None, "cannot find the pendingData critical sections in stream.go (found %d Lock/Unlock)" % n[0]
    d = os.path.join(core.WORK, "inst_c09_" + core.tree_hash())
    os.makedirs(d, exist_ok=True)
    p = os.path.join(d, "stream.go")
    with open(p, "w") as fh:
        fh.write(src)
    return {key: p}, None


def run_sched(tag):
    """mechanism S part: fillDataToReadBuffer vs Close under every single-pre-emption schedule."""
    ov, err = instrument_stream()
    if err:
        return None, "instrumenting stream.go failed: " + err
    outp = os.path.join(core.WORK, "c09s_%s_%d.jsonl" % (tag, os.getpid()))
    rc, out, secs = core.go_test(PROP, "^TestVerif_C09Sched$", {"VERIF_OUT": outp}, extra_replace=ov, timeout=900)
    if rc != 0 or not os.path.exists(outp):
        return None, "scheduled harness failed (rc=%d): %s" % (rc, out[-2500:])
    cases = [json.loads(l) for l in open(outp)]
    os.unlink(outp)
    return cases, None


def check(run):
    data, gerr = gen.regenerate()
    if gerr:
        run.add_corr_break("G: " + gerr)
    fx, fdesc, ferr = scan_fx()
    if ferr:
        # never a silent default: the translator failing is a broken correspondence; the model comparison below
        # then uses the variant recorded by the last successful translation and says so
        run.add_corr_break("G: switch translator: " + ferr, shape=True)
        fx = current_switch()
        fdesc = "TRANSLATION FAILED (%s); variant of the last successful translation used: %s" % (ferr, fx)
        if fx is None:
            fx = (False, False)
            fdesc += " (no recorded variant: old-code variant used for the comparison only)"
    else:
        write_switch(fx)
    run.proof = core.proof_step(PROP, run.tier)
    n = 150 if run.tier == "quick" else 5000
    cases, err = run_harness(n, run.seed, run.tier)
    if err:
        run.add_corr_break("D: " + err)
        cases = []
    for c in cases:
        if "HARNESS:" in (c.get("note") or ""):
            run.add_corr_break("D: case %s: %s" % (c["id"], c["note"]), brief(c))
    # shortest witness first
    for f in sorted(collect_oracle(cases), key=lambda f: len(f["case"]["ops"])):
        run.add_oracle_failure(f["signature"], f["what"], f["case"])
    seq = [c for c in cases if c["ops"]]
    if seq:
        try:
            bad = eval_cases(seq, fx, run.tier)
        except RuntimeError as ex:
            bad = []
            run.add_corr_break("D: model evaluation failed: %s" % ex)
        for (idx, step, field) in bad[:20]:
            c = seq[idx] if idx < len(seq) else {"id": None, "ops": [], "qcap": None, "caps": None}
            o = c["ops"][step] if 0 <= step < len(c["ops"]) else {}
            run.add_corr_break("D: case %s: after op %s (%s) the model and the real session pair differ in: %s"
                               % (c["id"], step, o.get("op"), FIELDS.get(field, field)),
                               dict(brief(c, step), differs_in=FIELDS.get(field, field), model_switches=list(fx)))
    # ---- mechanism S: the event loop's delivery against the owner's Close, on the real functions ----
    scases, serr = run_sched(run.tier)
    sched_cov = {}
    if serr:
        run.add_corr_break("S: " + serr)
        scases = []
    order = set()
    for sc in scases:
        if "HARNESS" in (sc.get("note") or ""):
            run.add_corr_break("S: schedule %s: %s" % (sc.get("id"), sc["note"]), sc)
        for m in sc.get("oracle") or []:
            sig, _, what = m.partition("|")
            run.add_oracle_failure(sig, what, {"scheduled_scenario": "a real server stream receives a second element (Stream.fillDataToReadBuffer, thread 0) while its owner runs Stream.Close() (thread 1); one shared access per step",
                                               "strategy": sc.get("strategy"), "schedule": sc.get("schedule"), "event_loop_accesses": sc.get("t1_accesses"),
                                               "inuse_after": sc.get("inuse"), "pending_after": sc.get("pending")})
        acc = sc.get("t1_accesses") or []
        locks = [i for i, a in enumerate(acc) if a[0] == 4]
        loads = [i for i, a in enumerate(acc) if a[0] == 0 and a[1] == 0]
        if locks and loads:
            order.add("add-then-check" if locks[0] < loads[0] else "check-then-add")
    if scases and order != {"add-then-check"}:
        run.add_corr_break("S: fillDataToReadBuffer does not take the pendingData lock (add) before it loads the stream state (re-check): observed %s; "
                           "Model/AccountingConc.v has LoopAdd before LoopCheck - with the opposite order a Close between the two leaves the element in a closed stream" % sorted(order),
                           {"event_loop_accesses": [sc.get("t1_accesses") for sc in scases[:3]]})
    sched_cov = {"scheduled_cases": len(scases), "event_loop_access_order": sorted(order),
                 "schedules": [sc.get("strategy") for sc in scases]}
    feats, opmix, distinct, nops = {}, {}, set(), 0
    for c in cases:
        for f in set(c["feat"]):
            feats[f] = feats.get(f, 0) + 1
        nops += len(c["ops"])
        for o in c["ops"]:
            opmix[o["op"]] = opmix.get(o["op"], 0) + 1
        if set(c["feat"]) - {"injected-data"}:
            distinct.add(json.dumps([c["qcap"], [[o["op"], o["e"], o["sid"], o["n"], o["kind"], len(o["slots"] or [])] for o in c["ops"]]]))
    run.coverage.update({
        "evaluations": len(cases), "distinct_nontrivial": len(distinct),
        "rule": "a case = one history (~30 ops + closing everything) on a fresh real client/server session pair (1 MiB, classes 4096/16384 B, QueueCap 2-8); "
                "non-trivial = at least one fault/boundary feature besides injected data (exhaustion, heap-slice fallback, queue full, flush on a closed stream, close with unread/unsent/pinned data, multi-slice write, partial read, stream re-created for late data, parked slice); distinct by op list",
        "samples": [brief(c) for c in cases[2:4]],
        "features": feats, "op_mix": opmix, "total_ops": nops,
        "ops_inside_concurrent_phases": sum(1 for c in cases for o in c["ops"] if o.get("nocmp")),
        "quiescent_points_compared_after_concurrent_phases": opmix.get("sync", 0),
        "histories_ending_in_a_racy_close_phase": sum(1 for c in cases if c.get("compare_upto")),
        "histories_rerun_after_an_expired_harness_wait": sum(1 for c in cases if c.get("retries")),
        "expired_waits": [w for c in cases for w in (c.get("expired") or [])][:10],
        "queue_caps": sorted({c["qcap"] for c in cases}),
        "scheduled_delivery_vs_close": sched_cov,
        "model_switches": {"sw_recycle_cleans_pinned": fx[0], "sw_write_after_close_rejected": fx[1]},
        "model_switch_chosen_because": fdesc,
        "oracle_failures_by_signature": {s: sum(1 for f in run.oracle_failures if f["signature"] == s) for s in sorted({f["signature"] for f in run.oracle_failures})},
    })
    run.assumptions += [
        "allocation choices and per-slice byte counts are inputs of the model (taken from the real run); the allocator itself is C01/C02's subject",
        "Model/Accounting.v: one label = one API call or one complete run of handlePolling; Model/AccountingConc.v: one label = one critical section (PollOne/LoopAdd/LoopCheck, six steps of Stream.close(), MoveTo, ReadK), one owner thread per stream object, Write/Flush/Release/Reuse atomic",
        "the fault 'fallback send times out while the session stays alive' is induced by holding the session's socket-write flag (as a blocked writer does) with a 60 ms ConnectionWriteTimeout for the time of one Flush; for the slot accounting it is the same Flush label",
        "concurrent traffic phases: per-stream logs are replayed one stream after the other (valid because the streams do not interact, the queue cannot fill and no slot is reused inside a phase) and compared at the quiescent point; after a racy close phase only the end oracle applies",
        "the harness moves pendingData into recvBuf (what readMore does first) before each read so that reads never block",
        "harness waits poll up to 60 s; a history in which a wait expires is re-run from scratch (fresh sessions, same seed) up to 2 more times; only a wait that expires in all 3 runs is reported, as an oracle failure (C09:peer-never-drains-queue / C09:socket-event-never-reaches-peer)",
        "data for unknown streams and queue-full are induced by putting elements into the real queue without a wake-up; exhaustion by holding all but k slots via bufferManager.allocShmBuffer",
        "mechanism S part: go/verisched instruments the atomics of stream.go; props/C09.py additionally turns the pendingData mutex into a scheduling point (textual rewrite of the instrumented copy); sequential consistency; schedules = all single pre-emptions of {fillDataToReadBuffer, Close}",
        "an unused tail behind the write slice (done()'s trimming branch) cannot be produced through BufferWriter; it is exercised only with VERIF_C09_PREALLOC=1"]

    def search():
        cs, e = run_harness(600, run.seed + 7919, "search")
        return sorted(collect_oracle(cs or []), key=lambda f: len(f["case"]["ops"]))
    return run.finish(search)


def replay(path):
    r = json.load(open(path))
    print(json.dumps(r, indent=1)[:6000])
    print("re-run: VERIF_SEED=%s ./check C09 --tier %s   (case 0 of every run is the directed pinned-at-Close history)" % (r.get("seed"), r.get("tier")))
    return 0
