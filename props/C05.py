# C05 — an enqueued element is never stranded without a wake-up.
# proof: Props/C05.v (Model/Wakeup.v, Proofs/WakeupProofs.v); tie: S — the real queue.put/pop/
# markWorking/markNotWorking, Session.wakeUpPeer and handlePolling, instrumented from the current
# source, on two bare sessions sharing one queue memory with an in-memory control connection, under
# controlled schedules; projected access trace + per-step protocol state compared with the model.
import json, os, re
from vlib import core, gen, sched

PROP = "C05"
META = {
    "technique": "Coq proof: inductive invariant (one clause per consumer program point, counting wake-ups on their way) over all schedules of an access-granular model of put/markWorking/wakeUpPeer fast+slow path/send loop/handlePolling/markNotWorking; tie: the real instrumented functions under a controlled scheduler compared access by access and state by state with the model",
    "level_text": "Theorems C05_inv / C05 / C05_finished / C05_events_le_marks / C05_flag_up_has_wakeup hold for any number of producers, all programs and all schedules (induction over the schedule). The model is tied to /repo's queue.go, session.go (wakeUpPeer) and protocol_manager.go (handlePolling) by running these real functions, instrumented from the current source, under hundreds of controlled schedules (random, sticky, directed slow path, systematic single pre-emption, event delivery at schedule-chosen moments) whose projected access traces and per-step (size, flag, events in flight, consumer idle) must equal the model's; the independent oracle (queue empty at quiescence; never stranded at any step; events written <= successful markWorking) runs on every case.",
    "level_note": "Trusted: coqc kernel; sequential consistency of the instrumented accesses; go/verisched instrumenter + scheduler; the send loop (session.go send) blocks on channels and is played by a harness thread mirroring it; schedules are sampled, not exhaustive; a put that finds the queue full is outside this protocol (no element, no wake-up); one consumer (the event loop).",
}

QHDR = 24  # only used to classify events of region 0 as header vs. slot; re-read from Gen/Consts.v below


def consts():
    src = open(os.path.join(core.COQ, "theories", "Gen", "Consts.v")).read()
    def g(name):
        m = re.search(r"Definition %s : Z := (-?\d+)\." % name, src)
        return int(m.group(1)) if m else None
    return {"hdr": g("c_queueHeaderLength"), "head": g("off_map_queue_head"), "tail": g("off_map_queue_tail"),
            "flag": g("off_map_queue_workingFlag")}


def project(c, K):
    """Drop the accesses that are internal to queue.put/pop for this protocol (mutex, slot fields, the
    producer's own loads of tail/head inside put).  Returns list of (tid, event-or-None, obs)."""
    nprod = len(c["progs"])
    out = []
    for s, ob in zip(c["steps"], c["obs"]):
        ev = s["ev"]
        if ev is not None:
            if ev["r"] in (-2, -3, 3):      # mutex, wait group, Session.shutdown (read by Stream.close)
                continue
            if ev["r"] == 0 and ev["o"] >= K["hdr"]:
                continue
            if ev["r"] == 0 and s["tid"] < nprod and ev["k"] == 0:
                continue
        out.append((s["tid"], ev, ob))
    return out


def cell(ev):
    if ev["r"] == 0:
        return ev["o"]
    if ev["r"] == 1:
        return -10
    if ev["r"] == 2:
        return {0: -11, 8: -12, 16: -13}.get(ev["o"], -99)
    return -98


def who(tid, nprod):
    return "WCons" if tid == nprod else ("WSend" if tid == nprod + 1 else "WProd %d%%nat" % tid)


def event(ev):
    if ev is None:
        return "None"
    return "ev %s %s %s %s %s" % (core.z(ev["k"]), core.z(cell(ev)), core.z(ev["a"]), core.z(ev["b"]), core.z(ev["c"]))


def case_to_coq(c, K):
    nprod = len(c["progs"])
    pr = project(c, K)
    progs = core.coq_list([core.coq_list(["OpOther" if o == 1 else "OpSend" for o in p]) for p in c["progs"]])
    sch = core.coq_list([who(t, nprod) for (t, _, _) in pr])
    evs = core.coq_list([event(e) for (_, e, _) in pr])
    obs = core.coq_list(["(%s, %s, %d%%nat, %s)" % (core.z(o[0]), "true" if o[1] else "false", o[2], "true" if o[3] else "false")
                         for (_, _, o) in pr])
    return ("{| w_progs := %s; w_sched := %s; w_events := %s; w_obs := %s; w_marks := %d%%nat; w_written := %d%%nat; w_handled := %d%%nat |}"
            % (progs, sch, evs, obs, c["marks"], c["written"], c["handled"]))


def eval_cases(cases, tag):
    K = consts()
    bad = []
    SH = 250
    for k in range(0, len(cases), SH):
        chunk = cases[k:k + SH]
        txt = ["From Coq Require Import List ZArith.", "From Shm Require Import Gen.Consts Model.Wakeup Corr.WakeupCorr.",
               "Import ListNotations.", "Open Scope Z_scope.",
               "Definition cases : list wcase := ["]
        txt.append(";\n".join(case_to_coq(c, K) for c in chunk))
        txt.append("].")
        txt.append("Definition M := Eval vm_compute in mismatches cases.")
        txt.append("Print M.")
        rc, out, _ = core.coq_eval("cases_%s_%s_%d_%d" % (PROP, tag, os.getpid(), k), "\n".join(txt))
        if rc != 0:
            raise RuntimeError("coqc on the generated cases failed: " + out[-1500:])
        m = re.search(r"M\s*=\s*(.*?)\s*:\s*list", out, re.S)
        if not m:
            raise RuntimeError("cannot parse the mismatch list: " + out[-500:])
        body = m.group(1).strip()
        if body != "[]":
            n0 = len(bad)
            for mm in re.finditer(r"\((\d+)%?n?a?t?,\s*\(?(-?\d+)\)?(?:%Z)?,\s*(None|Some\s+(\d+))", body):
                bad.append((k + int(mm.group(1)), int(mm.group(2)), mm.group(4)))
            if len(bad) == n0:
                bad.append((k, -1, body[:200]))
    return bad


def run_harness(n, seed, tag):
    ov, rep, err = sched.instrument(["queue.go", "session.go", "protocol_manager.go"])
    if err:
        return None, err
    outp = os.path.join(core.WORK, "c05_%s_%d.jsonl" % (tag, os.getpid()))
    rc, out, secs = core.go_test(PROP, "^TestVerif_C05$", {"VERIF_OUT": outp, "VERIF_N": str(n), "VERIF_SEED": str(seed)},
                                 extra_replace=ov, timeout=1200)
    if rc != 0:
        return None, "harness failed (rc=%d): %s" % (rc, out[-2500:])
    cases = [json.loads(l) for l in open(outp)]
    os.unlink(outp)
    return cases, None


def signature(msg):
    return "C05:" + re.sub(r"[^A-Za-z0-9]+", "-", msg.split(":")[0])[:60]


def brief(c):
    return {"id": c["id"], "strat": c["strat"], "progs": c["progs"], "schedule": [s["tid"] for s in c["steps"]],
            "quiescent": c["quiescent"], "final_size": c["final_size"], "marks": c["marks"], "written": c["written"],
            "handled": c["handled"],
            "threads": "0..n-1 producers (op 0 = Stream.Flush, 2 = Stream.close, 1 = other writer of the connection), n = consumer (B's event loop), n+1 = A's send loop"}


def check(run):
    data, gerr = gen.regenerate()
    if gerr:
        run.add_corr_break("G: " + gerr)
    run.proof = core.proof_step(PROP, run.tier)
    n = 300 if run.tier == "quick" else 8000
    cases, err = run_harness(n, run.seed, run.tier)
    feats, strat, distinct = {}, {}, set()
    if err:
        run.add_corr_break("S: " + err)
        cases = []
    for c in cases:
        for m in c.get("oracle") or []:
            run.add_oracle_failure(signature(m), m, brief(c))
        if c.get("feat"):
            distinct.add(json.dumps([c["progs"], [s["tid"] for s in c["steps"]]]))
        for f in set(c.get("feat") or []):
            feats[f] = feats.get(f, 0) + 1
        s = re.sub(r"\(.*", "", c["strat"])
        strat[s] = strat.get(s, 0) + 1
    if cases:
        try:
            bad = eval_cases(cases, run.tier)
        except RuntimeError as ex:
            bad = []
            run.add_corr_break("S: model evaluation failed: %s" % ex)
        K = consts()
        for (idx, kind, pos) in bad[:20]:
            c = cases[idx] if idx < len(cases) else {}
            what = {1: "projected access trace differs from the model at projected step %s" % pos,
                    2: "per-step protocol state (size, flag, events in flight, consumer idle) differs from the model at projected step %s" % pos,
                    3: "final counters (markWorking successes / events written / handled) differ from the model"}.get(kind, "model/implementation mismatch")
            around = None
            if pos is not None and c:
                pr = project(c, K)
                p = int(pos)
                around = [{"tid": t, "ev": e, "obs": o} for (t, e, o) in pr[max(0, p - 3):p + 2]]
            run.add_corr_break("S: case %s (%s): %s" % (c.get("id"), c.get("strat"), what),
                               dict(brief(c), diverges_at=pos, impl_around=around) if c else None)
    run.coverage.update({
        "evaluations": len(cases), "distinct_nontrivial": len(distinct),
        "rule": "a case = (producer programs, schedule incl. the moments at which events are delivered) run on the real instrumented "
                "put/markWorking/wakeUpPeer/handlePolling/markNotWorking; non-trivial = a lost markWorking, an element rescued by the "
                "re-check, the slow path through sendCh, an event delivered to an empty queue, or an event written while the consumer drains; "
                "distinct by (programs, schedule)",
        "samples": [dict(brief(c), feat=c.get("feat")) for c in cases[:2]],
        "strategies": strat, "features": feats,
        "producers": sorted({len(c["progs"]) for c in cases}),
        "total_steps": sum(len(c["steps"]) for c in cases),
        "quiescent_runs": sum(1 for c in cases if c["quiescent"]),
    })
    run.assumptions += [
        "sequential consistency of the instrumented accesses",
        "queue.put/pop are atomic at their publication points for this protocol (C04; the S run uses the real put/pop and would show a difference)",
        "the event loop is a single thread: polling events are handled one at a time, in the order written",
        "session.go send() is mirrored by a harness thread (it blocks on channels and cannot run under the cooperative scheduler)",
        "a put that returns ErrQueueFull enqueues nothing and sends no wake-up (not an operation of this protocol)",
        "the instrumenter go/verisched preserves the semantics of the instrumented files apart from added scheduling points"]

    def search():
        cs, e = run_harness(3000, run.seed + 7919, "search")
        found = []
        for c in cs or []:
            for m in c.get("oracle") or []:
                found.append({"signature": signature(m), "what": m, "case": brief(c)})
        return found
    return run.finish(search)


def replay(path):
    r = json.load(open(path))
    print(json.dumps(r, indent=1)[:4000])
    print("re-run: VERIF_SEED=%s ./check C05 --tier %s" % (r.get("seed"), r.get("tier")))
    return 0
