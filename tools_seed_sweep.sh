#!/bin/bash
# Re-run every seeded change against the check of its property, each on private copies of /repo and /verif
# (tools_iso_check.sh), N at a time.  usage: ./tools_seed_sweep.sh [-j N] [ids...]
cd /verif
J=3; if [ "$1" = "-j" ]; then J=$2; shift 2; fi
ids="$@"; [ -z "$ids" ] && ids=$(ls seeded | grep -v "SWEEP\|harmless")
raw=.work/sweep_raw.txt; : > $raw
for s in $ids; do echo $s; done | xargs -P $J -I{} sh -c 'p=$(echo {} | cut -c1-3); ./tools_iso_check.sh seeded/{}/patch.diff '$raw' $p'
{
echo "# seeded-change sweep against /repo $(git -C /repo rev-parse --short HEAD), /verif $(git rev-parse --short HEAD), $(date -u +%FT%TZ)"
for s in $ids; do
  l=$(grep "^$s/patch.diff \|DOES-NOT-APPLY $s/" $raw | head -1)
  case "$l" in
    *DOES-NOT-APPLY*) echo "$s: patch no longer applies to /repo HEAD (see seeded/$s/meta.json)";;
    *VIOLATION*) echo "$s: CAUGHT  — ${l#* }";;
    *) echo "$s: NOT CAUGHT — $l";;
  esac
done
} > seeded/SWEEP.txt
cat seeded/SWEEP.txt
