#!/bin/bash
# Re-run every seeded change against the check of its property (and report which still apply to /repo HEAD).
# usage: ./tools_seed_sweep.sh [ids...]   — /repo must be clean; it is restored after every seed.
cd /verif
out=seeded/SWEEP.txt
: > $out.tmp
ids="$@"; [ -z "$ids" ] && ids=$(ls seeded | grep -v SWEEP)
if [ -n "$(git -C /repo status --porcelain)" ]; then echo "/repo is not clean"; exit 2; fi
for s in $ids; do
  p=${s:0:3}
  if ! git -C /repo apply --check seeded/$s/patch.diff 2>/dev/null; then
    echo "$s: patch does not apply to /repo HEAD $(git -C /repo rev-parse --short HEAD) (see seeded/$s/meta.json)" >> $out.tmp; continue
  fi
  git -C /repo apply seeded/$s/patch.diff
  res=$(timeout 2400 ./check $p 2>&1 | grep "^VIOLATION" | head -3 | sed 's/^VIOLATION //' | tr '\n' ';')
  git -C /repo checkout -- . ; git -C /repo clean -fdq
  if [ -n "$res" ]; then echo "$s: CAUGHT by ./check $p: $res" >> $out.tmp; else echo "$s: NOT CAUGHT by ./check $p" >> $out.tmp; fi
done
mv $out.tmp $out
cat $out
