module verisched

go 1.20
