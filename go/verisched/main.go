// verisched: source-to-source instrumenter for mechanism S (DESIGN.md §2.2).
//
// usage: verisched -out DIR file.go...
//
// Reads the CURRENT source files of /repo, rewrites every shared-memory access into a call of the
// scheduler runtime (go/harness/vsched_rt.go) and writes the instrumented copies to DIR.  Nothing is
// written to /repo; the copies are handed to `go test -overlay`.
//
//   atomic.F(args)                          ->  vsF(args)           (F on 32/64-bit integers)
//   *(*T)(unsafe.Pointer(&x[i]))            ->  vsLoadP((*T)(unsafe.Pointer(&x[i])))
//   *(*T)(unsafe.Pointer(&x[i])) = e        ->  vsStoreP((*T)(unsafe.Pointer(&x[i])), e)
//   *x.f   (f a pointer field of bufferList / queue)   ->  vsLoadP(x.f)   /  vsStoreP(x.f, e)
//   h[i]   inside a method with receiver h bufferHeader ->  vsLoadP(&h[i]) /  vsStoreP(&h[i], e)
//   q.Lock() / q.Unlock() inside a method of *queue     ->  vsLock(&q.Mutex) / vsUnlock(&q.Mutex)
//   op= and ++/-- on any of the above are split into load + store.
package main

import (
	"bytes"
	"flag"
	"fmt"
	"go/ast"
	"go/format"
	"go/parser"
	"go/token"
	"os"
	"path/filepath"
)

var ptrFields = map[string]bool{"size": true, "cap": true, "head": true, "tail": true,
	"capPerBuffer": true, "counter": true, "workingFlag": true}

var atomicFuncs = map[string]bool{
	"LoadInt64": true, "AddInt64": true, "StoreInt64": true, "LoadInt32": true, "AddInt32": true,
	"StoreInt32": true, "LoadUint32": true, "StoreUint32": true, "AddUint32": true,
	"CompareAndSwapUint32": true, "CompareAndSwapInt32": true, "CompareAndSwapInt64": true,
}

type ctx struct {
	recvName   string // receiver identifier of the current method
	recvType   string // receiver type name (without *)
	count      int
	skipAtomic bool
}

func call(name string, args ...ast.Expr) *ast.CallExpr {
	return &ast.CallExpr{Fun: ast.NewIdent(name), Args: args}
}

// isUnsafeCast reports whether e is (*T)(unsafe.Pointer(&x[i])).
func isUnsafeCast(e ast.Expr) bool {
	c, ok := e.(*ast.CallExpr)
	if !ok || len(c.Args) != 1 {
		return false
	}
	p, ok := c.Fun.(*ast.ParenExpr)
	if !ok {
		return false
	}
	if _, ok := p.X.(*ast.StarExpr); !ok {
		return false
	}
	in, ok := c.Args[0].(*ast.CallExpr)
	if !ok || len(in.Args) != 1 {
		return false
	}
	sel, ok := in.Fun.(*ast.SelectorExpr)
	if !ok || sel.Sel.Name != "Pointer" {
		return false
	}
	if id, ok := sel.X.(*ast.Ident); !ok || id.Name != "unsafe" {
		return false
	}
	return true
}

// sharedPtr returns the pointer expression if e (a dereference or index) denotes a shared cell.
func (c *ctx) sharedPtr(e ast.Expr) (ast.Expr, bool) {
	switch v := e.(type) {
	case *ast.ParenExpr:
		return c.sharedPtr(v.X)
	case *ast.StarExpr:
		if isUnsafeCast(v.X) {
			return v.X, true
		}
		if s, ok := v.X.(*ast.SelectorExpr); ok && ptrFields[s.Sel.Name] {
			return v.X, true
		}
	case *ast.IndexExpr:
		if c.recvType == "bufferHeader" {
			if id, ok := v.X.(*ast.Ident); ok && id.Name == c.recvName {
				return &ast.UnaryExpr{Op: token.AND, X: v}, true
			}
		}
	}
	return nil, false
}

func (c *ctx) expr(e ast.Expr) ast.Expr {
	if e == nil {
		return nil
	}
	if p, ok := c.sharedPtr(e); ok {
		c.count++
		return call("vsLoadP", c.inner(p))
	}
	switch v := e.(type) {
	case *ast.CallExpr:
		if s, ok := v.Fun.(*ast.SelectorExpr); ok {
			if id, ok := s.X.(*ast.Ident); ok && id.Name == "atomic" && atomicFuncs[s.Sel.Name] && !c.skipAtomic {
				c.count++
				v.Fun = ast.NewIdent("vs" + s.Sel.Name)
			}
		}
		if s, ok := v.Fun.(*ast.SelectorExpr); ok {
			if id, ok := s.X.(*ast.Ident); ok && id.Name == "gopool" && s.Sel.Name == "Go" {
				c.count++
				v.Fun = ast.NewIdent("vsGo")
			}
			// x.asyncGoroutineWg.Add(n) / .Done() / .Wait()
			if in, ok := s.X.(*ast.SelectorExpr); ok && in.Sel.Name == "asyncGoroutineWg" {
				switch s.Sel.Name {
				case "Add", "Done", "Wait":
					c.count++
					args := append([]ast.Expr{&ast.UnaryExpr{Op: token.AND, X: in}}, v.Args...)
					for i := range args {
						args[i] = c.expr(args[i])
					}
					return call("vsWg"+s.Sel.Name, args...)
				}
			}
		}
		if _, isLit := v.Fun.(*ast.FuncLit); isLit {
			v.Fun = c.expr(v.Fun)
		}
		for i := range v.Args {
			v.Args[i] = c.expr(v.Args[i])
		}
		return v
	case *ast.BinaryExpr:
		v.X, v.Y = c.expr(v.X), c.expr(v.Y)
	case *ast.UnaryExpr:
		if v.Op == token.AND {
			// address-of: do not turn the operand into a load; still rewrite inside indices
			v.X = c.inner(v.X)
			return v
		}
		v.X = c.expr(v.X)
	case *ast.ParenExpr:
		v.X = c.expr(v.X)
	case *ast.IndexExpr:
		v.X, v.Index = c.expr(v.X), c.expr(v.Index)
	case *ast.SliceExpr:
		v.X, v.Low, v.High, v.Max = c.expr(v.X), c.expr(v.Low), c.expr(v.High), c.expr(v.Max)
	case *ast.SelectorExpr:
		v.X = c.expr(v.X)
	case *ast.StarExpr:
		v.X = c.expr(v.X)
	case *ast.CompositeLit:
		for i := range v.Elts {
			v.Elts[i] = c.expr(v.Elts[i])
		}
	case *ast.KeyValueExpr:
		v.Value = c.expr(v.Value)
	case *ast.TypeAssertExpr:
		v.X = c.expr(v.X)
	case *ast.FuncLit:
		c.block(v.Body)
	}
	return e
}

// inner rewrites the sub-expressions of an lvalue / pointer expression (indices, bases) without
// turning the expression itself into a load.
func (c *ctx) inner(e ast.Expr) ast.Expr {
	switch v := e.(type) {
	case *ast.IndexExpr:
		v.X = c.inner(v.X)
		v.Index = c.expr(v.Index)
	case *ast.SelectorExpr:
		v.X = c.inner(v.X)
	case *ast.ParenExpr:
		v.X = c.inner(v.X)
	case *ast.StarExpr:
		v.X = c.expr(v.X)
	case *ast.UnaryExpr:
		v.X = c.inner(v.X)
	case *ast.CallExpr:
		for i := range v.Args {
			v.Args[i] = c.inner(v.Args[i])
		}
	case *ast.SliceExpr:
		v.X, v.Low, v.High, v.Max = c.inner(v.X), c.expr(v.Low), c.expr(v.High), c.expr(v.Max)
	}
	return e
}

var opOf = map[token.Token]token.Token{
	token.ADD_ASSIGN: token.ADD, token.SUB_ASSIGN: token.SUB, token.OR_ASSIGN: token.OR,
	token.AND_ASSIGN: token.AND, token.XOR_ASSIGN: token.XOR, token.MUL_ASSIGN: token.MUL,
	token.AND_NOT_ASSIGN: token.AND_NOT, token.SHL_ASSIGN: token.SHL, token.SHR_ASSIGN: token.SHR,
}

func clone(e ast.Expr) ast.Expr {
	// re-parse the printed expression: a cheap deep copy
	var b bytes.Buffer
	if err := format.Node(&b, token.NewFileSet(), e); err != nil {
		panic(err)
	}
	r, err := parser.ParseExpr(b.String())
	if err != nil {
		panic(err)
	}
	return r
}

func (c *ctx) stmt(s ast.Stmt) ast.Stmt {
	switch v := s.(type) {
	case nil:
		return nil
	case *ast.AssignStmt:
		if len(v.Lhs) == 1 && len(v.Rhs) == 1 {
			if p, ok := c.sharedPtr(v.Lhs[0]); ok {
				c.count++
				p2 := clone(p)
				rhs := c.expr(v.Rhs[0])
				if v.Tok == token.ASSIGN {
					return &ast.ExprStmt{X: call("vsStoreP", c.inner(p), rhs)}
				}
				if op, ok := opOf[v.Tok]; ok {
					ld := call("vsLoadP", c.inner(p2))
					return &ast.ExprStmt{X: call("vsStoreP", c.inner(p), &ast.BinaryExpr{X: ld, Op: op, Y: &ast.ParenExpr{X: rhs}})}
				}
			}
		}
		for i := range v.Rhs {
			v.Rhs[i] = c.expr(v.Rhs[i])
		}
		for i := range v.Lhs {
			v.Lhs[i] = c.inner(v.Lhs[i])
		}
	case *ast.IncDecStmt:
		if p, ok := c.sharedPtr(v.X); ok {
			c.count++
			p2 := clone(p)
			op := token.ADD
			if v.Tok == token.DEC {
				op = token.SUB
			}
			ld := call("vsLoadP", c.inner(p2))
			return &ast.ExprStmt{X: call("vsStoreP", c.inner(p), &ast.BinaryExpr{X: ld, Op: op, Y: &ast.BasicLit{Kind: token.INT, Value: "1"}})}
		}
		v.X = c.inner(v.X)
	case *ast.ExprStmt:
		if ce, ok := v.X.(*ast.CallExpr); ok && len(ce.Args) == 0 && c.recvType == "queue" {
			if se, ok := ce.Fun.(*ast.SelectorExpr); ok {
				if id, ok := se.X.(*ast.Ident); ok && id.Name == c.recvName {
					if se.Sel.Name == "Lock" || se.Sel.Name == "Unlock" {
						c.count++
						m := &ast.UnaryExpr{Op: token.AND, X: &ast.SelectorExpr{X: ast.NewIdent(id.Name), Sel: ast.NewIdent("Mutex")}}
						return &ast.ExprStmt{X: call("vs"+se.Sel.Name, m)}
					}
				}
			}
		}
		v.X = c.expr(v.X)
	case *ast.BlockStmt:
		c.block(v)
	case *ast.IfStmt:
		v.Init = c.stmt(v.Init)
		v.Cond = c.expr(v.Cond)
		c.block(v.Body)
		v.Else = c.stmt(v.Else)
	case *ast.ForStmt:
		v.Init = c.stmt(v.Init)
		v.Cond = c.expr(v.Cond)
		v.Post = c.stmt(v.Post)
		c.block(v.Body)
	case *ast.RangeStmt:
		v.X = c.expr(v.X)
		c.block(v.Body)
	case *ast.ReturnStmt:
		for i := range v.Results {
			v.Results[i] = c.expr(v.Results[i])
		}
	case *ast.SwitchStmt:
		v.Init = c.stmt(v.Init)
		v.Tag = c.expr(v.Tag)
		c.block(v.Body)
	case *ast.TypeSwitchStmt:
		c.block(v.Body)
	case *ast.CaseClause:
		for i := range v.List {
			v.List[i] = c.expr(v.List[i])
		}
		for i := range v.Body {
			v.Body[i] = c.stmt(v.Body[i])
		}
	case *ast.SelectStmt:
		c.block(v.Body)
	case *ast.CommClause:
		v.Comm = c.stmt(v.Comm)
		for i := range v.Body {
			v.Body[i] = c.stmt(v.Body[i])
		}
	case *ast.SendStmt:
		v.Chan, v.Value = c.expr(v.Chan), c.expr(v.Value)
	case *ast.GoStmt:
		v.Call = c.expr(v.Call).(*ast.CallExpr)
	case *ast.DeferStmt:
		v.Call = c.expr(v.Call).(*ast.CallExpr)
	case *ast.LabeledStmt:
		v.Stmt = c.stmt(v.Stmt)
	case *ast.DeclStmt:
		if gd, ok := v.Decl.(*ast.GenDecl); ok {
			for _, sp := range gd.Specs {
				if vs, ok := sp.(*ast.ValueSpec); ok {
					for i := range vs.Values {
						vs.Values[i] = c.expr(vs.Values[i])
					}
				}
			}
		}
	}
	return s
}

func (c *ctx) block(b *ast.BlockStmt) {
	if b == nil {
		return
	}
	for i := range b.List {
		b.List[i] = c.stmt(b.List[i])
	}
}

func main() {
	out := flag.String("out", "", "output directory")
	noAtomicIn := flag.String("plain-atomics", "", "comma separated functions whose atomics stay uninstrumented")
	flag.Parse()
	_ = noAtomicIn
	if *out == "" || flag.NArg() == 0 {
		fmt.Fprintln(os.Stderr, "usage: verisched -out DIR file.go...")
		os.Exit(2)
	}
	if err := os.MkdirAll(*out, 0o755); err != nil {
		panic(err)
	}
	for _, fn := range flag.Args() {
		fset := token.NewFileSet()
		f, err := parser.ParseFile(fset, fn, nil, parser.ParseComments)
		if err != nil {
			fmt.Fprintln(os.Stderr, "parse:", err)
			os.Exit(1)
		}
		total := 0
		for _, d := range f.Decls {
			fd, ok := d.(*ast.FuncDecl)
			if !ok || fd.Body == nil {
				continue
			}
			c := &ctx{}
			if fd.Recv != nil && len(fd.Recv.List) == 1 && len(fd.Recv.List[0].Names) == 1 {
				c.recvName = fd.Recv.List[0].Names[0].Name
				switch rt := fd.Recv.List[0].Type.(type) {
				case *ast.StarExpr:
					if id, ok := rt.X.(*ast.Ident); ok {
						c.recvType = id.Name
					}
				case *ast.Ident:
					c.recvType = rt.Name
				}
			}
			c.block(fd.Body)
			total += c.count
		}
		var b bytes.Buffer
		if err := format.Node(&b, fset, f); err != nil {
			fmt.Fprintln(os.Stderr, "print:", err)
			os.Exit(1)
		}
		// imports that became unused (sync/atomic) are kept alive by a blank reference
		src := b.String()
		if bytes.Contains(b.Bytes(), []byte("\"sync/atomic\"")) {
			src += "\nvar _ = atomic.LoadInt32\n"
		}
		if bytes.Contains(b.Bytes(), []byte("/gopool\"")) {
			src += "\nvar _ = gopool.Go\n"
		}
		dst := filepath.Join(*out, filepath.Base(fn))
		if err := os.WriteFile(dst, []byte(src), 0o644); err != nil {
			panic(err)
		}
		fmt.Printf("%s: %d accesses instrumented\n", filepath.Base(fn), total)
	}
}
