//go:build verif

package shmipc

// Mechanism S (DESIGN.md §2.2): runtime of the controlled scheduler.  This file is injected into
// package shmipc through `go test -overlay` together with instrumented copies of the lock-free
// source files (produced from /repo's current tree by go/verisched).  Every instrumented shared
// access first waits for the scheduler's grant, then performs the REAL operation and logs
// (tid, kind, cell, values).  When no controlled run is active the wrappers are plain pass-throughs.

import (
	"sync"
	"sync/atomic"
	"unsafe"
)

const (
	vsKR      = 0 // plain or atomic load          a = value
	vsKW      = 1 // plain or atomic store         a = value
	vsKFAA    = 2 // atomic add                    a = delta, b = new value
	vsKCAS    = 3 // compare-and-swap              a = expected, b = new, c = 1 if it succeeded
	vsKLock   = 4 // mutex acquired
	vsKBusy   = 5 // mutex found busy (the step is a no-op)
	vsKUnlock = 6
)

type vsEvent struct {
	Tid  int   `json:"t"`
	Kind int   `json:"k"`
	Reg  int   `json:"r"` // region index, -1 = unknown address, -2 = mutex
	Off  int64 `json:"o"` // byte offset inside the region
	A    int64 `json:"a"`
	B    int64 `json:"b"`
	C    int64 `json:"c"`
}

type vsThread struct {
	id    int
	grant chan struct{}
	token bool
	done  bool
}

type vsRegion struct {
	base uintptr
	size uintptr
}

var vs struct {
	active  bool
	cur     *vsThread
	back    chan struct{}
	log     []vsEvent
	regions []vsRegion
	threads []*vsThread
	hook    func(ev vsEvent) // called by the running thread right after each logged event
	wg      map[*sync.WaitGroup]int
	spawned func(t *vsThread) // called when instrumented code starts a goroutine (gopool.Go)
}

func vsReset() {
	vs.active = false
	vs.cur = nil
	vs.back = make(chan struct{})
	vs.log = nil
	vs.regions = nil
	vs.threads = nil
	vs.hook = nil
	vs.wg = map[*sync.WaitGroup]int{}
	vs.spawned = nil
}

func vsAddRegion(p unsafe.Pointer, size int) int {
	vs.regions = append(vs.regions, vsRegion{uintptr(p), uintptr(size)})
	return len(vs.regions) - 1
}

func vsCell(p unsafe.Pointer) (int, int64) {
	a := uintptr(p)
	for i, r := range vs.regions {
		if a >= r.base && a < r.base+r.size {
			return i, int64(a - r.base)
		}
	}
	return -1, 0
}

// vsPre is the scheduling point in front of every shared access.
func vsPre() {
	if !vs.active {
		return
	}
	t := vs.cur
	if t == nil {
		return
	}
	if t.token {
		t.token = false
		return
	}
	vs.back <- struct{}{}
	<-t.grant
	vs.cur = t
	t.token = false
}

func vsLog(kind int, p unsafe.Pointer, a, b, c int64) {
	if !vs.active || vs.cur == nil {
		return
	}
	reg, off := vsCell(p)
	ev := vsEvent{vs.cur.id, kind, reg, off, a, b, c}
	vs.log = append(vs.log, ev)
	if vs.hook != nil {
		vs.hook(ev)
	}
}

// vsSpawn registers a controlled thread running body.  It does not start before its first grant.
func vsSpawn(body func()) *vsThread {
	t := &vsThread{id: len(vs.threads), grant: make(chan struct{})}
	vs.threads = append(vs.threads, t)
	go func() {
		<-t.grant
		vs.cur = t
		t.token = true
		body()
		t.done = true
		vs.cur = nil
		vs.back <- struct{}{}
	}()
	return t
}

// vsStep lets thread t perform exactly one shared access (plus the local computation that follows
// it).  Returns false if the thread had already finished (the step is a no-op).
func vsStep(t *vsThread) bool {
	if t.done {
		return false
	}
	t.grant <- struct{}{}
	<-vs.back
	return true
}

// ---- wrappers -------------------------------------------------------------------------------

func vsLoadInt64(p *int64) int64 {
	vsPre()
	v := atomic.LoadInt64(p)
	vsLog(vsKR, unsafe.Pointer(p), v, 0, 0)
	return v
}
func vsAddInt64(p *int64, d int64) int64 {
	vsPre()
	v := atomic.AddInt64(p, d)
	vsLog(vsKFAA, unsafe.Pointer(p), d, v, 0)
	return v
}
func vsStoreInt64(p *int64, x int64) {
	vsPre()
	atomic.StoreInt64(p, x)
	vsLog(vsKW, unsafe.Pointer(p), x, 0, 0)
}
func vsLoadInt32(p *int32) int32 {
	vsPre()
	v := atomic.LoadInt32(p)
	vsLog(vsKR, unsafe.Pointer(p), int64(v), 0, 0)
	return v
}
func vsAddInt32(p *int32, d int32) int32 {
	vsPre()
	v := atomic.AddInt32(p, d)
	vsLog(vsKFAA, unsafe.Pointer(p), int64(d), int64(v), 0)
	return v
}
func vsStoreInt32(p *int32, x int32) {
	vsPre()
	atomic.StoreInt32(p, x)
	vsLog(vsKW, unsafe.Pointer(p), int64(x), 0, 0)
}
func vsLoadUint32(p *uint32) uint32 {
	vsPre()
	v := atomic.LoadUint32(p)
	vsLog(vsKR, unsafe.Pointer(p), int64(v), 0, 0)
	return v
}
func vsStoreUint32(p *uint32, x uint32) {
	vsPre()
	atomic.StoreUint32(p, x)
	vsLog(vsKW, unsafe.Pointer(p), int64(x), 0, 0)
}
func vsAddUint32(p *uint32, d uint32) uint32 {
	vsPre()
	v := atomic.AddUint32(p, d)
	vsLog(vsKFAA, unsafe.Pointer(p), int64(d), int64(v), 0)
	return v
}
func vsCompareAndSwapUint32(p *uint32, o, n uint32) bool {
	vsPre()
	ok := atomic.CompareAndSwapUint32(p, o, n)
	c := int64(0)
	if ok {
		c = 1
	}
	vsLog(vsKCAS, unsafe.Pointer(p), int64(o), int64(n), c)
	return ok
}
func vsCompareAndSwapInt32(p *int32, o, n int32) bool {
	vsPre()
	ok := atomic.CompareAndSwapInt32(p, o, n)
	c := int64(0)
	if ok {
		c = 1
	}
	vsLog(vsKCAS, unsafe.Pointer(p), int64(o), int64(n), c)
	return ok
}
func vsCompareAndSwapInt64(p *int64, o, n int64) bool {
	vsPre()
	ok := atomic.CompareAndSwapInt64(p, o, n)
	c := int64(0)
	if ok {
		c = 1
	}
	vsLog(vsKCAS, unsafe.Pointer(p), o, n, c)
	return ok
}

type vsInt interface {
	~int32 | ~uint32 | ~int64 | ~uint64 | ~uint16 | ~uint8 | ~int | ~uint
}

// plain (non-atomic in the source) load / store through a pointer
func vsLoadP[T vsInt](p *T) T {
	vsPre()
	v := *p
	vsLog(vsKR, unsafe.Pointer(p), int64(v), 0, 0)
	return v
}
func vsStoreP[T vsInt](p *T, x T) {
	vsPre()
	*p = x
	vsLog(vsKW, unsafe.Pointer(p), int64(x), 0, 0)
}

func vsLock(m *sync.Mutex) {
	if !vs.active || vs.cur == nil {
		m.Lock()
		return
	}
	for {
		vsPre()
		if m.TryLock() {
			vs.log = append(vs.log, vsEvent{vs.cur.id, vsKLock, -2, 0, 0, 0, 0})
			return
		}
		vs.log = append(vs.log, vsEvent{vs.cur.id, vsKBusy, -2, 0, 0, 0, 0})
	}
}
func vsUnlock(m *sync.Mutex) {
	if !vs.active || vs.cur == nil {
		m.Unlock()
		return
	}
	vsPre()
	m.Unlock()
	vs.log = append(vs.log, vsEvent{vs.cur.id, vsKUnlock, -2, 0, 0, 0, 0})
}

// gopool.Go(f) in instrumented code: under a controlled run the goroutine becomes a controlled thread
// (it does not run before the scheduler grants it a step).
func vsGo(f func()) {
	if !vs.active || vs.cur == nil {
		go f()
		return
	}
	t := vsSpawn(f)
	if vs.spawned != nil {
		vs.spawned(t)
	}
}

// sync.WaitGroup used by instrumented code (Stream.asyncGoroutineWg): cooperative under a controlled run.
func vsWgAdd(w *sync.WaitGroup, n int) {
	w.Add(n)
	if vs.active {
		vs.wg[w] += n
	}
}
func vsWgDone(w *sync.WaitGroup) {
	if vs.active {
		vs.wg[w]--
	}
	w.Done()
}
func vsWgWait(w *sync.WaitGroup) {
	if !vs.active || vs.cur == nil {
		w.Wait()
		return
	}
	for {
		vsPre()
		if vs.wg[w] <= 0 {
			vs.log = append(vs.log, vsEvent{vs.cur.id, vsKLock, -3, 0, 0, 0, 0})
			return
		}
		vs.log = append(vs.log, vsEvent{vs.cur.id, vsKBusy, -3, 0, 0, 0, 0})
	}
}
