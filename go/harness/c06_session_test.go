//go:build verif

package shmipc

// C06 level (ii): the same op histories, oracle and observables as c06_common_test.go, but on the two
// ends of a REAL stream of a REAL session pair (real Stream.Flush -> writeFallback -> socket -> event
// loop -> handleFallbackData -> pendingData -> readMore).  Small size classes are impossible here
// (VerifyConfig wants >= 1 MiB), so the harness holds every slot of every class: each write falls back
// to a heap slice and every flush travels through the socket.  The reader LAGS: several flushes arrive
// in separate socket reads before it reads, Peek/ReadBytes results are kept across later arrivals.
// The model evaluates these histories with no size class at all (cfg = []): every delivery is the
// fallback transfer of C06_fallback_delivery.

import (
	"fmt"
	"sync/atomic"
	"time"
	"unsafe"
)

type vsWorld struct {
	client, server *Session
	held           []*bufferSlice
}

func vsNewWorld() (*vsWorld, error) {
	conf := testConf()
	conf.ShareMemoryBufferCap = 1 << 20
	clientConn, serverConn := testConn()
	var server *Session
	var serr error
	ok := make(chan struct{})
	go func() {
		sc := *conf
		server, serr = newSession(&sc, serverConn, false)
		close(ok)
	}()
	cc := *conf
	client, err := newSession(&cc, clientConn, true)
	<-ok
	if err != nil {
		return nil, err
	}
	if serr != nil {
		return nil, serr
	}
	return &vsWorld{client: client, server: server}, nil
}

func (w *vsWorld) hold() {
	for _, l := range w.client.bufferManager.lists {
		for {
			b, err := l.pop()
			if err != nil {
				break
			}
			w.held = append(w.held, b)
		}
	}
}

func (w *vsWorld) release() {
	for _, b := range w.held {
		w.client.bufferManager.recycleBuffer(b)
	}
	w.held = nil
}

func vsWait(cond func() bool, d time.Duration) bool {
	dl := time.Now().Add(d)
	for i := 0; ; i++ {
		if cond() {
			return true
		}
		if time.Now().After(dl) {
			return false
		}
		if i < 100 {
			time.Sleep(50 * time.Microsecond)
		} else {
			time.Sleep(time.Millisecond)
		}
	}
}

func vsPendLen(s *Stream) int {
	s.pendingData.Lock()
	n := len(s.pendingData.unread)
	s.pendingData.Unlock()
	return n
}

// one history on a fresh stream of the shared session pair
func vsCase(w *vsWorld, rng *vrand, id int, mode string) *vpCase {
	c := &vpCase{ID: id, Mode: mode, Cfg: [][2]int{}}
	cs, err := w.client.OpenStream()
	if err != nil {
		c.Oracle = append(c.Oracle, "harness|OpenStream: "+err.Error())
		return c
	}
	// preamble (outside the compared history): one byte through shared memory creates the server end
	if err = cs.BufferWriter().WriteByte(7); err == nil {
		err = cs.Flush(false)
	}
	if err != nil {
		c.Oracle = append(c.Oracle, "harness|preamble: "+err.Error())
		return c
	}
	ss, err := w.server.AcceptStream()
	if err != nil {
		c.Oracle = append(c.Oracle, "harness|AcceptStream: "+err.Error())
		return c
	}
	ss.SetReadDeadline(time.Now().Add(20 * time.Second))
	if b, e := ss.BufferReader().ReadByte(); e != nil || b != 7 {
		c.Oracle = append(c.Oracle, fmt.Sprintf("harness|preamble read: %v %d", e, b))
		return c
	}
	ss.BufferReader().ReleasePreviousRead()
	w.hold()
	defer func() {
		w.release()
		cs.Close()
		ss.Close()
	}()
	p := &vpipe{bm: w.client.bufferManager, c: c, feat: map[string]bool{"level-ii": true}, real: true, snd: cs, rcv: ss}
	p.st = [2]*Stream{cs, ss}
	p.dirs[1].wabs = vpDirBase
	arrived := 0
	// arrival of a flush = the peer's event loop has handled the fallback event AND has queued its payload on
	// the stream (handleFallbackData counts the event BEFORE it queues the slice: waiting for the counter alone
	// leaves a window in which the reader does not see the bytes yet)
	base := int(atomic.LoadUint64(&w.server.stats.fallbackReadCount))
	pendingBytes := func() int {
		ss.pendingData.Lock()
		defer ss.pendingData.Unlock()
		n := 0
		for _, u := range ss.pendingData.unread {
			if u.fallbackSlice != nil {
				n += u.fallbackSlice.size()
			}
		}
		return n
	}
	p.realFlush = func() error {
		n := cs.sendBuf.Len()
		if n == 0 {
			return cs.Flush(false)
		}
		wantBytes := len(p.avail) + len(p.inflight) + n
		if e := cs.Flush(false); e != nil {
			return e
		}
		arrived++
		p.feat["fallback"] = true
		want := arrived
		// the reader lags: wait for the arrival (a separate socket read per flush), never for the reader
		if !vsWait(func() bool {
			return int(atomic.LoadUint64(&w.server.stats.fallbackReadCount)) >= want+base && ss.recvBuf.Len()+pendingBytes() >= wantBytes
		}, 20*time.Second) {
			return fmt.Errorf("flush %d did not arrive (%d of %d bytes at the receiver)", want, ss.recvBuf.Len()+pendingBytes(), wantBytes)
		}
		return nil
	}
	defer func() {
		for f := range p.feat {
			c.Feat = append(c.Feat, f)
		}
	}()
	run := func(op vpOp) bool {
		c.Ops = append(c.Ops, op)
		return p.exec(len(c.Ops)-1, op)
	}
	size := func() int {
		switch rng.intn(8) {
		case 0:
			return 1
		case 1:
			return 0
		case 2:
			return int(defaultSingleBufferSize) + rng.intn(3) - 1
		case 3:
			return 700 + rng.intn(900)
		default:
			return 1 + rng.intn(300)
		}
	}
	nops := 14 + rng.intn(22)
	burst := 2 + rng.intn(3) // flushes that arrive before the reader looks
	flushes := 0
	for len(c.Ops) < nops {
		var op vpOp
		availAll := len(p.avail) + len(p.inflight)
		writer := flushes < burst || rng.chance(45)
		if writer {
			n := size()
			switch rng.intn(9) {
			case 0, 1, 2:
				op = vpOp{K: "WB", A: p.wabs, N: n}
			case 3:
				op = vpOp{K: "WR", A: p.wabs, N: n}
			case 4:
				op = vpOp{K: "WY", A: p.wabs, N: 1}
			case 5:
				op = vpOp{K: "WS", A: p.wabs, N: n}
			case 6:
				op = vpOp{K: "WW", A: p.wabs, N: n}
				if n > 0 {
					flushes++
				}
			default:
				op = vpOp{K: "FL"}
				if len(p.pendW) > 0 {
					flushes++
				}
			}
			if op.K != "FL" {
				p.wabs += op.N
			}
		} else {
			n := 1 + rng.intn(200)
			if rng.chance(30) {
				n = p.frontSize() + rng.intn(3) - 1
			}
			if n <= 0 {
				n = 1
			}
			if n > availAll && !rng.chance(8) {
				if availAll == 0 {
					op = vpOp{K: "FL"}
					n = -1
				} else {
					n = 1 + rng.intn(availAll)
				}
			}
			if n >= 0 {
				y := rng.intn(100)
				if mode == "c08s" && y >= 50 && y < 78 {
					y = rng.intn(50) // mostly zero-copy reads, kept while later events arrive on the connection
				}
				switch {
				case y < 25:
					op = vpOp{K: "RB", N: n}
				case y < 50:
					op = vpOp{K: "PK", N: n}
				case y < 60:
					op = vpOp{K: "DC", N: n}
				case y < 68:
					op = vpOp{K: "RY", N: 1}
				case y < 78:
					op = vpOp{K: "RS", N: n}
				case y < 88:
					op = vpOp{K: "RD", N: n}
				case y < 96:
					op = vpOp{K: "RL"}
				default:
					op = vpOp{K: "RU"}
				}
			}
		}
		if !run(op) {
			return c
		}
	}
	if !run(vpOp{K: "FL"}) {
		return c
	}
	for len(p.avail)+len(p.inflight) > 0 {
		if !run(vpOp{K: "RB", N: 1 + rng.intn(len(p.avail)+len(p.inflight))}) {
			return c
		}
	}
	run(vpOp{K: "RL"})
	return c
}


// n histories on one session pair
func vsRun(out *vout, rng *vrand, n, firstID int, mode string) {
	if n <= 0 {
		return
	}
	debugMode = true // keeps the circuit breaker after a fallback from refusing OpenStream
	w, err := vsNewWorld()
	if err != nil {
		out.emit(&vpCase{ID: firstID, Mode: mode, Cfg: [][2]int{}, Oracle: []string{"harness|cannot build the session pair: " + err.Error()}})
		return
	}
	for i := 0; i < n; i++ {
		out.emit(vsCase(w, rng, firstID+i, mode))
	}
	w.client.Close()
	w.server.Close()
}

// ---------------------------------------------------------------------------------------------
// level (ii), mixed transport: one stream alternates socket-sized flushes (a Reserve larger than the
// largest slice class cannot be placed in shared memory) and flushes that fit into shared memory,
// while the receiver's event loop is kept busy (a blocking OnRemoteClose of a helper stream: the loop
// is inside a drain of the queue).  When the loop goes on it drains the queue before it reads the
// socket: a flush that went back to the queue after a fallback flush would overtake it.  The reader
// then reads with mixed operations and the byte-queue oracle compares the sequence.  The model
// evaluates these histories with cfg = [] (bytes, n, Len only).
// ---------------------------------------------------------------------------------------------
type vsBlockCB struct {
	entered chan struct{}
	release chan struct{}
}

func (c *vsBlockCB) OnData(reader BufferReader) {}
func (c *vsBlockCB) OnLocalClose()              {}
func (c *vsBlockCB) OnRemoteClose() {
	close(c.entered)
	<-c.release
}

func vsPendingBytes(ss *Stream) int {
	ss.pendingData.Lock()
	defer ss.pendingData.Unlock()
	n := 0
	mem := ss.session.bufferManager.mem
	for _, u := range ss.pendingData.unread {
		if u.fallbackSlice != nil {
			n += u.fallbackSlice.size()
			continue
		}
		off := u.offset
		for steps := 0; steps < 4096; steps++ {
			h := bufferHeader(mem[off : off+bufferHeaderSize])
			n += int(*(*uint32)(unsafe.Pointer(&h[bufferSizeOffset])))
			if !h.hasNext() {
				break
			}
			off = h.nextBufferOffset()
		}
	}
	return n
}

func vsMixedCase(w *vsWorld, rng *vrand, id int) *vpCase {
	c := &vpCase{ID: id, Mode: "c06m", Cfg: [][2]int{}}
	fail := func(s string) *vpCase { c.Oracle = append(c.Oracle, "harness|"+s); return c }
	open := func(first byte) (*Stream, *Stream, error) {
		a, err := w.client.OpenStream()
		if err != nil {
			return nil, nil, err
		}
		if err = a.BufferWriter().WriteByte(first); err == nil {
			err = a.Flush(false)
		}
		if err != nil {
			return nil, nil, err
		}
		b, err := w.server.AcceptStream()
		if err != nil {
			return nil, nil, err
		}
		b.SetReadDeadline(time.Now().Add(20 * time.Second))
		if x, e := b.BufferReader().ReadByte(); e != nil || x != first {
			return nil, nil, fmt.Errorf("preamble read: %v %d", e, x)
		}
		b.BufferReader().ReleasePreviousRead()
		return a, b, nil
	}
	cx, sx, err := open('x')
	if err != nil {
		return fail("helper stream: " + err.Error())
	}
	cs, ss, err := open('y')
	if err != nil {
		return fail("stream: " + err.Error())
	}
	defer func() { cs.Close(); ss.Close(); sx.Close() }()
	cb := &vsBlockCB{entered: make(chan struct{}), release: make(chan struct{})}
	if err = sx.SetCallbacks(cb); err != nil {
		return fail("SetCallbacks: " + err.Error())
	}
	if err = cx.Close(); err != nil {
		return fail("close of the helper stream: " + err.Error())
	}
	select {
	case <-cb.entered:
	case <-time.After(10 * time.Second):
		return fail("the helper stream's OnRemoteClose was not called")
	}
	blocked := true
	p := &vpipe{bm: w.client.bufferManager, c: c, feat: map[string]bool{"level-ii": true, "mixed-transport": true}, real: true, snd: cs, rcv: ss}
	p.st = [2]*Stream{cs, ss}
	p.dirs[1].wabs = vpDirBase
	defer func() {
		if blocked {
			close(cb.release)
		}
		for f := range p.feat {
			c.Feat = append(c.Feat, f)
		}
	}()
	arrive := func(want int) error {
		if !vsWait(func() bool { return ss.recvBuf.Len()+vsPendingBytes(ss) >= want }, 20*time.Second) {
			return fmt.Errorf("flushed bytes did not arrive (%d of %d at the receiver)", ss.recvBuf.Len()+vsPendingBytes(ss), want)
		}
		return nil
	}
	p.realFlush = func() error {
		n := cs.sendBuf.Len()
		wantBytes := len(p.avail) + len(p.inflight) + n
		fbBefore := atomic.LoadUint64(&w.client.stats.fallbackWriteCount)
		if e := cs.Flush(false); e != nil {
			return e
		}
		if n > 0 {
			if atomic.LoadUint64(&w.client.stats.fallbackWriteCount) != fbBefore {
				p.feat["fallback"] = true
			} else {
				p.feat["shm"] = true
			}
		}
		if blocked || n == 0 {
			return nil // the receiver's event loop is busy: nothing arrives now
		}
		return arrive(wantBytes)
	}
	run := func(op vpOp) bool {
		c.Ops = append(c.Ops, op)
		return p.exec(len(c.Ops)-1, op)
	}
	big := func() int { return int(defaultSingleBufferSize) + 1 + rng.intn(2000) }
	small := func() int { return 1 + rng.intn(3000) }
	write := func(socket bool) bool {
		if socket {
			n := big()
			ok := run(vpOp{K: "WR", A: p.wabs, N: n}) // a Reserve above the largest class: heap slice -> socket
			p.wabs += n
			return ok
		}
		n := small()
		k := []string{"WB", "WS", "WR"}[rng.intn(3)]
		ok := run(vpOp{K: k, A: p.wabs, N: n})
		p.wabs += n
		return ok
	}
	// phase 1: the receiver is busy; a socket-sized flush, then flushes that fit shared memory (and more of both)
	first := rng.intn(3) // 0: big first; 1: small, then big; 2: big, small, big
	seq := [][]bool{{true, false}, {false, true, false}, {true, false, true, false}}[first]
	for len(seq) < 6 && rng.chance(40) {
		seq = append(seq, rng.chance(40))
	}
	for _, sock := range seq {
		if !write(sock) || !run(vpOp{K: "FL"}) {
			return c
		}
	}
	// phase 2: the event loop goes on; wait until everything flushed so far is at the receiver
	blocked = false
	close(cb.release)
	if err = arrive(len(p.avail) + len(p.inflight)); err != nil {
		p.fail("C06:flushed-bytes-never-arrived", err.Error())
		return c
	}
	rd := func() bool {
		all := len(p.avail) + len(p.inflight)
		if all == 0 {
			return true
		}
		n := 1 + rng.intn(all)
		if rng.chance(40) {
			n = 1 + rng.intn(200)
			if n > all {
				n = all
			}
		}
		k := []string{"RB", "RB", "PK", "RS", "DC", "RD", "RY"}[rng.intn(7)]
		if k == "RY" {
			n = 1
		}
		return run(vpOp{K: k, N: n})
	}
	for i := 0; i < 3+rng.intn(6); i++ {
		if !rd() {
			return c
		}
	}
	// phase 3: more of both kinds with the receiver following
	for i := 0; i < rng.intn(4); i++ {
		if !write(rng.chance(40)) || !run(vpOp{K: "FL"}) || !rd() {
			return c
		}
	}
	for len(p.avail)+len(p.inflight) > 0 {
		if !run(vpOp{K: "RB", N: 1 + rng.intn(len(p.avail)+len(p.inflight))}) {
			return c
		}
	}
	run(vpOp{K: "RL"})
	return c
}

func vsMixedRun(out *vout, rng *vrand, n, firstID int) {
	if n <= 0 {
		return
	}
	debugMode = true
	conf := testConf()
	conf.ShareMemoryBufferCap = 1 << 20
	conf.BufferSliceSizes = []*SizePercentPair{{Size: defaultSingleBufferSize, Percent: 100}} // one class: a larger Reserve cannot be shm
	clientConn, serverConn := testConn()
	var server *Session
	var serr error
	ok := make(chan struct{})
	go func() {
		sc := *conf
		server, serr = newSession(&sc, serverConn, false)
		close(ok)
	}()
	cc := *conf
	client, err := newSession(&cc, clientConn, true)
	<-ok
	if err != nil || serr != nil {
		out.emit(&vpCase{ID: firstID, Mode: "c06m", Cfg: [][2]int{}, Oracle: []string{fmt.Sprintf("harness|cannot build the session pair: %v %v", err, serr)}})
		return
	}
	w := &vsWorld{client: client, server: server}
	for i := 0; i < n; i++ {
		out.emit(vsMixedCase(w, rng, firstID+i))
	}
	client.Close()
	server.Close()
}
