//go:build verif

package shmipc

// C18 correspondence + oracle harness (mechanism D).
//
// The REAL connEventHandler (write / onReadReady / maybeExpandReadBuffer / commitRead under the real epoll
// dispatcher) over unix socketpairs whose SO_SNDBUF / SO_RCVBUF are varied, so that partial writes and EAGAIN
// occur.  A recording callback consumes according to a generated pattern (nothing, one byte, part, all, hold
// until N bytes are buffered) and checks on every invocation that the buffer it is shown is exactly the
// unconsumed bytes followed by the new ones (the stream is a fixed function of the position).  Message sizes go
// from 1 byte to several MiB so that growth past 64 KiB, compaction with a non-zero start offset, the 1 MiB
// threshold callback and the 4 MiB shrink rule are reached.  A second family runs concurrent tagged writers
// through the REAL Session.hotRestart / waitForSend / send loop (the `writing` flag protocol) and checks that
// every event arrives intact, once, in per-writer order.
//
// Per transfer the harness writes the buffer geometry seen at every callback (len(readBuffer), readStartOff,
// window, consumed) for the comparison with the Coq model, and the result of the oracle.

import (
	"encoding/binary"
	"fmt"
	"io"
	"net"
	"os"
	"sync"
	"sync/atomic"
	"testing"
	"time"

	syscall "golang.org/x/sys/unix"
)

func c18Byte(seed uint64, pos int64) byte {
	x := uint64(pos)*0x9E3779B97F4A7C15 + seed
	return byte(x>>56) ^ byte(pos)
}

type c18Policy struct {
	Kind string `json:"kind"` // all | zero-then-all | one | half | hold | mixed | record | record-head | tail
	Hold int    `json:"hold"` // hold: consume nothing until this many bytes are buffered
	Rec  int    `json:"rec"`  // record / record-head: only whole records of this size are consumed
	Head int    `json:"head"` // record-head: ... plus this many bytes of the next record; tail: bytes left behind
}

type c18Recv struct {
	mu        sync.Mutex
	seed      uint64
	total     int64 // bytes the sender will have written when the transfer is complete
	consumed  int64
	prevLeft  int
	pol       c18Policy
	r         *vrand
	Cbs       [][4]int // len(readBuffer), readStartOff, window, consumed
	fail      []string
	done      chan struct{}
	doneOnce  sync.Once
	calls     int
	maxWindow int
	// bidirectional family: per-callback processing time and acknowledgements written back from the callback
	lastLen, lastStart int // geometry after the previous callback's commitRead
	sleep              time.Duration
	ackEvery           int
	acksSent           int
	ackErr             error
}

func (c *c18Recv) failf(format string, a ...interface{}) {
	if len(c.fail) < 5 {
		c.fail = append(c.fail, fmt.Sprintf(format, a...))
	}
}

func (c *c18Recv) onEventData(buf []byte, conn eventConn) error {
	c.mu.Lock()
	defer c.mu.Unlock()
	h := conn.(*connEventHandler)
	c.calls++
	if len(buf) > c.maxWindow {
		c.maxWindow = len(buf)
	}
	// oracle: the buffer is the unconsumed bytes followed by the new ones
	if len(buf) < c.prevLeft {
		c.failf("C18: callback buffer shorter than the unconsumed bytes|callback %d: %d bytes shown, %d were left unconsumed", c.calls, len(buf), c.prevLeft)
	}
	// Every new byte is compared with the stream.  The unconsumed bytes are compared completely whenever they may
	// have been moved (buffer length or start offset changed since the previous callback) and on every 16th
	// callback; otherwise (very large pending windows, many callbacks) their first and last 512 bytes and 256
	// sampled positions are compared.
	oldN := minInt(c.prevLeft, len(buf))
	fullOld := oldN <= 1<<16 || len(h.readBuffer) != c.lastLen || h.readStartOff != c.lastStart || c.calls%16 == 0
	check := func(i int) bool {
		if buf[i] != c18Byte(c.seed, c.consumed+int64(i)) {
			what := "new"
			if i < c.prevLeft {
				what = "unconsumed"
			}
			c.failf("C18: callback buffer differs from the stream (%s bytes)|callback %d: byte %d of the window (stream position %d) is wrong", what, c.calls, i, c.consumed+int64(i))
			return false
		}
		return true
	}
	okSoFar := true
	if fullOld {
		for i := 0; i < oldN && okSoFar; i++ {
			okSoFar = check(i)
		}
	} else {
		for i := 0; i < 512 && okSoFar; i++ {
			okSoFar = check(i) && check(oldN-1-i)
		}
		for j := 0; j < 256 && okSoFar; j++ {
			okSoFar = check(c.r.intn(oldN))
		}
	}
	for i := oldN; i < len(buf) && okSoFar; i++ {
		okSoFar = check(i)
	}
	total := atomic.LoadInt64(&c.total)
	if c.consumed+int64(len(buf)) > total && total > 0 {
		c.failf("C18: more bytes delivered than written|%d > %d", c.consumed+int64(len(buf)), total)
	}
	k := 0
	final := total > 0 && c.consumed+int64(len(buf)) >= total
	switch {
	case final:
		k = len(buf)
	case c.pol.Kind == "all":
		k = len(buf)
	case c.pol.Kind == "one":
		if len(buf) > 0 {
			k = 1
		}
	case c.pol.Kind == "half":
		k = len(buf) / 2
	case c.pol.Kind == "hold":
		if len(buf) >= c.pol.Hold {
			k = len(buf)
		}
	case c.pol.Kind == "record": // a consumer of fixed-size records: whole records only
		k = len(buf) / c.pol.Rec * c.pol.Rec
	case c.pol.Kind == "record-head": // ... that also takes the first bytes of the next record once a record is complete
		if len(buf) >= c.pol.Rec {
			k = minInt(len(buf), len(buf)/c.pol.Rec*c.pol.Rec+c.pol.Head)
		}
	case c.pol.Kind == "tail": // waits for a lot of data, then leaves a tail of fixed size behind
		if len(buf) >= c.pol.Rec {
			k = len(buf) - minInt(len(buf), c.pol.Head)
		}
	default: // mixed
		switch c.r.intn(6) {
		case 0:
			k = 0
		case 1:
			if len(buf) > 0 {
				k = 1
			}
		case 2:
			k = len(buf)
		case 3:
			k = len(buf) - c.r.intn(minInt(len(buf), 9)+1) // all but a few (a partial "event")
			if k < 0 {
				k = 0
			}
		default:
			k = c.r.intn(len(buf) + 1)
		}
	}
	if len(c.Cbs) < 4000 {
		c.Cbs = append(c.Cbs, [4]int{len(h.readBuffer), h.readStartOff, len(buf), k})
	}
	conn.commitRead(k)
	// oracle: the offsets stay inside the buffer whatever was consumed (growth and shrink included)
	if h.readStartOff < 0 || h.readStartOff > h.readEndOff || h.readEndOff > len(h.readBuffer) {
		c.failf("C18: read offsets outside the buffer after commitRead|callback %d consumed %d of %d: readStartOff=%d readEndOff=%d len(readBuffer)=%d",
			c.calls, k, len(buf), h.readStartOff, h.readEndOff, len(h.readBuffer))
	}
	c.consumed += int64(k)
	c.prevLeft = len(buf) - k
	c.lastLen, c.lastStart = len(h.readBuffer), h.readStartOff
	if c.ackEvery > 0 && c.calls%c.ackEvery == 1%c.ackEvery {
		if err := conn.write(c18Ack); err != nil {
			c.ackErr = err
		} else {
			c.acksSent++
		}
	}
	if total > 0 && c.consumed >= total {
		c.doneOnce.Do(func() { close(c.done) })
	}
	if c.sleep > 0 {
		time.Sleep(c.sleep)
	}
	return nil
}
func (c *c18Recv) onRemoteClose() {}
func (c *c18Recv) onLocalClose()  {}

type c18Nop struct{}

func (c18Nop) onEventData(buf []byte, conn eventConn) error { conn.commitRead(len(buf)); return nil }
func (c18Nop) onRemoteClose()                               {}
func (c18Nop) onLocalClose()                                {}

type c18Fail struct {
	Sig  string `json:"sig"`
	What string `json:"what"`
}

type c18Case struct {
	ID      int       `json:"id"`
	Kind    string    `json:"kind"` // stream | concurrent
	SndBuf  int       `json:"sndbuf"`
	RcvBuf  int       `json:"rcvbuf"`
	Sizes   []int     `json:"sizes"`
	Total   int64     `json:"total"`
	Policy  c18Policy `json:"policy"`
	Cbs     [][4]int  `json:"cbs"`
	Trunc   bool      `json:"cbs_truncated"`
	Writers int       `json:"writers,omitempty"`
	Events  int       `json:"events,omitempty"`
	Oracle  []c18Fail `json:"oracle"`
	Feat    []string  `json:"feat"`
	InitLen int       `json:"init_len"`
	Disp    []c18Disp `json:"disp,omitempty"`      // kind dispatch
	Net     string    `json:"net,omitempty"`       // kind bidir: unix | tcp
	Parked  int64     `json:"parked_at,omitempty"` // kind bidir: bytes accepted when the writer stopped making progress
	Acks    int       `json:"acks,omitempty"`      // kind bidir: acknowledgements sent back by the consumer
}

type c18Disp struct {
	Rdhup    bool `json:"rdhup"`
	In       bool `json:"in"`
	Out      bool `json:"out"`
	RanClose bool `json:"ran_close"`
	RanRead  bool `json:"ran_read"`
	RanWrite bool `json:"ran_write"`
}

func c18Pair(snd, rcv int) (a, b *os.File, err error) {
	fds, err := syscall.Socketpair(syscall.AF_UNIX, syscall.SOCK_STREAM, 0)
	if err != nil {
		return nil, nil, err
	}
	if snd > 0 {
		syscall.SetsockoptInt(fds[0], syscall.SOL_SOCKET, syscall.SO_SNDBUF, snd)
	}
	if rcv > 0 {
		syscall.SetsockoptInt(fds[1], syscall.SOL_SOCKET, syscall.SO_RCVBUF, rcv)
	}
	return os.NewFile(uintptr(fds[0]), "verif-c18-a"), os.NewFile(uintptr(fds[1]), "verif-c18-b"), nil
}

func c18AddFail(c *c18Case, msgs []string) {
	seen := map[string]bool{}
	for _, m := range msgs {
		sig, what := m, m
		for i := 0; i < len(m); i++ {
			if m[i] == '|' {
				sig, what = m[:i], m[:i]+": "+m[i+1:]
				break
			}
		}
		if !seen[sig] {
			seen[sig] = true
			c.Oracle = append(c.Oracle, c18Fail{sig, what})
		}
	}
}

func c18Features(c *c18Case) {
	f := map[string]bool{}
	prevLen := c.InitLen
	for _, cb := range c.Cbs {
		if cb[0] > prevLen {
			f["buffer-grew"] = true
		}
		if cb[0] < prevLen {
			f["buffer-shrank"] = true
		}
		prevLen = cb[0]
		if cb[1] > 0 {
			f["nonzero-start"] = true
		}
		if cb[3] < cb[2] {
			f["partial-consumption"] = true
		}
		if cb[3] == 0 && cb[2] > 0 {
			f["zero-consumption"] = true
		}
		if cb[2] >= 1<<20 {
			f["window>=1MiB"] = true
		}
		if cb[0] > venvInt("VERIF_SHRINK_LIMIT", 4<<20) {
			f["buffer>4MiB"] = true
			if cb[3] < cb[2] && cb[3] > 0 {
				f["partial-consumption-above-shrink-limit"] = true
				if cb[1]+cb[3] > cb[0]/2 {
					f["unread-tail-above-midpoint"] = true
				}
			}
		}
	}
	if c.SndBuf > 0 && c.SndBuf < 16384 {
		f["small-sndbuf"] = true
	}
	for _, s := range c.Sizes {
		if s > 65536 {
			f["message>64KiB"] = true
		}
		if s > c.SndBuf && c.SndBuf > 0 {
			f["message>sndbuf"] = true
		}
	}
	for k := range f {
		c.Feat = append(c.Feat, k)
	}
}

// ---------------------------------------------------------------------------------------------
// record consumers above the shrink limit: the harness delivers the read-ready events itself (the REAL
// onReadReady / maybeExpandReadBuffer / commitRead and real read(2) on a socketpair, in this goroutine and under
// recover), so the buffer grows past the shrink limit, is consumed partially with the unread tail at many
// positions (above / below the midpoint), goes on receiving, and shrinks again.  Sizes scale with the three
// literals of the source (VERIF_INIT_LEN / VERIF_THRESHOLD / VERIF_SHRINK_LIMIT, passed by the plugin).
// ---------------------------------------------------------------------------------------------
func c18Record(id int, r *vrand) (*c18Case, error) {
	c := &c18Case{ID: id, Kind: "record"}
	limit := venvInt("VERIF_SHRINK_LIMIT", 4<<20)
	var rec int
	switch r.intn(5) {
	case 0:
		rec = limit + 1 + r.intn(64)
	case 1:
		rec = limit + limit/5 + r.intn(1000)
	case 2:
		rec = limit + limit/2 + 7
	case 3:
		rec = 2*limit - 3 - r.intn(100)
	default:
		rec = limit/2 + limit/8 + r.intn(limit) // records around the limit
	}
	switch r.intn(4) {
	case 0, 1:
		c.Policy = c18Policy{Kind: "record", Rec: rec}
	case 2:
		c.Policy = c18Policy{Kind: "record-head", Rec: rec, Head: r.pick([]int{1, 10, 1000, limit / 4, limit/2 + 5})}
	default:
		c.Policy = c18Policy{Kind: "tail", Rec: rec, Head: r.pick([]int{1, 10, 1000, 70000, limit / 2, limit/2 + 1})}
	}
	nrec := 3 + r.intn(2)
	c.Total = int64(nrec)*int64(rec) + int64(r.intn(3)*r.intn(5000))
	// IO pattern: the bytes arrive in steps (each step = bytes written, then read-ready events until all of it is read)
	rem := c.Total
	first := int64(rec) - int64(r.pick([]int{0, 1, 10, 1000}))
	steps := []int64{first, int64(r.pick([]int{1, 10, 1010, 5000}))}
	for _, st := range steps {
		rem -= st
	}
	for rem > 0 {
		st := int64(1 + r.intn(2*rec))
		if r.chance(30) {
			st = int64(1 + r.intn(2000))
		}
		if st > rem {
			st = rem
		}
		steps = append(steps, st)
		rem -= st
	}
	for _, st := range steps {
		c.Sizes = append(c.Sizes, int(st))
	}
	a, b, err := c18Pair(0, 0)
	if err != nil {
		return nil, err
	}
	defer a.Close()
	ensureDefaultDispatcherInit()
	d, ok := defaultDispatcher.(*epollDispatcher)
	if !ok {
		return nil, fmt.Errorf("default dispatcher is not the epoll dispatcher")
	}
	h := d.newConnection(b).(*connEventHandler)
	syscall.SetNonblock(h.fd, true) // not registered with epoll: read-ready events are delivered below
	wfd := int(a.Fd())
	syscall.SetNonblock(wfd, true)
	c.InitLen = len(h.readBuffer)
	seed := r.u64()
	rc := &c18Recv{seed: seed, pol: c.Policy, r: newVrand(r.u64()), done: make(chan struct{})}
	atomic.StoreInt64(&rc.total, c.Total)
	h.callback = rc
	panicked := ""
	readReady := func() {
		defer func() {
			if x := recover(); x != nil {
				panicked = fmt.Sprintf("%v (len(readBuffer)=%d readStartOff=%d readEndOff=%d)", x, len(h.readBuffer), h.readStartOff, h.readEndOff)
			}
		}()
		h.onReadReady()
	}
	pos := int64(0)
	chunk := make([]byte, 128<<10)
steps:
	for _, st := range steps {
		for left := st; left > 0; {
			n := int64(len(chunk))
			if left < n {
				n = left
			}
			for i := int64(0); i < n; i++ {
				chunk[i] = c18Byte(seed, pos+i)
			}
			w, err := syscall.Write(wfd, chunk[:n])
			if err != nil && err != syscall.EAGAIN {
				return nil, err
			}
			if w > 0 {
				pos += int64(w)
				left -= int64(w)
			}
			readReady()
			rc.mu.Lock()
			bad := len(rc.fail) > 0
			rc.mu.Unlock()
			if panicked != "" || bad {
				break steps
			}
		}
	}
	rc.mu.Lock()
	if panicked != "" {
		rc.failf("C18: panic in onReadReady|%s", panicked)
	} else if rc.consumed != c.Total && len(rc.fail) == 0 {
		rc.failf("C18: bytes consumed differ from bytes written|%d vs %d", rc.consumed, c.Total)
	}
	c.Cbs = rc.Cbs
	c.Trunc = rc.calls > len(rc.Cbs)
	c18AddFail(c, rc.fail)
	rc.mu.Unlock()
	h.file.Close()
	c18Features(c)
	c.Feat = append(c.Feat, "record-consumer")
	return c, nil
}

func c18Stream(id int, r *vrand, big bool) (*c18Case, error) {
	c := &c18Case{ID: id, Kind: "stream"}
	c.SndBuf = r.pick([]int{0, 0, 2048, 4096, 8192, 65536, 262144})
	c.RcvBuf = r.pick([]int{0, 0, 2048, 8192, 65536})
	switch r.intn(6) {
	case 0:
		c.Policy = c18Policy{Kind: "all"}
	case 1:
		c.Policy = c18Policy{Kind: "one"}
	case 2:
		c.Policy = c18Policy{Kind: "half"}
	case 3:
		c.Policy = c18Policy{Kind: "hold", Hold: r.pick([]int{100000, 200000, 70000, 1 << 20})}
	default:
		c.Policy = c18Policy{Kind: "mixed"}
	}
	n := 1 + r.intn(12)
	for i := 0; i < n; i++ {
		var s int
		switch r.intn(8) {
		case 0:
			s = 1
		case 1:
			s = 1 + r.intn(16)
		case 2:
			s = 65536 + r.intn(3) - 1
		case 3:
			s = 65537 + r.intn(200000)
		case 4:
			s = 4096 + r.intn(3) - 1
		default:
			s = 1 + r.intn(20000)
		}
		c.Sizes = append(c.Sizes, s)
	}
	if big { // reach the 1 MiB threshold callback and the 4 MiB shrink rule
		c.Policy = c18Policy{Kind: "hold", Hold: r.pick([]int{4<<20 + 1, 5 << 20, 4<<20 + 70000})}
		c.Sizes = []int{3 << 20, 1 << 20, 1<<20 + 12345, 1000, 70000, 3<<20 + 1}
		if r.chance(50) {
			c.Policy = c18Policy{Kind: "mixed"}
		}
	}
	if c.Policy.Kind == "one" { // keep byte-by-byte consumption cheap
		for i := range c.Sizes {
			if c.Sizes[i] > 3000 {
				c.Sizes[i] = 1 + c.Sizes[i]%3000
			}
		}
	}
	for _, s := range c.Sizes {
		c.Total += int64(s)
	}
	a, b, err := c18Pair(c.SndBuf, c.RcvBuf)
	if err != nil {
		return nil, err
	}
	ensureDefaultDispatcherInit()
	seed := r.u64()
	rc := &c18Recv{seed: seed, pol: c.Policy, r: newVrand(r.u64()), done: make(chan struct{})}
	atomic.StoreInt64(&rc.total, c.Total)
	ca := defaultDispatcher.newConnection(a)
	cb := defaultDispatcher.newConnection(b)
	c.InitLen = len(cb.(*connEventHandler).readBuffer)
	if err := cb.setCallback(rc); err != nil {
		return nil, err
	}
	if err := ca.setCallback(c18Nop{}); err != nil {
		return nil, err
	}
	var werr error
	go func() {
		pos := int64(0)
		for _, s := range c.Sizes {
			msg := make([]byte, s)
			for i := range msg {
				msg[i] = c18Byte(seed, pos+int64(i))
			}
			pos += int64(s)
			if err := ca.write(msg); err != nil {
				werr = err
				return
			}
		}
	}()
	select {
	case <-rc.done:
	case <-time.After(c18Patience()):
		rc.mu.Lock()
		rc.failf("C18: bytes written never reached the callback|%d of %d bytes consumed when the harness gave up (write error: %v)", rc.consumed, c.Total, werr)
		rc.mu.Unlock()
	}
	time.Sleep(2 * time.Millisecond) // a duplicate delivery would show up as an extra callback
	rc.mu.Lock()
	if rc.consumed != c.Total && len(rc.fail) == 0 {
		rc.failf("C18: bytes consumed differ from bytes written|%d vs %d", rc.consumed, c.Total)
	}
	c.Cbs = rc.Cbs
	c.Trunc = rc.calls > len(rc.Cbs)
	c18AddFail(c, rc.fail)
	rc.mu.Unlock()
	ca.close()
	cb.close()
	c18Features(c)
	return c, nil
}

// ---------------------------------------------------------------------------------------------
// concurrent writers through the real writing-flag protocol of Session
// ---------------------------------------------------------------------------------------------

type c18EvRecv struct {
	mu       sync.Mutex
	fail     []string
	next     map[uint32]uint32 // per writer: lowest sequence number a blocking send may still carry
	seen     map[uint64]bool   // (writer, seq) already delivered
	got      int
	want     int
	done     chan struct{}
	doneOnce sync.Once
	Cbs      [][4]int
}

func (c *c18EvRecv) failf(format string, a ...interface{}) {
	if len(c.fail) < 5 {
		c.fail = append(c.fail, fmt.Sprintf(format, a...))
	}
}

// event layout: header(Length, magic, version, type) | writer u32 | seq u32 | payload (bytes derived from writer, seq)
func c18EvByte(w, seq uint32, i int) byte { return byte(w*31+seq*7) + byte(i) }

func (c *c18EvRecv) onEventData(buf []byte, conn eventConn) error {
	c.mu.Lock()
	defer c.mu.Unlock()
	h := conn.(*connEventHandler)
	consumed := 0
	for len(buf)-consumed >= headerSize {
		hd := header(buf[consumed : consumed+headerSize])
		l := int(hd.Length())
		if hd.Magic() != magicNumber || l < headerSize+8 || l > 1<<20 {
			c.failf("C18: event boundary lost on the wire (events of concurrent writers interleaved)|bad header at an event boundary: %s", hd.String())
			consumed = len(buf)
			break
		}
		if len(buf)-consumed < l {
			break
		}
		ev := buf[consumed : consumed+l]
		w := binary.BigEndian.Uint32(ev[8:12])
		seq := binary.BigEndian.Uint32(ev[12:16])
		if hd.MsgType() == typeHotRestartAck { // 16-byte events written by Session.hotRestart: the epoch is the tag
			w, seq = binary.BigEndian.Uint32(ev[8:12]), binary.BigEndian.Uint32(ev[12:16])
		}
		for i := 16; i < l; i++ {
			if ev[i] != c18EvByte(w, seq, i) {
				c.failf("C18: event payload corrupted (events of concurrent writers interleaved)|writer %d seq %d byte %d", w, seq, i)
				break
			}
		}
		key := uint64(w)<<32 | uint64(seq)
		if c.seen[key] {
			c.failf("C18: an event was delivered twice|writer %d seq %d", w, seq)
		}
		c.seen[key] = true
		// Events handed to the send loop by a blocking waitForSend keep their order per writer.  (The 16-byte events
		// of hotRestart return before they are written when the flag is taken, so a later fast-path event of the
		// same caller may overtake them: that is the hand-off order, C07's subject, not the connection's.)
		if hd.MsgType() != typeHotRestartAck {
			if seq < c.next[w] {
				c.failf("C18: blocking sends of one writer reordered|writer %d: got seq %d after %d", w, seq, c.next[w]-1)
			}
			c.next[w] = seq + 1
		}
		c.got++
		consumed += l
	}
	if len(c.Cbs) < 2000 {
		c.Cbs = append(c.Cbs, [4]int{len(h.readBuffer), h.readStartOff, len(buf), consumed})
	}
	conn.commitRead(consumed)
	if c.got >= c.want {
		c.doneOnce.Do(func() { close(c.done) })
	}
	return nil
}
func (c *c18EvRecv) onRemoteClose() {}
func (c *c18EvRecv) onLocalClose()  {}

func c18Concurrent(id int, r *vrand) (*c18Case, error) {
	c := &c18Case{ID: id, Kind: "concurrent"}
	c.SndBuf = r.pick([]int{2048, 4096, 8192, 0})
	a, b, err := c18Pair(c.SndBuf, 0)
	if err != nil {
		return nil, err
	}
	ensureDefaultDispatcherInit()
	ca := defaultDispatcher.newConnection(a)
	cb := defaultDispatcher.newConnection(b)
	c.InitLen = len(cb.(*connEventHandler).readBuffer)
	nw := 2 + r.intn(4)
	per := 20 + r.intn(40)
	c.Writers, c.Events = nw, nw*per
	rc := &c18EvRecv{next: map[uint32]uint32{}, seen: map[uint64]bool{}, want: nw * per, done: make(chan struct{})}
	if err := cb.setCallback(rc); err != nil {
		return nil, err
	}
	if err := ca.setCallback(c18Nop{}); err != nil {
		return nil, err
	}
	conf := DefaultConfig()
	conf.LogOutput = io.Discard
	s := &Session{
		config:                conf,
		logger:                newSessionLogger(true, io.Discard),
		sendCh:                make(chan sendReady, 4096),
		notifyContinueWriteCh: make(chan struct{}, 1),
		shutdownCh:            make(chan struct{}),
		communicationVersion:  protoVersion,
		eventConn:             ca,
		name:                  "verif-c18",
	}
	go s.send()
	sizes := make([][]int, nw)
	for w := 0; w < nw; w++ {
		for j := 0; j < per; j++ {
			sz := 0 // 0 = the 16-byte event of Session.hotRestart
			if w%2 == 1 || r.chance(30) {
				sz = r.pick([]int{17, 40, 300, 3000, 9000, 20000})
			}
			sizes[w] = append(sizes[w], sz)
		}
	}
	var wg sync.WaitGroup
	var werrMu sync.Mutex
	werr := ""
	setErr := func(e error) { werrMu.Lock(); werr = e.Error(); werrMu.Unlock() }
	for w := 0; w < nw; w++ {
		w := w
		wg.Add(1)
		go func() {
			defer wg.Done()
			for j, sz := range sizes[w] {
				if sz == 0 {
					// fast path (CAS on the writing flag) or hand-over to the send loop
					if err := s.hotRestart(uint64(w)<<32|uint64(j), typeHotRestartAck); err != nil {
						setErr(err)
					}
					continue
				}
				ev := make([]byte, sz)
				header(ev).encode(uint32(sz), protoVersion, typeFallbackData)
				binary.BigEndian.PutUint32(ev[8:12], uint32(w))
				binary.BigEndian.PutUint32(ev[12:16], uint32(j))
				for i := 16; i < sz; i++ {
					ev[i] = c18EvByte(uint32(w), uint32(j), i)
				}
				// header and body as two writes of one event, through the send loop
				if err := s.waitForSend(ev[:headerSize], ev[headerSize:]); err != nil {
					setErr(err)
				}
			}
		}()
	}
	wdone := make(chan struct{})
	go func() { wg.Wait(); close(wdone) }()
	select {
	case <-wdone:
	case <-time.After(c18Patience()):
		rc.mu.Lock()
		rc.failf("C18: events written never reached the callback|the writers are still blocked inside the write path")
		rc.mu.Unlock()
	}
	select {
	case <-rc.done:
	case <-time.After(c18Patience()):
		rc.mu.Lock()
		rc.failf("C18: events written never reached the callback|%d of %d events when the harness gave up", rc.got, rc.want)
		rc.mu.Unlock()
	}
	time.Sleep(2 * time.Millisecond)
	rc.mu.Lock()
	if rc.got != rc.want && len(rc.fail) == 0 {
		rc.failf("C18: number of events delivered differs from the number written|%d vs %d", rc.got, rc.want)
	}
	werrMu.Lock()
	if werr != "" {
		rc.failf("C18: a writer got an error|%s", werr)
	}
	werrMu.Unlock()
	c.Cbs = rc.Cbs
	c18AddFail(c, rc.fail)
	rc.mu.Unlock()
	atomic.StoreUint32(&s.shutdown, 1) // a late write error must not run Session.Close on this bare session
	close(s.shutdownCh)
	ca.close()
	cb.close()
	for _, ss := range sizes {
		for _, sz := range ss {
			if sz == 0 {
				sz = 16
			}
			c.Total += int64(sz)
		}
	}
	c18Features(c)
	c.Feat = append(c.Feat, "concurrent-writers")
	return c, nil
}

// generous on a healthy tree (nothing ever waits this long); once transfers have stalled the remaining ones are
// given less time so that a broken tree is reported quickly
var c18Stalls int32

func c18Patience() time.Duration {
	switch n := atomic.LoadInt32(&c18Stalls); {
	case n >= 2:
		return 2 * time.Second
	case n == 1:
		return 6 * time.Second
	}
	return 20 * time.Second
}

// ---------------------------------------------------------------------------------------------
// handleEvent dispatch: which handlers run for every combination of EPOLLRDHUP / EPOLLIN / EPOLLOUT
// ---------------------------------------------------------------------------------------------

type c18DispCb struct{ read, closed bool }

func (c *c18DispCb) onEventData(buf []byte, conn eventConn) error {
	c.read = true
	conn.commitRead(len(buf))
	return nil
}
func (c *c18DispCb) onRemoteClose() { c.closed = true }
func (c *c18DispCb) onLocalClose()  {}

func c18Dispatch(id int) (*c18Case, error) {
	c := &c18Case{ID: id, Kind: "dispatch"}
	ensureDefaultDispatcherInit()
	d, ok := defaultDispatcher.(*epollDispatcher)
	if !ok {
		return nil, fmt.Errorf("default dispatcher is not the epoll dispatcher")
	}
	for mask := 1; mask < 8; mask++ {
		a, b, err := c18Pair(0, 0)
		if err != nil {
			return nil, err
		}
		h := d.newConnection(a).(*connEventHandler)
		syscall.SetNonblock(h.fd, true) // not registered with epoll: the handlers are called directly below
		cb := &c18DispCb{}
		h.callback = cb
		x := c18Disp{Rdhup: mask&4 != 0, In: mask&2 != 0, Out: mask&1 != 0}
		events := 0
		if x.Rdhup {
			events |= syscall.EPOLLRDHUP
		}
		if x.In {
			events |= syscall.EPOLLIN
		}
		if x.Out {
			events |= syscall.EPOLLOUT
		}
		h.handleEvent(events, d)
		x.RanClose, x.RanRead = cb.closed, cb.read
		if !cb.closed { // onWriteReady leaves a value in the channel a writer would be waiting on
			select {
			case <-h.onWriteReadyCh:
				x.RanWrite = true
			default:
			}
		}
		c.Disp = append(c.Disp, x)
		// oracle: a write-ready report is never dropped, whatever else the event carries
		if x.Out && !x.Rdhup && !x.RanWrite {
			c.Oracle = append(c.Oracle, c18Fail{"C18: write-ready notification dropped by handleEvent",
				fmt.Sprintf("an epoll event with EPOLLOUT (rdhup=%v in=%v) did not notify onWriteReadyCh: a writer parked after EAGAIN would sleep forever", x.Rdhup, x.In)})
		}
		if x.In && !x.Rdhup && !x.RanRead {
			c.Oracle = append(c.Oracle, c18Fail{"C18: read-ready notification dropped by handleEvent",
				fmt.Sprintf("an epoll event with EPOLLIN (out=%v) did not run onReadReady", x.Out)})
		}
		if !cb.closed {
			h.close() // (after onRemoteClose the handler has closed itself)
		}
		b.Close()
	}
	if len(c.Oracle) > 0 {
		atomic.AddInt32(&c18Stalls, 1) // the transfers below are expected to stall: do not wait long for each
	}
	c.Feat = []string{"dispatch-all-event-masks"}
	return c, nil
}

// ---------------------------------------------------------------------------------------------
// bidirectional: a writer parked on EAGAIN, acknowledgements flowing the other way, a slow consumer
// ---------------------------------------------------------------------------------------------

type c18AckCb struct {
	mu  sync.Mutex
	got []byte
}

func (n *c18AckCb) onEventData(buf []byte, conn eventConn) error {
	n.mu.Lock()
	n.got = append(n.got, buf...)
	n.mu.Unlock()
	conn.commitRead(len(buf))
	return nil
}
func (n *c18AckCb) onRemoteClose() {}
func (n *c18AckCb) onLocalClose()  {}

func c18TCPPair() (fa, fb *os.File, err error) {
	ln, err := net.Listen("tcp", "127.0.0.1:0")
	if err != nil {
		return nil, nil, err
	}
	defer ln.Close()
	type res struct {
		c   net.Conn
		err error
	}
	ch := make(chan res, 1)
	go func() {
		c, err := ln.Accept()
		ch <- res{c, err}
	}()
	c1, err := net.Dial("tcp", ln.Addr().String())
	if err != nil {
		return nil, nil, err
	}
	r := <-ch
	if r.err != nil {
		return nil, nil, r.err
	}
	fa, err = getConnDupFd(c1)
	c1.Close()
	if err != nil {
		return nil, nil, err
	}
	fb, err = getConnDupFd(r.c)
	r.c.Close()
	return fa, fb, err
}

var c18Ack = []byte("ack")

// `a` writes a multi-MiB stream while `b` is not registered yet, so a.write parks on EAGAIN; then b starts to
// consume, slowly (a few ms per callback), and sends acknowledgements back: a's fd becomes readable and writable
// while the dispatcher goroutine is busy, i.e. in ONE edge-triggered epoll event.
func c18Bidir(id int, r *vrand, network string) (*c18Case, error) {
	c := &c18Case{ID: id, Kind: "bidir", Net: network, Policy: c18Policy{Kind: "all"}}
	var fa, fb *os.File
	var err error
	if network == "tcp" {
		fa, fb, err = c18TCPPair()
	} else {
		c.SndBuf = r.pick([]int{0, 65536, 16384})
		fa, fb, err = c18Pair(c.SndBuf, 0)
	}
	if err != nil {
		return nil, err
	}
	ensureDefaultDispatcherInit()
	a := defaultDispatcher.newConnection(fa)
	b := defaultDispatcher.newConnection(fb)
	c.InitLen = len(b.(*connEventHandler).readBuffer)
	c.Total = int64(3<<20 + r.intn(2<<20))
	if network == "tcp" { // loopback TCP buffers several MiB before the writer sees EAGAIN
		c.Total += 6 << 20
	}
	chunk := r.pick([]int{16 << 10, 64 << 10, 5000})
	c.Sizes = []int{chunk}
	seed := r.u64()
	rc := &c18Recv{seed: seed, pol: c.Policy, r: newVrand(r.u64()), done: make(chan struct{}),
		sleep: time.Duration(1+r.intn(4)) * time.Millisecond, ackEvery: 1 + r.intn(8)}
	atomic.StoreInt64(&rc.total, c.Total)
	acks := &c18AckCb{}
	if err := a.setCallback(acks); err != nil {
		return nil, err
	}
	var sent int64
	werr := make(chan error, 1)
	go func() {
		buf := make([]byte, chunk)
		for off := int64(0); off < c.Total; {
			n := int64(len(buf))
			if c.Total-off < n {
				n = c.Total - off
			}
			for i := int64(0); i < n; i++ {
				buf[i] = c18Byte(seed, off+i)
			}
			if err := a.write(buf[:n]); err != nil {
				werr <- err
				return
			}
			off += n
			atomic.StoreInt64(&sent, off)
		}
		werr <- nil
	}()
	// wait until the kernel buffers are full and the writer has stopped making progress
	for last, stable, tries := int64(-1), 0, 0; stable < 4 && tries < 400; tries++ {
		time.Sleep(15 * time.Millisecond)
		if cur := atomic.LoadInt64(&sent); cur == last {
			stable++
		} else {
			last, stable = cur, 0
		}
	}
	c.Parked = atomic.LoadInt64(&sent)
	if err := b.setCallback(rc); err != nil {
		return nil, err
	}
	var wres error
	finished := false
	select {
	case wres = <-werr:
		finished = true
	case <-time.After(c18Patience()):
	}
	if finished {
		select {
		case <-rc.done:
		case <-time.After(c18Patience()):
			rc.mu.Lock()
			rc.failf("C18: bytes written never reached the callback|%d of %d bytes consumed when the harness gave up", rc.consumed, c.Total)
			rc.mu.Unlock()
		}
	}
	time.Sleep(5 * time.Millisecond)
	rc.mu.Lock()
	if !finished {
		rc.failf("C18: write blocked forever after EAGAIN|the writer parked after %d accepted bytes and was not resumed although the peer consumed: %d of %d bytes accepted, %d delivered to the peer's callback, %d acknowledgements sent back",
			c.Parked, atomic.LoadInt64(&sent), c.Total, rc.consumed, rc.acksSent)
	} else if wres != nil {
		rc.failf("C18: a writer got an error|%v", wres)
	} else if rc.consumed != c.Total && len(rc.fail) == 0 {
		rc.failf("C18: bytes consumed differ from bytes written|%d vs %d", rc.consumed, c.Total)
	}
	c.Acks = rc.acksSent
	if rc.ackErr != nil {
		rc.failf("C18: a writer got an error|acknowledgement write: %v", rc.ackErr)
	}
	c.Cbs = rc.Cbs
	c.Trunc = rc.calls > len(rc.Cbs)
	want := rc.acksSent * len(c18Ack)
	rc.mu.Unlock()
	if finished {
		// the acknowledgements arrive at a's callback exactly once
		for i := 0; i < 200; i++ {
			acks.mu.Lock()
			n := len(acks.got)
			acks.mu.Unlock()
			if n >= want {
				break
			}
			time.Sleep(5 * time.Millisecond)
		}
		acks.mu.Lock()
		if len(acks.got) != want {
			rc.mu.Lock()
			rc.failf("C18: acknowledgement bytes differ from those written|%d received, %d written", len(acks.got), want)
			rc.mu.Unlock()
		}
		acks.mu.Unlock()
	}
	rc.mu.Lock()
	c18AddFail(c, rc.fail)
	rc.mu.Unlock()
	a.close() // a writer that is still parked returns EPIPE
	b.close()
	if !finished {
		<-werr
	}
	c18Features(c)
	c.Feat = append(c.Feat, "bidirectional", "writer-parked-on-EAGAIN")
	return c, nil
}

func TestVerif_C18(t *testing.T) {
	seed := uint64(venvInt("VERIF_SEED", 1))
	n := venvInt("VERIF_N", 60)
	nbig := venvInt("VERIF_NBIG", 2)
	nbidir := venvInt("VERIF_NBIDIR", 3)
	nrec := venvInt("VERIF_NREC", 8)
	out := vopenOut(t)
	defer out.close()
	r := newVrand(seed)
	id := 0
	for i := 0; i < n; i++ {
		var c *c18Case
		var err error
		switch {
		case i == 0:
			c, err = c18Dispatch(id)
		case i >= 1 && i <= nbidir:
			c, err = c18Bidir(id, r, []string{"unix", "tcp", "unix"}[(i-1)%3])
		case i < nbidir+1+nbig:
			c, err = c18Stream(id, r, true)
		case i < nbidir+1+nbig+nrec:
			c, err = c18Record(id, r)
		case i%5 == 4:
			c, err = c18Concurrent(id, r)
		default:
			c, err = c18Stream(id, r, false)
		}
		if err != nil {
			t.Fatalf("case %d: %v", id, err)
		}
		for _, f := range c.Oracle {
			if f.Sig == "C18: bytes written never reached the callback" || f.Sig == "C18: events written never reached the callback" ||
				f.Sig == "C18: write blocked forever after EAGAIN" {
				atomic.AddInt32(&c18Stalls, 1)
			}
		}
		out.emit(c)
		id++
		if atomic.LoadInt32(&c18Stalls) >= 4 {
			break // the connection is broken; the cases so far say how
		}
	}
}
