//go:build verif

package shmipc

// Shared by TestVerif_C06 and TestVerif_C08 (the C08 plugin passes this file explicitly).
//
// A "pipe" = the REAL linkedBuffer of a sending Stream stub, the REAL pendingData of a receiving
// Stream stub (its REAL moveToWithoutLock runs through the REAL Stream.readMore) and the REAL
// receive linkedBuffer, all over one heap-backed bufferManager with small size classes.  The only
// re-implemented piece is Stream.Flush without queue/socket (vpFlush: done(); fallback decision;
// underlyingData()+recycle() and handleFallbackData's heap slice, or rootBufOffset(); clean()).
// Every op runs inside recover().  The oracle is a plain byte queue run beside the implementation.

import (
	"fmt"
	"sort"
	"time"
	"unsafe"
)

type vpOp struct {
	K string `json:"k"`           // WB WY WR WS WW FL WA | RB PK DC RY RS RD | RL RU CL | OA OF OX
	A int    `json:"a,omitempty"` // absolute start index of the written bytes / slot index / tag
	N int    `json:"n"`           // size
	D int    `json:"d,omitempty"` // direction: 0 = stream A writes, B reads; 1 = B writes (echo), A reads.
	// RU = the real Stream.ReleaseReadAndReuse on the stream that READS direction D
}

type vpObs struct {
	C  int   `json:"c"` // 0 ok, 1 error, 2 panic, 3 blocked (op not executed: it would wait)
	N  int   `json:"n"`
	DL int   `json:"dl"`
	DH int   `json:"dh"`
	RL int   `json:"rl"` // Len() of the receive buffer of direction 0 (stream B's recvBuf)
	SL int   `json:"sl"` // Len() of the send buffer of direction 0 (stream A's sendBuf)
	R1 int   `json:"rl1"` // ... of direction 1 (stream A's recvBuf)
	S1 int   `json:"sl1"` // ... of direction 1 (stream B's sendBuf)
	FR []int `json:"fr"`
}

type vpCase struct {
	ID     int      `json:"id"`
	Mode   string   `json:"mode"`
	Cfg    [][2]int `json:"cfg"`
	Ops    []vpOp   `json:"ops"`
	Obs    []vpObs  `json:"obs"`
	Oracle []string `json:"oracle"`
	Feat   []string `json:"feat"`
}

func vpKey(i int) byte { return byte((i*131 + (i/251)*17 + 7) % 256) }
func vpKeyed(start, n int) []byte {
	b := make([]byte, n)
	for j := range b {
		b[j] = vpKey(start + j)
	}
	return b
}
func vpFill(tag, n int) []byte {
	b := make([]byte, n)
	for j := range b {
		b[j] = byte((tag*7 + j*13 + 101) % 256)
	}
	return b
}
func vpHash(bs []byte) int {
	h := 0
	for _, b := range bs {
		h = (h*31 + int(b) + 1) % 1000003
	}
	return h
}

type vpHeld struct {
	data []byte // the slice handed out by ReadBytes / Peek (aliases shared memory on the fast path)
	want []byte // private copy taken at return time
	op   int
}

type vpipe struct {
	bm       *bufferManager
	snd, rcv *Stream
	others   []*bufferSlice
	total    []int
	// oracle: plain byte queue
	pendW, inflight, avail []byte
	wabs                   int // absolute index of the next byte written
	held                   []vpHeld
	c                      *vpCase
	feat                   map[string]bool
	// level (ii): snd / rcv are the two ends of a real stream of a real session pair; flush = the real
	// Stream.Flush followed by a wait for the arrival at the receiver (see c06_session_test.go)
	real      bool
	realFlush func() error
	// both directions of the stream pair: st[0] = A, st[1] = B.  The fields snd, rcv, pendW, inflight,
	// avail, wabs, held above are the working set of ONE direction: direction 0 between the ops, the
	// op's direction while exec runs (enter / leave)
	st   [2]*Stream
	dirs [2]vpDir
	cur  int
}

type vpDir struct {
	pendW, inflight, avail []byte
	wabs                   int
	held                   []vpHeld
}

const vpDirBase = 1000000 // absolute byte indices of direction 1 start here (keyed content differs)

func (p *vpipe) save() {
	p.dirs[p.cur] = vpDir{p.pendW, p.inflight, p.avail, p.wabs, p.held}
}
func (p *vpipe) enter(d int) {
	p.save()
	p.cur = d
	x := p.dirs[d]
	p.pendW, p.inflight, p.avail, p.wabs, p.held = x.pendW, x.inflight, x.avail, x.wabs, x.held
	p.snd, p.rcv = p.st[d], p.st[1-d]
}
func (p *vpipe) lens() (int, int, int, int) {
	return p.st[1].recvBuf.Len(), p.st[0].sendBuf.Len(), p.st[0].recvBuf.Len(), p.st[1].sendBuf.Len()
}

func vpNew(caps, counts []int, c *vpCase) (*vpipe, error) {
	// memory sized so that class i gets counts[i] slots; the real counts are read back
	// percent granularity is too coarse for exact counts: build the lists one by one instead, exactly
	// as createBufferManager lays them out (header | lists back to back), using the REAL
	// createFreeBufferList, then map the result with the REAL mappingBufferManager.
	need := bufferManagerHeaderSize
	for i := range caps {
		need += int(countBufferListMemSize(uint32(counts[i]), uint32(caps[i])))
	}
	mem := make([]byte, need+64)
	*(*uint16)(unsafe.Pointer(&mem[0])) = uint16(len(caps))
	off := uint32(bufferManagerHeaderSize)
	for i := range caps {
		if _, err := createFreeBufferList(uint32(counts[i]), uint32(caps[i]), mem, off); err != nil {
			return nil, err
		}
		off += countBufferListMemSize(uint32(counts[i]), uint32(caps[i]))
	}
	*(*uint32)(unsafe.Pointer(&mem[bmCapOffset])) = off - bufferManagerHeaderSize
	bm, err := mappingBufferManager("", mem, 0)
	if err != nil {
		return nil, err
	}
	p := &vpipe{bm: bm, c: c, feat: map[string]bool{}}
	for i := range bm.lists {
		p.total = append(p.total, int(*bm.lists[i].cap))
		c.Cfg = append(c.Cfg, [2]int{int(*bm.lists[i].capPerBuffer), int(*bm.lists[i].cap)})
	}
	mk := func() *Stream {
		s := &Stream{session: &Session{bufferManager: bm}, pendingData: new(pendingData),
			recvBuf: newEmptyLinkedBuffer(bm), sendBuf: newEmptyLinkedBuffer(bm),
			recvNotifyCh: make(chan struct{}, 1), closeNotifyCh: make(chan struct{})}
		s.recvBuf.bindStream(s)
		s.sendBuf.bindStream(s)
		s.pendingData.stream = s
		return s
	}
	p.st[0], p.st[1] = mk(), mk()
	p.snd, p.rcv = p.st[0], p.st[1]
	p.dirs[1].wabs = vpDirBase
	return p, nil
}

func (p *vpipe) free() []int {
	if p.real {
		return []int{} // the session's allocator is fully held by the harness: the model runs with no size class
	}
	r := make([]int, len(p.bm.lists))
	for i, l := range p.bm.lists {
		r[i] = int(*l.size)
	}
	return r
}

// Stream.Flush without queue and socket (stream.go:199-254, 256-271; protocol_manager.go:153-177)
func (p *vpipe) vpFlush() {
	s := p.snd
	if s.sendBuf.Len() == 0 {
		return
	}
	s.sendBuf.done(false)
	if !s.sendBuf.isFromShareMemory() {
		s.inFallbackState = true
	}
	if s.inFallbackState {
		under := s.sendBuf.underlyingData()
		data := make([]byte, 0, s.sendBuf.Len())
		for i := range under {
			data = append(data, under[i]...)
		}
		s.sendBuf.recycle()
		payload := make([]byte, len(data))
		copy(payload, data)
		fs := newBufferSlice(nil, payload, 0, false)
		fs.writeIndex = len(payload)
		p.rcv.pendingData.add(bufferSliceWrapper{fallbackSlice: fs})
		p.feat["fallback"] = true
	} else {
		p.rcv.pendingData.add(bufferSliceWrapper{offset: s.sendBuf.rootBufOffset()})
		p.feat["shm"] = true
	}
	s.sendBuf.clean()
}

func (p *vpipe) flush() error {
	if p.real {
		return p.realFlush()
	}
	p.vpFlush()
	return nil
}

func (p *vpipe) fail(sig, what string) {
	p.c.Oracle = append(p.c.Oracle, sig+"|"+what)
}

// readMore of the oracle: returns false when the real call would wait
func (p *vpipe) oracleMore(n int) bool {
	if len(p.avail) < n {
		if len(p.avail)+len(p.inflight) < n {
			return false
		}
		p.avail = append(p.avail, p.inflight...)
		p.inflight = nil
	}
	return true
}

func vpEq(a, b []byte) bool {
	if len(a) != len(b) {
		return false
	}
	for i := range a {
		if a[i] != b[i] {
			return false
		}
	}
	return true
}

func (p *vpipe) frontSize() int {
	if f := p.rcv.recvBuf.sliceList.front(); f != nil {
		return f.size()
	}
	return 0
}

// exec runs one op on the real code; returns false when the case must stop (panic / error)
func (p *vpipe) exec(idx int, op vpOp) bool {
	p.enter(op.D)
	defer p.enter(0)
	return p.exec1(idx, op)
}

func (p *vpipe) exec1(idx int, op vpOp) bool {
	ob := vpObs{N: -1, DL: -1}
	var data []byte
	hasData := false
	w, r := p.snd.sendBuf, p.rcv.recvBuf
	p.rcv.readDeadline = time.Now().Add(300 * time.Millisecond)
	isRead := false
	switch op.K {
	case "RB", "PK", "RS":
		isRead = true
		if op.N > 0 && !p.oracleMoreProbe(op.N) {
			ob.C = 3
		}
	case "DC":
		isRead = true
		if !p.oracleMoreProbe(op.N) {
			ob.C = 3
		}
	case "RY":
		isRead = true
		if !p.oracleMoreProbe(1) {
			ob.C = 3
		}
	case "RD":
		isRead = true
		if op.N > 0 && !p.oracleMoreProbe(1) {
			ob.C = 3
		}
	}
	if ob.C == 3 {
		p.feat["blocked"] = true
		ob.RL, ob.SL, ob.R1, ob.S1 = p.lens()
		ob.FR = p.free()
		p.c.Obs = append(p.c.Obs, ob)
		return true
	}
	if isRead && op.N > p.frontSize() && op.N > 0 {
		p.feat["multi-slice-read"] = true
	}
	var err error
	var pan interface{}
	func() {
		defer func() { pan = recover() }()
		switch op.K {
		case "WB":
			var n int
			n, err = w.WriteBytes(vpKeyed(op.A, op.N))
			ob.N = n
		case "WS":
			err = w.WriteString(string(vpKeyed(op.A, op.N)))
			ob.N = op.N
		case "WY":
			err = w.WriteByte(vpKey(op.A))
		case "WR":
			var buf []byte
			buf, err = w.Reserve(op.N)
			if err == nil {
				if len(buf) != op.N {
					p.fail("C06:Reserve-returned-wrong-length", fmt.Sprintf("Reserve(%d) returned %d bytes", op.N, len(buf)))
				}
				copy(buf, vpKeyed(op.A, op.N))
			}
		case "WW":
			var n int
			if op.N > 0 {
				n, err = w.WriteBytes(vpKeyed(op.A, op.N))
				if err == nil {
					err = p.flush()
				}
			}
			ob.N = n
		case "FL":
			err = p.flush()
		case "WA":
			// the state Stream.ReleaseReadAndReuse leaves in the send position: one reset shm slice that is
			// both the only slice and the write slice, Len() == 0 (cf. newLinkedBufferWithSlice in buffer_test.go)
			ob.N = 0
			if w.sliceList.size() == 0 && w.sliceList.writeSlice == nil {
				if b, e := p.bm.allocShmBuffer(uint32(op.N)); e == nil {
					w.sliceList.pushBack(b)
					w.sliceList.writeSlice = b
					ob.N = 1
				}
			}
		case "RB":
			data, err = r.ReadBytes(op.N)
			hasData = true
		case "PK":
			data, err = r.Peek(op.N)
			hasData = true
		case "RS":
			var s string
			s, err = r.ReadString(op.N)
			data, hasData = []byte(s), true
		case "DC":
			ob.N, err = r.Discard(op.N)
		case "RY":
			var b byte
			b, err = r.ReadByte()
			ob.N = int(b)
		case "RD":
			buf := make([]byte, op.N)
			var n int
			n, err = p.rcv.Read(buf)
			data, hasData = buf[:n], true
		case "RL":
			r.ReleasePreviousRead()
		case "RU":
			// the REAL Stream.ReleaseReadAndReuse (stream.go): releasePreviousReadAndReserve + the swap decision
			if one := r.sliceList.size() == 1; one && r.Len() > 0 {
				p.feat["reuse-with-unread-bytes-in-one-slice"] = true
			} else if one {
				p.feat["reuse-swap"] = true
			}
			p.rcv.ReleaseReadAndReuse()
		case "CL":
			r.recycle()
		case "OA":
			b, e := p.bm.allocShmBuffer(uint32(op.N))
			if e == nil {
				p.others = append(p.others, b)
				ob.N = 1
			} else {
				ob.N = 0
			}
		case "OF":
			if op.A < len(p.others) {
				copy(p.others[op.A].data, vpFill(op.N, len(p.others[op.A].data)))
			}
		case "OX":
			if op.A < len(p.others) {
				p.bm.recycleBuffer(p.others[op.A])
				p.others = append(p.others[:op.A], p.others[op.A+1:]...)
			}
		}
	}()
	if pan != nil {
		ob.C = 2
		p.c.Obs = append(p.c.Obs, ob)
		sig := "C06:" + op.K + "-panics"
		switch {
		case op.K == "DC" && op.N == 0:
			sig = "C06:Discard(0)-on-empty-buffer-panics"
		case op.K == "WR" && op.N == 0:
			sig = "C06:Reserve(0)-with-shm-exhausted-panics"
		}
		p.fail(sig, fmt.Sprintf("op %d %s(n=%d) panicked: %v", idx, op.K, op.N, pan))
		p.feat["panic"] = true
		return false
	}
	if err != nil {
		ob.C = 1
		p.c.Obs = append(p.c.Obs, ob)
		p.fail("C06:"+op.K+"-unexpected-error", fmt.Sprintf("op %d %s(n=%d): %v", idx, op.K, op.N, err))
		return false
	}
	if hasData {
		ob.DL, ob.DH = len(data), vpHash(data)
	}
	// ---- the property oracle: a plain byte queue ----
	switch op.K {
	case "WB", "WS", "WR", "WW":
		if (op.K == "WB" || op.K == "WW") && ob.N != op.N {
			p.fail("C06:write-count", fmt.Sprintf("op %d %s(%d) returned n=%d", idx, op.K, op.N, ob.N))
		}
		p.pendW = append(p.pendW, vpKeyed(op.A, op.N)...)
		if op.K == "WW" && op.N > 0 {
			p.inflight = append(p.inflight, p.pendW...)
			p.pendW = nil
		}
	case "WY":
		p.pendW = append(p.pendW, vpKey(op.A))
	case "FL":
		p.inflight = append(p.inflight, p.pendW...)
		p.pendW = nil
	case "RB", "RS", "PK":
		if op.N > 0 {
			p.oracleMore(op.N)
			if !vpEq(data, p.avail[:op.N]) {
				p.fail("C06:"+op.K+"-returned-wrong-bytes", fmt.Sprintf("op %d %s(%d): got %d bytes hash %d, want hash %d", idx, op.K, op.N, len(data), vpHash(data), vpHash(p.avail[:op.N])))
			}
			if op.K != "PK" {
				p.avail = p.avail[op.N:]
			}
			if op.K != "RS" {
				p.held = append(p.held, vpHeld{data: data, want: append([]byte(nil), data...), op: idx})
			}
		} else if len(data) != 0 {
			p.fail("C06:"+op.K+"-zero-size-returned-bytes", fmt.Sprintf("op %d", idx))
		}
	case "DC":
		p.oracleMore(op.N)
		if ob.N != op.N {
			p.fail("C06:Discard-count", fmt.Sprintf("op %d Discard(%d) returned %d", idx, op.N, ob.N))
		}
		p.avail = p.avail[op.N:]
	case "RY":
		p.oracleMore(1)
		if byte(ob.N) != p.avail[0] {
			p.fail("C06:ReadByte-returned-wrong-byte", fmt.Sprintf("op %d got %d want %d", idx, ob.N, p.avail[0]))
		}
		p.avail = p.avail[1:]
	case "RD":
		if op.N > 0 {
			if len(p.avail) < 1 {
				p.oracleMore(1)
			}
			k := op.N
			if k > len(p.avail) {
				k = len(p.avail)
			}
			if !vpEq(data, p.avail[:k]) {
				p.fail("C06:Read-returned-wrong-bytes", fmt.Sprintf("op %d Read(%d): got %d bytes hash %d, want %d bytes hash %d", idx, op.N, len(data), vpHash(data), k, vpHash(p.avail[:k])))
			}
			p.avail = p.avail[k:]
		}
	case "RL", "RU":
		p.held = nil
		if r.pinnedList.size() != 0 {
			p.fail("C08:pinned-list-not-empty-after-release", fmt.Sprintf("op %d: %d parked slices left", idx, r.pinnedList.size()))
		}
	case "CL":
		p.held = nil
		p.avail = nil
	}
	w, r = p.snd.sendBuf, p.rcv.recvBuf // ReleaseReadAndReuse may have swapped the buffers of the reading stream
	ob.RL, ob.SL, ob.R1, ob.S1 = p.lens()
	ob.FR = p.free()
	if op.K == "RU" {
		// the stream that released also owns the send buffer of the other direction: nothing written there may move
		if got, want := p.rcv.sendBuf.Len(), len(p.dirs[1-p.cur].pendW); got != want {
			p.fail("C06:ReleaseReadAndReuse-changed-the-unflushed-bytes-of-the-stream", fmt.Sprintf("op %d: Len() of its send buffer is %d, byte queue says %d", idx, got, want))
		}
	}
	if r.Len() != len(p.avail) {
		p.fail("C06:Len-of-reader-differs-from-bytes-moved-minus-consumed", fmt.Sprintf("op %d %s(%d) dir %d: Len()=%d, byte queue says %d", idx, op.K, op.N, op.D, r.Len(), len(p.avail)))
	}
	if w.Len() != len(p.pendW) {
		p.fail("C06:Len-of-writer-differs-from-bytes-written", fmt.Sprintf("op %d %s(%d) dir %d: Len()=%d, byte queue says %d", idx, op.K, op.N, op.D, w.Len(), len(p.pendW)))
	}
	// C08: every zero-copy result handed out and not yet released still has its bytes
	for _, h := range p.held {
		if !vpEq(h.data, h.want) {
			sig := "C08:zero-copy-result-changed-before-release"
			if p.real {
				sig = "C06:zero-copy-result-of-a-fallback-delivery-changed-before-release"
				if p.c.Mode == "c08s" {
					sig = "C08:zero-copy-result-of-a-fallback-delivery-changed-before-release"
				}
			}
			p.fail(sig, fmt.Sprintf("result of op %d (%d bytes) changed after op %d %s(%d)", h.op, len(h.want), idx, op.K, op.N))
			break
		}
	}
	// slot accounting: free + owned by the two buffers + in flight + held by others = total (per class)
	if !p.real && (op.K == "RL" || op.K == "RU" || op.K == "CL" || op.K == "FL") {
		p.accounting(idx, op)
	}
	p.c.Obs = append(p.c.Obs, ob)
	return true
}

// probe without mutating the oracle
func (p *vpipe) oracleMoreProbe(n int) bool { return len(p.avail)+len(p.inflight) >= n }

func (p *vpipe) classOf(cap uint32) int {
	for i, l := range p.bm.lists {
		if *l.capPerBuffer == cap {
			return i
		}
	}
	return -1
}

func (p *vpipe) accounting(idx int, op vpOp) {
	owned := make([]int, len(p.bm.lists))
	add := func(l *sliceList) {
		n := 0
		for s := l.front(); s != nil && n < l.size(); s = s.next() {
			if s.isFromShm {
				if k := p.classOf(s.cap); k >= 0 {
					owned[k]++
				}
			}
			n++
		}
	}
	for _, st := range p.st {
		add(st.sendBuf.sliceList)
		add(st.sendBuf.pinnedList)
		add(st.recvBuf.sliceList)
		add(st.recvBuf.pinnedList)
	}
	for _, b := range p.others {
		if k := p.classOf(b.cap); k >= 0 {
			owned[k]++
		}
	}
	// chains in flight: walk the headers in shared memory
	var unread []bufferSliceWrapper
	unread = append(unread, p.st[0].pendingData.unread...)
	unread = append(unread, p.st[1].pendingData.unread...)
	for _, u := range unread {
		if u.fallbackSlice != nil {
			continue
		}
		off := u.offset
		for steps := 0; steps < 1000; steps++ {
			h := bufferHeader(p.bm.mem[off : off+bufferHeaderSize])
			cap := *(*uint32)(unsafe.Pointer(&h[bufferCapOffset]))
			if k := p.classOf(cap); k >= 0 {
				owned[k]++
			}
			if !h.hasNext() {
				break
			}
			off = h.nextBufferOffset()
		}
	}
	fr := p.free()
	for i := range fr {
		if fr[i]+owned[i] != p.total[i] {
			p.fail("C08:slot-accounting-after-release-or-flush", fmt.Sprintf("op %d %s: class %d free %d + owned %d != total %d", idx, op.K, i, fr[i], owned[i], p.total[i]))
			return
		}
	}
}

// ---------------------------------------------------------------------------------------------
// generator
// ---------------------------------------------------------------------------------------------
var vpCapChoices = []int{8, 16, 24, 64, 100, 256}

func vpGenCase(rng *vrand, id int, mode string) *vpCase {
	c := &vpCase{ID: id, Mode: mode}
	var p *vpipe
	defer func() {
		if p != nil {
			for f := range p.feat {
				c.Feat = append(c.Feat, f)
			}
			sort.Strings(c.Feat)
		}
	}()
	ncls := 1 + rng.intn(3)
	used := map[int]bool{}
	var caps []int
	for len(caps) < ncls {
		x := rng.pick(vpCapChoices)
		if !used[x] {
			used[x] = true
			caps = append(caps, x)
		}
	}
	for i := range caps { // ascending
		for j := i + 1; j < len(caps); j++ {
			if caps[j] < caps[i] {
				caps[i], caps[j] = caps[j], caps[i]
			}
		}
	}
	counts := make([]int, ncls)
	for i := range counts {
		counts[i] = 2 + rng.intn(7)
		if rng.chance(8) {
			counts[i] = 1
		}
	}
	var err error
	p, err = vpNew(caps, counts, c)
	if err != nil {
		c.Oracle = append(c.Oracle, "harness|cannot build the buffer manager: "+err.Error())
		return c
	}
	sumc, maxc := 0, caps[len(caps)-1]
	for _, x := range caps {
		sumc += x
	}
	run := func(op vpOp) bool {
		c.Ops = append(c.Ops, op)
		return p.exec(len(c.Ops)-1, op)
	}
	// regression scenarios of the two repaired size-0 nil dereferences (first two cases of every run); the
	// oracle reports the old signatures if a panic ever returns
	if id == 0 && mode == "c06" {
		run(vpOp{K: "DC", N: 0})
		return c
	}
	if id == 1 && mode == "c06" {
		for i := range caps {
			for j := 0; j < counts[i]; j++ {
				run(vpOp{K: "OA", N: caps[i]})
			}
		}
		run(vpOp{K: "WR", A: 0, N: 0})
		return c
	}
	// degrees of exhaustion: others hold slots before the run starts
	if rng.chance(55) {
		for i := range caps {
			k := rng.intn(counts[i] + 1)
			if rng.chance(15) {
				k = counts[i]
			}
			for j := 0; j < k; j++ {
				if !run(vpOp{K: "OA", N: caps[i]}) {
					return c
				}
			}
		}
		p.feat["pre-held"] = true
	}
	bigCase := rng.chance(8) // sizes around the 4096-byte minimum of the heap fallback
	relSize := func() int {
		cc := rng.pick(caps)
		switch rng.intn(12) {
		case 0:
			return cc - 1
		case 1:
			return cc
		case 2:
			return cc + 1
		case 3:
			return 2 * cc
		case 4:
			return sumc + 1
		case 5:
			return maxc + 1 + rng.intn(40)
		case 6:
			return 1
		case 7:
			return 0
		case 8:
			return 2*cc + 1
		case 9:
			if bigCase {
				return int(defaultSingleBufferSize) + rng.intn(3) - 1
			}
			return cc + 2
		default:
			return 1 + rng.intn(2*cc)
		}
	}
	echoOn := rng.chance(25)
	genEcho := func() vpOp {
		d1 := &p.dirs[1]
		availAll := len(d1.avail) + len(d1.inflight)
		rd := func(k string) vpOp {
			if availAll == 0 {
				return vpOp{K: "FL", D: 1}
			}
			n := 1 + rng.intn(availAll)
			if rng.chance(15) {
				n = relSize()
			}
			return vpOp{K: k, N: n, D: 1}
		}
		switch rng.intn(12) {
		case 0, 1, 2:
			n := relSize()
			op := vpOp{K: "WB", A: d1.wabs, N: n, D: 1}
			d1.wabs += n
			return op
		case 3:
			n := relSize()
			op := vpOp{K: "WR", A: d1.wabs, N: n, D: 1}
			d1.wabs += n
			return op
		case 4, 5:
			return vpOp{K: "FL", D: 1}
		case 6, 7:
			return rd("RB")
		case 8:
			return rd("PK")
		case 9:
			return rd("DC")
		case 10:
			return vpOp{K: "RL", D: 1}
		default:
			if len(p.pendW) > 0 {
				return vpOp{K: "RL", D: 1}
			}
			return vpOp{K: "RU", D: 1} // stream A releases and possibly adopts its last read slice
		}
	}
	nops := 12 + rng.intn(29)
	for len(c.Ops) < nops {
		var op vpOp
		x := rng.intn(100)
		wth, oth := 38, 8
		if mode == "c08" {
			wth, oth = 25, 30
		}
		// the other direction: stream B writes (echo), stream A reads
		if x >= 94 && echoOn {
			if !run(genEcho()) {
				return c
			}
			continue
		}
		// Stream.ReleaseReadAndReuse: (1) while ONE slice is left with unread bytes in it (nothing may happen to
		// them), (2) when that slice is exhausted (the stream adopts it as its next write buffer: swap), then the
		// reading stream writes back through the adopted slice and the first stream reads the echo
		if x >= 88 && x < 94 && !p.snd.inFallbackState && p.snd.sendBuf.sliceList.writeSlice == nil && len(p.pendW) == 0 && len(p.dirs[1].pendW) == 0 {
			cls := -1
			for i, l := range p.bm.lists {
				if l.remain() >= 2 {
					cls = i
					break
				}
			}
			if cls >= 0 {
				ok := true
				for ok && len(p.avail)+len(p.inflight) > 0 {
					ok = run(vpOp{K: "RB", N: len(p.avail) + len(p.inflight)})
				}
				ok = ok && run(vpOp{K: "RL"})
				n := 2 + rng.intn(caps[cls])
				if n > caps[cls] {
					n = caps[cls]
				}
				if n < 2 {
					n = 2
				}
				ok = ok && run(vpOp{K: "WB", A: p.wabs, N: n})
				p.wabs += n
				ok = ok && run(vpOp{K: "FL"})
				k := 1 + rng.intn(n-1)
				rk := "RB"
				if rng.chance(30) {
					rk = "DC"
				}
				ok = ok && run(vpOp{K: rk, N: k})
				ok = ok && run(vpOp{K: "RU"}) // one slice, n-k unread bytes in it
				if ok && rng.chance(50) {
					ok = run(vpOp{K: "PK", N: 1 + rng.intn(n-k)})
				}
				ok = ok && run(vpOp{K: "RB", N: n - k})
				ok = ok && run(vpOp{K: "RU"}) // one exhausted slice: adopted
				if !ok {
					return c
				}
				echoOn = true
				for j := 0; j < 2+rng.intn(4); j++ {
					if !run(genEcho()) {
						return c
					}
				}
				continue
			}
		}
		// a zero-copy Peek of a not yet consumed slice, kept; a Discard crossing that slice's end; then other
		// owners cycle the FIFO free list of that class (allocate, scribble, free) before the release: a
		// parked slot that was recycled too early is re-allocated and overwritten, and the kept result changes
		pkProb := 3
		if mode == "c08" {
			pkProb = 14
		}
		if x >= 6 && x < 6+pkProb && !p.snd.inFallbackState && p.snd.sendBuf.sliceList.writeSlice == nil && len(p.pendW) == 0 {
			cls := -1
			for i, l := range p.bm.lists {
				if l.remain() >= 3 {
					cls = i
					break
				}
			}
			if cls >= 0 {
				ok := true
				// drain and release so that the next message starts a fresh front slice
				for ok && len(p.avail)+len(p.inflight) > 0 {
					ok = run(vpOp{K: "RB", N: len(p.avail) + len(p.inflight)})
				}
				ok = ok && run(vpOp{K: "RL"})
				cc := caps[cls]
				n1 := cc - rng.intn(2)
				if n1 < 1 {
					n1 = 1
				}
				n2 := 1 + rng.intn(cc)
				ok = ok && run(vpOp{K: "WB", A: p.wabs, N: n1})
				p.wabs += n1
				ok = ok && run(vpOp{K: "FL"})
				ok = ok && run(vpOp{K: "WB", A: p.wabs, N: n2})
				p.wabs += n2
				ok = ok && run(vpOp{K: "FL"})
				pk := 1 + rng.intn(n1)
				ok = ok && run(vpOp{K: "PK", N: pk})
				if ok && rng.chance(30) {
					ok = run(vpOp{K: "PK", N: 1 + rng.intn(n1)})
				}
				over := n1 + 1 + rng.intn(n2)
				if over > n1+n2 {
					over = n1 + n2
				}
				if rng.chance(25) {
					ok = ok && run(vpOp{K: "RB", N: 1})
					over--
				}
				ok = ok && run(vpOp{K: "DC", N: over})
				rounds := p.total[cls] + 1
				for i := 0; ok && i < rounds; i++ {
					ok = run(vpOp{K: "OA", N: cc})
					if ok && len(p.others) > 0 {
						last := len(p.others) - 1
						ok = run(vpOp{K: "OF", A: last, N: rng.intn(250)}) && run(vpOp{K: "OX", A: last})
					}
				}
				if !ok {
					return c
				}
				p.feat["peek-discard-cycle"] = true
				continue
			}
		}
		// an empty slice inside a flushed shm chain (the reset slice adopted from ReleaseReadAndReuse, skipped by a larger Reserve):
		// exercises moveTo's unlinking of empty slices, at the front of the list and behind unread data
		if x < 6 && p.snd.sendBuf.sliceList.writeSlice == nil && !p.snd.inFallbackState {
			room := 0
			for _, l := range p.bm.lists {
				if l.remain() > 0 {
					room += l.remain()
				}
			}
			if room >= 3 {
				n := caps[0] + 1 + rng.intn(3)
				ok := run(vpOp{K: "WA", N: caps[0]}) && run(vpOp{K: "WR", A: p.wabs, N: n})
				p.wabs += n
				if !ok || !run(vpOp{K: "FL"}) {
					return c
				}
				p.feat["empty-slice-in-chain"] = true
				if rng.chance(50) && len(p.avail)+len(p.inflight) > 0 {
					for k := 0; k < 3 && len(p.avail)+len(p.inflight) > 0; k++ {
						if !run(vpOp{K: "RY", N: 1}) {
							return c
						}
					}
				}
				continue
			}
		}
		switch {
		case x < wth: // writer
			n := relSize()
			if rng.chance(3) {
				n = 0
			}
			switch rng.intn(10) {
			case 0, 1, 2:
				op = vpOp{K: "WB", A: p.wabs, N: n}
			case 3, 4:
				op = vpOp{K: "WR", A: p.wabs, N: n}
			case 5:
				op = vpOp{K: "WY", A: p.wabs, N: 1}
			case 6:
				op = vpOp{K: "WS", A: p.wabs, N: n}
			case 7:
				op = vpOp{K: "WW", A: p.wabs, N: n}
			default:
				op = vpOp{K: "FL"}
			}
			if op.K != "FL" {
				p.wabs += op.N
			}
		case x < wth+oth:
			switch rng.intn(3) {
			case 0:
				op = vpOp{K: "OA", N: rng.pick(caps) - rng.intn(2)}
			case 1:
				op = vpOp{K: "OF", A: rng.intn(len(p.others) + 1), N: rng.intn(250)}
			default:
				op = vpOp{K: "OX", A: rng.intn(len(p.others) + 1)}
			}
		default: // reader
			availAll := len(p.avail) + len(p.inflight)
			n := relSize()
			if rng.chance(50) {
				// relative to what the front slice still holds
				fs := p.frontSize()
				n = fs + rng.intn(3) - 1
				if n <= 0 {
					n = 1 + rng.intn(3)
				}
			}
			if n > availAll && !rng.chance(6) {
				if availAll > 0 {
					n = 1 + rng.intn(availAll)
				} else {
					n = 0
				}
			}
			y := rng.intn(100)
			rb, pk := 22, 14
			if mode == "c08" {
				rb, pk = 34, 24
			}
			switch {
			case y < rb:
				op = vpOp{K: "RB", N: n}
			case y < rb+pk:
				op = vpOp{K: "PK", N: n}
			case y < rb+pk+10:
				op = vpOp{K: "DC", N: n}
			case y < rb+pk+18:
				op = vpOp{K: "RY", N: 1}
			case y < rb+pk+26:
				op = vpOp{K: "RS", N: n}
			case y < rb+pk+34:
				op = vpOp{K: "RD", N: n}
			case y < rb+pk+48:
				op = vpOp{K: "RL"}
			case y < rb+pk+52:
				op = vpOp{K: "RU"}
				if len(p.dirs[1].pendW) > 0 {
					// ReleaseReadAndReuse with written, unflushed bytes in the same stream's send buffer would swap
					// them into its read buffer (documented misuse, see reset() in stream.go): not generated
					op = vpOp{K: "RL"}
				}
			default:
				if availAll == 0 {
					op = vpOp{K: "FL"}
				} else {
					op = vpOp{K: "RB", N: 1 + rng.intn(availAll)}
				}
			}
		}
		if !run(op) {
			return c
		}
	}
	// drain both directions: flush, read everything, release, give back what the others hold: all slots free again
	for d := 0; d < 2; d++ {
		if !run(vpOp{K: "FL", D: d}) {
			return c
		}
		left := func() int {
			if d == 0 {
				return len(p.avail) + len(p.inflight)
			}
			return len(p.dirs[1].avail) + len(p.dirs[1].inflight)
		}
		for left() > 0 {
			n := 1 + rng.intn(left())
			k := "RB"
			if rng.chance(30) {
				k = "DC"
			}
			if !run(vpOp{K: k, N: n, D: d}) {
				return c
			}
		}
		if !run(vpOp{K: "RL", D: d}) {
			return c
		}
	}
	for len(p.others) > 0 {
		if !run(vpOp{K: "OX", A: 0}) {
			return c
		}
	}
	// a released receive buffer may still own its exhausted front slice; Close gives it back
	if !run(vpOp{K: "CL"}) || !run(vpOp{K: "CL", D: 1}) {
		return c
	}
	// a send buffer may still own a slot it never flushed (the adopted slice): Stream.Close recycles it
	func() {
		defer func() { recover() }()
		p.st[0].sendBuf.recycle()
		p.st[1].sendBuf.recycle()
	}()
	fr := p.free()
	for i := range fr {
		if fr[i] != p.total[i] {
			p.fail("C08:slots-not-free-after-everything-was-read-released-and-closed", fmt.Sprintf("class %d: free %d of %d", i, fr[i], p.total[i]))
			break
		}
	}
	return c
}
