//go:build verif

package shmipc

// C10 — stream close is final, propagates to the peer and is reported exactly once.
// Mechanism T: real client/server session pairs over a socketpair, generated close scenarios
// (which end closes, both at once, repeated Close, in-flight data, synchronous and callback mode,
// Close inside OnData, Close while OnData runs), wait for quiescence with generous bounds, then the
// property clauses are evaluated on the observables of both ends.
// Mechanism S part: TestVerif_C10S drives the real Close/close/halfClose/goroutine exit path under the
// controlled scheduler (shared driver c20Run in c20_callback_test.go) with closer-heavy configurations.

import (
	"fmt"
	"sync"
	"sync/atomic"
	"testing"
	"time"
)

type c10Cb struct {
	mu       sync.Mutex
	stream   *Stream
	got      []byte
	local    int32
	remote   int32
	running  int32
	overlap  int32
	closeOn  byte          // call Close inside OnData when this byte is seen (0 = never)
	blockOn  byte          // block inside OnData when this byte is seen until release is closed
	blocked  chan struct{} // closed when OnData is blocked
	release  chan struct{}
	closedIn int32
	// Close() inside OnData: how many times, whether only after being released from the block, how many returned
	closeTimes    int
	closeAfterBlk bool
	closeReturned int32
	// user operations issued inside OnData right after its Close(): error classes observed
	opsAfterClose bool
	flushAfter    string
	readAfter     string
}

func (c *c10Cb) OnData(r BufferReader) {
	if atomic.AddInt32(&c.running, 1) > 1 {
		atomic.StoreInt32(&c.overlap, 1)
	}
	defer atomic.AddInt32(&c.running, -1)
	n := r.Len()
	if n == 0 {
		return
	}
	b, err := r.ReadBytes(n)
	if err != nil {
		return
	}
	cp := append([]byte{}, b...)
	r.ReleasePreviousRead()
	c.mu.Lock()
	c.got = append(c.got, cp...)
	c.mu.Unlock()
	for _, x := range cp {
		if c.closeOn != 0 && x == c.closeOn && !c.closeAfterBlk && atomic.CompareAndSwapInt32(&c.closedIn, 0, 1) {
			n := c.closeTimes
			if n == 0 {
				n = 1
			}
			for i := 0; i < n; i++ {
				_ = c.stream.Close()
				atomic.AddInt32(&c.closeReturned, 1)
			}
			if c.opsAfterClose {
				_, _ = c.stream.BufferWriter().WriteBytes([]byte{0x77})
				c.flushAfter = c20ErrClassT(c.stream.Flush(false))
				// recvBuf is empty here (everything was read above): a read must not block, it reports the close
				_, rerr := r.ReadBytes(r.Len() + 1)
				c.readAfter = c20ErrClassT(rerr)
			}
		}
		if c.blockOn != 0 && x == c.blockOn && c.blocked != nil {
			close(c.blocked)
			<-c.release
			if c.closeAfterBlk && atomic.CompareAndSwapInt32(&c.closedIn, 0, 1) {
				_ = c.stream.Close()
				atomic.AddInt32(&c.closeReturned, 1)
			}
		}
	}
}
func (c *c10Cb) OnLocalClose()  { atomic.AddInt32(&c.local, 1) }
func (c *c10Cb) OnRemoteClose() { atomic.AddInt32(&c.remote, 1) }
func (c *c10Cb) gotLen() int {
	c.mu.Lock()
	defer c.mu.Unlock()
	return len(c.got)
}

type c10Listen struct {
	ch chan *Stream
	mk func(s *Stream) *c10Cb
	cb chan *c10Cb
	// the n-th OnNewStream call (1-based; 0 = never) holds the session's event loop until release is closed
	blockAt int32
	calls   int32
	entered chan struct{}
	release chan struct{}
}

func (l *c10Listen) OnNewStream(s *Stream) {
	if n := atomic.AddInt32(&l.calls, 1); n == atomic.LoadInt32(&l.blockAt) {
		close(l.entered)
		<-l.release
	}
	cb := l.mk(s)
	cb.stream = s
	_ = s.SetCallbacks(cb)
	l.cb <- cb
	l.ch <- s
}
func (l *c10Listen) OnShutdown(reason string) {}

type c10Case struct {
	ID       int      `json:"id"`
	Mode     string   `json:"mode"`     // sync | callback
	Scenario string   `json:"scenario"` // client | server | both | repeat | inside | during | inflight-to-closed
	Pre      int      `json:"pre"`      // messages the closing end flushes right before Close
	PeerPre  int      `json:"peer_pre"` // messages the other end flushes before
	DelayUs  int      `json:"delay_us"`
	Obs      c10Obs   `json:"obs"`
	Skipped  string   `json:"skipped"` // the scenario could not be set up (machine too slow): not evidence about the property
	Oracle   []string `json:"oracle"`
}

type c10Obs struct {
	CloserFlush  string   `json:"closer_flush"`
	CloserRead   string   `json:"closer_read"`
	CloserActive int      `json:"closer_active"`
	CloserState  uint32   `json:"closer_state"`
	CloserLocal  int      `json:"closer_local"`
	CloserRemote int      `json:"closer_remote"`
	PeerRead     string   `json:"peer_read"`
	PeerGot      int      `json:"peer_got"`
	PeerWant     int      `json:"peer_want"`
	PeerFlush    string   `json:"peer_flush"`
	PeerActive   int      `json:"peer_active_before_own_close"`
	PeerActive2  int      `json:"peer_active_after_own_close"`
	PeerState    uint32   `json:"peer_state"`
	PeerLocal    int      `json:"peer_local"`
	PeerRemote   int      `json:"peer_remote"`
	Ghost        bool     `json:"ghost"` // the server's table holds ANOTHER stream object under this id
	States       []uint32 `json:"states"`
}

func c10Pair(callback bool, mk func(s *Stream) *c10Cb) (client, server *Session, l *c10Listen) {
	for attempt := 0; attempt < 3; attempt++ {
		client, server, l = c10PairOnce(callback, mk)
		if client != nil && server != nil {
			return
		}
		if client != nil {
			client.Close()
		}
		if server != nil {
			server.Close()
		}
	}
	return nil, nil, nil
}

func c10PairOnce(callback bool, mk func(s *Stream) *c10Cb) (client, server *Session, l *c10Listen) {
	conf := testConf()
	conf.QueueCap = 64
	conf.InitializeTimeout = 30 * time.Second // the handshake is not the subject here; the default 1 s is too short on a loaded machine
	cconn, sconn := testConn()
	ok := make(chan struct{})
	sc := *conf
	if callback {
		l = &c10Listen{ch: make(chan *Stream, 16), mk: mk, cb: make(chan *c10Cb, 16), entered: make(chan struct{}), release: make(chan struct{})}
		sc.listenCallback = l
	}
	go func() {
		var err error
		server, err = newSession(&sc, sconn, false)
		if err != nil {
			server = nil
		}
		close(ok)
	}()
	cc := *conf
	var err error
	client, err = newSession(&cc, cconn, true)
	if err != nil {
		client = nil
	}
	<-ok
	return
}

func c10Flush(s *Stream, data []byte) error {
	if _, err := s.BufferWriter().WriteBytes(data); err != nil {
		return err
	}
	return s.Flush(false)
}

func c10WaitFor(d time.Duration, f func() bool) bool {
	end := time.Now().Add(d)
	for {
		if f() {
			return true
		}
		if time.Now().After(end) {
			return false
		}
		time.Sleep(2 * time.Millisecond)
	}
}

// drain in synchronous mode: read until an error; returns bytes read and the error class
func c10Drain(s *Stream, max time.Duration) (int, string) {
	n := 0
	for {
		_ = s.SetReadDeadline(time.Now().Add(max))
		b, err := s.BufferReader().ReadBytes(1)
		if err != nil {
			return n, c20ErrClassT(err)
		}
		n += len(b)
		s.BufferReader().ReleasePreviousRead()
	}
}

func c20ErrClassT(err error) string {
	switch err {
	case nil:
		return "nil"
	case ErrStreamClosed:
		return "ErrStreamClosed"
	case ErrEndOfStream:
		return "ErrEndOfStream"
	case ErrTimeout:
		return "ErrTimeout"
	}
	return "other:" + err.Error()
}

const c10Wait = 4 * time.Second

func c10RunCase(c c10Case) c10Case {
	callback := c.Mode == "callback"
	// which end closes: the closer is A, the other end is B
	closerIsClient := c.Scenario != "server"
	trig := byte(0)
	blk := byte(0)
	if c.Scenario == "inside" {
		trig = 0xEE
	}
	if c.Scenario == "during" {
		blk = 0xDD
	}
	var blocked, release chan struct{}
	if blk != 0 {
		blocked, release = make(chan struct{}), make(chan struct{})
	}
	mkSrv := func(s *Stream) *c10Cb {
		cb := &c10Cb{}
		if !closerIsClient {
			cb.closeOn, cb.blockOn, cb.blocked, cb.release = trig, blk, blocked, release
		}
		return cb
	}
	client, server, l := c10Pair(callback, mkSrv)
	if client == nil {
		c.Skipped = "session pair could not be created"
		return c
	}
	defer func() {
		client.Close()
		server.Close()
	}()
	cs, err := client.OpenStream()
	if err != nil {
		c.Skipped = "OpenStream failed: "
		return c
	}
	var ccb, scb *c10Cb
	if callback {
		ccb = &c10Cb{stream: cs}
		if closerIsClient {
			ccb.closeOn, ccb.blockOn, ccb.blocked, ccb.release = trig, blk, blocked, release
		}
		_ = cs.SetCallbacks(ccb)
	}
	hello := []byte{1, 2, 3}
	if err := c10Flush(cs, hello); err != nil {
		c.Skipped = "first Flush failed: "
		return c
	}
	var ss *Stream
	if callback {
		select {
		case ss = <-l.ch:
			scb = <-l.cb
		case <-time.After(c10Wait):
			c.Skipped = "server never saw the stream"
			return c
		}
		c10WaitFor(c10Wait, func() bool { return scb.gotLen() >= len(hello) })
	} else {
		ss, err = server.AcceptStream()
		if err != nil {
			c.Skipped = "AcceptStream failed"
			return c
		}
		_ = ss.SetReadDeadline(time.Now().Add(c10Wait))
		if _, err := ss.BufferReader().ReadBytes(len(hello)); err != nil {
			c.Skipped = "server could not read the first message"
			return c
		}
		ss.BufferReader().ReleasePreviousRead()
	}
	A, B := cs, ss
	asess, bsess := client, server
	acb, bcb := ccb, scb
	if !closerIsClient {
		A, B = ss, cs
		asess, bsess = server, client
		acb, bcb = scb, ccb
	}
	// active streams of a session, not counting a "ghost": a second stream object the server created under
	// the same id for data that was still in flight when the server closed its stream (reported separately)
	ghost := false
	active := func(sess *Session) int {
		n := sess.GetActiveStreamCount()
		if sess == server {
			if g := server.getStreamById(cs.id); g != nil && g != ss {
				ghost = true
				n--
			}
		}
		return n
	}
	var states []uint32
	sample := func() { states = append(states, atomic.LoadUint32(&A.state), atomic.LoadUint32(&B.state)) }
	sample()
	// traffic before the close
	for i := 0; i < c.PeerPre; i++ {
		_ = c10Flush(B, []byte{20, 21})
	}
	aGotWant := 2 * c.PeerPre // what A may still have unread; not checked (A closes)
	_ = aGotWant
	bWant := 0
	for i := 0; i < c.Pre; i++ {
		if c10Flush(A, []byte{10, 11, 12}) == nil {
			bWant += 3
		}
	}
	if c.DelayUs > 0 {
		time.Sleep(time.Duration(c.DelayUs) * time.Microsecond)
	}
	or := map[string]bool{}
	switch c.Scenario {
	case "client", "server":
		_ = A.Close()
	case "repeat":
		_ = A.Close()
		_ = A.Close()
		var wg sync.WaitGroup
		for i := 0; i < 2; i++ {
			wg.Add(1)
			go func() { defer wg.Done(); _ = A.Close() }()
		}
		wg.Wait()
	case "both":
		var wg sync.WaitGroup
		start := make(chan struct{})
		for _, x := range []*Stream{A, B} {
			x := x
			wg.Add(1)
			go func() { defer wg.Done(); <-start; _ = x.Close() }()
		}
		close(start)
		wg.Wait()
	case "inside":
		// A's OnData calls Close when it sees the trigger byte sent by B
		_ = c10Flush(B, []byte{trig})
		c10WaitFor(c10Wait, func() bool { return atomic.LoadInt32(&acb.closedIn) == 1 })
	case "during":
		// A's OnData blocks; meanwhile another goroutine calls A.Close(); then OnData returns
		_ = c10Flush(B, []byte{blk})
		select {
		case <-blocked:
		case <-time.After(c10Wait):
			c.Skipped = "OnData never blocked"
			close(release)
			return c
		}
		_ = A.Close()
		close(release)
	}
	sample()
	obs := &c.Obs
	// ---- closing end A ----
	okA := c10WaitFor(c10Wait, func() bool {
		return atomic.LoadUint32(&A.state) == uint32(streamClosed) && active(asess) == 0
	})
	_ = okA
	sample()
	obs.CloserFlush = c20ErrClassT(c10Flush(A, []byte{9}))
	if !callback {
		_ = A.SetReadDeadline(time.Now().Add(300 * time.Millisecond))
		// unread data that arrived before the Close was recycled by it: only the error class matters
		_, err := A.BufferReader().ReadBytes(1)
		obs.CloserRead = c20ErrClassT(err)
	}
	obs.CloserActive = active(asess)
	obs.CloserState = atomic.LoadUint32(&A.state)
	// ---- peer B ----
	if c.Scenario != "both" {
		if callback {
			c10WaitFor(c10Wait, func() bool { return atomic.LoadInt32(&bcb.remote) >= 1 })
			obs.PeerGot, obs.PeerWant = bcb.gotLen(), bWant
		} else {
			n, cls := c10Drain(B, c10Wait)
			obs.PeerGot, obs.PeerWant, obs.PeerRead = n, bWant, cls
		}
		sample()
		obs.PeerFlush = c20ErrClassT(c10Flush(B, []byte{8}))
		obs.PeerActive = active(bsess)
		_ = B.Close()
		c10WaitFor(c10Wait, func() bool { return active(bsess) == 0 })
		obs.PeerActive2 = active(bsess)
	} else {
		c10WaitFor(c10Wait, func() bool { return active(bsess) == 0 })
		obs.PeerFlush = c20ErrClassT(c10Flush(B, []byte{8}))
		obs.PeerActive2 = active(bsess)
	}
	sample()
	obs.PeerState = atomic.LoadUint32(&B.state)
	if callback {
		// callbacks may still be in flight
		time.Sleep(5 * time.Millisecond)
		obs.CloserLocal, obs.CloserRemote = int(atomic.LoadInt32(&acb.local)), int(atomic.LoadInt32(&acb.remote))
		obs.PeerLocal, obs.PeerRemote = int(atomic.LoadInt32(&bcb.local)), int(atomic.LoadInt32(&bcb.remote))
	}
	obs.States = states
	// the ghost is reported from the FINAL table contents (it is permanent: nobody owns that stream)
	ghost = false
	if g := server.getStreamById(cs.id); g != nil && g != ss {
		ghost = true
	}
	obs.Ghost = ghost
	// ---------------- oracle: the property clauses ----------------
	// monotone (sampled)
	for e := 0; e < 2; e++ {
		prev := uint32(streamOpened)
		for i := e; i < len(states); i += 2 {
			x := states[i]
			if x != prev {
				ok := (prev == uint32(streamOpened)) || ((prev == uint32(streamHalfClosed) || prev == c20LocalHalf) && x == uint32(streamClosed))
				if !ok {
					or[fmt.Sprintf("monotone: state moved from %d to %d", prev, x)] = true
				}
				prev = x
			}
		}
	}
	if ghost {
		or["ghost: data in flight to a stream the server had already closed re-created the stream id; the new stream stays in the server's table"] = true
	}
	if obs.CloserFlush != "ErrStreamClosed" {
		or["final: Flush on the closing end after Close returned "+obs.CloserFlush] = true
	}
	if !callback && obs.CloserRead != "ErrStreamClosed" && obs.CloserRead != "ErrEndOfStream" {
		or["final: Read on the closing end after Close returned "+obs.CloserRead] = true
	}
	if obs.CloserState != uint32(streamClosed) {
		or["final: the closing end's state is not closed at quiescence"] = true
	}
	if obs.CloserActive != 0 {
		or["final: the closed stream still counts as active on the closing end"] = true
	}
	if c.Scenario != "both" {
		if !callback {
			if obs.PeerRead != "ErrEndOfStream" {
				or["peer: after draining, the peer's read returned "+obs.PeerRead+" instead of end-of-stream"] = true
			}
			if obs.PeerGot != obs.PeerWant {
				or["peer: the peer did not receive exactly what was flushed before the Close"] = true
			}
		} else if obs.PeerRemote != 1 {
			or[fmt.Sprintf("peer: OnRemoteClose delivered %d times", obs.PeerRemote)] = true
		}
		if obs.PeerFlush != "ErrStreamClosed" {
			or["peer: Flush on the peer after the close was handled returned "+obs.PeerFlush] = true
		}
		if obs.PeerActive != 1 {
			or["peer: the half-closed stream does not count as active before the peer closes it"] = true
		}
	} else if obs.PeerFlush != "ErrStreamClosed" {
		or["final: Flush on the second closing end returned "+obs.PeerFlush] = true
	}
	if obs.PeerActive2 != 0 {
		or["final: stream still active on the peer after the peer closed it too"] = true
	}
	if callback {
		if c.Scenario == "both" {
			if obs.CloserLocal+obs.CloserRemote != 1 || obs.PeerLocal+obs.PeerRemote != 1 {
				or["callbacks: an end did not get exactly one of OnLocalClose/OnRemoteClose"] = true
			}
		} else {
			if obs.CloserLocal != 1 || obs.CloserRemote != 0 {
				or[fmt.Sprintf("callbacks: closing end got OnLocalClose=%d OnRemoteClose=%d", obs.CloserLocal, obs.CloserRemote)] = true
			}
			if obs.PeerRemote != 1 || obs.PeerLocal != 0 {
				or[fmt.Sprintf("callbacks: peer got OnLocalClose=%d OnRemoteClose=%d", obs.PeerLocal, obs.PeerRemote)] = true
			}
		}
	}
	for k := range or {
		c.Oracle = append(c.Oracle, k)
	}
	return c
}

func TestVerif_C10(t *testing.T) {
	seed := uint64(venvInt("VERIF_SEED", 1))
	n := venvInt("VERIF_N", 40)
	o := vopenOut(t)
	defer o.close()
	r := newVrand(seed)
	id := 0
	emit := func(c c10Case) {
		c.ID = id
		id++
		o.emit(c10RunCase(c))
	}
	// fixed coverage of every scenario in both modes
	for _, mode := range []string{"sync", "callback"} {
		for _, sc := range []string{"client", "server", "both", "repeat"} {
			emit(c10Case{Mode: mode, Scenario: sc, Pre: 1, PeerPre: 1})
		}
	}
	emit(c10Case{Mode: "callback", Scenario: "inside"})
	emit(c10Case{Mode: "callback", Scenario: "during"})
	{
		c := c10GhostCase(c10Case{ID: id, Mode: "callback", Scenario: "inflight-to-closed"})
		id++
		o.emit(c)
	}
	// generated
	for k := 0; k < n; k++ {
		c := c10Case{}
		c.Mode = []string{"sync", "callback"}[r.intn(2)]
		c.Scenario = []string{"client", "server", "both", "repeat", "client", "both"}[r.intn(6)]
		c.Pre = r.intn(4)
		c.PeerPre = r.intn(3)
		if c.Mode == "callback" {
			// data flushed right before the close may legitimately never be offered in callback mode (C07's finding)
			c.Pre = 0
		}
		if r.chance(50) {
			c.DelayUs = r.intn(400)
		}
		emit(c)
	}
	for _, sc := range []string{"inside-ops", "during-ops"} {
		c := c10OpsAfterClose(c10Case{ID: id, Mode: "callback", Scenario: sc})
		id++
		o.emit(c)
	}
	// calls that are already pending when the stream is closed: a synchronous read parked in readMore
	for _, sc := range []string{"pending-read-local-close", "pending-read-peer-close", "pending-read-local-close"} {
		c := c10PendingCase(c10Case{ID: id, Mode: "sync", Scenario: sc, DelayUs: r.intn(3000)})
		id++
		o.emit(c)
	}
	// last (a failing one leaves a lost goroutine behind): Close() inside OnData whose CAS cannot succeed
	for _, sc := range []string{"inside-twice", "inside-after-peer-close"} {
		c := c10InsideCase(c10Case{ID: id, Mode: "callback", Scenario: sc})
		id++
		o.emit(c)
	}
	t.Logf("emitted %d cases", id)
}

// c10PendingCase: synchronous mode; a goroutine is parked in a read for more bytes than were sent when the stream is
// closed — locally, by ANOTHER goroutine (Close() on the same end), or by the peer.  The pending read must return
// with a closed-stream error (never data it did not get, never block on): "after a local Close every later operation
// fails with a closed-stream error" includes the operations that are already waiting.
func c10PendingCase(c c10Case) c10Case {
	client, server, _ := c10Pair(false, nil)
	if client == nil {
		c.Skipped = "session pair could not be created"
		return c
	}
	defer func() {
		client.Close()
		server.Close()
	}()
	cs, err := client.OpenStream()
	if err != nil {
		c.Skipped = "OpenStream failed"
		return c
	}
	if c10Flush(cs, []byte{1, 2, 3}) != nil {
		c.Skipped = "first Flush failed"
		return c
	}
	ss, err := server.AcceptStream()
	if err != nil {
		c.Skipped = "AcceptStream failed"
		return c
	}
	type res struct {
		n   int
		err error
	}
	done := make(chan res, 1)
	started := make(chan struct{})
	go func() {
		close(started)
		b, err := ss.BufferReader().ReadBytes(10) // only 3 bytes were sent: parks in readMore
		done <- res{len(b), err}
	}()
	<-started
	time.Sleep(20*time.Millisecond + time.Duration(c.DelayUs)*time.Microsecond)
	select {
	case r := <-done:
		c.Skipped = fmt.Sprintf("the read returned before the close (%d bytes, %v)", r.n, r.err)
		return c
	default:
	}
	local := c.Scenario == "pending-read-local-close"
	t0 := time.Now()
	if local {
		_ = ss.Close() // from this goroutine; the reader is another one
	} else {
		_ = cs.Close()
	}
	or := map[string]bool{}
	select {
	case r := <-done:
		c.Obs.CloserRead = c20ErrClassT(r.err)
		want := "ErrStreamClosed"
		if !local {
			want = "ErrEndOfStream"
		}
		if r.err == nil {
			or[fmt.Sprintf("pending: the read that was waiting for 10 bytes returned %d bytes without error after the close", r.n)] = true
		} else if c.Obs.CloserRead != want && c.Obs.CloserRead != "ErrStreamClosed" {
			or["pending: the read that was waiting when the stream was closed failed with "+c.Obs.CloserRead] = true
		}
	case <-time.After(2 * time.Second):
		c.Obs.CloserRead = "still-blocked"
		c.Obs.CloserState = atomic.LoadUint32(&ss.state)
		c.Obs.CloserActive = server.GetActiveStreamCount()
		who := "another goroutine closed the stream locally (Close() returned"
		if !local {
			who = "the peer closed the stream (its Close() returned"
		}
		or[fmt.Sprintf("SIG:C10:close-does-not-wake-pending-calls|pending: a read parked in readMore is still blocked 2 s after %s %v ago); state %d, active streams %d: nothing will ever wake it", who, time.Since(t0).Round(time.Millisecond), c.Obs.CloserState, c.Obs.CloserActive)] = true
		// release the goroutine for the teardown
		ss.safeCloseNotify()
		select {
		case <-done:
		case <-time.After(time.Second):
		}
	}
	c.Obs.CloserState = atomic.LoadUint32(&ss.state)
	_ = cs.Close()
	_ = ss.Close()
	for k := range or {
		c.Oracle = append(c.Oracle, k)
	}
	return c
}

// c10GhostCase: deterministic reproduction of "data in flight to a stream the server already closed".
// The server's event loop is held inside OnNewStream of a second stream; meanwhile the client flushes one
// more message on stream 1 (the element waits in the queue) and the server's user closes stream 1; then
// the event loop is released and finds an element for an id that is no longer in its table.
func c10GhostCase(c c10Case) c10Case {
	client, server, l := c10Pair(true, func(s *Stream) *c10Cb { return &c10Cb{} })
	if client == nil {
		c.Skipped = "session pair could not be created"
		return c
	}
	defer func() {
		client.Close()
		server.Close()
	}()
	fail := func(m string) c10Case { c.Skipped = m; return c }
	cs, err := client.OpenStream()
	if err != nil {
		return fail("OpenStream")
	}
	ccb := &c10Cb{stream: cs}
	_ = cs.SetCallbacks(ccb)
	if c10Flush(cs, []byte{1, 2, 3}) != nil {
		return fail("first Flush")
	}
	var ss *Stream
	select {
	case ss = <-l.ch:
		<-l.cb
	case <-time.After(c10Wait):
		return fail("server never saw stream 1")
	}
	atomic.StoreInt32(&l.blockAt, 2)
	cs2, _ := client.OpenStream()
	_ = cs2.SetCallbacks(&c10Cb{stream: cs2})
	if c10Flush(cs2, []byte{4}) != nil {
		return fail("Flush on stream 2")
	}
	select {
	case <-l.entered:
	case <-time.After(c10Wait):
		return fail("event loop never entered OnNewStream of stream 2")
	}
	// in flight: one more message for stream 1; then the server closes stream 1
	if c10Flush(cs, []byte{30, 31}) != nil {
		return fail("in-flight Flush")
	}
	_ = ss.Close()
	close(l.release)
	// the client learns about the close and closes its end; stream 2 is closed on both ends
	c10WaitFor(c10Wait, func() bool { return atomic.LoadInt32(&ccb.remote) >= 1 })
	_ = cs.Close()
	var ss2 *Stream
	select {
	case ss2 = <-l.ch:
		<-l.cb
	case <-time.After(c10Wait):
	}
	_ = cs2.Close()
	if ss2 != nil {
		_ = ss2.Close()
	}
	c10WaitFor(time.Second, func() bool { return server.GetActiveStreamCount() == 0 })
	g := server.getStreamById(cs.id)
	c.Obs.Ghost = g != nil && g != ss
	c.Obs.CloserActive = server.GetActiveStreamCount()
	c.Obs.CloserState = atomic.LoadUint32(&ss.state)
	c.Obs.PeerState = atomic.LoadUint32(&cs.state)
	c.Obs.PeerActive2 = client.GetActiveStreamCount()
	if c.Obs.Ghost {
		c.Oracle = append(c.Oracle, fmt.Sprintf("ghost: data in flight to a stream the server had already closed re-created the stream id; the new stream stays in the server's table (active=%d, its state=%d, OnNewStream calls=%d)",
			c.Obs.CloserActive, atomic.LoadUint32(&g.state), atomic.LoadInt32(&l.calls)))
	} else if c.Obs.CloserActive != 0 {
		c.Oracle = append(c.Oracle, "final: the closed stream still counts as active on the closing end")
	}
	return c
}

// c10InsideCase: Close() issued inside OnData when its CAS in the "callback in process" branch cannot succeed:
//
//	twice            OnData calls Close() twice (the second finds the stream already locally half-closed)
//	after-peer-close OnData is parked, the peer closes, OnRemoteClose is delivered, then OnData calls Close()
//
// Every wait is bounded.  If a Close() does not return the callback goroutine is lost; the sessions of that case
// are then NOT closed (Session.Close would wait for that goroutine on the process-wide dispatcher).
func c10InsideCase(c c10Case) c10Case {
	blocked, release := make(chan struct{}), make(chan struct{})
	twice := c.Scenario == "inside-twice"
	mk := func(s *Stream) *c10Cb {
		if twice {
			return &c10Cb{closeOn: 0xEE, closeTimes: 2}
		}
		return &c10Cb{blockOn: 0xDD, closeOn: 0xDD, closeAfterBlk: true, blocked: blocked, release: release}
	}
	client, server, l := c10Pair(true, mk)
	if client == nil {
		c.Skipped = "session pair could not be created"
		return c
	}
	wedged := false
	defer func() {
		if !wedged {
			client.Close()
			server.Close()
		}
	}()
	cs, err := client.OpenStream()
	if err != nil {
		c.Skipped = "OpenStream failed"
		return c
	}
	ccb := &c10Cb{stream: cs}
	_ = cs.SetCallbacks(ccb)
	if c10Flush(cs, []byte{1, 2, 3}) != nil {
		c.Skipped = "first Flush failed"
		return c
	}
	var ss *Stream
	var scb *c10Cb
	select {
	case ss = <-l.ch:
		scb = <-l.cb
	case <-time.After(c10Wait):
		c.Skipped = "server never saw the stream"
		return c
	}
	c10WaitFor(c10Wait, func() bool { return scb.gotLen() >= 3 })
	or := map[string]bool{}
	want := int32(1)
	if twice {
		want = 2
		_ = c10Flush(cs, []byte{0xEE})
	} else {
		_ = c10Flush(cs, []byte{0xDD})
		select {
		case <-blocked:
		case <-time.After(c10Wait):
			c.Skipped = "OnData never blocked"
			close(release)
			return c
		}
		_ = cs.Close() // the peer closes while the server's OnData is running
		if !c10WaitFor(c10Wait, func() bool { return atomic.LoadInt32(&scb.remote) >= 1 }) {
			or["peer: OnRemoteClose delivered 0 times"] = true
		}
		close(release)
	}
	returned := c10WaitFor(c10Wait, func() bool { return atomic.LoadInt32(&scb.closeReturned) >= want })
	obs := &c.Obs
	if !returned {
		wedged = true
		or[fmt.Sprintf("final: Close() issued inside OnData did not return (%d of %d calls returned)", atomic.LoadInt32(&scb.closeReturned), want)] = true
	}
	c10WaitFor(c10Wait, func() bool {
		return atomic.LoadUint32(&ss.state) == uint32(streamClosed) && server.GetActiveStreamCount() == 0
	})
	obs.CloserState = atomic.LoadUint32(&ss.state)
	obs.CloserActive = server.GetActiveStreamCount()
	if obs.CloserActive != 0 {
		or["final: the closed stream still counts as active on the closing end"] = true
	}
	if !wedged {
		obs.CloserFlush = c20ErrClassT(c10Flush(ss, []byte{9}))
		if obs.CloserFlush != "ErrStreamClosed" {
			or["final: Flush on the closing end after Close returned "+obs.CloserFlush] = true
		}
	}
	if twice {
		// the client must learn about the close
		c10WaitFor(c10Wait, func() bool { return atomic.LoadInt32(&ccb.remote) >= 1 })
		obs.PeerFlush = c20ErrClassT(c10Flush(cs, []byte{8}))
		if obs.PeerFlush != "ErrStreamClosed" {
			or["peer: Flush on the peer after the close was handled returned "+obs.PeerFlush] = true
		}
		_ = cs.Close()
	}
	time.Sleep(5 * time.Millisecond)
	obs.CloserLocal, obs.CloserRemote = int(atomic.LoadInt32(&scb.local)), int(atomic.LoadInt32(&scb.remote))
	obs.PeerLocal, obs.PeerRemote = int(atomic.LoadInt32(&ccb.local)), int(atomic.LoadInt32(&ccb.remote))
	obs.PeerState = atomic.LoadUint32(&cs.state)
	if twice {
		if obs.CloserLocal != 1 || obs.CloserRemote != 0 {
			or[fmt.Sprintf("callbacks: closing end got OnLocalClose=%d OnRemoteClose=%d", obs.CloserLocal, obs.CloserRemote)] = true
		}
		if obs.PeerRemote != 1 || obs.PeerLocal != 0 {
			or[fmt.Sprintf("callbacks: peer got OnLocalClose=%d OnRemoteClose=%d", obs.PeerLocal, obs.PeerRemote)] = true
		}
	} else {
		if obs.CloserLocal != 0 || obs.CloserRemote != 1 {
			or[fmt.Sprintf("callbacks: closing end got OnLocalClose=%d OnRemoteClose=%d", obs.CloserLocal, obs.CloserRemote)] = true
		}
		if obs.PeerLocal != 1 || obs.PeerRemote != 0 {
			or[fmt.Sprintf("callbacks: peer got OnLocalClose=%d OnRemoteClose=%d", obs.PeerLocal, obs.PeerRemote)] = true
		}
	}
	if obs.CloserState != uint32(streamClosed) {
		or["final: the closing end's state is not closed at quiescence"] = true
	}
	for k := range or {
		c.Oracle = append(c.Oracle, k)
	}
	return c
}

// c10OpsAfterClose: user operations after a Close() that left the stream locally half-closed (an OnData is running):
//
//	inside-ops   OnData calls Close(), then WriteBytes+Flush and a read, all inside the same OnData
//	during-ops   OnData is parked; another goroutine calls Close(), then WriteBytes+Flush; then OnData is released
//
// Every one of these operations must fail with a closed-stream error and the peer must receive nothing flushed
// after the Close.
func c10OpsAfterClose(c c10Case) c10Case {
	blocked, release := make(chan struct{}), make(chan struct{})
	inside := c.Scenario == "inside-ops"
	mk := func(s *Stream) *c10Cb {
		if inside {
			return &c10Cb{closeOn: 0xEE, opsAfterClose: true}
		}
		return &c10Cb{blockOn: 0xDD, blocked: blocked, release: release}
	}
	client, server, l := c10Pair(true, mk)
	if client == nil {
		c.Skipped = "session pair could not be created"
		return c
	}
	defer func() {
		client.Close()
		server.Close()
	}()
	cs, err := client.OpenStream()
	if err != nil {
		c.Skipped = "OpenStream failed"
		return c
	}
	ccb := &c10Cb{stream: cs}
	_ = cs.SetCallbacks(ccb)
	if c10Flush(cs, []byte{1, 2, 3}) != nil {
		c.Skipped = "first Flush failed"
		return c
	}
	var ss *Stream
	var scb *c10Cb
	select {
	case ss = <-l.ch:
		scb = <-l.cb
	case <-time.After(c10Wait):
		c.Skipped = "server never saw the stream"
		return c
	}
	c10WaitFor(c10Wait, func() bool { return scb.gotLen() >= 3 })
	or := map[string]bool{}
	flushAfter, readAfter := "", ""
	if inside {
		_ = c10Flush(cs, []byte{0xEE})
		if !c10WaitFor(c10Wait, func() bool { return atomic.LoadInt32(&scb.closeReturned) >= 1 }) {
			c.Skipped = "OnData never closed"
			return c
		}
		c10WaitFor(c10Wait, func() bool { return atomic.LoadUint32(&ss.state) == uint32(streamClosed) })
		flushAfter, readAfter = scb.flushAfter, scb.readAfter
	} else {
		_ = c10Flush(cs, []byte{0xDD})
		select {
		case <-blocked:
		case <-time.After(c10Wait):
			c.Skipped = "OnData never blocked"
			close(release)
			return c
		}
		_ = ss.Close()
		c.Obs.States = append(c.Obs.States, atomic.LoadUint32(&ss.state))
		_, _ = ss.BufferWriter().WriteBytes([]byte{0x77})
		flushAfter = c20ErrClassT(ss.Flush(false))
		close(release)
		c10WaitFor(c10Wait, func() bool { return atomic.LoadUint32(&ss.state) == uint32(streamClosed) })
	}
	c.Obs.CloserFlush, c.Obs.CloserRead = flushAfter, readAfter
	if flushAfter != "ErrStreamClosed" {
		or["finality: Flush after Close() (stream locally half-closed, OnData still running) returned "+flushAfter] = true
	}
	if inside && readAfter != "ErrEndOfStream" && readAfter != "ErrStreamClosed" {
		or["finality: a read on the empty buffer after Close() inside OnData returned "+readAfter] = true
	}
	// the peer: learns about the close and never sees the byte flushed after it
	c10WaitFor(c10Wait, func() bool { return atomic.LoadInt32(&ccb.remote) >= 1 })
	time.Sleep(20 * time.Millisecond)
	ccb.mu.Lock()
	for _, b := range ccb.got {
		if b == 0x77 {
			or["finality: the peer received bytes that were flushed after the local Close()"] = true
		}
	}
	ccb.mu.Unlock()
	c.Obs.PeerGot = ccb.gotLen()
	c.Obs.PeerRemote = int(atomic.LoadInt32(&ccb.remote))
	if c.Obs.PeerRemote != 1 {
		or[fmt.Sprintf("peer: OnRemoteClose delivered %d times", c.Obs.PeerRemote)] = true
	}
	_ = cs.Close()
	c.Obs.CloserState = atomic.LoadUint32(&ss.state)
	for k := range or {
		c.Oracle = append(c.Oracle, k)
	}
	return c
}

// ---- mechanism S: closer-heavy configurations on the controlled scheduler ----
func TestVerif_C10S(t *testing.T) {
	seed := uint64(venvInt("VERIF_SEED", 1))
	n := venvInt("VERIF_N", 200)
	o := vopenOut(t)
	defer o.close()
	env := c20NewEnv()
	defer env.close()
	r := newVrand(seed ^ 0xC10)
	id := 0
	budget := &c20Budget{limit: 60}
	run := func(c c20Case, mk func() vsChooser, max int) {
		if budget.spent() {
			return
		}
		t0 := time.Now()
		res := c20Run(env, c, mk, max)
		res.Ms = time.Since(t0).Milliseconds()
		budget.note(res)
		env.renewAfter(res)
		o.emit(res)
	}
	for ; id < n; id++ {
		c := c20Case{ID: id, Kind: "normal", Cmp: true, Cb0: true}
		c.Inb = c20GenInb(r, 1+r.intn(3), 35)
		c.NCl = 1 + r.intn(2)
		if r.chance(15) {
			c.NCl = 0
		}
		c.Script = c20GenScript(r, 25)
		if c.NCl == 0 && len(c.Script) == 0 {
			c.Script = [][2]int{{1, 1}}
		}
		c20GenFlushes(r, &c, 45)
		strat, mk := c20Strategy(r, id, 1+c.NCl+len(c.Ups))
		c.Strat = strat
		run(c, mk, 3000)
	}
	// Flush after Close in each non-open state: inside OnData right after its Close() (localHalfClosed), from a user
	// thread while OnData runs after a closer's Close() (localHalfClosed), after the peer's close (halfClosed), after
	// the close completed (closed)
	for x := 0; x < 4; x++ {
		for k := 0; k <= 9; k++ {
			c := c20Case{ID: id, Kind: "flush-after-close", Cmp: true, Cb0: true, Inb: [][]int{{1, 2}}, Script: [][2]int{{1, 1}}, InFl: []int{2}}
			switch k % 3 {
			case 1: // a user thread flushes while a closer closes during OnData; the peer's close may come first
				c.Inb = [][]int{{1, 2}, {}}
				c.Script, c.InFl = [][2]int{{1, 0}}, nil
				c.Ups = [][]int{{9, 8}}
				c.NCl = 1
			case 2: // OnData flushes after the peer's close, then closes, then flushes again: two invocations
				c.Inb = [][]int{{1, 2}, {}, {3}}
				c.Script, c.InFl = [][2]int{{1, 0}, {1, 1}}, []int{1, 1}
			}
			c.Strat = fmt.Sprintf("systematic-preempt(t%d@%d)", x, k)
			x, k := x, k
			run(c, func() vsChooser { return vsPreemptChooser(newVrand(seed+uint64(id)), x, k) }, 3000)
			id++
		}
	}
	// an OnData parked in a blocking read when the stream is closed (by closer threads, by the peer): the read is
	// woken (closeNotifyCh), OnData returns, every Close() returns, the stream ends closed and clean
	for x := 0; x < 3; x++ {
		for k := 0; k <= 9; k++ {
			c := c20Case{ID: id, Kind: "parked-ondata-close", Cmp: true, Cb0: true, Inb: [][]int{{3}}, Needs: []int{4}, Script: [][2]int{{0, 0}}, NCl: 1 + k%2}
			if k%3 == 2 {
				c.Inb = [][]int{{3}, {}} // the peer's close races the local one
			}
			if k%5 == 4 {
				c.Script = [][2]int{{0, 1}} // and OnData, once its read has failed, calls Close() itself
			}
			c.Picks = []bool{k%2 == 0, k%4 < 2}
			x, k := x, k
			if x == 2 {
				c.Strat = "park-first"
				run(c, func() vsChooser { return c20ParkFirstChooser(1 + c.NCl) }, 3000)
			} else {
				c.Strat = fmt.Sprintf("systematic-preempt(t%d@%d)", x, k)
				run(c, func() vsChooser { return vsPreemptChooser(newVrand(seed+uint64(id)), x, k+4) }, 3000)
			}
			id++
		}
	}
	// synchronous mode (no callbacks): Close racing the peer's close notification, systematically
	for x := 0; x < 2; x++ {
		for k := 0; k <= 6; k++ {
			c := c20Case{ID: id, Kind: "sync", Cmp: true, Cb0: false, NCl: 1, Inb: [][]int{{1, 2}, {}}}
			c.Strat = fmt.Sprintf("systematic-preempt(t%d@%d)", x, k)
			x, k := x, k
			run(c, func() vsChooser { return vsPreemptChooser(newVrand(seed+uint64(id)), x, k) }, 3000)
			id++
		}
	}
	// deterministic witnesses of the refuted statements (schedules computed from the Coq witnesses)
	run(c20Case{ID: id, Kind: "witness-inside", Strat: "fixed-prefix", Cmp: true, Cb0: true, Inb: [][]int{{1}}, Script: [][2]int{{1, 1}}},
		func() vsChooser { return c20PrefixChooser([]int{0, 0, 0}) }, 3000)
	id++
	// Close() repeated inside one OnData; Close() inside OnData after the peer's close was handled during it
	run(c20Case{ID: id, Kind: "inside-twice", Strat: "fixed-prefix", Cmp: true, Cb0: true, Inb: [][]int{{1}}, Script: [][2]int{{1, 2}}},
		func() vsChooser { return c20PrefixChooser([]int{0, 0, 0}) }, 600)
	id++
	run(c20Case{ID: id, Kind: "inside-after-peer-close", Strat: "fixed-prefix", Cmp: true, Cb0: true, Inb: [][]int{{1}, {}}, Script: [][2]int{{1, 1}}},
		func() vsChooser { return c20PrefixChooser([]int{0, 0, 0, 1, 1, 0, 0}) }, 600)
	id++
	for x := 0; x < 2; x++ {
		for k := 0; k <= 8; k++ {
			c := c20Case{ID: id, Kind: "inside-after-peer-close", Cmp: true, Cb0: true, Inb: [][]int{{1, 2}, {}}, Script: [][2]int{{1, 1 + k%2}}}
			c.Strat = fmt.Sprintf("systematic-preempt(t%d@%d)", x, k)
			x, k := x, k
			run(c, func() vsChooser { return vsPreemptChooser(newVrand(seed+uint64(id)), x, k) }, 600)
			id++
		}
	}
	// an arrival whose table lookup precedes close()'s clean and whose add follows it, moved into recvBuf by a
	// goroutine that close()'s Wait missed (spawned between the CAS on callbackInProcess and wg.Add) — and the
	// neighbours of that schedule (one step dropped, two adjacent steps swapped)
	{
		base := []int{1, 1, 0, 0, 0, 0, 0, 0, 1, 1, 1, 0, 0, 1, 1, 1, 1, 0, 0, 2, 2, 2, 2, 2, 2, 2, 2, 2, 2, 2, 2, 2, 2}
		variants := [][]int{base}
		for p := 0; p < 23; p++ {
			d := append(append([]int{}, base[:p]...), base[p+1:]...)
			variants = append(variants, d)
			if p+1 < len(base) && base[p] != base[p+1] {
				w := append([]int{}, base...)
				w[p], w[p+1] = w[p+1], w[p]
				variants = append(variants, w)
			}
		}
		for k, v := range variants {
			v := v
			kind := "late-arrival-residue"
			if k > 0 {
				kind = "late-arrival-residue-nbr"
			}
			run(c20Case{ID: id, Kind: kind, Strat: "fixed-prefix", Cmp: true, Cb0: true, NCl: 1, Inb: [][]int{{1}, {2}}},
				func() vsChooser { return c20PrefixChooser(v) }, 600)
			id++
		}
	}
	run(c20Case{ID: id, Kind: "witness-cas-race", Strat: "fixed-prefix", Cmp: true, Cb0: false, NCl: 1, Inb: [][]int{{}}},
		func() vsChooser { return c20PrefixChooser([]int{1, 1, 0, 0, 1}) }, 3000)
	id++
	t.Logf("emitted %d cases", id)
}
