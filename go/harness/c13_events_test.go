//go:build verif

package shmipc

// C13 correspondence + oracle harness (mechanism D).
//
// Drives the REAL Session.handleEvents (and the lambdas it posts to the dispatcher) of real
// client/server sessions with generated control-connection byte strings: valid event sequences,
// single-field mutations of valid events, truncations, wrong-direction events and random bytes.
// Every byte string is delivered whole and under three random cuttings through the REAL
// connEventHandler buffer code (maybeExpandReadBuffer / commitRead; only the kernel read is replaced by
// a copy of the next piece).  Every call runs inside recover().  A second family of cases feeds
// handshake-phase byte strings to the REAL server-side handshake code over a socketpair and to the REAL
// extractShmMetadata.
//
// Per case the harness writes the inputs, the projected observables (consumed, error class, panic
// class, per-stream bytes / state, new-stream order, counters, posted hot-restart epochs) and the result
// of the property oracle (no panic; consumed within the buffer; the observable effect is independent of
// the cutting) to VERIF_OUT.

import (
	"context"
	"encoding/binary"
	"encoding/hex"
	"fmt"
	"io"
	"net"
	"os"
	"os/exec"
	"runtime"
	"sort"
	"strings"
	"sync"
	"sync/atomic"
	"testing"
	"time"

	syscall "golang.org/x/sys/unix"
)

// ---------------------------------------------------------------------------------------------
// plumbing
// ---------------------------------------------------------------------------------------------

type c13Dispatcher struct {
	mu     sync.Mutex
	posted []func()
}

func (d *c13Dispatcher) runLoop() error                   { return nil }
func (d *c13Dispatcher) newConnection(*os.File) eventConn { return nil }
func (d *c13Dispatcher) shutdown() error                  { return nil }
func (d *c13Dispatcher) post(f func()) {
	d.mu.Lock()
	d.posted = append(d.posted, f)
	d.mu.Unlock()
}
func (d *c13Dispatcher) take() []func() {
	d.mu.Lock()
	p := d.posted
	d.posted = nil
	d.mu.Unlock()
	return p
}

type c13Listen struct {
	mu  sync.Mutex
	ids []uint32
}

func (l *c13Listen) OnNewStream(s *Stream) {
	l.mu.Lock()
	l.ids = append(l.ids, s.id)
	l.mu.Unlock()
}
func (l *c13Listen) OnShutdown(reason string) {}

func c13SockPair() (*net.UnixConn, *net.UnixConn, error) {
	fds, err := syscall.Socketpair(syscall.AF_UNIX, syscall.SOCK_STREAM, 0)
	if err != nil {
		return nil, nil, err
	}
	mk := func(fd int) (*net.UnixConn, error) {
		f := os.NewFile(uintptr(fd), "verif-sock")
		defer f.Close()
		c, err := net.FileConn(f)
		if err != nil {
			return nil, err
		}
		return c.(*net.UnixConn), nil
	}
	a, err := mk(fds[0])
	if err != nil {
		return nil, nil, err
	}
	b, err := mk(fds[1])
	if err != nil {
		return nil, nil, err
	}
	return a, b, nil
}

func c13Conf(tag string) *Config {
	conf := DefaultConfig()
	conf.MemMapType = MemMapTypeMemFd
	conf.ShareMemoryPathPrefix = fmt.Sprintf("/dev/shm/verif_%s_%d", tag, os.Getpid())
	conf.QueuePath = conf.ShareMemoryPathPrefix + "_queue"
	conf.ShareMemoryBufferCap = 4 << 20
	conf.LogOutput = io.Discard
	conf.ConnectionWriteTimeout = 20 * time.Second
	conf.InitializeTimeout = 20 * time.Second
	return conf
}

func c13NewPair(tag string, cb ListenCallback) (cli, srv *Session, err error) {
	cc, sc, err := c13SockPair()
	if err != nil {
		return nil, nil, err
	}
	sconf := c13Conf(tag)
	sconf.listenCallback = cb
	cconf := c13Conf(tag)
	ch := make(chan error, 1)
	go func() {
		var e error
		srv, e = newSession(sconf, sc, false)
		ch <- e
	}()
	cli, err = newSession(cconf, cc, true)
	if e := <-ch; e != nil && err == nil {
		err = e
	}
	return
}

const c13Pkg = "github.com/cloudwego/shmipc-go."

// class of a recovered panic + the innermost function of the library on the panicking stack
func c13PanicInfo(r interface{}) (class string, fn string) {
	msg := fmt.Sprint(r)
	switch {
	case strings.Contains(msg, "makeslice"):
		class = "makeslice"
	case strings.Contains(msg, "slice bounds out of range"):
		class = "slice-bounds"
	case strings.Contains(msg, "index out of range"):
		class = "index"
	case strings.Contains(msg, "nil pointer dereference"):
		class = "nil-deref"
	default:
		class = "other"
	}
	pcs := make([]uintptr, 64)
	n := runtime.Callers(2, pcs)
	frames := runtime.CallersFrames(pcs[:n])
	for {
		f, more := frames.Next()
		if strings.HasPrefix(f.Function, c13Pkg) {
			name := strings.TrimPrefix(f.Function, c13Pkg)
			if !strings.Contains(name, "c13") && !strings.Contains(name, "TestVerif") {
				fn = name
				break
			}
		}
		if !more {
			break
		}
	}
	return
}

func c13Ck(data []byte) int {
	ck := 0
	for _, b := range data {
		ck = (ck*31 + int(b) + 1) % 1000003
	}
	return ck
}

// ---------------------------------------------------------------------------------------------
// case description and observables
// ---------------------------------------------------------------------------------------------

type c13Q struct {
	ID     uint32 `json:"id"`
	Status uint32 `json:"status"`
	Data   string `json:"data"`
}

type c13St struct {
	ID    uint32 `json:"id"`
	State uint32 `json:"state"`
	Len   int    `json:"len"`
	Ck    int    `json:"ck"`
}

// outcome codes: 0 ok, 1 ErrInvalidMsgType, 2 other error, 10 makeslice, 11 slice bounds,
// 12 nil listener (nil dereference inside handleEvents), 13 nil manager (nil dereference inside a posted
// lambda), 19 other panic
type c13Obs struct {
	Calls     [][2]int `json:"calls"`
	Streams   []c13St  `json:"streams"`
	New       []uint32 `json:"new"`
	Polls     int      `json:"polls"`
	Fallbacks int      `json:"fallbacks"`
	Acks      int      `json:"acks"`
	SessState int      `json:"sess_state"`
	Posted    []uint64 `json:"posted"`
	PanicSig  string   `json:"panic_sig,omitempty"`
	PanicMsg  string   `json:"panic_msg,omitempty"`
	Leftover  int      `json:"leftover"`
}

type c13Fail struct {
	Sig  string `json:"sig"`
	What string `json:"what"`
}

type c13Case struct {
	ID       int         `json:"id"`
	Kind     string      `json:"kind"` // ev | hs | meta
	Class    string      `json:"class"`
	Client   bool        `json:"client"`
	Listener bool        `json:"listener"`
	Manager  bool        `json:"manager"`
	Epoch    uint64      `json:"epoch"`
	LState   int         `json:"lstate"` // listener.state
	SState   int         `json:"sstate"` // session.state
	Streams  [][2]uint32 `json:"streams"`
	Queue    []c13Q      `json:"queue"`
	Bytes    string      `json:"bytes"`
	Cuts     [][]int     `json:"cuts"`
	Obs      []c13Obs    `json:"obs"`
	// handshake / metadata cases
	HsClass   string    `json:"hs_class,omitempty"` // panic | err | ok
	HsReplies string    `json:"hs_replies,omitempty"`
	MetaPanic bool      `json:"meta_panic,omitempty"`
	MetaErr   bool      `json:"meta_err,omitempty"`
	MetaQ     string    `json:"meta_q,omitempty"`
	MetaB     string    `json:"meta_b,omitempty"`
	Huge      []byte    `json:"-"` // kind ev-big: the byte string (not written out)
	HugeLen   int       `json:"huge_len,omitempty"`
	HugeDesc  string    `json:"huge_desc,omitempty"`
	Oracle    []c13Fail `json:"oracle"`
	Feat      []string  `json:"feat"`
}

// ---------------------------------------------------------------------------------------------
// the subject: a real session, reset between deliveries
// ---------------------------------------------------------------------------------------------

type c13Subject struct {
	s, peer  *Session
	disp     *c13Dispatcher
	origDisp dispatcher
	listen   *c13Listen
	lst      *Listener
	mgr      *SessionManager
}

func c13NewManager() *SessionManager {
	conf := c13Conf("mgr")
	// a live (not closed) manager: the hot restart handler ignores events once the manager's context is cancelled
	ctx, cancel := context.WithCancel(context.Background())
	return &SessionManager{ctx: ctx, cancelFunc: cancel, config: &SessionManagerConfig{Config: conf, Network: "unix",
		Address: "/nonexistent_verif_c13/none.sock"}}
}

func (u *c13Subject) drainQueue() {
	q := u.s.queueManager.recvQueue
	for {
		e, err := q.pop()
		if err != nil {
			break
		}
		if streamState(e.status&0xff) != streamClosed {
			if sl, err := u.s.bufferManager.readBufferSlice(e.offsetInShmBuf); err == nil {
				u.s.bufferManager.recycleBuffers(sl)
			}
		}
	}
	q.markNotWorking()
}

func (u *c13Subject) reset(c *c13Case) error {
	s := u.s
	s.streamLock.Lock()
	for _, st := range s.streams {
		st.pendingData.clear()
		st.recvBuf.recycle()
	}
	s.streams = make(map[uint32]*Stream, 16)
	s.streamLock.Unlock()
	u.drainQueue()
	atomic.StoreUint64(&s.stats.recvPollingEventCount, 0)
	atomic.StoreUint64(&s.stats.fallbackReadCount, 0)
	atomic.StoreUint32(&s.unhealthy, 0)
	s.state = sessionSateType(c.SState)
	u.disp.take()
	if u.listen != nil {
		u.listen.mu.Lock()
		u.listen.ids = nil
		u.listen.mu.Unlock()
	}
	s.listener = nil
	s.manager = nil
	if c.Listener {
		u.lst = &Listener{epoch: c.Epoch, state: sessionSateType(c.LState)}
		s.listener = u.lst
	}
	if c.Manager {
		u.mgr = c13NewManager()
		s.manager = u.mgr
	}
	for _, p := range c.Streams {
		st := newStream(s, p[0])
		st.state = p[1]
		s.streams[p[0]] = st
	}
	// receive-queue content: written the way Stream.Flush does it, by the peer, into the shared memory
	for _, qe := range c.Queue {
		data, _ := hex.DecodeString(qe.Data)
		off := uint32(0)
		if streamState(qe.Status&0xff) != streamClosed || len(data) > 0 {
			lb := newEmptyLinkedBuffer(u.peer.bufferManager)
			if _, err := lb.WriteBytes(data); err != nil {
				return err
			}
			if !lb.isFromShareMemory() {
				return fmt.Errorf("no shared memory left for the queue preload (%d bytes of data, %d bytes free in the peer's buffer manager, %d in the subject's)",
					len(data), u.peer.bufferManager.remainSize(), u.s.bufferManager.remainSize())
			}
			lb.done(false)
			off = lb.rootBufOffset()
			lb.clean()
		}
		if err := u.peer.queueManager.sendQueue.put(queueElement{seqID: qe.ID, offsetInShmBuf: off, status: qe.Status}); err != nil {
			return err
		}
	}
	return nil
}

// one read callback: the REAL handleEvents, then the posted lambdas (as the dispatcher loop would)
func (u *c13Subject) call(buf []byte, o *c13Obs) (consumed int, code int) {
	var herr error
	func() {
		defer func() {
			if r := recover(); r != nil {
				class, fn := c13PanicInfo(r)
				code = 19
				switch class {
				case "makeslice":
					code = 10
				case "slice-bounds":
					code = 11
				case "nil-deref":
					code = 12
				}
				o.PanicSig = "C13: panic " + class + " in " + fn
				o.PanicMsg = fmt.Sprint(r)
			}
		}()
		consumed, herr = u.s.handleEvents(buf)
	}()
	if code == 0 && herr != nil {
		if herr == ErrInvalidMsgType {
			code = 1
		} else {
			code = 2
		}
	}
	for _, f := range u.disp.take() {
		func() {
			defer func() {
				if r := recover(); r != nil {
					class, fn := c13PanicInfo(r)
					if code < 10 {
						code = 19
						if class == "nil-deref" {
							code = 13
						}
						o.PanicSig = "C13: panic " + class + " in posted lambda " + fn
						o.PanicMsg = fmt.Sprint(r)
					}
				}
			}()
			f()
			if u.s.manager != nil {
				m := u.s.manager
				m.Lock()
				o.Posted = append(o.Posted, m.epoch)
				m.state = defaultState
				m.Unlock()
			}
		}()
	}
	return
}

func (u *c13Subject) observe(o *c13Obs) {
	s := u.s
	s.streamLock.Lock()
	ids := make([]uint32, 0, len(s.streams))
	for id := range s.streams {
		ids = append(ids, id)
	}
	sort.Slice(ids, func(i, j int) bool { return ids[i] < ids[j] })
	for _, id := range ids {
		st := s.streams[id]
		st.pendingData.moveTo(st.recvBuf)
		n := st.recvBuf.Len()
		data := make([]byte, n)
		if n > 0 {
			st.recvBuf.read(data)
		}
		o.Streams = append(o.Streams, c13St{ID: id, State: atomic.LoadUint32(&st.state), Len: n, Ck: c13Ck(data)})
	}
	s.streamLock.Unlock()
	if u.listen != nil {
		u.listen.mu.Lock()
		o.New = append([]uint32{}, u.listen.ids...)
		u.listen.mu.Unlock()
	}
	o.Polls = int(atomic.LoadUint64(&s.stats.recvPollingEventCount))
	o.Fallbacks = int(atomic.LoadUint64(&s.stats.fallbackReadCount))
	if u.s.listener != nil {
		o.Acks = -u.s.listener.hotRestartAckCount
	}
	o.SessState = int(s.state)
}

// deliver the byte string in the given pieces through the real connEventHandler buffer code
func (u *c13Subject) deliver(c *c13Case, data []byte, pieces []int) (c13Obs, error) {
	var o c13Obs
	if err := u.reset(c); err != nil {
		return o, err
	}
	h := &connEventHandler{readBuffer: make([]byte, venvInt("VERIF_INIT_LEN", 64*1024))}
	pos := 0
	offsetsBroken := func(when string) bool {
		if h.readStartOff < 0 || h.readStartOff > h.readEndOff || h.readEndOff > len(h.readBuffer) {
			o.PanicSig = "C13: read offsets outside the buffer " + when
			o.PanicMsg = fmt.Sprintf("readStartOff=%d readEndOff=%d len(readBuffer)=%d: the next read of the event loop indexes the buffer out of range",
				h.readStartOff, h.readEndOff, len(h.readBuffer))
			o.Calls = append(o.Calls, [2]int{0, 19})
			o.Leftover = -2
			return true
		}
		return false
	}
	for _, n := range pieces {
		// what onReadReady does with a kernel that returns n bytes (in several reads when the buffer is full)
		for n > 0 {
			h.maybeExpandReadBuffer()
			if offsetsBroken("after maybeExpandReadBuffer") {
				u.observe(&o)
				return o, nil
			}
			k := copy(h.readBuffer[h.readEndOff:], data[pos:pos+n])
			h.readEndOff += k
			pos += k
			n -= k
		}
		buf := h.readBuffer[h.readStartOff:h.readEndOff]
		consumed, code := u.call(buf, &o)
		o.Calls = append(o.Calls, [2]int{consumed, code})
		if consumed < 0 || consumed > len(buf) {
			o.Leftover = -1
			break
		}
		if code != 0 {
			o.Leftover = len(buf) - consumed
			break
		}
		h.commitRead(consumed)
		if offsetsBroken("after commitRead") {
			break
		}
		o.Leftover = h.readEndOff - h.readStartOff
	}
	u.observe(&o)
	return o, nil
}

// ---------------------------------------------------------------------------------------------
// generator
// ---------------------------------------------------------------------------------------------

func c13Header(length uint32, magic uint16, version uint8, typ uint8) []byte {
	b := make([]byte, 8)
	binary.BigEndian.PutUint32(b[0:4], length)
	binary.BigEndian.PutUint16(b[4:6], magic)
	b[6] = version
	b[7] = typ
	return b
}

type c13Gen struct {
	r            *vrand
	hsCorpusDone int
}

func (g *c13Gen) bytes(n int) []byte {
	b := make([]byte, n)
	for i := range b {
		b[i] = byte(g.r.u64())
	}
	return b
}
func (g *c13Gen) version() uint8 {
	switch g.r.intn(10) {
	case 0:
		return 1
	case 1:
		return uint8(1 + g.r.intn(255))
	case 2, 3, 4:
		return 3
	}
	return 2
}
func (g *c13Gen) streamID() uint32 {
	if g.r.chance(8) {
		return uint32(g.r.u64())
	}
	return uint32(1 + g.r.intn(6))
}
func (g *c13Gen) payloadLen() int {
	switch g.r.intn(12) {
	case 0:
		return 0
	case 1:
		return 1
	case 2:
		return 200 + g.r.intn(400)
	case 3:
		if g.r.chance(25) {
			return 3000 + g.r.intn(3000)
		}
	}
	return 1 + g.r.intn(24)
}
func (g *c13Gen) status() uint32 {
	st := uint32(g.r.pick([]int{0, 0, 0, 0, 1, 2, 0, 1, 3, 77}))
	if g.r.chance(25) {
		st |= uint32(g.r.u64()) << 8
	}
	return st
}

// one well-formed event of the given type
func (g *c13Gen) event(typ uint8, epoch uint64) []byte {
	v := g.version()
	switch eventType(typ) {
	case typePolling:
		return c13Header(headerSize, magicNumber, v, typ)
	case typeStreamClose:
		b := c13Header(headerSize+4, magicNumber, v, typ)
		id := make([]byte, 4)
		binary.BigEndian.PutUint32(id, g.streamID())
		return append(b, id...)
	case typeFallbackData:
		p := g.bytes(g.payloadLen())
		b := c13Header(uint32(headerSize+8+len(p)), magicNumber, v, typ)
		f := make([]byte, 8)
		binary.BigEndian.PutUint32(f[0:4], g.streamID())
		binary.BigEndian.PutUint32(f[4:8], g.status())
		return append(append(b, f...), p...)
	default: // typeHotRestart, typeHotRestartAck
		b := c13Header(headerSize+8, magicNumber, v, typ)
		e := make([]byte, 8)
		ep := epoch
		if g.r.chance(40) {
			ep = g.r.u64()
		}
		if g.r.chance(10) {
			ep = epoch + 1
		}
		binary.BigEndian.PutUint64(e, ep)
		return append(b, e...)
	}
}

func (g *c13Gen) cuts(n int) []int {
	if n == 0 {
		return []int{0}
	}
	var pieces []int
	switch g.r.intn(4) {
	case 0: // byte by byte (bounded)
		if n <= 48 {
			for i := 0; i < n; i++ {
				pieces = append(pieces, 1)
			}
			return pieces
		}
		fallthrough
	case 1: // few random cut points
		k := 1 + g.r.intn(5)
		pts := map[int]bool{}
		for i := 0; i < k; i++ {
			pts[1+g.r.intn(n)] = true
		}
		pts[n] = true
		var ps []int
		for p := range pts {
			ps = append(ps, p)
		}
		sort.Ints(ps)
		prev := 0
		for _, p := range ps {
			if p > prev {
				pieces = append(pieces, p-prev)
				prev = p
			}
		}
		return pieces
	default: // small pieces around header-sized boundaries
		rem := n
		for rem > 0 {
			k := g.r.pick([]int{1, 2, 3, 4, 7, 8, 9, 11, 12, 15, 16, 17, 24, 64})
			if g.r.chance(10) {
				k = 1 + g.r.intn(rem)
			}
			if k > rem {
				k = rem
			}
			pieces = append(pieces, k)
			rem -= k
			if len(pieces) > 60 {
				pieces = append(pieces, rem)
				rem = 0
			}
		}
		var out []int
		for _, p := range pieces {
			if p > 0 {
				out = append(out, p)
			}
		}
		return out
	}
}

// the witnesses of Props/C13.v (C13_witness_*), run first in every run
func c13Corpus(id int) *c13Case {
	ep := []byte{0, 0, 0, 0, 0, 0, 0, 7}
	c := &c13Case{ID: id, Kind: "ev", Epoch: 7, LState: int(hotRestartState), SState: int(hotRestartState)}
	var data []byte
	switch id {
	case 0:
		c.Class, c.Listener = "corpus:fallback-length-0", true
		data = c13Header(0, magicNumber, 2, uint8(typeFallbackData))
	case 1:
		c.Class, c.Listener = "corpus:fallback-length-12", true
		data = append(c13Header(12, magicNumber, 2, uint8(typeFallbackData)), 0, 0, 0, 1)
	case 2:
		c.Class, c.Client, c.Manager = "corpus:ack-without-listener", true, true
		data = append(c13Header(16, magicNumber, 2, uint8(typeHotRestartAck)), ep...)
	case 3:
		c.Class, c.Listener = "corpus:restart-without-manager", true
		data = append(c13Header(16, magicNumber, 2, uint8(typeHotRestart)), ep...)
	default:
		return nil
	}
	c.Bytes = hex.EncodeToString(data)
	c.Cuts = [][]int{{len(data)}, {8, len(data) - 8}, {3, len(data) - 3}, {len(data) - 1, 1}}
	if len(data) == 8 {
		c.Cuts = [][]int{{8}, {7, 1}, {1, 7}, {4, 4}}
	}
	return c
}

func (g *c13Gen) evCase(id int) *c13Case {
	r := g.r
	if c := c13Corpus(id); c != nil {
		return c
	}
	c := &c13Case{ID: id, Kind: "ev"}
	switch k := r.intn(10); {
	case k < 5:
		c.Client, c.Listener, c.Manager = false, true, false
	case k < 8:
		c.Client, c.Listener, c.Manager = true, false, true
	case k < 9:
		c.Client = r.chance(50)
	default:
		c.Client, c.Listener, c.Manager = r.chance(50), true, true
	}
	c.Epoch = r.u64()
	if r.chance(30) {
		c.Epoch = uint64(r.intn(4))
	}
	c.LState = r.pick([]int{int(hotRestartState), int(hotRestartState), int(hotRestartState), int(defaultState)})
	c.SState = r.pick([]int{int(hotRestartState), int(hotRestartState), int(hotRestartState), int(defaultState), int(hotRestartDoneState)})
	// streams already known to the session
	used := map[uint32]bool{}
	for i, n := 0, r.intn(4); i < n; i++ {
		id := uint32(1 + r.intn(6))
		if used[id] {
			continue
		}
		used[id] = true
		st := uint32(r.pick([]int{0, 0, 0, 2, 2, 1}))
		c.Streams = append(c.Streams, [2]uint32{id, st})
	}
	// content of the receive queue (drained by the first polling event)
	if r.chance(30) {
		for i, n := 0, 1+r.intn(3); i < n; i++ {
			st := g.status()
			d := g.bytes(r.pick([]int{1, 2, 5, 30, 100}))
			if streamState(st&0xff) == streamClosed {
				d = nil
			}
			c.Queue = append(c.Queue, c13Q{ID: g.streamID(), Status: st, Data: hex.EncodeToString(d)})
		}
	}
	// valid types for this direction
	valid := []uint8{uint8(typePolling), uint8(typeStreamClose), uint8(typeFallbackData), uint8(typeFallbackData)}
	if c.Listener {
		valid = append(valid, uint8(typeHotRestartAck))
	}
	if c.Manager {
		valid = append(valid, uint8(typeHotRestart))
	}
	n := 1 + r.intn(6)
	var evs [][]byte
	for i := 0; i < n; i++ {
		evs = append(evs, g.event(valid[r.intn(len(valid))], c.Epoch))
	}
	cls := r.intn(100)
	switch {
	case cls < 62:
		c.Class = "valid"
	case cls < 84: // single-field mutation of one event
		i := r.intn(len(evs))
		e := evs[i]
		typ := e[7]
		switch m := r.intn(12); m {
		case 0, 1, 2, 3: // Length
			real := binary.BigEndian.Uint32(e[0:4])
			var l uint32
			switch r.intn(8) {
			case 0:
				l = uint32(r.intn(8))
			case 1:
				l = uint32(8 + r.intn(8))
			case 2:
				l = 16
			case 3:
				l = real - 1
			case 4:
				l = real + 1 + uint32(r.intn(12))
			case 5:
				l = uint32(r.u64())
			case 6:
				l = 0xffffffff - uint32(r.intn(9))
			default:
				l = uint32(r.intn(40))
			}
			binary.BigEndian.PutUint32(e[0:4], l)
			c.Class = fmt.Sprintf("mut:length(type %d)", typ)
		case 4:
			binary.BigEndian.PutUint16(e[4:6], uint16(r.u64()))
			c.Class = "mut:magic"
		case 5:
			e[6] = 0
			c.Class = "mut:version0"
		case 6, 7:
			e[7] = uint8(r.pick([]int{0, 4, 5, 6, 7, 10, 11, 127, 128, 255}))
			c.Class = "mut:type"
		case 8, 9: // an event of the other direction / phase
			t := uint8(typeHotRestart)
			if r.chance(50) {
				t = uint8(typeHotRestartAck)
			}
			evs[i] = g.event(t, c.Epoch)
			c.Class = "mut:direction"
		case 10: // fallback data shorter than its fixed fields, complete on the wire
			l := uint32(r.intn(16))
			evs[i] = append(c13Header(l, magicNumber, g.version(), uint8(typeFallbackData)), g.bytes(r.intn(10))...)
			c.Class = "mut:short-fallback"
		default: // flip one byte anywhere
			e[r.intn(len(e))] ^= byte(1 << uint(r.intn(8)))
			c.Class = "mut:bitflip"
		}
	case cls < 92:
		c.Class = "trunc"
	default:
		c.Class = "random"
	}
	var data []byte
	for _, e := range evs {
		data = append(data, e...)
	}
	switch c.Class {
	case "trunc":
		data = data[:r.intn(len(data)+1)]
	case "random":
		data = g.bytes(r.intn(40))
		if r.chance(50) && len(data) >= 8 { // random but with a plausible header
			binary.BigEndian.PutUint16(data[4:6], magicNumber)
			data[6] = g.version()
			data[7] = uint8(r.intn(11))
		}
	}
	c.Bytes = hex.EncodeToString(data)
	c.Cuts = [][]int{{len(data)}}
	for i := 0; i < 3; i++ {
		c.Cuts = append(c.Cuts, g.cuts(len(data)))
	}
	return c
}

// A long well-formed sequence (tens of KiB: fallback data with sizeable payloads mixed with small events), so that
// the read buffer accumulates more than half of its size in already-handled events in front of a pending partial
// event, is compacted / doubled with a non-zero start offset, and receives more bytes afterwards.  Deliveries:
// whole; cuts on event boundaries; a cut inside an event early in the buffer; a cut inside an event after more than
// half of the 64 KiB buffer has been consumed (then a few bytes, then the rest); repeated large pieces that each end
// inside an event.
func (g *c13Gen) longCase(id int) *c13Case {
	r := g.r
	c := &c13Case{ID: id, Kind: "ev", Class: "long", Listener: true, Epoch: r.u64(),
		LState: int(hotRestartState), SState: int(hotRestartState)}
	if r.chance(30) {
		c.Streams = append(c.Streams, [2]uint32{uint32(1 + r.intn(6)), 0})
	}
	target := 38000 + r.intn(30000)
	if r.chance(15) && venvInt("VERIF_LONG_BIG", 0) != 0 {
		target = 70000 + r.intn(60000) // several fill / compact cycles (thorough tier: costly in the model comparison)
	}
	var data []byte
	var bounds []int
	for len(data) < target {
		var ev []byte
		switch r.intn(10) {
		case 0:
			ev = g.event(uint8(typePolling), c.Epoch)
		case 1:
			ev = g.event(uint8(typeStreamClose), c.Epoch)
		case 2:
			ev = g.event(uint8(typeHotRestartAck), c.Epoch)
		case 3:
			ev = g.event(uint8(typeFallbackData), c.Epoch)
		default:
			pl := r.pick([]int{200, 700, 1500, 3000, 4096, 6000, 9000}) + r.intn(100)
			ev = c13Header(uint32(headerSize+8+pl), magicNumber, g.version(), uint8(typeFallbackData))
			f := make([]byte, 8)
			binary.BigEndian.PutUint32(f[0:4], uint32(1+r.intn(6)))
			binary.BigEndian.PutUint32(f[4:8], uint32(r.pick([]int{0, 0, 0, 2, 77})))
			ev = append(append(ev, f...), g.bytes(pl)...)
		}
		data = append(data, ev...)
		bounds = append(bounds, len(data))
	}
	n := len(data)
	c.Bytes = hex.EncodeToString(data)
	fromPoints := func(pts []int) []int {
		sort.Ints(pts)
		var pieces []int
		prev := 0
		for _, p := range append(pts, n) {
			if p > prev && p <= n {
				pieces = append(pieces, p-prev)
				prev = p
			}
		}
		return pieces
	}
	inside := func(lo, hi int) int { // a position strictly inside the event that covers [lo, hi)
		if hi-lo < 2 {
			return hi
		}
		return lo + 1 + r.intn(hi-lo-1)
	}
	evStart := func(j int) int {
		if j == 0 {
			return 0
		}
		return bounds[j-1]
	}
	c.Cuts = [][]int{{n}}
	// (i) on event boundaries
	var pts []int
	for i, k := 0, 2+r.intn(6); i < k; i++ {
		pts = append(pts, bounds[r.intn(len(bounds))])
	}
	c.Cuts = append(c.Cuts, fromPoints(pts))
	// (ii) inside an event early in the buffer, then a few more cuts
	j := r.intn(minInt(4, len(bounds)))
	pts = []int{inside(evStart(j), bounds[j])}
	for i, k := 0, 1+r.intn(3); i < k; i++ {
		pts = append(pts, 1+r.intn(n))
	}
	c.Cuts = append(c.Cuts, fromPoints(pts))
	// (iii) inside an event after more than half of the initial buffer has been consumed, buffer not full
	j = 0
	for j < len(bounds)-1 && bounds[j] <= 33000 {
		j++
	}
	for j+1 < len(bounds) && bounds[j+1] < 60000 && r.chance(50) {
		j++
	}
	p := inside(bounds[j], bounds[minInt(j+1, len(bounds)-1)])
	if p > 65000 {
		p = bounds[j] + 1 + r.intn(minInt(64, n-bounds[j]))
	}
	pts = []int{p, p + 1 + r.intn(9)}
	if r.chance(50) {
		pts = append(pts, p+20+r.intn(3000))
	}
	c.Cuts = append(c.Cuts, fromPoints(pts))
	// (iv) repeated large pieces, each ending inside an event
	pts = nil
	for pos := 0; pos < n; {
		pos += 34000 + r.intn(25000)
		if pos >= n {
			break
		}
		k := sort.SearchInts(bounds, pos+1)
		if k < len(bounds) && bounds[k]-evStart(k) >= 2 {
			pts = append(pts, inside(evStart(k), bounds[k]))
		} else {
			pts = append(pts, pos)
		}
	}
	c.Cuts = append(c.Cuts, fromPoints(pts))
	return c
}

// One fallback-data event whose payload is larger than the read buffer's shrink limit, followed by ordinary events:
// the buffer has to grow past the limit, the big event is consumed while the head of the next one is already
// there (unread tail above the midpoint of the buffer), more bytes arrive, and the buffer shrinks once it is empty.
// Too large for the vm_compute comparison: oracle only (kind "ev-big").
func (g *c13Gen) hugeCase(id int) *c13Case {
	r := g.r
	c := &c13Case{ID: id, Kind: "ev-big", Class: "huge", Listener: true, Epoch: r.u64(),
		LState: int(hotRestartState), SState: int(hotRestartState)}
	limit := venvInt("VERIF_SHRINK_LIMIT", 4<<20)
	var data []byte
	for i, k := 0, r.intn(3); i < k; i++ {
		data = append(data, g.event(uint8(r.pick([]int{int(typePolling), int(typeFallbackData), int(typeStreamClose)})), c.Epoch)...)
	}
	pl := limit + r.pick([]int{1, 1000, limit / 5, limit / 2})
	big := c13Header(uint32(headerSize+8+pl), magicNumber, g.version(), uint8(typeFallbackData))
	f := make([]byte, 8)
	binary.BigEndian.PutUint32(f[0:4], uint32(1+r.intn(6)))
	big = append(append(big, f...), g.bytes(pl)...)
	data = append(data, big...)
	endBig := len(data)
	for len(data) < endBig+3000+r.intn(20000) {
		data = append(data, g.event(uint8(r.pick([]int{int(typePolling), int(typeFallbackData), int(typeFallbackData), int(typeStreamClose), int(typeHotRestartAck)})), c.Epoch)...)
	}
	n := len(data)
	c.Huge = data // not written out (8 MB of hex); the description below + VERIF_SEED regenerate it
	c.HugeLen = n
	c.HugeDesc = fmt.Sprintf("prefix %s | fallback-data event: header+fixed fields %s, %d payload bytes from the PRNG (checksum %d) | %d bytes of ordinary events starting %s",
		hex.EncodeToString(data[:endBig-len(big)]), hex.EncodeToString(big[:16]), pl, c13Ck(big[16:]), n-endBig, hex.EncodeToString(data[endBig:endBig+32]))
	c.Cuts = [][]int{{n},
		{endBig - 10, 1010, n - endBig - 1000},
		{endBig + 5, 7, n - endBig - 12},
		{endBig - 1, 1, 1, n - endBig - 1}}
	var pieces []int
	for rem := n; rem > 0; {
		k := 1 + r.intn(limit/2)
		if k > rem {
			k = rem
		}
		pieces = append(pieces, k)
		rem -= k
	}
	c.Cuts = append(c.Cuts, pieces)
	return c
}

// ---------------------------------------------------------------------------------------------
// the property oracle (independent of the Coq model)
// ---------------------------------------------------------------------------------------------

func c13SameEffect(a, b *c13Obs) string {
	la, lb := a.Calls[len(a.Calls)-1][1], b.Calls[len(b.Calls)-1][1]
	if la != lb {
		return fmt.Sprintf("final outcome differs|outcome code %d for the whole delivery, %d for the pieces", la, lb)
	}
	if fmt.Sprint(a.Streams) != fmt.Sprint(b.Streams) {
		return "per-stream bytes/state differ"
	}
	if fmt.Sprint(a.New) != fmt.Sprint(b.New) {
		return "order of new streams differs"
	}
	if a.Polls != b.Polls || a.Fallbacks != b.Fallbacks || a.Acks != b.Acks || a.SessState != b.SessState {
		return "counters differ"
	}
	if fmt.Sprint(a.Posted) != fmt.Sprint(b.Posted) {
		return "posted hot-restart epochs differ"
	}
	if la == 0 && a.Leftover != b.Leftover {
		return "unconsumed byte count differs"
	}
	return ""
}

func c13Oracle(c *c13Case) {
	seen := map[string]bool{}
	for i := range c.Obs {
		o := &c.Obs[i]
		if o.PanicSig != "" && !seen[o.PanicSig] {
			seen[o.PanicSig] = true
			what := "panic on control-connection input: "
			if strings.HasPrefix(o.PanicSig, "C13: read offsets") {
				what = fmt.Sprintf("delivery %d (pieces %v): after the session consumed part of the buffer ", i, c.Cuts[i])
			}
			c.Oracle = append(c.Oracle, c13Fail{o.PanicSig, what + o.PanicMsg})
		}
		if o.Leftover == -1 {
			c.Oracle = append(c.Oracle, c13Fail{"C13: consumed outside the buffer", fmt.Sprintf("delivery %d: handleEvents returned consumed outside [0, len(buf)]: %v", i, o.Calls)})
		}
	}
	// a panic is reported above; what a dying process had already done is not compared across cuttings
	panicked := len(seen) > 0
	for i := 1; i < len(c.Obs) && !panicked; i++ {
		if len(c.Obs[0].Calls) == 0 || len(c.Obs[i].Calls) == 0 {
			continue
		}
		if d := c13SameEffect(&c.Obs[0], &c.Obs[i]); d != "" {
			sig := strings.SplitN(d, "|", 2)[0] // stable class of the difference, no numbers
			c.Oracle = append(c.Oracle, c13Fail{"C13: effect depends on how the bytes were cut: " + sig,
				fmt.Sprintf("whole delivery vs pieces %v: %s", c.Cuts[i], strings.Replace(d, "|", ": ", 1))})
			break
		}
	}
	for i := range c.Obs {
		// a well-formed sequence is accepted and consumed completely, however it is cut
		if (c.Class != "valid" && c.Class != "long") || len(c.Obs[i].Calls) == 0 || len(c.Oracle) > 0 {
			continue
		}
		last := c.Obs[i].Calls[len(c.Obs[i].Calls)-1]
		if last[1] == 0 && c.Obs[i].Leftover != 0 {
			c.Oracle = append(c.Oracle, c13Fail{"C13: well-formed event sequence not fully consumed", fmt.Sprintf("pieces %v: leftover %d", c.Cuts[i], c.Obs[i].Leftover)})
		}
		if last[1] == 1 || last[1] == 2 {
			c.Oracle = append(c.Oracle, c13Fail{"C13: well-formed event sequence rejected", fmt.Sprintf("pieces %v: calls %v", c.Cuts[i], c.Obs[i].Calls)})
		}
	}
}

// ---------------------------------------------------------------------------------------------
// handshake phase
// ---------------------------------------------------------------------------------------------

func c13Meta(q, b []byte) []byte {
	out := make([]byte, 0, 4+len(q)+len(b))
	l := make([]byte, 2)
	binary.BigEndian.PutUint16(l, uint16(len(q)))
	out = append(append(out, l...), q...)
	binary.BigEndian.PutUint16(l, uint16(len(b)))
	return append(append(out, l...), b...)
}

func (g *c13Gen) path() []byte {
	n := 1 + g.r.intn(20)
	b := []byte("/nonexistent_verif_c13/")
	for i := 0; i < n; i++ {
		b = append(b, byte('a'+g.r.intn(26)))
	}
	return b
}

func (g *c13Gen) metaCase(id int) *c13Case {
	r := g.r
	c := &c13Case{ID: id, Kind: "meta"}
	body := c13Meta(g.path(), g.path())
	switch r.intn(8) {
	case 0:
		body = body[:r.intn(len(body)+1)]
		c.Class = "meta:trunc"
	case 1:
		binary.BigEndian.PutUint16(body[0:2], uint16(r.u64()))
		c.Class = "meta:qlen"
	case 2:
		q := int(binary.BigEndian.Uint16(body[0:2]))
		binary.BigEndian.PutUint16(body[2+q:4+q], uint16(r.u64()))
		c.Class = "meta:blen"
	case 3:
		body = g.bytes(r.intn(12))
		c.Class = "meta:random"
	case 4:
		body = append(body, g.bytes(r.intn(5))...)
		c.Class = "meta:trailing"
	default:
		c.Class = "meta:valid"
	}
	c.Bytes = hex.EncodeToString(body)
	return c
}

// The systematic part of the handshake-metadata family (independent of the seed, part of EVERY run): every prefix
// (length 0 .. len) of a few well-formed metadata bodies -- so that every way a body can end inside a length field
// or inside a path is present --, once handed to extractShmMetadata directly and once sent through the real
// server-side handshake as the body of a V2 file event, a V3 file event and a V3 memfd event whose Length announces
// exactly the truncated body.
func c13MetaBodies() [][]byte {
	return [][]byte{
		c13Meta([]byte("abc"), []byte("de")),
		c13Meta([]byte("/nonexistent_verif_c13/q"), []byte("/nonexistent_verif_c13/b")),
		c13Meta(nil, nil),
		c13Meta(nil, []byte("x")),
		c13Meta([]byte("y"), nil),
	}
}

func c13MetaPrefixCases(id int) []*c13Case {
	var cs []*c13Case
	for _, body := range c13MetaBodies() {
		for l := 0; l <= len(body); l++ {
			cs = append(cs, &c13Case{ID: id + len(cs), Kind: "meta", Class: "meta:prefix", Bytes: hex.EncodeToString(body[:l])})
		}
	}
	return cs
}

func c13HsPrefixCases(id int) []*c13Case {
	var cs []*c13Case
	for bi, body := range c13MetaBodies()[:3] {
		for l := 0; l <= len(body); l++ {
			for v := 0; v < 3; v++ {
				if bi == 1 && l%3 != v { // the long body: each prefix once, the variants in turn
					continue
				}
				var data []byte
				ver, typ, class := uint8(2), uint8(typeShareMemoryByFilePath), "hs:prefix-v2-file"
				if v > 0 {
					data = c13Header(headerSize, magicNumber, 3, uint8(typeExchangeProtoVersion))
					ver, class = 3, "hs:prefix-v3-file"
					if v == 2 {
						typ, class = uint8(typeShareMemoryByMemfd), "hs:prefix-v3-memfd"
					}
				}
				data = append(data, c13Header(uint32(headerSize+l), magicNumber, ver, typ)...)
				data = append(data, body[:l]...)
				cs = append(cs, &c13Case{ID: id + len(cs), Kind: "hs", Class: class, Bytes: hex.EncodeToString(data)})
			}
		}
	}
	return cs
}

func (g *c13Gen) hsCase(id int) *c13Case {
	r := g.r
	c := &c13Case{ID: id, Kind: "hs"}
	if g.hsCorpusDone < 2 { // C13_regression_short_metadata, C13_regression_length_below_header
		c.Class = "corpus:hs-empty-metadata"
		c.Bytes = hex.EncodeToString(c13Header(headerSize, magicNumber, 2, uint8(typeShareMemoryByFilePath)))
		if g.hsCorpusDone == 1 {
			c.Class = "corpus:hs-length-below-header"
			c.Bytes = hex.EncodeToString(c13Header(3, magicNumber, 2, uint8(typeShareMemoryByFilePath)))
		}
		g.hsCorpusDone++
		return c
	}
	mc := g.metaCase(0)
	body, _ := hex.DecodeString(mc.Bytes)
	v3 := r.chance(60)
	var data []byte
	typ := uint8(typeShareMemoryByFilePath)
	if v3 {
		data = append(data, c13Header(headerSize, magicNumber, 3, uint8(typeExchangeProtoVersion))...)
		if r.chance(50) {
			typ = uint8(typeShareMemoryByMemfd)
		}
	}
	ver := uint8(2)
	if v3 {
		ver = 3
	}
	hdr := c13Header(uint32(headerSize+len(body)), magicNumber, ver, typ)
	c.Class = "hs:" + mc.Class
	switch r.intn(12) {
	case 0: // declared length larger than what is sent
		binary.BigEndian.PutUint32(hdr[0:4], uint32(headerSize+len(body)+1+r.intn(5000)))
		c.Class = "hs:length-long"
	case 1: // declared length shorter than the metadata needs
		binary.BigEndian.PutUint32(hdr[0:4], uint32(headerSize+r.intn(len(body)+1)))
		c.Class = "hs:length-short"
	case 2:
		hdr[6] = uint8(r.pick([]int{0, 1, 4, 9, 255}))
		c.Class = "hs:version"
	case 3:
		hdr[7] = uint8(r.pick([]int{1, 2, 3, 4, 6, 7, 8, 9, 10, 200}))
		c.Class = "hs:type"
	case 4:
		binary.BigEndian.PutUint16(hdr[4:6], uint16(r.u64()))
		c.Class = "hs:magic"
	case 5:
		if v3 {
			data[7] = uint8(r.pick([]int{0, 1, 5, 6, 10}))
			c.Class = "hs:first-type"
		}
	case 6: // Length below headerSize: Length - headerSize would wrap in uint32
		binary.BigEndian.PutUint32(hdr[0:4], uint32(r.intn(headerSize)))
		c.Class = "hs:length-below-header"
	}
	data = append(append(data, hdr...), body...)
	if r.chance(8) {
		data = data[:r.intn(len(data)+1)]
		c.Class = "hs:trunc"
	}
	if r.chance(4) {
		data = g.bytes(r.intn(30))
		c.Class = "hs:random"
	}
	c.Bytes = hex.EncodeToString(data)
	return c
}

func c13RunMeta(c *c13Case) {
	body, _ := hex.DecodeString(c.Bytes)
	// the library always passes a slice that came from make([]byte, n): cap = len
	b := make([]byte, len(body))
	copy(b, body)
	s := &Session{}
	func() {
		defer func() {
			if r := recover(); r != nil {
				class, fn := c13PanicInfo(r)
				c.MetaPanic = true
				c.Oracle = append(c.Oracle, c13Fail{"C13: panic " + class + " in " + fn, "panic on handshake metadata: " + fmt.Sprint(r)})
			}
		}()
		bp, qp, err := s.extractShmMetadata(b)
		if err != nil {
			c.MetaErr = true
			return
		}
		c.MetaQ, c.MetaB = hex.EncodeToString([]byte(qp)), hex.EncodeToString([]byte(bp))
	}()
}

// would the library allocate a very large body for this input?  (a Length below headerSize is rejected by the
// library and is run; a huge Length is a legitimate request for a huge body and is skipped to keep the harness cheap)
func c13HsTooBig(data []byte) bool {
	for off := 0; off+8 <= len(data) && off <= 8; off += 8 {
		l := binary.BigEndian.Uint32(data[off : off+4])
		if l >= headerSize && l-headerSize > 1<<22 {
			return true
		}
	}
	return false
}

func c13RunHandshake(c *c13Case) error {
	data, _ := hex.DecodeString(c.Bytes)
	fds, err := syscall.Socketpair(syscall.AF_UNIX, syscall.SOCK_STREAM, 0)
	if err != nil {
		return err
	}
	conf := c13Conf("hs")
	s := &Session{config: conf, connFd: fds[0], isClient: false, logger: newSessionLogger(false, io.Discard),
		communicationVersion: protoVersion}
	var replies []byte
	done := make(chan struct{})
	go func() {
		defer close(done)
		off := 0
		for off < len(data) {
			n, err := syscall.Write(fds[1], data[off:])
			if err != nil {
				break
			}
			off += n
		}
		syscall.Shutdown(fds[1], syscall.SHUT_WR)
		buf := make([]byte, 256)
		for {
			n, err := syscall.Read(fds[1], buf)
			if n > 0 {
				replies = append(replies, buf[:n]...)
			}
			if n <= 0 || err != nil {
				break
			}
		}
	}()
	c.HsClass = "ok"
	func() {
		defer func() {
			if r := recover(); r != nil {
				class, fn := c13PanicInfo(r)
				c.HsClass = "panic"
				c.Oracle = append(c.Oracle, c13Fail{"C13: panic " + class + " in " + fn, "panic during the handshake: " + fmt.Sprint(r)})
			}
		}()
		// what Session.initProtocol runs on its goroutine
		pa := newProtocolAdaptor(s)
		initializer, err := pa.getProtocolInitializer()
		if err == nil {
			s.communicationVersion = initializer.Version()
			err = initializer.Init()
		}
		if err != nil {
			c.HsClass = "err"
		}
	}()
	syscall.Close(fds[0])
	<-done
	syscall.Close(fds[1])
	c.HsReplies = hex.EncodeToString(replies)
	if s.queueManager != nil {
		s.queueManager.unmap()
	}
	return nil
}

// ---------------------------------------------------------------------------------------------
// child process: a REAL server session whose peer sends the given handshake bytes (a panic on the
// handshake goroutine takes the process down; the parent records the exit status)
// ---------------------------------------------------------------------------------------------
func TestVerif_C13Child(t *testing.T) {
	hx := os.Getenv("VERIF_C13_CHILD")
	if hx == "" {
		t.Skip("helper process only")
	}
	data, _ := hex.DecodeString(hx)
	a, b, err := c13SockPair()
	if err != nil {
		t.Fatal(err)
	}
	go func() {
		a.Write(data)
		a.CloseWrite()
		io.Copy(io.Discard, a)
	}()
	conf := c13Conf("child")
	conf.InitializeTimeout = 3 * time.Second
	_, err = newSession(conf, b, false)
	fmt.Println("VERIF_C13_CHILD_SURVIVED err=", err != nil)
}

func c13ChildDies(data []byte) (died bool, out string) {
	cmd := exec.Command(os.Args[0], "-test.run=^TestVerif_C13Child$", "-test.timeout=60s")
	cmd.Env = append(os.Environ(), "VERIF_C13_CHILD="+hex.EncodeToString(data))
	b, err := cmd.CombinedOutput()
	s := string(b)
	if err != nil && strings.Contains(s, "panic:") && !strings.Contains(s, "VERIF_C13_CHILD_SURVIVED") {
		return true, s
	}
	return false, s
}

// ---------------------------------------------------------------------------------------------
// the test
// ---------------------------------------------------------------------------------------------

func TestVerif_C13(t *testing.T) {
	seed := uint64(venvInt("VERIF_SEED", 1))
	n := venvInt("VERIF_N", 400)
	out := vopenOut(t)
	defer out.close()
	g := &c13Gen{r: newVrand(seed)}

	// the subjects: a real client/server pair.  Queue elements for unknown, not-opened streams are skipped by
	// handlePolling without recycling their buffers, so the shared memory of a pair slowly fills up with the
	// generated preloads: a fresh pair is made when half of it is gone.
	var subjSrv, subjCli *c13Subject
	var initialFree uint32
	pairNo := 0
	closePair := func() {
		if subjSrv == nil {
			return
		}
		for _, u := range []*c13Subject{subjSrv, subjCli} {
			u.reset(&c13Case{})
			u.s.dispatcher = u.origDisp
		}
		subjCli.s.Close()
		subjSrv.s.Close()
		subjSrv, subjCli = nil, nil
	}
	newPair := func() {
		closePair()
		listen := &c13Listen{}
		pairNo++
		// a distinct name per pair: buffer managers are shared process-wide by path
		cli, srv, err := c13NewPair(fmt.Sprintf("c13_%d", pairNo), listen)
		if err != nil {
			t.Fatal(err)
		}
		mk := func(s, peer *Session, l *c13Listen) *c13Subject {
			u := &c13Subject{s: s, peer: peer, disp: &c13Dispatcher{}, origDisp: s.dispatcher, listen: l}
			s.dispatcher = u.disp
			return u
		}
		subjSrv = mk(srv, cli, listen)
		subjCli = mk(cli, srv, nil)
		initialFree = srv.bufferManager.remainSize()
	}
	newPair()
	defer closePair()

	nHs := n / 6
	nMeta := n / 6
	nLong := n/250 + 1
	nHuge := n/1500 + 1
	for i := 0; i < n+nLong+nHuge; i++ {
		var c *c13Case
		switch {
		case i < n:
			c = g.evCase(i)
		case i < n+nLong:
			c = g.longCase(3*n + i)
		default:
			c = g.hugeCase(3*n + i)
		}
		if subjSrv.s.bufferManager.remainSize() < initialFree/2 {
			newPair()
		}
		u := subjSrv
		if c.Client {
			u = subjCli
		}
		data, _ := hex.DecodeString(c.Bytes)
		if c.Kind == "ev-big" {
			data = c.Huge
		}
		for _, pieces := range c.Cuts {
			o, err := u.deliver(c, data, pieces)
			if err != nil {
				t.Fatalf("case %d: harness cannot set up the case: %v", i, err)
			}
			c.Obs = append(c.Obs, o)
		}
		c13Oracle(c)
		c13Features(c, data)
		out.emit(c)
	}
	metaCases := c13MetaPrefixCases(10 * n)
	for i := 0; i < nMeta; i++ {
		metaCases = append(metaCases, g.metaCase(n+i))
	}
	for _, c := range metaCases {
		c13RunMeta(c)
		out.emit(c)
	}
	childDone := map[string]bool{}
	hsCases := c13HsPrefixCases(11 * n)
	for i := 0; i < nHs; i++ {
		hsCases = append(hsCases, g.hsCase(n+nMeta+i))
	}
	for i, c := range hsCases {
		data, _ := hex.DecodeString(c.Bytes)
		if c13HsTooBig(data) {
			c.Class += "(skipped: would allocate > 4 MiB)"
			c.Kind = "hs-skipped"
			out.emit(c)
			continue
		}
		if err := c13RunHandshake(c); err != nil {
			t.Fatalf("handshake case %d: %v", i, err)
		}
		// confirm on a real server session in a child process that the panic is fatal (once per signature)
		if c.HsClass == "panic" && len(c.Oracle) > 0 && !childDone[c.Oracle[0].Sig] && len(childDone) < 2 {
			childDone[c.Oracle[0].Sig] = true
			died, _ := c13ChildDies(data)
			if died {
				c.Feat = append(c.Feat, "child-process-died")
			} else {
				c.Feat = append(c.Feat, "child-process-survived")
			}
		}
		out.emit(c)
	}
}

func c13Features(c *c13Case, data []byte) {
	f := map[string]bool{}
	if len(c.Obs) == 0 {
		return
	}
	o := c.Obs[0]
	if len(o.Calls) > 0 {
		switch code := o.Calls[len(o.Calls)-1][1]; {
		case code == 0:
			f["ok"] = true
		case code < 10:
			f["error"] = true
		default:
			f["panic"] = true
		}
	}
	if o.Leftover > 0 {
		f["partial-event-left"] = true
	}
	if len(o.New) > 0 {
		f["new-stream"] = true
	}
	if o.Fallbacks > 0 {
		f["fallback-data"] = true
	}
	if (o.Polls > 0 || o.Fallbacks > 0) && len(c.Queue) > 0 {
		f["queue-drained"] = true
	}
	if len(o.Posted) > 0 {
		f["hot-restart-posted"] = true
	}
	if o.Acks != 0 {
		f["hot-restart-ack-matched"] = true
	}
	for _, p := range c.Cuts[1:] {
		if len(p) > 1 {
			f["cut"] = true
		}
	}
	for k := range f {
		c.Feat = append(c.Feat, k)
	}
	sort.Strings(c.Feat)
}
