//go:build verif

package shmipc

// C12 correspondence + oracle harness (mechanisms D and T).
//
//   codec   : generateShmMetadata / extractShmMetadata on generated paths and on malformed bodies
//   peer    : ONE real end (newSession as client or as server) against a scripted byte-level peer that
//             follows the protocol up to step k and then falls silent / closes / sends a wrong event
//   pair    : two real ends in this process (file/unix, file/tcp, memfd/unix, memfd/tcp, V2 with the
//             queue file removed before the server runs)
//   xproc   : the real client here, the real server in a child process: write-through / read-back
//             across the two processes' mappings of buffer and queue memory
//   census  : stalled-peer scenarios run alone: descriptors on the connection's socket inode and
//             goroutines blocked in blockReadFull before / after the timeout error (and after a GC)
//
// Every case is one JSON line on VERIF_OUT with the observables and the oracle verdicts.

import (
	"bufio"
	"encoding/json"
	"fmt"
	"go/ast"
	"go/parser"
	"go/printer"
	"go/token"
	"io"
	"net"
	"os"
	"os/exec"
	"path/filepath"
	"runtime"
	"runtime/debug"
	"strings"
	"sync"
	"syscall"
	"testing"
	"time"
)

type c12Frame struct {
	B   []int `json:"b"`
	Fds int   `json:"fds"` // > 0: the dummy byte carrying that many descriptors
}

type c12Case struct {
	ID   int    `json:"id"`
	Kind string `json:"kind"`
	Name string `json:"name"`
	// codec
	Ver    int   `json:"ver"`
	Ty     int   `json:"ty"`
	Q      []int `json:"q"`
	B      []int `json:"b"`
	Bytes  []int `json:"bytes"`
	Body   []int `json:"body"`
	Panic  bool  `json:"panic"`
	ExtErr bool  `json:"ext_err"`
	ExtB   []int `json:"ext_b"`
	ExtQ   []int `json:"ext_q"`
	// peer / pair
	Client   bool           `json:"client"`
	MT       int            `json:"mt"`
	Unix     bool           `json:"unix"`
	Script   []c12Frame     `json:"script"`
	Close    bool           `json:"close"`
	Late     bool           `json:"late"`
	FileQ    bool           `json:"file_q"` // the queue / buffer path exists for the real server
	FileB    bool           `json:"file_b"`
	Frames   []c12Frame     `json:"frames"` // what the real end wrote
	Class    int            `json:"class"`  // 0 ok, 1 timeout, 2 error, 3 panic
	ObsVer   int            `json:"obs_ver"`
	Mapped   bool           `json:"mapped"`
	Sched    int            `json:"sched"`
	CClass   int            `json:"c_class"`
	SClass   int            `json:"s_class"`
	CVer     int            `json:"c_ver"`
	SVer     int            `json:"s_ver"`
	Same     bool           `json:"same"`
	ElapsedC int64          `json:"elapsed_c_ms"`
	ElapsedS int64          `json:"elapsed_s_ms"`
	Timeout  int64          `json:"timeout_ms"`
	Err      string         `json:"err"`
	Residue  []string       `json:"residue"`
	Census   map[string]int `json:"census,omitempty"`
	Oracle   []string       `json:"oracle"`
	Feat     []string       `json:"feat"`
}

func c12Ints(b []byte) []int {
	r := make([]int, len(b))
	for i, x := range b {
		r[i] = int(x)
	}
	return r
}

var c12Scratch string

func c12Prefix(id int) string { return fmt.Sprintf("/dev/shm/vf12_%d_%d", os.Getpid(), id) }

func c12Conf(id int, mt MemMapType, to time.Duration) *Config {
	c := DefaultConfig()
	p := c12Prefix(id)
	c.ShareMemoryPathPrefix = p
	c.QueuePath = p + "_queue"
	c.MemMapType = mt
	c.InitializeTimeout = to
	c.ShareMemoryBufferCap = 1 << 20
	c.QueueCap = 64
	c.LogOutput = io.Discard
	return c
}

// a connected pair over a real listener
func c12Pair(id int, network string) (cli, srv net.Conn, err error) {
	var ln net.Listener
	if network == "unix" {
		p := filepath.Join(c12Scratch, fmt.Sprintf("s%d.sock", id))
		os.Remove(p)
		ln, err = net.Listen("unix", p)
		defer os.Remove(p)
	} else {
		ln, err = net.Listen("tcp", "127.0.0.1:0")
	}
	if err != nil {
		return nil, nil, err
	}
	defer ln.Close()
	ch := make(chan net.Conn, 1)
	go func() {
		c, _ := ln.Accept()
		ch <- c
	}()
	cli, err = net.Dial(network, ln.Addr().String())
	if err != nil {
		return nil, nil, err
	}
	select {
	case srv = <-ch:
	case <-time.After(5 * time.Second):
		return nil, nil, fmt.Errorf("accept timed out")
	}
	if srv == nil {
		return nil, nil, fmt.Errorf("accept failed")
	}
	return cli, srv, nil
}

func c12Class(err error) int {
	if err == nil {
		return 0
	}
	if strings.Contains(err.Error(), "init timeout") {
		return 1
	}
	return 2
}

func c12Hdr(length uint32, ver uint8, ty eventType) []byte {
	h := header(make([]byte, headerSize))
	h.encode(length, ver, ty)
	return h
}

// metadata event exactly as a client would build it (through the real generateShmMetadata)
func c12Meta(ver uint8, ty eventType, q, b string) []byte {
	s := &Session{queueManager: &queueManager{path: q}, bufferManager: &bufferManager{path: b}, communicationVersion: ver}
	return s.generateShmMetadata(ty)
}

// read whatever the real end wrote within d (one frame in this ping-pong protocol)
func c12ReadFrame(c *net.UnixConn, d time.Duration) (fr *c12Frame, closed bool) {
	buf := make([]byte, 1<<16)
	oob := make([]byte, 256)
	c.SetReadDeadline(time.Now().Add(d))
	n, oobn, _, _, err := c.ReadMsgUnix(buf, oob)
	if oobn > 0 {
		cnt := 0
		if msgs, e := syscall.ParseSocketControlMessage(oob[:oobn]); e == nil {
			for i := range msgs {
				if fds, e := syscall.ParseUnixRights(&msgs[i]); e == nil {
					for _, fd := range fds {
						syscall.Close(fd)
						cnt++
					}
				}
			}
		}
		return &c12Frame{B: []int{}, Fds: cnt}, false
	}
	if n > 0 {
		// a larger frame may arrive in pieces: keep reading briefly
		data := append([]byte{}, buf[:n]...)
		for {
			c.SetReadDeadline(time.Now().Add(30 * time.Millisecond))
			m, e := c.Read(buf)
			if m > 0 {
				data = append(data, buf[:m]...)
			}
			if e != nil || m == 0 {
				break
			}
		}
		return &c12Frame{B: c12Ints(data)}, false
	}
	if err != nil {
		if ne, ok := err.(net.Error); ok && ne.Timeout() {
			return nil, false
		}
		return nil, true
	}
	return nil, true
}

type c12Send struct {
	data  []byte
	fds   []int         // with data == nil: send these descriptors (sendmsg with the dummy byte)
	delay time.Duration // wait this long before sending (a peer that answers late)
}

// the scripted peer: [first] = it speaks first (a fake client); otherwise it answers (a fake server).
// Returns the frames the real end wrote.  When hold is non-nil the peer stays silent with the socket
// open until hold is closed.
func c12FakePeer(c *net.UnixConn, speaksFirst bool, script []c12Send, expect int, closeAfter bool, hold chan struct{}, done chan []c12Frame) {
	var got []c12Frame
	alive := true
	// wait for the next frame the protocol makes the real end write (generous: the machine may be loaded)
	want := func() {
		end := time.Now().Add(8 * time.Second)
		for alive && len(got) < expect && time.Now().Before(end) {
			before := len(got)
			fr, closed := c12ReadFrame(c, 250*time.Millisecond)
			if fr != nil {
				got = append(got, *fr)
			}
			alive = !closed
			if len(got) > before {
				return
			}
		}
	}
	for _, s := range script {
		if !speaksFirst {
			want()
		}
		if s.delay > 0 {
			time.Sleep(s.delay)
		}
		if s.data != nil {
			c.Write(s.data)
		} else {
			c.WriteMsgUnix([]byte{0}, syscall.UnixRights(s.fds...), nil)
		}
		if speaksFirst {
			want()
		}
	}
	for alive && len(got) < expect {
		n := len(got)
		want()
		if len(got) == n {
			break
		}
	}
	// anything beyond what the protocol allows?
	if alive {
		if fr, closed := c12ReadFrame(c, 150*time.Millisecond); fr != nil {
			got = append(got, *fr)
		} else if closed {
			alive = false
		}
	}
	if closeAfter {
		c.Close()
		done <- got
		return
	}
	done <- got
	<-hold
	c.Close()
}

// ---- every handshake call runs under a watchdog --------------------------------------------------
// newSession / Server must return — success or error — within InitializeTimeout.  A call that has not
// returned after the timeout plus a generous slack is recorded as hung and abandoned (the goroutine is
// left behind; it is unblocked later by closing the connection), so that a handshake that never returns
// cannot stall the whole harness.
const c12HangSig = "C12:handshake-call-does-not-return-within-the-timeout"

func c12Watchdog(conf *Config) time.Duration {
	return conf.InitializeTimeout + c12Slack + 2*time.Second
}

func c12Handshake(conf *Config, conn net.Conn, client bool) (s *Session, err error, hung bool) {
	type res struct {
		s   *Session
		err error
	}
	ch := make(chan res, 1)
	go func() {
		s, e := newSession(conf, conn, client)
		ch <- res{s, e}
	}()
	select {
	case r := <-ch:
		return r.s, r.err, false
	case <-time.After(c12Watchdog(conf)):
		go func() { // whenever it does come back: do not leave a session behind
			if r := <-ch; r.s != nil {
				r.s.Close()
			}
		}()
		return nil, fmt.Errorf("handshake call did not return within %v (InitializeTimeout %v)", c12Watchdog(conf), conf.InitializeTimeout), true
	}
}

// a child process in a process group of its own, killed as a group, whose pipes cannot keep us waiting
func c12ChildCmd(env ...string) *exec.Cmd {
	cmd := exec.Command(os.Args[0], "-test.run", "^TestVerif_C12$")
	cmd.Env = append(os.Environ(), env...)
	cmd.SysProcAttr = &syscall.SysProcAttr{Setpgid: true}
	cmd.WaitDelay = 2 * time.Second
	return cmd
}

func c12KillGroup(cmd *exec.Cmd) {
	if cmd.Process != nil {
		syscall.Kill(-cmd.Process.Pid, syscall.SIGKILL)
		cmd.Process.Kill()
	}
}

// the initializer selection (getProtocolInitializer: blocking socket reads) and Init must run inside the
// goroutine that initProtocol starts AFTER it armed the InitializeTimeout timer, and the select must wait on
// that timer.  Checked on the current source of session.go; returns what is wrong ("" = as modelled).
func c12InitProtocolShape() string {
	fset := token.NewFileSet()
	f, err := parser.ParseFile(fset, "session.go", nil, 0)
	if err != nil {
		return "cannot parse session.go: " + err.Error()
	}
	for _, d := range f.Decls {
		fd, ok := d.(*ast.FuncDecl)
		if !ok || fd.Name.Name != "initProtocol" || fd.Body == nil {
			continue
		}
		timerPos, goPos := token.NoPos, token.NoPos
		var goLit *ast.FuncLit
		timerSelect := false
		ast.Inspect(fd.Body, func(n ast.Node) bool {
			switch x := n.(type) {
			case *ast.CallExpr:
				if se, ok := x.Fun.(*ast.SelectorExpr); ok && se.Sel.Name == "NewTimer" && timerPos == token.NoPos {
					var b strings.Builder
					printer.Fprint(&b, fset, x)
					if strings.Contains(b.String(), "InitializeTimeout") {
						timerPos = x.Pos()
					}
				}
			case *ast.GoStmt:
				if lit, ok := x.Call.Fun.(*ast.FuncLit); ok && goLit == nil {
					goPos, goLit = x.Pos(), lit
				}
			case *ast.CommClause:
				var b strings.Builder
				if x.Comm != nil {
					printer.Fprint(&b, fset, x.Comm)
				}
				if strings.Contains(b.String(), ".C") {
					timerSelect = true
				}
			}
			return true
		})
		if timerPos == token.NoPos {
			return "initProtocol arms no timer with InitializeTimeout"
		}
		if goLit == nil {
			return "initProtocol starts no initializer goroutine"
		}
		if timerPos > goPos {
			return "the InitializeTimeout timer is armed after the initializer goroutine is started"
		}
		if !timerSelect {
			return "initProtocol's select does not wait on the timer"
		}
		bad := ""
		ast.Inspect(fd.Body, func(n ast.Node) bool {
			ce, ok := n.(*ast.CallExpr)
			if !ok {
				return true
			}
			se, ok := ce.Fun.(*ast.SelectorExpr)
			if !ok || (se.Sel.Name != "getProtocolInitializer" && se.Sel.Name != "Init") {
				return true
			}
			if ce.Pos() < goLit.Pos() || ce.End() > goLit.End() {
				bad = se.Sel.Name + " is called outside the goroutine that runs under the InitializeTimeout timer"
			}
			return true
		})
		return bad
	}
	return "initProtocol not found in session.go"
}

// ---- census helpers -------------------------------------------------------------------------
func c12SockInode(c net.Conn) string {
	sc, ok := c.(syscall.Conn)
	if !ok {
		return ""
	}
	rc, err := sc.SyscallConn()
	if err != nil {
		return ""
	}
	ino := ""
	rc.Control(func(fd uintptr) {
		if l, e := os.Readlink(fmt.Sprintf("/proc/self/fd/%d", fd)); e == nil {
			ino = l
		}
	})
	return ino
}

func c12FdLinks(match string) int {
	n := 0
	ents, _ := os.ReadDir("/proc/self/fd")
	for _, e := range ents {
		if l, err := os.Readlink("/proc/self/fd/" + e.Name()); err == nil && strings.Contains(l, match) {
			n++
		}
	}
	return n
}

func c12MapsLines(match string) int {
	b, _ := os.ReadFile("/proc/self/maps")
	n := 0
	for _, l := range strings.Split(string(b), "\n") {
		if strings.Contains(l, match) {
			n++
		}
	}
	return n
}

func c12ShmFiles(prefix string) int {
	m, _ := filepath.Glob(prefix + "*")
	return len(m)
}

func c12BlockedReaders() int {
	buf := make([]byte, 1<<22)
	n := runtime.Stack(buf, true)
	return strings.Count(string(buf[:n]), "shmipc-go.blockReadFull(") + strings.Count(string(buf[:n]), "shmipc-go.blockReadOutOfBoundForFd(")
}

// what the scenario with the given unique name left behind
func c12Residue(id int, inode string) []string {
	var r []string
	name := fmt.Sprintf("vf12_%d_%d", os.Getpid(), id)
	if n := c12MapsLines(name + "_"); n > 0 {
		r = append(r, fmt.Sprintf("maps:%d", n))
	}
	if n := c12ShmFiles(c12Prefix(id) + "_"); n > 0 {
		r = append(r, fmt.Sprintf("files:%d", n))
	}
	if n := c12FdLinks(name + "_"); n > 0 {
		r = append(r, fmt.Sprintf("memfd-fds:%d", n))
	}
	if inode != "" {
		if n := c12FdLinks(inode); n > 0 {
			r = append(r, fmt.Sprintf("socket-fds:%d", n))
		}
	}
	return r
}

// signature of one residue entry; the dup'ed socket descriptor is judged by the census scenarios only
func c12ResidueSig(r string, server bool) string {
	switch {
	case strings.HasPrefix(r, "maps:"):
		return "C12:error-path-leaves-mapping"
	case strings.HasPrefix(r, "files:"):
		return "C12:error-path-leaves-file"
	case strings.HasPrefix(r, "memfd-fds:") && server:
		return "C12:error-path-leaves-received-descriptor"
	case strings.HasPrefix(r, "memfd-fds:"):
		return "C12:error-path-leaves-memfd-descriptor"
	}
	return ""
}

func c12CloseSession(s *Session) {
	if s != nil {
		s.Close()
	}
}

func c12WaitGone(id int, d time.Duration) {
	end := time.Now().Add(d)
	for time.Now().Before(end) {
		if len(c12Residue(id, "")) == 0 {
			return
		}
		time.Sleep(50 * time.Millisecond)
	}
}

// ---- codec ----------------------------------------------------------------------------------
func c12Extract(body []byte) (b, q string, failed, panicked bool) {
	defer func() {
		if r := recover(); r != nil {
			panicked = true
		}
	}()
	s := &Session{}
	b, q, err := s.extractShmMetadata(body)
	return b, q, err != nil, false
}

func c12CodecCases(r *vrand, n int, id *int, out *vout) {
	lens := []int{0, 1, 2, 3, 7, 8, 15, 16, 31, 64, 100, 127, 128, 200, 255, 256, 257, 300, 1000, 4095, 4096, 65535, 65536, 65537, 70000}
	for i := 0; i < n; i++ {
		var lq, lb int
		if i < len(lens) {
			lq, lb = lens[i], lens[(i*7+3)%len(lens)]
			if lq > 60000 && lb > 60000 {
				lb = 5
			}
		} else {
			lq, lb = r.intn(300), r.intn(300)
		}
		mk := func(l int) []byte {
			p := make([]byte, l)
			for j := range p {
				p[j] = byte(33 + r.intn(90))
			}
			if l > 0 && r.chance(50) {
				p[0] = '/'
			}
			return p
		}
		q, b := mk(lq), mk(lb)
		ver := uint8(2 + r.intn(2))
		ty := typeShareMemoryByFilePath
		if r.chance(50) {
			ty = typeShareMemoryByMemfd
		}
		data := c12Meta(ver, ty, string(q), string(b))
		body := data[headerSize:]
		feat := []string{}
		// malformed variants: truncations at the interesting boundaries, corrupted length fields
		switch {
		case i%5 == 1 && len(body) > 0:
			cut := []int{0, 1, 2, 2 + lq - 1, 2 + lq, 2 + lq + 1, 2 + lq + 2, len(body) - 1}[r.intn(8)]
			if cut < 0 {
				cut = 0
			}
			if cut > len(body) {
				cut = len(body)
			}
			nb := make([]byte, cut) // cap == len, as for the body the handshake reads into
			copy(nb, body)
			body = nb
			feat = append(feat, "truncated-body")
		case i%5 == 3 && len(body) >= 2:
			nb := make([]byte, len(body))
			copy(nb, body)
			body = nb
			body[r.intn(2)] ^= byte(1 << uint(r.intn(8)))
			feat = append(feat, "corrupted-length")
		}
		if lq >= 65536 || lb >= 65536 {
			feat = append(feat, "u16-truncation")
		}
		eb, eq, bad, pan := c12Extract(body)
		c := c12Case{ID: *id, Kind: "codec", Ver: int(ver), Ty: int(ty), Q: c12Ints(q), B: c12Ints(b), Bytes: c12Ints(data),
			Body: c12Ints(body), ExtErr: bad, Panic: pan, ExtB: c12Ints([]byte(eb)), ExtQ: c12Ints([]byte(eq)), Feat: feat}
		// oracle (independent of the model): an untouched event must give back the two paths
		if pan { // a malformed body must be refused with an error, never crash the handshake
			c.Oracle = append(c.Oracle, "C12:extract-metadata-panics")
		}
		if bad {
			c.Feat = append(c.Feat, "extract-error")
		}
		if len(feat) == 0 && (pan || bad || eb != string(b) || eq != string(q)) {
			c.Oracle = append(c.Oracle, "C12:codec-roundtrip-fails")
		}
		if len(feat) == 1 && feat[0] == "u16-truncation" && (pan || bad || eb != string(b) || eq != string(q)) {
			c.Feat = append(c.Feat, "u16-truncation-observed")
		}
		if pan {
			c.Feat = append(c.Feat, "extract-panics")
		}
		*id++
		out.emit(c)
	}
}

// ---- one real end against a scripted peer --------------------------------------------------
type c12PeerSpec struct {
	name   string
	client bool // the real end is the client
	mt     MemMapType
	// script as a function of the scenario's paths / descriptors
	script func(q, b string, bufFd, queueFd int) []c12Send
	close  bool
	// for a real server: which shared memory the harness creates beforehand (as a client would)
	createFile  bool
	createMemfd bool
	removeB     bool   // remove the buffer file again before the server runs (it must fail to map)
	wantVer     int    // > 0: the property demands success with this (lower common) version
	late        bool   // the script is sent only after the real end's InitializeTimeout has passed
	expect      int    // number of frames the protocol makes the real end write in this scenario
	sig         string // signature reported when wantVer is not met (default: version-not-the-lower-common-one)
}

// scenarios that end by the real end's init timer get a short timeout, all others a generous one
func (sp c12PeerSpec) timeout() time.Duration {
	for _, k := range []string{"stall", "silent", "answers-v9", "late"} {
		if strings.Contains(sp.name, k) {
			return c12StallTimeout
		}
	}
	return c12InitTimeout
}

func c12PeerSpecs() []c12PeerSpec {
	exch := func(v uint8) c12Send { return c12Send{data: c12Hdr(headerSize, v, typeExchangeProtoVersion)} }
	h := func(v uint8, t eventType) c12Send { return c12Send{data: c12Hdr(headerSize, v, t)} }
	bad := c12Hdr(headerSize, 3, typeExchangeProtoVersion)
	bad[4] ^= 0xff
	none := func(q, b string, bf, qf int) []c12Send { return nil }
	S := func(xs ...c12Send) func(q, b string, bf, qf int) []c12Send {
		return func(q, b string, bf, qf int) []c12Send { return xs }
	}
	return []c12PeerSpec{
		// real client (memfd, unix) against a fake server
		{name: "c-silent", expect: 1, client: true, mt: MemMapTypeMemFd, script: none},
		{name: "c-close-at-once", expect: 1, client: true, mt: MemMapTypeMemFd, script: none, close: true},
		{name: "c-stall-after-version", expect: 2, client: true, mt: MemMapTypeMemFd, script: S(exch(3))},
		{name: "c-close-after-version", expect: 2, client: true, mt: MemMapTypeMemFd, script: S(exch(3)), close: true},
		{name: "c-stall-after-ackready", expect: 3, client: true, mt: MemMapTypeMemFd, script: S(exch(3), h(3, typeAckReadyRecvFD))},
		{name: "c-complete", expect: 3, wantVer: 3, client: true, mt: MemMapTypeMemFd, script: S(exch(3), h(3, typeAckReadyRecvFD), h(3, typeAckShareMemory))},
		{name: "c-server-answers-v2", expect: 2, wantVer: 2, client: true, mt: MemMapTypeMemFd, script: S(exch(2))},
		{name: "c-server-answers-v1", expect: 1, client: true, mt: MemMapTypeMemFd, script: S(exch(1))},
		{name: "c-server-answers-v9", expect: 2, client: true, mt: MemMapTypeMemFd, script: S(exch(9))},
		{name: "c-bad-magic", expect: 1, client: true, mt: MemMapTypeMemFd, script: S(c12Send{data: bad})},
		{name: "c-version-0", expect: 1, client: true, mt: MemMapTypeMemFd, script: S(exch(0))},
		{name: "c-type-out-of-range", expect: 1, client: true, mt: MemMapTypeMemFd, script: S(h(3, eventType(10)))},
		{name: "c-unexpected-polling", expect: 1, client: true, mt: MemMapTypeMemFd, script: S(h(3, typePolling))},
		{name: "c-ackshare-instead-of-ackready", expect: 2, client: true, mt: MemMapTypeMemFd, script: S(exch(3), h(3, typeAckShareMemory))},
		{name: "c-ackready-twice", expect: 3, client: true, mt: MemMapTypeMemFd, script: S(exch(3), h(3, typeAckReadyRecvFD), h(3, typeAckReadyRecvFD))},
		// the peer stops INSIDE an 8-byte header (the initializer selection's first read on the client)
		{name: "c-stall-inside-version-reply", expect: 1, client: true, mt: MemMapTypeMemFd, script: S(c12Send{data: c12Hdr(headerSize, 3, typeExchangeProtoVersion)[:3]})},
		{name: "c-close-inside-version-reply", expect: 1, client: true, mt: MemMapTypeMemFd, close: true, script: S(c12Send{data: c12Hdr(headerSize, 3, typeExchangeProtoVersion)[:5]})},
		{name: "c-stall-inside-ackready", expect: 2, client: true, mt: MemMapTypeMemFd, script: S(exch(3), c12Send{data: c12Hdr(headerSize, 3, typeAckReadyRecvFD)[:7]})},
		{name: "c-file-silent-server", expect: 1, wantVer: 2, client: true, mt: MemMapTypeDevShmFile, script: none},
		// real server against a fake client
		{name: "s-silent", script: none},
		{name: "s-close-at-once", script: none, close: true},
		// the peer stops INSIDE its first 8-byte header (the initializer selection's first read on the server)
		{name: "s-stall-inside-first-header", script: S(c12Send{data: c12Hdr(headerSize, 3, typeExchangeProtoVersion)[:3]})},
		{name: "s-close-inside-first-header", close: true, script: S(c12Send{data: c12Hdr(headerSize, 3, typeExchangeProtoVersion)[:6]})},
		{name: "s-stall-inside-metadata-header", expect: 1, script: S(exch(3), c12Send{data: c12Hdr(headerSize+20, 3, typeShareMemoryByMemfd)[:4]})},
		{name: "s-stall-after-version", expect: 1, script: S(exch(3))},
		{name: "s-close-after-version", expect: 1, script: S(exch(3)), close: true},
		{name: "s-stall-before-fds", expect: 2, createMemfd: true, script: func(q, b string, bf, qf int) []c12Send {
			return []c12Send{exch(3), {data: c12Meta(3, typeShareMemoryByMemfd, q, b)}}
		}},
		{name: "s-close-before-fds", expect: 2, createMemfd: true, close: true, script: func(q, b string, bf, qf int) []c12Send {
			return []c12Send{exch(3), {data: c12Meta(3, typeShareMemoryByMemfd, q, b)}}
		}},
		{name: "s-memfd-complete", expect: 3, wantVer: 3, createMemfd: true, script: func(q, b string, bf, qf int) []c12Send {
			return []c12Send{exch(3), {data: c12Meta(3, typeShareMemoryByMemfd, q, b)}, {fds: []int{bf, qf}}}
		}},
		{name: "s-bytes-instead-of-fds", expect: 2, createMemfd: true, script: func(q, b string, bf, qf int) []c12Send {
			return []c12Send{exch(3), {data: c12Meta(3, typeShareMemoryByMemfd, q, b)}, h(3, typePolling)}
		}},
		{name: "s-one-fd-only", expect: 2, createMemfd: true, script: func(q, b string, bf, qf int) []c12Send {
			return []c12Send{exch(3), {data: c12Meta(3, typeShareMemoryByMemfd, q, b)}, {fds: []int{bf}}}
		}},
		{name: "s-v2-file-complete", wantVer: 2, createFile: true, script: func(q, b string, bf, qf int) []c12Send {
			return []c12Send{{data: c12Meta(2, typeShareMemoryByFilePath, q, b)}}
		}},
		{name: "s-v2-file-missing", script: func(q, b string, bf, qf int) []c12Send {
			return []c12Send{{data: c12Meta(2, typeShareMemoryByFilePath, q, b)}}
		}},
		{name: "s-v2-buffer-missing", createFile: true, removeB: true, script: func(q, b string, bf, qf int) []c12Send {
			return []c12Send{{data: c12Meta(2, typeShareMemoryByFilePath, q, b)}}
		}},
		{name: "s-v3-file-complete", expect: 2, wantVer: 3, createFile: true, script: func(q, b string, bf, qf int) []c12Send {
			return []c12Send{exch(3), {data: c12Meta(3, typeShareMemoryByFilePath, q, b)}}
		}},
		// regression for C12_no_residue (late peer): valid V2 metadata that arrives after the server's timeout
		{name: "s-late-metadata-after-timeout", createFile: true, late: true, script: func(q, b string, bf, qf int) []c12Send {
			return []c12Send{{data: c12Meta(2, typeShareMemoryByFilePath, q, b), delay: c12StallTimeout + 400*time.Millisecond}}
		}},
		// malformed metadata inside the handshake (bounds checks of the readers): an error, never a crash
		{name: "s-v2-short-body", script: S(c12Send{data: append(c12Hdr(headerSize+1, 2, typeShareMemoryByFilePath), 7)})},
		{name: "s-v2-length-below-header", script: S(c12Send{data: c12Hdr(4, 2, typeShareMemoryByFilePath)})},
		{name: "s-v3-memfd-short-body", expect: 1, script: S(exch(3), c12Send{data: append(c12Hdr(headerSize+3, 3, typeShareMemoryByMemfd), 0, 9, 65)})},
		// peers of a NEWER generation (they advertise 4, 5, 255 and otherwise follow the exchange).  A newer
		// SERVER must settle with this client on 3 (the property's pairings).  A newer CLIENT is outside the
		// property's quantifier: this server turns it away — an error on time that leaves nothing behind
		// (checked by the error-path census like every other failing scenario)
		{name: "s-newer-client-v4", createMemfd: true, script: func(q, b string, bf, qf int) []c12Send {
			return []c12Send{exch(4), {data: c12Meta(3, typeShareMemoryByMemfd, q, b)}, {fds: []int{bf, qf}}}
		}},
		{name: "c-newer-server-v4", expect: 3, wantVer: 3, sig: "C12:client-rejects-newer-server-instead-of-lower-common-version", client: true, mt: MemMapTypeMemFd, script: S(exch(4), h(3, typeAckReadyRecvFD), h(3, typeAckShareMemory))},
		{name: "s-newer-client-v5", createMemfd: true, script: func(q, b string, bf, qf int) []c12Send {
			return []c12Send{exch(5), {data: c12Meta(3, typeShareMemoryByMemfd, q, b)}, {fds: []int{bf, qf}}}
		}},
		{name: "c-newer-server-v5", expect: 3, wantVer: 3, sig: "C12:client-rejects-newer-server-instead-of-lower-common-version", client: true, mt: MemMapTypeMemFd, script: S(exch(5), h(3, typeAckReadyRecvFD), h(3, typeAckShareMemory))},
		{name: "s-newer-client-v255", createMemfd: true, script: func(q, b string, bf, qf int) []c12Send {
			return []c12Send{exch(255), {data: c12Meta(3, typeShareMemoryByMemfd, q, b)}, {fds: []int{bf, qf}}}
		}},
		{name: "c-newer-server-v255", expect: 3, wantVer: 3, sig: "C12:client-rejects-newer-server-instead-of-lower-common-version", client: true, mt: MemMapTypeMemFd, script: S(exch(255), h(3, typeAckReadyRecvFD), h(3, typeAckShareMemory))},
		{name: "s-v2-with-exchange-type", script: S(exch(2))},
		{name: "s-v3-with-file-type-first", script: S(h(3, typeShareMemoryByFilePath))},
		{name: "s-unexpected-after-version", expect: 1, script: S(exch(3), h(3, typeAckShareMemory))},
		{name: "s-bad-magic", script: S(c12Send{data: bad})},
		{name: "s-version-0", script: S(exch(0))},
	}
}

func c12ToFrames(ss []c12Send) []c12Frame {
	var r []c12Frame
	for _, s := range ss {
		if s.data != nil {
			r = append(r, c12Frame{B: c12Ints(s.data)})
		} else {
			r = append(r, c12Frame{B: []int{}, Fds: len(s.fds)})
		}
	}
	return r
}

const c12InitTimeout = 6 * time.Second          // scenarios that are not meant to time out
const c12StallTimeout = 1200 * time.Millisecond // scenarios that end by the init timer
const c12Slack = 4 * time.Second

func c12RunPeer(id int, sp c12PeerSpec) c12Case {
	c := c12Case{ID: id, Kind: "peer", Name: sp.name, Client: sp.client, MT: int(sp.mt), Unix: true, Close: sp.close, Late: sp.late,
		Timeout: int64(sp.timeout() / time.Millisecond), Frames: []c12Frame{}, Script: []c12Frame{}}
	fail := func(msg string) c12Case {
		c.Err = "harness: " + msg
		c.Kind = "broken"
		return c
	}
	cli, srv, err := c12Pair(id, "unix")
	if err != nil {
		return fail(err.Error())
	}
	conf := c12Conf(id, sp.mt, sp.timeout())
	c.Q, c.B = c12Ints([]byte(conf.QueuePath)), c12Ints([]byte(conf.ShareMemoryPathPrefix+bufferPathSuffix))
	qpath, bpath := conf.QueuePath, conf.ShareMemoryPathPrefix+bufferPathSuffix
	var real, fake net.Conn
	if sp.client {
		real, fake = cli, srv
	} else {
		real, fake = srv, cli
	}
	inode := c12SockInode(real)
	// shared memory for a real server, created the way a client creates it
	var hq *queueManager
	var hb *bufferManager
	bufFd, queueFd := -1, -1
	if sp.createFile {
		if hb, err = getGlobalBufferManager(bpath, conf.ShareMemoryBufferCap, true, conf.BufferSliceSizes); err != nil {
			return fail("create buffer: " + err.Error())
		}
		if hq, err = createQueueManager(qpath, conf.QueueCap); err != nil {
			return fail("create queue: " + err.Error())
		}
		if sp.removeB {
			// the server in this process would find the manager in the global table: drop it there too
			bufferManagers.Lock()
			delete(bufferManagers.bms, bpath)
			bufferManagers.Unlock()
			os.Remove(bpath)
		}
	}
	if sp.createMemfd {
		if hb, err = getGlobalBufferManagerWithMemFd(bpath, 0, conf.ShareMemoryBufferCap, true, conf.BufferSliceSizes); err != nil {
			return fail("create buffer memfd: " + err.Error())
		}
		if hq, err = createQueueManagerWithMemFd(qpath, conf.QueueCap); err != nil {
			return fail("create queue memfd: " + err.Error())
		}
		bufFd, queueFd = hb.memFd, hq.memFd
	}
	c.FileQ = sp.createFile
	c.FileB = sp.createFile && !sp.removeB
	script := sp.script(qpath, bpath, bufFd, queueFd)
	c.Script = c12ToFrames(script)
	hold := make(chan struct{})
	done := make(chan []c12Frame, 1)
	go c12FakePeer(fake.(*net.UnixConn), !sp.client, script, sp.expect, sp.close, hold, done)
	t0 := time.Now()
	sess, err, hung := c12Handshake(conf, real, sp.client)
	if hung {
		// the concrete fault script (c.Script, c.Close) is the replay: the peer stalled after its last frame
		c.Class = 4
		how := "fell silent (socket left open)"
		if sp.close {
			how = "closed its socket"
		}
		c.Err = fmt.Sprintf("%s; fault script: the scripted peer sent %d frame(s) of the exchange (0 = silent from its very first byte; a last frame shorter than %d bytes = stopped inside a header) and then %s", err.Error(), len(script), headerSize, how)
		c.Oracle = append(c.Oracle, c12HangSig)
		c.Feat = append(c.Feat, "handshake-call-hung")
		close(hold)
		fake.Close()
		real.Close()
		select {
		case fr := <-done:
			if fr != nil {
				c.Frames = fr
			}
		case <-time.After(3 * time.Second):
		}
		if hq != nil {
			hq.unmap()
		}
		if hb != nil {
			if sp.removeB {
				hb.unmap()
			} else {
				addGlobalBufferManagerRefCount(bpath, -1)
			}
		}
		return c
	}
	el := time.Since(t0)
	if sp.client {
		c.ElapsedC = int64(el / time.Millisecond)
	} else {
		c.ElapsedS = int64(el / time.Millisecond)
	}
	c.Class = c12Class(err)
	if err != nil {
		c.Err = err.Error()
	}
	select {
	case fr := <-done:
		if fr != nil {
			c.Frames = fr
		}
	case <-time.After(30 * time.Second):
		c.Oracle = append(c.Oracle, "harness: scripted peer did not finish")
	}
	if sess != nil {
		c.ObsVer = int(sess.communicationVersion)
		c.Mapped = sess.queueManager != nil && sess.bufferManager != nil
		// same memory: a pattern written through the harness's mapping must be readable through the session's
		if !sp.client && hq != nil && c.Mapped {
			n := len(hq.mem)
			copy(hq.mem[n-8:], []byte{0xC1, 0x2A, byte(id), 0x55, 0x10, 0x20, 0x30, 0x40})
			m := sess.queueManager.mem
			if len(m) != n || string(m[n-8:]) != string(hq.mem[n-8:]) {
				c.Oracle = append(c.Oracle, "C12:ends-map-different-memory")
			}
			if &m[0] == &hq.mem[0] {
				c.Feat = append(c.Feat, "same-go-slice")
			} else {
				c.Feat = append(c.Feat, "two-mappings-one-memory")
			}
			bn := len(hb.mem)
			copy(hb.mem[bn-8:], []byte{0xB1, 0x2A, byte(id), 0x55, 0x11, 0x21, 0x31, 0x41})
			if len(sess.bufferManager.mem) != bn || string(sess.bufferManager.mem[bn-8:]) != string(hb.mem[bn-8:]) {
				c.Oracle = append(c.Oracle, "C12:ends-map-different-memory")
			}
		}
	}
	// oracle: where the peer's script is a complete, valid exchange the end must succeed with the lower common version
	if sp.wantVer > 0 && (err != nil || c.ObsVer != sp.wantVer) {
		sig := "C12:version-not-the-lower-common-one"
		if sp.sig != "" {
			sig = sp.sig
		}
		c.Oracle = append(c.Oracle, sig)
	}
	// oracle: an error comes no later than the timeout (generous slack)
	if err != nil && el > sp.timeout()+c12Slack {
		c.Oracle = append(c.Oracle, "C12:error-later-than-initialize-timeout")
	}
	// oracle: an error leaves nothing of the session's own behind.  The harness's own objects are
	// released first so that they are not counted.
	if err != nil {
		if hq != nil {
			hq.unmap()
		}
		if hb != nil {
			if sp.removeB {
				hb.unmap()
			} else {
				addGlobalBufferManagerRefCount(bpath, -1)
			}
		}
		hq, hb = nil, nil
		runtime.GC()
		time.Sleep(20 * time.Millisecond)
		runtime.GC()
		time.Sleep(20 * time.Millisecond)
		c.Residue = c12Residue(id, inode)
		for _, r := range c.Residue {
			if sig := c12ResidueSig(r, !sp.client); sig != "" {
				if sp.late && (sig == "C12:error-path-leaves-mapping" || sig == "C12:error-path-leaves-file") {
					sig = "C12:late-peer-after-timeout-leaks-mapping"
				}
				c.Oracle = append(c.Oracle, sig)
			}
		}
	}
	close(hold)
	if sess != nil {
		c12CloseSession(sess)
	}
	if hq != nil {
		hq.unmap()
	}
	if hb != nil {
		addGlobalBufferManagerRefCount(bpath, -1)
	}
	real.Close()
	c12WaitGone(id, 4*time.Second)
	switch {
	case c.Class == 1:
		c.Feat = append(c.Feat, "timeout")
	case c.Class == 2:
		c.Feat = append(c.Feat, "error")
	default:
		c.Feat = append(c.Feat, "success")
	}
	return c
}

// ---- two real ends in this process ------------------------------------------------------------
type c12PairSpec struct {
	name    string
	mt      MemMapType
	network string
	sched   int // 0 fault-free, 1 queue file removed before the server runs, 2 client rejects
}

func c12RunPair(id int, sp c12PairSpec) c12Case {
	c := c12Case{ID: id, Kind: "pair", Name: sp.name, MT: int(sp.mt), Unix: sp.network == "unix", Sched: sp.sched,
		Timeout: int64(c12InitTimeout / time.Millisecond)}
	cli, srv, err := c12Pair(id, sp.network)
	if err != nil {
		c.Kind, c.Err = "broken", "harness: "+err.Error()
		return c
	}
	conf := c12Conf(id, sp.mt, c12InitTimeout)
	c.Q, c.B = c12Ints([]byte(conf.QueuePath)), c12Ints([]byte(conf.ShareMemoryPathPrefix+bufferPathSuffix))
	sinode := c12SockInode(srv)
	var cs, ss *Session
	var cerr, serr error
	var wg sync.WaitGroup
	runServer := func() {
		defer wg.Done()
		t0 := time.Now()
		sc := c12Conf(id, MemMapTypeDevShmFile, c12InitTimeout)
		var hung bool
		ss, serr, hung = c12Handshake(sc, srv, false)
		if hung {
			c.Oracle = append(c.Oracle, c12HangSig)
			srv.Close()
			cli.Close()
		}
		c.ElapsedS = int64(time.Since(t0) / time.Millisecond)
	}
	runClient := func() {
		defer wg.Done()
		t0 := time.Now()
		var hung bool
		cs, cerr, hung = c12Handshake(conf, cli, true)
		if hung {
			c.Oracle = append(c.Oracle, c12HangSig)
			srv.Close()
		}
		c.ElapsedC = int64(time.Since(t0) / time.Millisecond)
		if cerr != nil {
			cli.Close()
		}
	}
	if sp.sched == 1 {
		// V2: the client finishes on its own; then the queue file disappears; then the server runs
		wg.Add(1)
		runClient()
		os.Remove(conf.QueuePath)
		wg.Add(1)
		runServer()
	} else {
		wg.Add(2)
		go runServer()
		go runClient()
		wg.Wait()
	}
	c.CClass, c.SClass = c12Class(cerr), c12Class(serr)
	if cerr != nil {
		c.Err = "client: " + cerr.Error()
	}
	if serr != nil {
		c.Err += " server: " + serr.Error()
	}
	if cs != nil {
		c.CVer = int(cs.communicationVersion)
	}
	if ss != nil {
		c.SVer = int(ss.communicationVersion)
	}
	want := int(protoVersion)
	if sp.mt == MemMapTypeMemFd {
		want = int(maxSupportProtoVersion)
	}
	if cs != nil && ss != nil {
		// oracle: lower common version on both ends
		if c.CVer != want || c.SVer != want {
			c.Oracle = append(c.Oracle, "C12:version-not-the-lower-common-one")
		}
		// oracle: one memory.  Queue: two distinct mappings in this process; buffer: the global table
		// hands the server the client's manager (same process), observed as such.
		qa, qb := cs.queueManager.mem, ss.queueManager.mem
		same := len(qa) == len(qb) && len(qa) > 16
		if same {
			copy(qa[len(qa)-8:], []byte{0xC1, 0x2A, byte(id), 0x77, 1, 2, 3, 4})
			same = string(qb[len(qb)-8:]) == string(qa[len(qa)-8:])
			copy(qb[len(qb)-16:len(qb)-8], []byte{0xC1, 0x2B, byte(id), 0x78, 5, 6, 7, 8})
			same = same && string(qa[len(qa)-16:len(qa)-8]) == string(qb[len(qb)-16:len(qb)-8])
		}
		ba, bb := cs.bufferManager.mem, ss.bufferManager.mem
		sameB := len(ba) == len(bb) && len(ba) > 16
		if sameB {
			copy(ba[len(ba)-8:], []byte{0xB1, 0x2A, byte(id), 0x79, 1, 2, 3, 4})
			sameB = string(bb[len(bb)-8:]) == string(ba[len(ba)-8:])
		}
		c.Same = same && sameB
		if !c.Same {
			c.Oracle = append(c.Oracle, "C12:ends-map-different-memory")
		}
		if &qa[0] != &qb[0] {
			c.Feat = append(c.Feat, "queue-two-mappings")
		}
		if cs.bufferManager == ss.bufferManager {
			c.Feat = append(c.Feat, "buffer-manager-shared-through-global-table")
		}
		// the two directions of the queue pair are crossed
		if cs.queueManager.sendQueue.cap != ss.queueManager.recvQueue.cap {
			c.Oracle = append(c.Oracle, "C12:queue-directions-not-crossed")
		}
		c.Feat = append(c.Feat, "both-ok")
	}
	// oracle: success on both ends or an error on both ends
	if (cerr == nil) != (serr == nil) {
		if cerr == nil && sp.mt == MemMapTypeDevShmFile {
			c.Oracle = append(c.Oracle, "C12:v2-client-succeeds-while-server-fails")
		} else if cerr == nil {
			c.Oracle = append(c.Oracle, "C12:client-succeeds-while-server-fails")
		} else {
			c.Oracle = append(c.Oracle, "C12:server-succeeds-while-client-fails")
		}
		c.Feat = append(c.Feat, "split-outcome")
	}
	if cerr != nil && time.Duration(c.ElapsedC)*time.Millisecond > c12InitTimeout+c12Slack {
		c.Oracle = append(c.Oracle, "C12:error-later-than-initialize-timeout")
	}
	if serr != nil && time.Duration(c.ElapsedS)*time.Millisecond > c12InitTimeout+c12Slack {
		c.Oracle = append(c.Oracle, "C12:error-later-than-initialize-timeout")
	}
	if cerr != nil && serr != nil {
		c.Feat = append(c.Feat, "both-error")
		runtime.GC()
		time.Sleep(20 * time.Millisecond)
		runtime.GC()
		c.Residue = c12Residue(id, sinode)
		for _, r := range c.Residue {
			if sig := c12ResidueSig(r, false); sig != "" {
				c.Oracle = append(c.Oracle, sig)
			}
		}
	}
	c12CloseSession(cs)
	c12CloseSession(ss)
	cli.Close()
	srv.Close()
	c12WaitGone(id, 4*time.Second)
	return c
}

// ---- the server in another process -----------------------------------------------------------
func c12Child() {
	sock := os.Getenv("VERIF_C12_SOCK")
	ln, err := net.Listen("unix", sock)
	if err != nil {
		fmt.Println("ERR listen " + err.Error())
		return
	}
	fmt.Println("READY")
	conn, err := ln.Accept()
	if err != nil {
		fmt.Println("ERR accept " + err.Error())
		return
	}
	conf := DefaultConfig()
	conf.LogOutput = io.Discard
	conf.InitializeTimeout = 8 * time.Second
	s, err := Server(conn, conf)
	if err != nil {
		fmt.Println("ERR server " + err.Error())
		return
	}
	fmt.Printf("OK %d\n", s.communicationVersion)
	in := bufio.NewReader(os.Stdin)
	for {
		line, err := in.ReadString('\n')
		if err != nil {
			break
		}
		switch strings.TrimSpace(line) {
		case "READ":
			q, b := s.queueManager.mem, s.bufferManager.mem
			fmt.Printf("MEM %x %x %d %d\n", q[len(q)-8:], b[len(b)-8:], len(q), len(b))
		case "WRITE":
			q, b := s.queueManager.mem, s.bufferManager.mem
			copy(q[len(q)-16:len(q)-8], []byte("childQ!!"))
			copy(b[len(b)-16:len(b)-8], []byte("childB!!"))
			fmt.Println("WROTE")
		case "QUIT":
			s.Close()
			time.Sleep(1500 * time.Millisecond)
			fmt.Println("BYE")
			return
		}
	}
}

func c12RunXproc(id int, mt MemMapType) c12Case {
	c := c12Case{ID: id, Kind: "xproc", Name: fmt.Sprintf("xproc-mt%d", mt), MT: int(mt), Unix: true}
	sock := filepath.Join(c12Scratch, fmt.Sprintf("x%d.sock", id))
	os.Remove(sock)
	cmd := c12ChildCmd("VERIF_C12_CHILD=1", "VERIF_C12_SOCK="+sock)
	stdin, _ := cmd.StdinPipe()
	stdout, _ := cmd.StdoutPipe()
	if err := cmd.Start(); err != nil {
		c.Kind, c.Err = "broken", "harness: "+err.Error()
		return c
	}
	defer func() {
		stdin.Close()
		done := make(chan struct{})
		go func() { cmd.Wait(); close(done) }()
		select {
		case <-done:
		case <-time.After(5 * time.Second):
			c12KillGroup(cmd)
		}
		os.Remove(sock)
	}()
	rd := bufio.NewReader(stdout)
	lines := make(chan string, 16)
	go func() {
		for {
			l, err := rd.ReadString('\n')
			if l != "" {
				lines <- strings.TrimSpace(l)
			}
			if err != nil {
				close(lines)
				return
			}
		}
	}()
	expect := func(prefix string) (string, bool) {
		for {
			select {
			case l, ok := <-lines:
				if !ok {
					return "", false
				}
				if strings.HasPrefix(l, prefix) || strings.HasPrefix(l, "ERR") {
					return l, strings.HasPrefix(l, prefix)
				}
			case <-time.After(20 * time.Second):
				return "timeout waiting for " + prefix, false
			}
		}
	}
	if l, ok := expect("READY"); !ok {
		c.Kind, c.Err = "broken", "harness: child: "+l
		return c
	}
	conn, err := net.Dial("unix", sock)
	if err != nil {
		c.Kind, c.Err = "broken", "harness: dial: "+err.Error()
		return c
	}
	conf := c12Conf(id, mt, 8*time.Second)
	c.Q, c.B = c12Ints([]byte(conf.QueuePath)), c12Ints([]byte(conf.ShareMemoryPathPrefix+bufferPathSuffix))
	cs, cerr, hung := c12Handshake(conf, conn, true)
	if hung {
		c.Oracle = append(c.Oracle, c12HangSig)
		conn.Close()
	}
	c.CClass = c12Class(cerr)
	l, ok := expect("OK")
	if !ok {
		c.SClass = 2
		c.Err = l
	}
	if cerr != nil {
		c.Err += " client: " + cerr.Error()
	}
	if cerr == nil && ok {
		c.CVer = int(cs.communicationVersion)
		fmt.Sscanf(l, "OK %d", &c.SVer)
		want := int(protoVersion)
		if mt == MemMapTypeMemFd {
			want = int(maxSupportProtoVersion)
		}
		if c.CVer != want || c.SVer != want {
			c.Oracle = append(c.Oracle, "C12:version-not-the-lower-common-one")
		}
		q, b := cs.queueManager.mem, cs.bufferManager.mem
		pq := []byte{0xC1, 0x2C, byte(id), 0x5A, 9, 8, 7, 6}
		pb := []byte{0xB1, 0x2C, byte(id), 0x5B, 6, 7, 8, 9}
		copy(q[len(q)-8:], pq)
		copy(b[len(b)-8:], pb)
		fmt.Fprintln(stdin, "READ")
		l, ok = expect("MEM")
		same := ok && l == fmt.Sprintf("MEM %x %x %d %d", pq, pb, len(q), len(b))
		fmt.Fprintln(stdin, "WRITE")
		_, ok2 := expect("WROTE")
		same = same && ok2 && string(q[len(q)-16:len(q)-8]) == "childQ!!" && string(b[len(b)-16:len(b)-8]) == "childB!!"
		c.Same = same
		if !same {
			c.Oracle = append(c.Oracle, "C12:ends-map-different-memory")
			c.Err += " child said: " + l
		}
		c.Feat = append(c.Feat, "two-processes")
	}
	if (cerr == nil) != ok && c.SClass == 2 {
		c.Oracle = append(c.Oracle, "C12:client-succeeds-while-server-fails")
	}
	fmt.Fprintln(stdin, "QUIT")
	c12CloseSession(cs)
	expect("BYE")
	c12WaitGone(id, 4*time.Second)
	return c
}

// ---- stalled peer, alone: descriptors and goroutines --------------------------------------------
func c12RunCensus(id int, client bool) c12Case {
	name := "census-stalled-server-peer"
	if !client {
		name = "census-stalled-client-peer"
	}
	c := c12Case{ID: id, Kind: "census", Name: name, Client: client, MT: int(MemMapTypeMemFd), Unix: true,
		Timeout: int64(c12StallTimeout / time.Millisecond), Census: map[string]int{}}
	cli, srv, err := c12Pair(id, "unix")
	if err != nil {
		c.Kind, c.Err = "broken", "harness: "+err.Error()
		return c
	}
	real, fake := cli, srv
	if !client {
		real, fake = srv, cli
	}
	inode := c12SockInode(real)
	runtime.GC()
	c.Census["blocked_readers_before"] = c12BlockedReaders()
	c.Census["socket_fds_before"] = c12FdLinks(inode)
	c.Census["goroutines_before"] = runtime.NumGoroutine()
	conf := c12Conf(id, MemMapTypeMemFd, c12StallTimeout)
	t0 := time.Now()
	sess, err, hung := c12Handshake(conf, real, client)
	if hung {
		c.Class, c.Err = 4, err.Error()
		c.Oracle = append(c.Oracle, c12HangSig)
		fake.Close()
		real.Close()
		return c
	}
	el := time.Since(t0)
	c.ElapsedC = int64(el / time.Millisecond)
	c.Class = c12Class(err)
	if err != nil {
		c.Err = err.Error()
	}
	real.Close() // what an application does with a connection whose handshake failed
	time.Sleep(100 * time.Millisecond)
	c.Census["socket_fds_after_error"] = c12FdLinks(inode)
	c.Census["blocked_readers_after_error"] = c12BlockedReaders()
	runtime.GC()
	time.Sleep(50 * time.Millisecond)
	runtime.GC()
	time.Sleep(50 * time.Millisecond)
	c.Census["socket_fds_after_gc"] = c12FdLinks(inode)
	c.Census["blocked_readers_after_gc"] = c12BlockedReaders()
	c.Census["goroutines_after_gc"] = runtime.NumGoroutine()
	c.Residue = c12Residue(id, "")
	if err == nil {
		c.Oracle = append(c.Oracle, "harness: the stalled peer scenario did not fail")
	} else {
		if el > c12StallTimeout+c12Slack {
			c.Oracle = append(c.Oracle, "C12:error-later-than-initialize-timeout")
		}
		leakG := c.Census["blocked_readers_after_gc"] > c.Census["blocked_readers_before"]
		leakFd := c.Census["socket_fds_after_error"] > 0
		if leakG || leakFd {
			c.Oracle = append(c.Oracle, "C12:stalled-peer-leaks-initializer-goroutine-and-fd")
			if leakG {
				c.Feat = append(c.Feat, "goroutine-blocked-in-raw-read-after-timeout")
			}
			if leakFd {
				c.Feat = append(c.Feat, "dup-fd-open-after-error")
			}
			if c.Census["socket_fds_after_gc"] == 0 {
				c.Feat = append(c.Feat, "dup-fd-closed-only-by-gc-finalizer")
			}
		}
		for _, r := range c.Residue {
			if sig := c12ResidueSig(r, !client); sig != "" {
				c.Oracle = append(c.Oracle, sig)
			}
		}
	}
	// let the blocked goroutine go (the peer finally closes), so that later scenarios start clean
	fake.Close()
	c12CloseSession(sess)
	time.Sleep(150 * time.Millisecond)
	c.Census["blocked_readers_after_peer_close"] = c12BlockedReaders()
	c12WaitGone(id, 2*time.Second)
	return c
}

// ---- a failed handshake next to an established sibling session, and before a new establishment ----
// All sessions of one client process share ONE buffer manager per buffer path (process-wide table,
// reference counted); only the queue is per session.  A handshake that fails must drop exactly its own
// reference: (a) an established sibling A on the same buffer path keeps its memory on both ends and
// keeps working; (b) afterwards nothing stale is left in the table and a new establishment on the same
// path really maps memory.  Runs in a process of its own: when the property is violated the buffer
// memory is gone and any access would kill the harness, so every access is preceded by a look at
// /proc/self/maps and the process exits as soon as a violation is recorded.
func c12BufRef(path string) (ref int, present bool) {
	bufferManagers.Lock()
	defer bufferManagers.Unlock()
	if bm, ok := bufferManagers.bms[path]; ok {
		return int(bm.refCount), true
	}
	return 0, false
}

func c12Echo(ss *Session) {
	for {
		st, err := ss.AcceptStream()
		if err != nil {
			return
		}
		go func() {
			for {
				b, err := st.BufferReader().ReadBytes(32)
				if err != nil {
					return
				}
				st.BufferWriter().WriteBytes(b)
				st.Flush(false)
				st.BufferReader().ReleasePreviousRead()
			}
		}()
	}
}

func c12RoundTrip(cs *Session, tag byte) error {
	st, err := cs.OpenStream()
	if err != nil {
		return err
	}
	defer st.Close()
	msg := make([]byte, 32)
	for i := range msg {
		msg[i] = tag + byte(i)
	}
	st.SetDeadline(time.Now().Add(5 * time.Second))
	if _, err := st.BufferWriter().WriteBytes(msg); err != nil {
		return err
	}
	if err := st.Flush(false); err != nil {
		return err
	}
	b, err := st.BufferReader().ReadBytes(32)
	if err != nil {
		return err
	}
	if string(b) != string(msg) {
		return fmt.Errorf("echo differs")
	}
	if cs.stats.fallbackWriteCount != 0 {
		return fmt.Errorf("the data went through the socket, not through shared memory")
	}
	return nil
}

func c12Establish(id int, tag string, conf *Config) (cs, ss *Session, err error) {
	cli, srv, err := c12Pair(id, "unix")
	if err != nil {
		return nil, nil, err
	}
	_ = tag
	var serr error
	done := make(chan struct{})
	go func() {
		var hung bool
		if ss, serr, hung = c12Handshake(c12Conf(id, MemMapTypeDevShmFile, 8*time.Second), srv, false); hung {
			cli.Close()
		}
		close(done)
	}()
	var hung bool
	if cs, err, hung = c12Handshake(conf, cli, true); hung {
		srv.Close()
	}
	<-done
	if err == nil {
		err = serr
	}
	return
}

// a client establishment on [conf] that fails: memfd -> the peer answers the version and stalls
// (timeout); file/V2 -> the peer is already gone when the client announces its memory (EPIPE)
func c12FailingSibling(id int, conf *Config) error {
	cli, srv, err := c12Pair(id, "unix")
	if err != nil {
		return fmt.Errorf("harness: %v", err)
	}
	if conf.MemMapType == MemMapTypeDevShmFile {
		srv.Close()
		time.Sleep(100 * time.Millisecond)
	} else {
		go func() {
			buf := make([]byte, 64)
			srv.SetReadDeadline(time.Now().Add(2 * time.Second))
			srv.Read(buf)
			srv.Write(c12Hdr(headerSize, 3, typeExchangeProtoVersion))
			time.Sleep(2 * time.Second)
			srv.Close()
		}()
	}
	s, err, hung := c12Handshake(conf, cli, true)
	cli.Close()
	if hung {
		return fmt.Errorf(c12HangSig)
	}
	if err == nil {
		s.Close()
		return fmt.Errorf("harness: the sibling establishment did not fail")
	}
	return nil
}

func c12RunSibling(id int, mt MemMapType, partB bool, out *vout) {
	c := c12Case{ID: id, Kind: "sibling", Name: fmt.Sprintf("failed-handshake-next-to-established-sibling-mt%d", mt), MT: int(mt), Unix: true, Census: map[string]int{}}
	finish := func() {
		out.emit(c)
		out.close()
		os.Exit(0) // the buffer memory may be gone: do not run any cleanup that would touch it
	}
	prefix := c12Prefix(id)
	bufPath := prefix + bufferPathSuffix
	bufName := fmt.Sprintf("vf12_%d_%d%s", os.Getpid(), id, bufferPathSuffix)
	if partB {
		c.Name = fmt.Sprintf("establishment-after-failed-handshake-mt%d", mt)
	}
	var ref int
	var present bool
	if !partB {
		confA := c12Conf(id, mt, 8*time.Second)
		confA.QueuePath = prefix + "_queue_0"
		csA, ssA, err := c12Establish(id, "a", confA)
		if err != nil {
			c.Kind, c.Err = "broken", "harness: establish A: "+err.Error()
			finish()
		}
		go c12Echo(ssA)
		if err := c12RoundTrip(csA, 1); err != nil {
			c.Kind, c.Err = "broken", "harness: A round trip: "+err.Error()
			finish()
		}
		c.Census["ref_before"], _ = c12BufRef(bufPath)
		c.Census["maps_before"] = c12MapsLines(bufName)
		// (a) the sibling B fails its handshake
		confB := c12Conf(id, mt, 500*time.Millisecond)
		confB.QueuePath = prefix + "_queue_1"
		if err := c12FailingSibling(id+500, confB); err != nil {
			c.Kind, c.Err = "broken", err.Error()
			finish()
		}
		ref, present = c12BufRef(bufPath)
		c.Census["ref_after_failed_sibling"] = ref
		c.Census["maps_after_failed_sibling"] = c12MapsLines(bufName)
		fileGone := false
		if mt == MemMapTypeDevShmFile {
			_, e := os.Stat(bufPath)
			fileGone = e != nil
		}
		if !present || ref != c.Census["ref_before"] || c.Census["maps_after_failed_sibling"] < c.Census["maps_before"] || fileGone {
			c.Oracle = append(c.Oracle, "C12:failed-handshake-releases-sibling-session-memory")
			c.Feat = append(c.Feat, "sibling-memory-gone")
			finish()
		}
		if err := c12RoundTrip(csA, 40); err != nil {
			c.Oracle = append(c.Oracle, "C12:failed-handshake-releases-sibling-session-memory")
			c.Err = "A after the failed sibling: " + err.Error()
			finish()
		}
		c.Feat = append(c.Feat, "sibling-still-works")
		csA.Close()
		ssA.Close()
		c12WaitGone(id, 4*time.Second)
		out.emit(c)
		out.close()
		return
	}
	// (b) a failed handshake alone; then a new establishment on the same path
	confC := c12Conf(id, mt, 500*time.Millisecond)
	confC.QueuePath = prefix + "_queue_2"
	if err := c12FailingSibling(id+600, confC); err != nil {
		c.Kind, c.Err = "broken", err.Error()
		finish()
	}
	ref, present = c12BufRef(bufPath)
	c.Census["ref_after_failed_alone"] = ref
	if present {
		c.Oracle = append(c.Oracle, "C12:failed-handshake-leaves-stale-registry-entry")
		finish()
	}
	if r := c12Residue(id, ""); len(r) > 0 {
		c.Residue = r
		for _, x := range r {
			if sig := c12ResidueSig(x, false); sig != "" {
				c.Oracle = append(c.Oracle, sig)
			}
		}
	}
	confD := c12Conf(id, mt, 8*time.Second)
	confD.QueuePath = prefix + "_queue_3"
	csD, ssD, err := c12Establish(id+700, "d", confD)
	if err != nil {
		c.Oracle = append(c.Oracle, "C12:establishment-after-failed-handshake-fails")
		c.Err = err.Error()
		finish()
	}
	c.Census["maps_new_establishment"] = c12MapsLines(bufName)
	if c.Census["maps_new_establishment"] == 0 {
		c.Oracle = append(c.Oracle, "C12:establishment-after-failed-handshake-has-no-mapped-memory")
		finish()
	}
	go c12Echo(ssD)
	if err := c12RoundTrip(csD, 80); err != nil {
		c.Oracle = append(c.Oracle, "C12:establishment-after-failed-handshake-has-no-mapped-memory")
		c.Err = "D: " + err.Error()
		finish()
	}
	c.Feat = append(c.Feat, "re-establishment-works")
	csD.Close()
	ssD.Close()
	c12WaitGone(id, 4*time.Second)
	out.emit(c)
	out.close()
}

// run the sibling scenario in its own process and relay its verdict
func c12Isolated(id int, mt MemMapType, partB bool) c12Case {
	tmp := filepath.Join(c12Scratch, fmt.Sprintf("iso%d.jsonl", id))
	os.Remove(tmp)
	cmd := c12ChildCmd("VERIF_C12_CHILD=sibling", "VERIF_OUT="+tmp, fmt.Sprintf("VERIF_C12_SPEC=%d|%d|%d", id, mt, map[bool]int{false: 0, true: 1}[partB]))
	var ob strings.Builder
	cmd.Stdout, cmd.Stderr = &ob, &ob
	if err := cmd.Start(); err == nil {
		waited := make(chan struct{})
		go func() { cmd.Wait(); close(waited) }()
		select {
		case <-waited:
		case <-time.After(90 * time.Second):
			c12KillGroup(cmd)
			<-waited
		}
	}
	outb := []byte(ob.String())
	defer os.Remove(tmp)
	defer func() {
		if cmd.Process != nil {
			if m, _ := filepath.Glob(fmt.Sprintf("/dev/shm/vf12_%d_*", cmd.Process.Pid)); len(m) > 0 {
				for _, f := range m {
					os.Remove(f)
				}
			}
		}
	}()
	if b, err := os.ReadFile(tmp); err == nil {
		var c c12Case
		if json.Unmarshal([]byte(strings.TrimSpace(string(b))), &c) == nil && c.Name != "" {
			c.Feat = append(c.Feat, "own-process")
			return c
		}
	}
	out := string(outb)
	if len(out) > 1500 {
		out = out[:700] + " ... " + out[len(out)-700:]
	}
	c := c12Case{ID: id, Kind: "sibling", Name: fmt.Sprintf("failed-handshake-next-to-established-sibling-mt%d", mt), MT: int(mt), Unix: true, Err: out}
	if partB {
		c.Name = fmt.Sprintf("establishment-after-failed-handshake-mt%d", mt)
	}
	if strings.Contains(out, "SIGSEGV") || strings.Contains(out, "unexpected fault address") {
		c.Oracle = append(c.Oracle, "C12:failed-handshake-releases-sibling-session-memory")
		c.Feat = append(c.Feat, "own-process", "child-crashed-sigsegv")
	} else {
		c.Kind = "broken"
		c.Err = "harness: isolated scenario produced no result: " + out
	}
	return c
}

func TestVerif_C12(t *testing.T) {
	if os.Getenv("VERIF_C12_CHILD") == "sibling" {
		var id, mt int
		var part int
		fmt.Sscanf(os.Getenv("VERIF_C12_SPEC"), "%d|%d|%d", &id, &mt, &part)
		c12Scratch = os.Getenv("VERIF_SCRATCH")
		c12RunSibling(id, MemMapType(mt), part == 1, vopenOut(t))
		return
	}
	if os.Getenv("VERIF_C12_CHILD") != "" {
		c12Child()
		return
	}
	out := vopenOut(t)
	defer out.close()
	seed := uint64(venvInt("VERIF_SEED", 1))
	n := venvInt("VERIF_N", 120)
	rounds := venvInt("VERIF_ROUNDS", 1)
	c12Scratch = os.Getenv("VERIF_SCRATCH")
	if c12Scratch == "" {
		c12Scratch = filepath.Join(os.TempDir(), fmt.Sprintf("vf12_%d", os.Getpid()))
	}
	os.MkdirAll(c12Scratch, 0o755)
	defer os.RemoveAll(c12Scratch)
	r := newVrand(seed)
	id := 0
	out.emit(c12Case{ID: -1, Kind: "source", Name: "initProtocol-runs-the-initializer-selection-under-the-timer", Err: c12InitProtocolShape()})
	c12CodecCases(r, n, &id, out)
	// checkEventValid on every version byte (and a few bad magics / types): the model's header validity
	// predicate is compared with the real function case by case
	for v := 0; v < 256; v++ {
		for _, alt := range []int{0, 1, 2} {
			hd := c12Hdr(headerSize, uint8(v), typeExchangeProtoVersion)
			switch alt {
			case 1:
				if v%16 != 3 {
					continue
				}
				hd[5] ^= 0x40 // bad magic
			case 2:
				if v%16 != 5 {
					continue
				}
				hd[7] = uint8(maxEventType) + 1 + uint8(v%7) // type out of range
			}
			obs := 0
			switch checkEventValid(header(hd)) {
			case nil:
			case ErrInvalidVersion:
				obs = 1
			case ErrInvalidMsgType:
				obs = 2
			default:
				obs = 3
			}
			out.emit(c12Case{ID: id, Kind: "valid", Name: "checkEventValid", Ver: v, Ty: int(hd[7]), Class: obs,
				ObsVer: int(header(hd).Magic())})
			id++
		}
	}

	var mu sync.Mutex
	emit := func(c c12Case) {
		mu.Lock()
		out.emit(c)
		mu.Unlock()
	}
	for round := 0; round < rounds; round++ {
		var wg sync.WaitGroup
		sem := make(chan struct{}, 12)
		var alone []c12PeerSpec
		for _, sp := range c12PeerSpecs() {
			sp := sp
			if sp.late {
				alone = append(alone, sp)
				continue
			}
			myid := id
			id++
			wg.Add(1)
			go func() {
				defer wg.Done()
				sem <- struct{}{}
				defer func() { <-sem }()
				emit(c12RunPeer(myid, sp))
			}()
		}
		pairs := []c12PairSpec{
			{"pair-file-unix", MemMapTypeDevShmFile, "unix", 0},
			{"pair-file-tcp", MemMapTypeDevShmFile, "tcp", 0},
			{"pair-memfd-unix", MemMapTypeMemFd, "unix", 0},
			{"pair-memfd-tcp-rejected", MemMapTypeMemFd, "tcp", 2},
			{"pair-file-unix-queue-file-removed", MemMapTypeDevShmFile, "unix", 1},
		}
		for _, sp := range pairs {
			sp := sp
			myid := id
			id++
			wg.Add(1)
			go func() {
				defer wg.Done()
				sem <- struct{}{}
				defer func() { <-sem }()
				emit(c12RunPair(myid, sp))
			}()
		}
		for _, mt := range []MemMapType{MemMapTypeDevShmFile, MemMapTypeMemFd} {
			mt := mt
			myid := id
			id++
			wg.Add(1)
			go func() {
				defer wg.Done()
				emit(c12RunXproc(myid, mt))
			}()
			sid, rid := id, id+1
			id += 2
			wg.Add(2)
			go func() {
				defer wg.Done()
				emit(c12Isolated(sid, mt, false))
			}()
			go func() {
				defer wg.Done()
				emit(c12Isolated(rid, mt, true))
			}()
		}
		wg.Wait()
		// alone, in a quiet process
		time.Sleep(300 * time.Millisecond)
		for _, sp := range alone {
			// no GC while the peer is late: on the unrepaired code a finalizer would close the dup'ed
			// descriptor under the blocked goroutine and make the outcome depend on GC timing
			old := debug.SetGCPercent(-1)
			emit(c12RunPeer(id, sp))
			debug.SetGCPercent(old)
			id++
		}
		emit(c12RunCensus(id, true))
		id++
		emit(c12RunCensus(id, false))
		id++
	}
}
