//go:build verif

package shmipc

// C01 / C02, manager layer (mechanism D): the REAL bufferManager.allocShmBuffer / allocShmBuffers /
// recycleBuffer over several size classes — including classes of EQUAL slice size, which VerifyConfig
// accepts — driven sequentially; every result and the independent ownership oracle go to VERIF_OUT.

import (
	"fmt"
	"os"
	"testing"
	"unsafe"

	syscall "golang.org/x/sys/unix"
)

type c01mOp struct {
	K    string `json:"k"` // alloc | multi | recycle
	Size int    `json:"size,omitempty"`
	Idx  int    `json:"idx,omitempty"`
}

type c01mCase struct {
	ID      int        `json:"id"`
	Classes [][3]int   `json:"classes"` // capPerBuffer, absolute region offset, slots
	Ops     []c01mOp   `json:"ops"`
	Res     [][]int64  `json:"res"`
	Oracle  []string   `json:"oracle"`
	Feat    []string   `json:"feat"`
}

func c01mRun(id int, r *vrand) c01mCase {
	c := c01mCase{ID: id}
	ncls := 1 + r.intn(3)
	sizes := []int{16, 32, 64}
	var cpbs, ns []int
	last := 0
	for i := 0; i < ncls; i++ {
		// ascending, equal sizes allowed
		k := last + r.intn(len(sizes)-last)
		if r.chance(35) {
			k = last
		}
		last = k
		cpbs = append(cpbs, sizes[k])
		ns = append(ns, 2+r.intn(4))
	}
	total := bufferManagerHeaderSize
	for i := range cpbs {
		total += bufferListHeaderSize + ns[i]*(cpbs[i]+bufferHeaderSize)
	}
	mem := make([]byte, total+8)
	off := bufferManagerHeaderSize
	var lists []*bufferList
	for i := range cpbs {
		l, err := createFreeBufferList(uint32(ns[i]), uint32(cpbs[i]), mem, uint32(off))
		if err != nil {
			panic(err)
		}
		lists = append(lists, l)
		c.Classes = append(c.Classes, [3]int{cpbs[i], int(l.bufferRegionOffsetInShm), ns[i]})
		off += bufferListHeaderSize + ns[i]*(cpbs[i]+bufferHeaderSize)
	}
	bm := &bufferManager{lists: lists, mem: mem, minSliceSize: uint32(cpbs[0]), maxSliceSize: uint32(cpbs[len(cpbs)-1])}
	slotOK := func(o int) (int, bool) {
		for i := range cpbs {
			base := int(lists[i].bufferRegionOffsetInShm)
			st := cpbs[i] + bufferHeaderSize
			if o >= base && o < base+ns[i]*st && (o-base)%st == 0 {
				return cpbs[i], true
			}
		}
		return 0, false
	}
	oracle := map[string]bool{}
	feat := map[string]bool{}
	for i := 1; i < len(cpbs); i++ {
		if cpbs[i] == cpbs[i-1] {
			feat["equal-size-classes"] = true
		}
	}
	type hb struct {
		s   *bufferSlice
		off int
		tag byte
	}
	var held []hb
	owner := map[int]bool{}
	tag := byte(1)
	take := func(s *bufferSlice, wantSize int) int64 {
		o := int(s.offsetInShm)
		cp, ok := slotOK(o)
		if !ok {
			oracle["allocated buffer is not at a slot boundary of any size-class region"] = true
		} else if int(s.cap) != cp || len(s.data) != cp {
			oracle["allocated buffer does not have the capacity of its slot"] = true
		}
		if wantSize > 0 && int(s.cap) < wantSize {
			oracle["allocShmBuffer returned a buffer smaller than requested"] = true
		}
		if owner[o] {
			oracle["double ownership: buffer handed out while still held"] = true
		}
		owner[o] = true
		for k := range s.data {
			s.data[k] = tag
		}
		held = append(held, hb{s, o, tag})
		tag++
		if tag == 0 {
			tag = 1
		}
		return int64(o)
	}
	nops := 6 + r.intn(30)
	for k := 0; k < nops; k++ {
		x := r.intn(100)
		var op c01mOp
		var res []int64
		func() {
			defer func() {
				if e := recover(); e != nil {
					oracle[fmt.Sprintf("panic in a manager operation")] = true
					res = []int64{-2}
				}
			}()
			switch {
			case x < 45:
				cp := cpbs[r.intn(len(cpbs))]
				size := []int{1, cp - 1, cp, cp + 1, cpbs[len(cpbs)-1] + 1}[r.intn(5)]
				op = c01mOp{K: "alloc", Size: size}
				s, err := bm.allocShmBuffer(uint32(size))
				if err != nil {
					res = []int64{-1}
					feat["alloc-failed"] = true
				} else {
					res = []int64{take(s, size)}
				}
			case x < 60:
				size := 1 + r.intn(3*cpbs[len(cpbs)-1])
				op = c01mOp{K: "multi", Size: size}
				sl := newSliceList()
				bm.allocShmBuffers(sl, uint32(size))
				res = []int64{}
				for s := sl.front(); s != nil; s = s.next() {
					res = append(res, take(s, 0))
				}
				feat["multi"] = true
			default:
				if len(held) == 0 {
					op = c01mOp{K: "recycle", Idx: 0}
					res = []int64{}
					return
				}
				i := r.intn(len(held))
				op = c01mOp{K: "recycle", Idx: i}
				h := held[i]
				for _, b := range h.s.data {
					if b != h.tag {
						oracle["payload of a held buffer was altered by somebody else"] = true
						break
					}
				}
				held = append(held[:i:i], held[i+1:]...)
				delete(owner, h.off)
				h.s.nextSlice = nil
				if r.chance(35) {
					// the holder re-initialised the header of the buffer it holds (what a reader does to the slice it
					// keeps for its next write, linkedBuffer.releasePreviousReadAndReserve -> reset): a holder may write
					// its own header, the allocator must not depend on what it finds there.  Not an operation of the
					// abstract manager model (its state does not change).
					h.s.reset()
					feat["holder-reset-header-before-recycle"] = true
				}
				bm.recycleBuffer(h.s)
				res = []int64{}
			}
		}()
		c.Ops = append(c.Ops, op)
		c.Res = append(c.Res, res)
	}
	// quiescence: give everything back; every slot must be in exactly one free chain
	func() {
		defer func() {
			if e := recover(); e != nil {
				oracle["panic while returning buffers at quiescence"] = true
			}
		}()
		for k, h := range held {
			h.s.nextSlice = nil
			if k%3 == 1 {
				h.s.reset() // see above: a holder may have re-initialised its own header
			}
			bm.recycleBuffer(h.s)
		}
		seen := map[int]int{}
		totalSlots, totalSize := 0, 0
		for i, l := range lists {
			totalSlots += ns[i]
			totalSize += int(*l.size)
			o := int(*l.head)
			for k := 0; k <= totalSlotsAll(ns)+1; k++ {
				abs := o + int(l.bufferRegionOffsetInShm)
				if abs+bufferHeaderSize > len(mem) {
					oracle["at quiescence a free chain leaves the mapping"] = true
					break
				}
				seen[abs]++
				flag := mem[abs+bufferFlagOffset]
				if flag&hasNextBufferFlag == 0 {
					break
				}
				o = int(*(*uint32)(unsafe.Pointer(&mem[abs+nextBufferOffset])))
			}
		}
		if totalSize != totalSlots {
			oracle["at quiescence the free counts do not add up to the number of slots"] = true
		}
		for i := range cpbs {
			base := int(lists[i].bufferRegionOffsetInShm)
			for k := 0; k < ns[i]; k++ {
				if seen[base+k*(cpbs[i]+bufferHeaderSize)] != 1 {
					oracle["at quiescence some slot is not in exactly one free chain"] = true
				}
			}
		}
	}()
	for k := range oracle {
		c.Oracle = append(c.Oracle, k)
	}
	for k := range feat {
		c.Feat = append(c.Feat, k)
	}
	return c
}

func totalSlotsAll(ns []int) int {
	t := 0
	for _, n := range ns {
		t += n
	}
	return t
}

// c01mSecondCreator: "in this process or the peer": a second creator on the same /dev/shm path (another
// process — simulated by dropping the in-process registry entry) must be refused while the first holds
// buffers; otherwise it re-initialises the free lists and hands out what is still held.
func c01mSecondCreator(id int) c01mCase {
	c := c01mCase{ID: id, Feat: []string{"second-creator-on-same-path"}}
	oracle := map[string]bool{}
	path := fmt.Sprintf("/dev/shm/verif_c01_%d_%d_buffer", os.Getpid(), id)
	_ = os.Remove(path)
	pairs := func() []*SizePercentPair { return []*SizePercentPair{{Size: 64, Percent: 50}, {Size: 256, Percent: 50}} }
	func() {
		defer func() {
			if e := recover(); e != nil {
				oracle["panic in a manager operation"] = true
			}
		}()
		bm1, err := getGlobalBufferManager(path, 1<<16, true, pairs())
		if err != nil {
			c.Feat = append(c.Feat, "skipped:"+err.Error())
			return
		}
		defer func() {
			bufferManagers.Lock()
			delete(bufferManagers.bms, path)
			bufferManagers.Unlock()
			bm1.unmap()
		}()
		held := map[uint32]*bufferSlice{}
		for i := 0; i < 8; i++ {
			s, err := bm1.allocShmBuffer(64)
			if err != nil {
				break
			}
			for k := range s.data {
				s.data[k] = 0xA5
			}
			s.writeIndex = len(s.data)
			s.update()
			held[s.offsetInShm] = s
		}
		// another process would not see this registry
		bufferManagers.Lock()
		delete(bufferManagers.bms, path)
		bufferManagers.Unlock()
		bm2, err := getGlobalBufferManager(path, 1<<16, true, pairs())
		if err != nil {
			return // refused: the property's mechanism works
		}
		defer func() {
			_ = syscall.Munmap(bm2.mem)
		}()
		for i := 0; i < 8; i++ {
			s, err := bm2.allocShmBuffer(64)
			if err != nil {
				break
			}
			if _, dup := held[s.offsetInShm]; dup {
				oracle["double ownership: buffer handed out while still held"] = true
			}
			for k := range s.data {
				s.data[k] = 0x5A
			}
		}
		for _, s := range held {
			for _, b := range s.data {
				if b != 0xA5 {
					oracle["payload of a held buffer was altered by somebody else"] = true
					break
				}
			}
		}
	}()
	for k := range oracle {
		c.Oracle = append(c.Oracle, k)
	}
	return c
}

func TestVerif_C01M(t *testing.T) {
	seed := uint64(venvInt("VERIF_SEED", 1))
	n := venvInt("VERIF_N", 300)
	o := vopenOut(t)
	defer o.close()
	r := newVrand(seed + 77)
	id := 0
	for ; id < n; id++ {
		o.emit(c01mRun(id, r))
	}
	for k := 0; k < 2; k++ {
		o.emit(c01mSecondCreator(id))
		id++
	}
}
