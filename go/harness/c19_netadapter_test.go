//go:build verif

package shmipc

// C19 correspondence + oracle harness (mechanism T): the REAL Listen/ListenWithBacklog/Accept adapter
// is driven through its public API by generated scenarios (several client sessions, streams, Read/Write
// of boundary sizes, closes from either side, listener Close at any moment, double Close, client
// session death).  For every scenario the API-level history is written to VERIF_OUT (to be replayed
// through the Coq model as an acceptor), together with every Read/Write trace, and the property oracle
// (independent of the model) is evaluated.

import (
	"fmt"
	"net"
	"os"
	"path/filepath"
	"sync"
	"sync/atomic"
	"testing"
	"time"
)

type c19Obs struct {
	K string `json:"k"` // connect | open | accept | accepterr | close | die | lclose | final
	S int    `json:"s"`
	I int    `json:"i"`
	N int    `json:"n,omitempty"`
	F []bool `json:"f,omitempty"`
}

type c19IOEv struct {
	K   string `json:"k"` // w | r | pc
	Len int    `json:"len,omitempty"`
	Err int    `json:"err,omitempty"` // 0 none 1 timeout 2 end-of-stream 3 stream-closed 9 other
	B   []int  `json:"b"`
}

type c19Case struct {
	ID      int         `json:"id"`
	Seed    uint64      `json:"seed"`
	Backlog int         `json:"backlog"`
	Script  []string    `json:"script"`
	Obs     []c19Obs    `json:"obs"`
	Pipes   [][]c19IOEv `json:"pipes"`
	Oracle  []string    `json:"oracle"`
	Feat    []string    `json:"feat"`
	Skipped string      `json:"skipped,omitempty"`
	Ms      int64       `json:"ms"`
}

type c19Pipe struct {
	ev        []c19IOEv
	sent      []byte // every byte written successfully, in order
	got       int    // bytes read so far
	peerClose bool
}

type c19Stream struct {
	s, k    int
	cst     *Stream  // client side
	conn    net.Conn // server side, nil until Accept returned it
	sst     *Stream  // server side stream (from the wrapper)
	sclosed bool     // server conn Close called
	cclosed bool     // client stream Close called
	up      c19Pipe  // client -> server
	down    c19Pipe  // server -> client
}

type c19Sess struct {
	client  *Session
	server  *Session
	streams []*c19Stream
	dead    bool
}

type c19AccRes struct {
	conn net.Conn
	err  error
}

type c19Run struct {
	c       *c19Case
	r       *vrand
	ln      net.Listener
	l       *listener
	sess    []*c19Sess
	pending []chan c19AccRes
	lclosed bool
	oracle  map[string]bool
	feat    map[string]bool
	seenSrv map[*Session]bool
	dir     string
}

func c19ErrClass(err error) int {
	switch err {
	case nil:
		return 0
	case ErrTimeout:
		return 1
	case ErrEndOfStream:
		return 2
	case ErrStreamClosed:
		return 3
	}
	return 9
}

func c19ClientConf(tag string) *Config {
	conf := DefaultConfig()
	conf.MemMapType = MemMapTypeMemFd
	conf.ShareMemoryPathPrefix = "/dev/shm/verif_c19_" + tag
	conf.QueuePath = "/dev/shm/verif_c19_" + tag + "_queue"
	conf.ShareMemoryBufferCap = 1 << 20
	conf.BufferSliceSizes = []*SizePercentPair{{64, 70}, {512, 30}}
	conf.InitializeTimeout = 5 * time.Second
	return conf
}

func (x *c19Run) fail(format string, a ...interface{}) { x.oracle[fmt.Sprintf(format, a...)] = true }
func (x *c19Run) say(format string, a ...interface{}) {
	x.c.Script = append(x.c.Script, fmt.Sprintf(format, a...))
}
func (x *c19Run) obs(o c19Obs) { x.c.Obs = append(x.c.Obs, o) }

func c19Wait(bound time.Duration, cond func() bool) bool {
	end := time.Now().Add(bound)
	for {
		if cond() {
			return true
		}
		if time.Now().After(end) {
			return false
		}
		time.Sleep(2 * time.Millisecond)
	}
}

func c19Byte(s, k, dir, pos int) byte { return byte(17 + s*61 + k*29 + dir*101 + pos*7 + pos/251) }

// bytes buffered on the reading side of a stream and not yet returned by Read
func c19Buffered(st *Stream) int {
	n := st.recvBuf.Len()
	st.pendingData.Lock()
	for _, w := range st.pendingData.unread {
		if w.fallbackSlice != nil {
			n += w.fallbackSlice.size()
			continue
		}
		off := w.offset
		for hop := 0; hop < 1<<16; hop++ {
			sl, err := st.session.bufferManager.readBufferSlice(off)
			if err != nil {
				break
			}
			n += sl.size()
			if !sl.hasNext() {
				break
			}
			off = sl.nextBufferOffset()
		}
	}
	st.pendingData.Unlock()
	return n
}

func (x *c19Run) connect() {
	if x.lclosed {
		// the raw listener is closed: Dial must fail
		c, err := net.Dial("unix", x.ln.Addr().String())
		if err == nil {
			c.Close()
			x.fail("dial succeeded after listener Close")
		}
		x.say("connect-after-lclose")
		return
	}
	idx := len(x.sess)
	tag := fmt.Sprintf("%d_%d_%d", os.Getpid(), x.c.ID, idx)
	var client *Session
	var lastErr error
	for try := 0; try < 3 && client == nil; try++ {
		conn, err := net.Dial("unix", x.ln.Addr().String())
		if err != nil {
			lastErr = err
			continue
		}
		client, err = newSession(c19ClientConf(fmt.Sprintf("%s_%d", tag, try)), conn, true)
		if err != nil {
			lastErr = err
			client = nil
		}
	}
	if client == nil {
		x.c.Skipped = fmt.Sprintf("could not establish client session: %v", lastErr)
		return
	}
	// the server side registers the session under l.mu after its handshake returned
	var server *Session
	ok := c19Wait(5*time.Second, func() bool {
		x.l.mu.Lock()
		defer x.l.mu.Unlock()
		for s := range x.l.sessions {
			if !x.seenSrv[s] {
				server = s
				return true
			}
		}
		return false
	})
	if !ok {
		x.c.Skipped = "server session did not register within 5s"
		client.Close()
		return
	}
	x.seenSrv[server] = true
	x.sess = append(x.sess, &c19Sess{client: client, server: server})
	x.obs(c19Obs{K: "connect"})
	x.say("connect %d", idx)
}

func (x *c19Run) pipeWrite(p *c19Pipe, st *c19Stream, dir int, size int, write func([]byte) (int, error), reader func() *Stream, expectFail bool) {
	buf := make([]byte, size)
	base := len(p.sent)
	for i := range buf {
		buf[i] = c19Byte(st.s, st.k, dir, base+i)
	}
	n, err := write(buf)
	if n < 0 || n > size {
		x.fail("Write returned n outside [0,len p]")
	}
	if n < size && err == nil {
		x.fail("io.Writer: Write returned n < len(p) with a nil error")
	}
	if expectFail {
		if size > 0 && err == nil {
			x.fail("Write on a closed conn succeeded")
		}
		return
	}
	if err != nil {
		x.fail("Write of %d bytes on an open stream failed: class %d", size, c19ErrClass(err))
		return
	}
	p.sent = append(p.sent, buf...)
	if size > 0 {
		ints := make([]int, size)
		for i, b := range buf {
			ints[i] = int(b)
		}
		p.ev = append(p.ev, c19IOEv{K: "w", B: ints})
		// wait until the bytes are buffered at the reader (the model's Read is deterministic only then)
		if rs := reader(); rs != nil {
			want := len(p.sent) - p.got
			if !c19Wait(5*time.Second, func() bool { return c19Buffered(rs) >= want }) {
				x.fail("written bytes did not arrive at the peer within 5s")
			}
		}
	}
}

// one Read call of size lenp on the reading end of pipe p
func (x *c19Run) pipeRead(p *c19Pipe, lenp int, rd net.Conn, closedLocally bool) (int, error) {
	outstanding := len(p.sent) - p.got
	var dl time.Duration
	if outstanding == 0 && lenp > 0 && !p.peerClose {
		dl = 120 * time.Millisecond
		rd.SetReadDeadline(time.Now().Add(dl))
	} else {
		rd.SetReadDeadline(time.Now().Add(10 * time.Second))
	}
	buf := make([]byte, lenp)
	t0 := time.Now()
	n, err := rd.Read(buf)
	el := time.Since(t0)
	rd.SetReadDeadline(time.Time{})
	cls := c19ErrClass(err)
	if closedLocally {
		return n, err
	}
	ints := make([]int, 0, n)
	for i := 0; i < n && i < lenp; i++ {
		ints = append(ints, int(buf[i]))
	}
	p.ev = append(p.ev, c19IOEv{K: "r", Len: lenp, Err: cls, B: ints})
	// ---- io.Reader oracle ----
	switch {
	case n < 0 || n > lenp:
		x.fail("io.Reader: Read returned n outside [0,len p]")
	case err == nil && lenp > 0 && n == 0:
		x.fail("io.Reader: Read returned 0, nil for a non-empty p")
	case err == nil && n > outstanding:
		x.fail("Read returned more bytes than were written")
	case err != nil && n != 0:
		x.fail("Read returned bytes together with an error")
	}
	for i := 0; i < n && p.got+i < len(p.sent); i++ {
		if buf[i] != p.sent[p.got+i] {
			x.fail("Read returned bytes out of order / corrupted")
			break
		}
	}
	if err == nil && lenp > 0 && outstanding > 0 && n >= 1 {
		x.feat["read"] = true
		if lenp > outstanding {
			x.feat["read-larger-than-available"] = true
		}
		if n > 64 {
			x.feat["read-across-slices"] = true
		}
	}
	if cls == 1 {
		x.feat["read-deadline"] = true
		if outstanding > 0 {
			x.fail("Read timed out although data was buffered")
		}
		if dl > 0 && el < dl-5*time.Millisecond {
			x.fail("Read returned ErrTimeout before its deadline")
		}
	}
	if cls == 2 {
		x.feat["read-eof"] = true
		if !p.peerClose {
			x.fail("Read returned end-of-stream although the peer did not close")
		}
		if outstanding > 0 {
			x.fail("Read returned end-of-stream before the buffered data was drained")
		}
	}
	if cls == 0 && lenp > 0 && outstanding == 0 {
		x.fail("Read succeeded although nothing was written")
	}
	if (cls == 3 || cls == 9) && !x.anyDead() {
		x.fail("Read on an open conn failed with class %d", cls)
	}
	if dl > 0 && cls == 0 && lenp > 0 && n == 0 {
		x.fail("Read returned nothing")
	}
	if el > 9*time.Second {
		x.fail("Read took more than 9s")
	}
	if n > 0 {
		p.got += n
	}
	return n, err
}

func (x *c19Run) anyDead() bool {
	for _, s := range x.sess {
		if s.dead {
			return true
		}
	}
	return false
}

func (x *c19Run) open(si int) {
	ss := x.sess[si]
	if ss.client.IsClosed() || ss.server.IsClosed() {
		return
	}
	cst, err := ss.client.OpenStream()
	if err != nil {
		if !x.lclosed {
			x.fail("OpenStream failed on a live client session")
		}
		return
	}
	st := &c19Stream{s: si, k: len(ss.streams), cst: cst}
	ss.streams = append(ss.streams, st)
	// the peer learns about a stream with its first data: tag (session, ordinal) + a few bytes
	size := 4 + x.r.pick([]int{0, 1, 5, 61, 70})
	buf := make([]byte, size)
	buf[0], buf[1], buf[2], buf[3] = byte(si), byte(st.k), 0xC1, 0x19
	for i := 4; i < size; i++ {
		buf[i] = c19Byte(si, st.k, 0, i)
	}
	n, werr := cst.Write(buf)
	if werr != nil || n != size {
		if !x.lclosed {
			x.fail("first Write on a new stream failed")
		}
		ss.streams = ss.streams[:len(ss.streams)-1]
		return
	}
	st.up.sent = append(st.up.sent, buf...)
	ints := make([]int, size)
	for i, b := range buf {
		ints[i] = int(b)
	}
	st.up.ev = append(st.up.ev, c19IOEv{K: "w", B: ints})
	// (after listener Close the adapter Closes a conn nobody can accept: the client then sees its stream closed)
	if !c19Wait(5*time.Second, func() bool {
		return ss.server.getStreamById(cst.id) != nil || ss.server.IsClosed() || (x.lclosed && !cst.IsOpen())
	}) {
		x.fail("a stream opened by the client did not reach the server session within 5s")
	}
	time.Sleep(25 * time.Millisecond) // let the accept goroutine wrap it and reach its select
	x.obs(c19Obs{K: "open", S: si})
	x.say("open s%d k%d (%d bytes)", si, st.k, size)
}

func (x *c19Run) startAccept() {
	ch := make(chan c19AccRes, 1)
	go func() {
		c, err := x.ln.Accept()
		ch <- c19AccRes{c, err}
	}()
	x.pending = append(x.pending, ch)
	x.say("accept")
}

// collect the Accept calls that have returned (waiting up to `wait` for the oldest one)
func (x *c19Run) collect(wait time.Duration) {
	for len(x.pending) > 0 {
		var res c19AccRes
		got := false
		// any pending call may be the one that returns: poll them all
		end := time.Now().Add(wait)
		for !got {
			for i, ch := range x.pending {
				select {
				case res = <-ch:
					x.pending = append(x.pending[:i], x.pending[i+1:]...)
					got = true
				default:
				}
				if got {
					break
				}
			}
			if got || time.Now().After(end) {
				break
			}
			time.Sleep(2 * time.Millisecond)
		}
		if !got {
			return
		}
		x.accepted(res)
		wait = 30 * time.Millisecond
	}
}

func (x *c19Run) accepted(res c19AccRes) {
	if res.err != nil {
		if res.conn != nil {
			x.fail("Accept returned both a conn and an error")
		}
		if !x.lclosed {
			x.fail("Accept returned an error although the listener is open")
		}
		x.obs(c19Obs{K: "accepterr"})
		x.feat["accept-error-after-close"] = true
		return
	}
	w, ok := res.conn.(*streamWrapper)
	if !ok || w.stream == nil {
		x.fail("Accept returned something that is not a stream conn")
		return
	}
	// identify the stream by reading its 4-byte tag through the conn (ReadFull by hand, every call recorded)
	var st *c19Stream
	for _, ss := range x.sess {
		for _, cand := range ss.streams {
			if cand.cst.id == w.stream.id && ss.server == w.stream.session {
				st = cand
			}
		}
	}
	if st == nil {
		x.fail("Accept returned a conn for a stream no client opened")
		return
	}
	if st.conn != nil {
		x.fail("exactly-once: the same stream surfaced twice through Accept")
		return
	}
	st.conn = res.conn
	st.sst = w.stream
	var tag []byte
	if x.sess[st.s].dead {
		// the client session died while the conn sat in the backlog: like a socket accepted after the
		// peer went away, its reads fail; nothing to check on the bytes
		tag = []byte{byte(st.s), byte(st.k), 0xC1, 0x19}
		x.feat["accept-conn-of-dead-session"] = true
	}
	for len(tag) < 4 {
		buf := make([]byte, 4-len(tag))
		p := &st.up
		n, err := x.pipeReadRaw(p, buf, res.conn)
		if err != nil || n == 0 {
			x.fail("could not read the first bytes of an accepted conn: class %d", c19ErrClass(err))
			break
		}
		tag = append(tag, buf[:n]...)
	}
	if len(tag) == 4 && (int(tag[0]) != st.s || int(tag[1]) != st.k || tag[2] != 0xC1 || tag[3] != 0x19) {
		x.fail("accepted conn carries the bytes of another stream")
	}
	if res.conn.LocalAddr() == nil || res.conn.RemoteAddr() == nil {
		x.fail("conn has nil addresses")
	}
	x.obs(c19Obs{K: "accept", S: st.s, I: st.k})
	x.feat["accept"] = true
	if x.lclosed {
		x.feat["accept-conn-after-close"] = true
	}
}

func (x *c19Run) pipeReadRaw(p *c19Pipe, buf []byte, rd net.Conn) (int, error) {
	// like pipeRead but into a caller buffer
	lenp := len(buf)
	n, err := x.pipeRead(p, lenp, &c19BufConn{Conn: rd, into: buf}, false)
	return n, err
}

// c19BufConn forwards Read into a fixed caller buffer so that pipeRead can be reused
type c19BufConn struct {
	net.Conn
	into []byte
}

func (b *c19BufConn) Read(p []byte) (int, error) {
	n, err := b.Conn.Read(p)
	copy(b.into, p[:n])
	return n, err
}

func (x *c19Run) delivered(open bool) []*c19Stream {
	var r []*c19Stream
	for _, ss := range x.sess {
		if ss.dead {
			continue
		}
		for _, st := range ss.streams {
			if st.conn != nil && (!open || !st.sclosed) {
				r = append(r, st)
			}
		}
	}
	return r
}

func (x *c19Run) ioUp(st *c19Stream) {
	if st.cclosed || st.sclosed {
		return
	}
	size := x.r.pick([]int{0, 1, 2, 7, 63, 64, 65, 100, 130, 200})
	x.say("write c->s s%d k%d %d", st.s, st.k, size)
	x.pipeWrite(&st.up, st, 0, size, st.cst.Write, func() *Stream { return st.sst }, false)
	for i := 0; i < 1+x.r.intn(3); i++ {
		lenp := x.r.pick([]int{0, 1, 3, 64, 65, 128, 300})
		x.say("read s s%d k%d %d", st.s, st.k, lenp)
		x.pipeRead(&st.up, lenp, st.conn, false)
	}
}

func (x *c19Run) ioDown(st *c19Stream) {
	if st.cclosed || st.sclosed {
		return
	}
	size := x.r.pick([]int{0, 1, 2, 7, 63, 64, 65, 100, 130, 200})
	x.say("write s->c s%d k%d %d", st.s, st.k, size)
	x.pipeWrite(&st.down, st, 1, size, st.conn.Write, func() *Stream { return st.cst }, false)
	for i := 0; i < 1+x.r.intn(3); i++ {
		lenp := x.r.pick([]int{0, 1, 3, 64, 65, 128, 300})
		x.say("read c s%d k%d %d", st.s, st.k, lenp)
		x.pipeRead(&st.down, lenp, st.cst, false)
	}
}

func (x *c19Run) serverClose(st *c19Stream, times int) {
	for i := 0; i < times; i++ {
		if err := st.conn.Close(); err != nil {
			x.fail("conn.Close returned an error")
		}
		x.obs(c19Obs{K: "close", S: st.s, I: st.k})
	}
	if times > 1 {
		x.feat["double-close"] = true
	}
	x.say("sclose s%d k%d x%d", st.s, st.k, times)
	first := !st.sclosed
	st.sclosed = true
	if first && !x.sess[st.s].dead && !x.lclosed {
		// (only while the listener still holds its reference: afterwards the session may end and unmap)
		// Close works as on a socket: writes fail afterwards, the peer sees end of stream after draining
		x.pipeWrite(&st.down, st, 1, 3, st.conn.Write, nil, true)
		if !st.cclosed {
			st.down.peerClose = true
			st.down.ev = append(st.down.ev, c19IOEv{K: "pc"})
			c19Wait(3*time.Second, func() bool { return !st.cst.IsOpen() })
			for i := 0; i < 50; i++ {
				n, err := x.pipeRead(&st.down, 256, st.cst, false)
				if err != nil || n == 0 {
					if c19ErrClass(err) != 2 {
						x.fail("peer of a closed conn did not get end-of-stream (class %d)", c19ErrClass(err))
					}
					break
				}
			}
			x.feat["server-close-seen-by-client"] = true
		}
	}
}

func (x *c19Run) clientClose(st *c19Stream) {
	if st.cclosed {
		return
	}
	st.cclosed = true
	st.cst.Close()
	x.say("cclose s%d k%d", st.s, st.k)
	if st.conn != nil && !st.sclosed && !x.sess[st.s].dead {
		st.up.peerClose = true
		st.up.ev = append(st.up.ev, c19IOEv{K: "pc"})
		c19Wait(3*time.Second, func() bool { return !st.sst.IsOpen() })
		for i := 0; i < 50; i++ {
			n, err := x.pipeRead(&st.up, 256, st.conn, false)
			if err != nil || n == 0 {
				if c19ErrClass(err) != 2 {
					x.fail("conn whose peer closed did not return end-of-stream (class %d)", c19ErrClass(err))
				}
				break
			}
		}
		x.feat["client-close-seen-by-server"] = true
	} else {
		time.Sleep(10 * time.Millisecond)
	}
}

func (x *c19Run) listenerClose(times int) {
	for i := 0; i < times; i++ {
		x.ln.Close()
		x.obs(c19Obs{K: "lclose"})
	}
	x.say("lclose x%d", times)
	x.lclosed = true
	np := len(x.pending)
	time.Sleep(20 * time.Millisecond)
	x.collect(5 * time.Second)
	if len(x.pending) > 0 {
		x.fail("Accept still blocked 5s after listener Close")
	} else if np > 0 {
		x.feat["blocked-accept-released-by-close"] = true
	}
}

func (x *c19Run) die(si int) {
	ss := x.sess[si]
	if ss.dead {
		return
	}
	ss.dead = true
	ss.client.Close()
	x.say("die s%d", si)
	if !c19Wait(5*time.Second, func() bool { return ss.server.IsClosed() }) {
		x.fail("server session still open 5s after the client session was closed")
	}
	time.Sleep(25 * time.Millisecond)
	x.obs(c19Obs{K: "die", S: si})
	x.feat["client-session-death"] = true
}

func c19Scenario(id int, seed uint64, dir string) c19Case {
	t0 := time.Now()
	r := newVrand(seed)
	c := c19Case{ID: id, Seed: seed, Backlog: 1 + r.intn(3)}
	x := &c19Run{c: &c, r: r, oracle: map[string]bool{}, feat: map[string]bool{}, seenSrv: map[*Session]bool{}, dir: dir}
	path := filepath.Join(dir, fmt.Sprintf("c19_%d_%d.sock", os.Getpid(), id))
	os.Remove(path)
	ln, err := ListenWithBacklog(path, c.Backlog)
	if err != nil {
		c.Skipped = "listen failed: " + err.Error()
		return c
	}
	x.ln = ln
	x.l = ln.(*listener)
	defer os.Remove(path)
	if ln.Addr() == nil {
		x.fail("listener has no address")
	}
	x.connect()
	nops := 6 + r.intn(14)
	for i := 0; i < nops && c.Skipped == ""; i++ {
		x.collect(0)
		live := []int{}
		for si, ss := range x.sess {
			if !ss.dead {
				live = append(live, si)
			}
		}
		open := x.delivered(true)
		switch w := r.intn(100); {
		case w < 8:
			if len(x.sess) < 3 {
				x.connect()
			}
		case w < 34:
			if len(live) > 0 && (!x.lclosed || r.chance(25)) {
				total := 0
				for _, ss := range x.sess {
					total += len(ss.streams)
				}
				if total < 9 {
					x.open(live[r.intn(len(live))])
				}
			}
		case w < 58:
			if len(x.pending) < 2 && (!x.lclosed || r.chance(50)) {
				x.startAccept()
				x.collect(120 * time.Millisecond)
				if len(x.pending) > 0 {
					x.feat["accept-blocked"] = true
				}
			}
		case w < 70:
			if len(open) > 0 {
				x.ioUp(open[r.intn(len(open))])
			}
		case w < 78:
			if len(open) > 0 {
				x.ioDown(open[r.intn(len(open))])
			}
		case w < 86:
			all := x.delivered(false)
			if len(all) > 0 {
				x.serverClose(all[r.intn(len(all))], 1+r.intn(2))
			}
		case w < 92:
			var cands []*c19Stream
			for _, si := range live {
				for _, st := range x.sess[si].streams {
					if !st.cclosed {
						cands = append(cands, st)
					}
				}
			}
			if len(cands) > 0 {
				x.clientClose(cands[r.intn(len(cands))])
			}
		case w < 95:
			if !x.lclosed || r.chance(30) {
				x.listenerClose(1 + r.intn(2))
			}
		default:
			if len(live) > 1 || (len(live) == 1 && r.chance(50)) {
				x.die(live[r.intn(len(live))])
			}
		}
	}
	// ---- finale: close the listener, then (mostly) every conn the user holds and every client stream ----
	if c.Skipped == "" {
		x.collect(0)
		if !x.lclosed && r.chance(55) {
			// drain: accept every stream that was opened, so that no wrapper stays undelivered
			for tries := 0; tries < 12; tries++ {
				missing := 0
				for _, ss := range x.sess {
					for _, st := range ss.streams {
						if st.conn == nil && !ss.dead {
							missing++
						}
					}
				}
				if missing == 0 || missing <= len(x.pending) {
					if missing == 0 {
						break
					}
				} else {
					x.startAccept()
				}
				x.collect(300 * time.Millisecond)
			}
			x.feat["drained-before-close"] = true
		}
		if !x.lclosed {
			x.listenerClose(1)
		}
		closeAll := r.chance(75)
		for _, ss := range x.sess {
			if ss.dead {
				continue
			}
			for _, st := range ss.streams {
				x.clientClose(st)
			}
		}
		if closeAll {
			for _, st := range x.delivered(true) {
				x.serverClose(st, 1)
			}
		}
		// expectation of the PROPERTY (not of the model) per server session
		type exp struct{ wantClosed, undelivered, decided bool }
		exps := make([]exp, len(x.sess))
		for si, ss := range x.sess {
			e := exp{}
			allClosed := true
			for _, st := range ss.streams {
				if st.conn == nil {
					e.undelivered = true
				} else if !st.sclosed {
					allClosed = false
				}
			}
			if ss.dead || allClosed {
				e.wantClosed, e.decided = true, true
			} else {
				e.wantClosed, e.decided = false, true
			}
			exps[si] = e
		}
		// sessions expected to end: wait for them (generously); the others: give them time to end wrongly
		// (a session with a conn that was never delivered used to stay pinned: give it 1.5 s, not 4)
		c19Wait(6*time.Second, func() bool {
			for si, ss := range x.sess {
				if exps[si].wantClosed && !ss.server.IsClosed() {
					return false
				}
			}
			return true
		})
		c19Wait(6*time.Second, func() bool {
			for si, ss := range x.sess {
				if exps[si].wantClosed && !exps[si].undelivered && !ss.server.IsClosed() {
					return false
				}
			}
			return true
		})
		time.Sleep(300 * time.Millisecond)
		final := make([]bool, len(x.sess))
		for si, ss := range x.sess {
			final[si] = ss.server.IsClosed()
			e := exps[si]
			switch {
			case e.wantClosed && !final[si] && e.undelivered:
				x.fail("KNOWN: listener closed, every conn handed out by Accept closed, but a conn that was never delivered (left in the backlog / dropped by the select) pins the server session open")
				x.feat["undelivered-wrapper"] = true
			case e.wantClosed && !final[si]:
				x.fail("listener closed and every conn closed but the server session is still open")
			case !e.wantClosed && final[si]:
				x.fail("server session ended while a conn handed out by Accept is still open")
			}
			if final[si] && !ss.dead {
				x.feat["session-ended-by-refcount"] = true
			}
		}
		x.obs(c19Obs{K: "final", F: final})
		if len(x.sess) > 1 {
			x.feat["several-sessions"] = true
		}
	}
	// ---- cleanup (not observed) ----
	for _, ch := range x.pending {
		select {
		case res := <-ch:
			if res.conn != nil {
				res.conn.Close()
			}
		case <-time.After(2 * time.Second):
		}
	}
	if !x.lclosed {
		ln.Close()
	}
	for _, ss := range x.sess {
		ss.client.Close()
		ss.server.Close()
	}
	for _, ss := range x.sess {
		for _, st := range ss.streams {
			c.Pipes = append(c.Pipes, st.up.ev, st.down.ev)
		}
	}
	for k := range x.oracle {
		c.Oracle = append(c.Oracle, k)
	}
	for k := range x.feat {
		c.Feat = append(c.Feat, k)
	}
	c.Ms = time.Since(t0).Milliseconds()
	return c
}

// REGRESSION scenarios (ids 0 and 1) of the repaired defect C19:undelivered-wrapper-pins-session-after-listener-close,
// run deterministically: one conn left in the backlog at listener Close / one conn dropped by the delivery select
func c19Pinned(id int, dir string, lostToSelect bool) c19Case {
	t0 := time.Now()
	c := c19Case{ID: id, Seed: 0, Backlog: 1}
	x := &c19Run{c: &c, r: newVrand(uint64(id)), oracle: map[string]bool{}, feat: map[string]bool{}, seenSrv: map[*Session]bool{}, dir: dir}
	path := filepath.Join(dir, fmt.Sprintf("c19_%d_%d.sock", os.Getpid(), id))
	os.Remove(path)
	ln, err := ListenWithBacklog(path, 1)
	if err != nil {
		c.Skipped = "listen failed: " + err.Error()
		return c
	}
	defer os.Remove(path)
	x.ln, x.l = ln, ln.(*listener)
	x.connect()
	if c.Skipped != "" {
		ln.Close()
		return c
	}
	x.open(0)
	if lostToSelect {
		x.open(0) // backlog (capacity 1) is full: the second wrapper waits at the select and loses to closeCh
	}
	x.listenerClose(1)
	for _, st := range x.sess[0].streams {
		x.clientClose(st)
	}
	c19Wait(6*time.Second, func() bool { return x.sess[0].server.IsClosed() })
	final := []bool{x.sess[0].server.IsClosed()}
	if !final[0] {
		x.fail("KNOWN: listener closed, every conn handed out by Accept closed, but a conn that was never delivered (left in the backlog / dropped by the select) pins the server session open")
		x.feat["undelivered-wrapper"] = true
	}
	x.obs(c19Obs{K: "final", F: final})
	x.sess[0].client.Close()
	x.sess[0].server.Close()
	for _, st := range x.sess[0].streams {
		c.Pipes = append(c.Pipes, st.up.ev, st.down.ev)
	}
	for k := range x.oracle {
		c.Oracle = append(c.Oracle, k)
	}
	for k := range x.feat {
		c.Feat = append(c.Feat, k)
	}
	c.Ms = time.Since(t0).Milliseconds()
	return c
}

// REGRESSION scenario (id 2) for the race the repair has to survive: streams that arrive AFTER listener.Close
// on sessions kept alive by an open conn.  Their accept goroutines find both select cases ready; when the
// enqueue wins (after Close's drain is over) the goroutine itself must drain, or the conn pins the session.
func c19Race(id int, dir string) c19Case {
	t0 := time.Now()
	c := c19Case{ID: id, Seed: 0, Backlog: 8}
	x := &c19Run{c: &c, r: newVrand(uint64(id)), oracle: map[string]bool{}, feat: map[string]bool{}, seenSrv: map[*Session]bool{}, dir: dir}
	path := filepath.Join(dir, fmt.Sprintf("c19_%d_%d.sock", os.Getpid(), id))
	os.Remove(path)
	ln, err := ListenWithBacklog(path, 8)
	if err != nil {
		c.Skipped = "listen failed: " + err.Error()
		return c
	}
	defer os.Remove(path)
	x.ln, x.l = ln, ln.(*listener)
	const nsess = 5
	for i := 0; i < nsess && c.Skipped == ""; i++ {
		x.connect()
		if c.Skipped != "" {
			break
		}
		x.open(i)
		x.startAccept()
		x.collect(2 * time.Second)
	}
	if c.Skipped == "" && len(x.pending) > 0 {
		c.Skipped = "setup: Accept did not return"
	}
	if c.Skipped != "" {
		ln.Close()
		for _, ss := range x.sess {
			ss.client.Close()
			ss.server.Close()
		}
		return c
	}
	x.listenerClose(1)
	for i := 0; i < nsess; i++ {
		x.open(i) // arrives after Close: select with both cases ready
	}
	time.Sleep(50 * time.Millisecond)
	for _, ss := range x.sess {
		for _, st := range ss.streams {
			x.clientClose(st)
		}
	}
	for _, st := range x.delivered(true) {
		x.serverClose(st, 1)
	}
	c19Wait(6*time.Second, func() bool {
		for _, ss := range x.sess {
			if !ss.server.IsClosed() {
				return false
			}
		}
		return true
	})
	final := make([]bool, len(x.sess))
	for si, ss := range x.sess {
		final[si] = ss.server.IsClosed()
		if !final[si] {
			x.fail("KNOWN: listener closed, every conn handed out by Accept closed, but a conn that was never delivered (left in the backlog / dropped by the select) pins the server session open")
			x.feat["undelivered-wrapper"] = true
		}
	}
	x.feat["stream-after-listener-close"] = true
	x.obs(c19Obs{K: "final", F: final})
	for _, ss := range x.sess {
		ss.client.Close()
		ss.server.Close()
		for _, st := range ss.streams {
			c.Pipes = append(c.Pipes, st.up.ev, st.down.ev)
		}
	}
	for k := range x.oracle {
		c.Oracle = append(c.Oracle, k)
	}
	for k := range x.feat {
		c.Feat = append(c.Feat, k)
	}
	c.Ms = time.Since(t0).Milliseconds()
	return c
}

// ---------------------------------------------------------------------------------------------
// the order of listener.Close's steps, observed through a hook inside the raw listener's Close
// ---------------------------------------------------------------------------------------------
type c19HookListener struct {
	net.Listener
	once    sync.Once
	onClose func()
}

func (h *c19HookListener) Close() error {
	h.once.Do(func() {
		if h.onClose != nil {
			h.onClose()
		}
	})
	return h.Listener.Close()
}

// conns that were never handed out by Accept and whose server-side stream is gone: Closed by the adapter
func (x *c19Run) adapterClosed() int {
	n := 0
	for _, ss := range x.sess {
		for _, st := range ss.streams {
			if st.conn == nil && ss.server.getStreamById(st.cst.id) == nil {
				n++
			}
		}
	}
	return n
}

// REGRESSION scenarios (ids 3, 4): a stream of an established session is queued WHILE listener.Close is
// closing the raw listener, i.e. after its CAS and before close(closeCh) / the drain.  preQueued: one more
// conn already waits in the backlog when Close starts (it must still be there at the hook: the drain comes later).
func c19Hook(id int, dir string, preQueued bool) c19Case {
	t0 := time.Now()
	c := c19Case{ID: id, Seed: 0, Backlog: 4}
	x := &c19Run{c: &c, r: newVrand(uint64(id)), oracle: map[string]bool{}, feat: map[string]bool{}, seenSrv: map[*Session]bool{}, dir: dir}
	path := filepath.Join(dir, fmt.Sprintf("c19_%d_%d.sock", os.Getpid(), id))
	os.Remove(path)
	raw, err := net.Listen("unix", path)
	if err != nil {
		c.Skipped = "listen failed: " + err.Error()
		return c
	}
	defer os.Remove(path)
	hl := &c19HookListener{Listener: raw}
	l := newListener(hl, 4)
	x.ln, x.l = l, l
	x.connect()
	if c.Skipped == "" {
		x.open(0)
		x.startAccept()
		x.collect(2 * time.Second)
		if len(x.pending) > 0 {
			c.Skipped = "setup: Accept did not return"
		}
	}
	if c.Skipped != "" {
		l.Close()
		for _, ss := range x.sess {
			ss.client.Close()
			ss.server.Close()
		}
		return c
	}
	if preQueued {
		x.open(0)
	}
	hl.onClose = func() {
		cc := 0
		select {
		case <-l.closeCh:
			cc = 1
		default:
		}
		if atomic.LoadUint32(&l.closed) != 1 {
			x.fail("the raw listener is closed before l.closed is set")
		}
		bl := len(l.backlog)
		x.obs(c19Obs{K: "rawclose", S: cc, I: bl, N: x.adapterClosed()})
		x.open(0) // the stream that arrives inside the window
		x.obs(c19Obs{K: "backloglen", I: len(l.backlog)})
		x.obs(c19Obs{K: "hookend"})
	}
	x.obs(c19Obs{K: "lclosecall"})
	x.say("lclose (with a stream arriving inside the raw listener's Close)")
	l.Close()
	x.lclosed = true
	x.obs(c19Obs{K: "lcloseret"})
	for _, st := range x.sess[0].streams {
		x.clientClose(st)
	}
	for _, st := range x.delivered(true) {
		x.serverClose(st, 1)
	}
	c19Wait(6*time.Second, func() bool { return x.sess[0].server.IsClosed() })
	final := []bool{x.sess[0].server.IsClosed()}
	if !final[0] {
		x.fail("KNOWN: listener closed, every conn handed out by Accept closed, but a conn that was never delivered (left in the backlog / dropped by the select) pins the server session open")
		x.feat["undelivered-wrapper"] = true
	}
	x.feat["stream-inside-listener-close"] = true
	x.obs(c19Obs{K: "final", F: final})
	x.sess[0].client.Close()
	x.sess[0].server.Close()
	for _, st := range x.sess[0].streams {
		c.Pipes = append(c.Pipes, st.up.ev, st.down.ev)
	}
	for k := range x.oracle {
		c.Oracle = append(c.Oracle, k)
	}
	for k := range x.feat {
		c.Feat = append(c.Feat, k)
	}
	c.Ms = time.Since(t0).Milliseconds()
	return c
}

// STRESS family: established sessions (each kept alive by one accepted conn when held = true) open one more
// stream each at a random 0-60 us offset while the listener is closed at a random 0-60 us offset.  Oracle: after
// the listener is closed and every accepted conn is closed, every server session ends within the bound.
func c19Stress(id int, seed uint64, dir string, held bool) c19Case {
	t0 := time.Now()
	c := c19Case{ID: id, Seed: seed, Backlog: 16}
	r := newVrand(seed)
	x := &c19Run{c: &c, r: r, oracle: map[string]bool{}, feat: map[string]bool{}, seenSrv: map[*Session]bool{}, dir: dir}
	path := filepath.Join(dir, fmt.Sprintf("c19_%d_%d.sock", os.Getpid(), id))
	os.Remove(path)
	ln, err := ListenWithBacklog(path, 16)
	if err != nil {
		c.Skipped = "listen failed: " + err.Error()
		return c
	}
	defer os.Remove(path)
	x.ln, x.l = ln, ln.(*listener)
	const nsess = 4
	for i := 0; i < nsess && c.Skipped == ""; i++ {
		x.connect()
		if c.Skipped == "" && held {
			x.open(i)
			x.startAccept()
			x.collect(2 * time.Second)
		}
	}
	if c.Skipped == "" && len(x.pending) > 0 {
		c.Skipped = "setup: Accept did not return"
	}
	if c.Skipped != "" {
		ln.Close()
		for _, ss := range x.sess {
			ss.client.Close()
			ss.server.Close()
		}
		return c
	}
	// the racing part: no waiting, no observation in between
	var wg sync.WaitGroup
	type opened struct {
		si  int
		cst *Stream
	}
	res := make(chan opened, nsess)
	for i := 0; i < nsess; i++ {
		d := int64(r.intn(60))
		wg.Add(1)
		go func(i int, d int64) {
			defer wg.Done()
			c19Spin(d)
			cst, err := x.sess[i].client.OpenStream()
			if err != nil {
				return
			}
			if _, err = cst.Write([]byte{byte(i), 0xEE, 0xC1, 0x19}); err != nil {
				return
			}
			res <- opened{i, cst}
		}(i, d)
	}
	c19Spin(int64(r.intn(60)))
	ln.Close()
	wg.Wait()
	close(res)
	x.lclosed = true
	var late []opened
	for o := range res {
		late = append(late, o)
	}
	// history for the model: the racing streams in some order, then the Close (their relative order does not
	// change what the model allows at the end)
	for _, o := range late {
		x.obs(c19Obs{K: "open", S: o.si})
	}
	x.obs(c19Obs{K: "lclose"})
	x.say("stress: %d streams racing with listener.Close (held=%v)", len(late), held)
	time.Sleep(20 * time.Millisecond)
	for _, o := range late {
		o.cst.Close()
	}
	for _, ss := range x.sess {
		for _, st := range ss.streams {
			x.clientClose(st)
		}
	}
	for _, st := range x.delivered(true) {
		x.serverClose(st, 1)
	}
	c19Wait(6*time.Second, func() bool {
		for _, ss := range x.sess {
			if !ss.server.IsClosed() {
				return false
			}
		}
		return true
	})
	final := make([]bool, len(x.sess))
	for si, ss := range x.sess {
		final[si] = ss.server.IsClosed()
		if !final[si] {
			x.fail("KNOWN: listener closed, every conn handed out by Accept closed, but a conn that was never delivered (left in the backlog / dropped by the select) pins the server session open")
			x.feat["undelivered-wrapper"] = true
		}
	}
	x.feat["streams-racing-with-listener-close"] = true
	x.obs(c19Obs{K: "final", F: final})
	for _, ss := range x.sess {
		ss.client.Close()
		ss.server.Close()
	}
	for k := range x.oracle {
		c.Oracle = append(c.Oracle, k)
	}
	for k := range x.feat {
		c.Feat = append(c.Feat, k)
	}
	c.Ms = time.Since(t0).Milliseconds()
	return c
}

func c19Spin(us int64) {
	t0 := time.Now()
	for time.Since(t0) < time.Duration(us)*time.Microsecond {
	}
}

// REGRESSION family (ids 5-7): two or three goroutines Close the SAME accepted conn at the same time (the usual
// "close from another goroutine to unblock the reader, whose own deferred Close then runs").  One conn must
// give back ONE reference.  listenerOpen = false: the listener is closed, the sibling conn B must keep working
// and the session must end only after B.Close.  listenerOpen = true: the session must stay usable and open.
func c19ConcurrentClose(id int, dir string, closers int, listenerOpen bool) c19Case {
	t0 := time.Now()
	c := c19Case{ID: id, Seed: 0, Backlog: 4}
	x := &c19Run{c: &c, r: newVrand(uint64(id)), oracle: map[string]bool{}, feat: map[string]bool{}, seenSrv: map[*Session]bool{}, dir: dir}
	path := filepath.Join(dir, fmt.Sprintf("c19_%d_%d.sock", os.Getpid(), id))
	os.Remove(path)
	ln, err := ListenWithBacklog(path, 4)
	if err != nil {
		c.Skipped = "listen failed: " + err.Error()
		return c
	}
	defer os.Remove(path)
	x.ln, x.l = ln, ln.(*listener)
	x.connect()
	for i := 0; i < 2 && c.Skipped == ""; i++ {
		x.open(0)
		x.startAccept()
		x.collect(2 * time.Second)
	}
	if c.Skipped == "" && (len(x.pending) > 0 || len(x.delivered(true)) != 2) {
		c.Skipped = "setup: two accepted conns needed"
	}
	if c.Skipped != "" {
		ln.Close()
		for _, ss := range x.sess {
			ss.client.Close()
			ss.server.Close()
		}
		return c
	}
	ss := x.sess[0]
	a, b := ss.streams[0], ss.streams[1]
	if !listenerOpen {
		x.listenerClose(1)
	}
	// the concurrent Close of conn A
	start := make(chan struct{})
	var wg sync.WaitGroup
	for i := 0; i < closers; i++ {
		wg.Add(1)
		go func() {
			defer wg.Done()
			<-start
			a.conn.Close()
		}()
	}
	close(start)
	wg.Wait()
	a.sclosed = true
	for i := 0; i < closers; i++ {
		x.obs(c19Obs{K: "close", S: a.s, I: a.k})
	}
	x.say("%d goroutines Close conn s0 k0 concurrently (listener open: %v)", closers, listenerOpen)
	x.feat["concurrent-close-of-one-conn"] = true
	time.Sleep(100 * time.Millisecond)
	early := ss.server.IsClosed()
	if early {
		x.fail("server session ended while a conn handed out by Accept is still open")
	} else {
		// the sibling conn still carries a ping and a pong
		x.ioUpFixed(b, 9, 64)
		x.ioDownFixed(b, 5, 64)
		if listenerOpen {
			// the session is still usable: one more stream comes through
			x.open(0)
			x.startAccept()
			x.collect(2 * time.Second)
			if len(x.pending) > 0 {
				x.fail("Accept did not return a new conn after a concurrent Close of another conn")
			}
		}
	}
	if !early {
		for _, st := range ss.streams {
			x.clientClose(st)
		}
		for _, st := range x.delivered(true) {
			x.serverClose(st, 1)
		}
		if listenerOpen {
			time.Sleep(150 * time.Millisecond)
			if ss.server.IsClosed() {
				early = true
				x.fail("server session ended although the listener is open and still holds its reference")
			}
		}
	}
	if !x.lclosed && !early {
		x.listenerClose(1)
	}
	if !early {
		c19Wait(6*time.Second, func() bool { return ss.server.IsClosed() })
		if !ss.server.IsClosed() {
			x.fail("listener closed and every conn closed but the server session is still open")
		}
	}
	x.obs(c19Obs{K: "final", F: []bool{ss.server.IsClosed()}})
	// (when the count went wrong the listener is deliberately NOT closed: its wg.Done would make the counter
	// negative and kill the process)
	ss.client.Close()
	ss.server.Close()
	for _, st := range ss.streams {
		c.Pipes = append(c.Pipes, st.up.ev, st.down.ev)
	}
	for k := range x.oracle {
		c.Oracle = append(c.Oracle, k)
	}
	for k := range x.feat {
		c.Feat = append(c.Feat, k)
	}
	c.Ms = time.Since(t0).Milliseconds()
	return c
}

// one write of `size` bytes client -> server on st and one read of up to lenp bytes
func (x *c19Run) ioUpFixed(st *c19Stream, size, lenp int) {
	x.say("ping s%d k%d %d", st.s, st.k, size)
	x.pipeWrite(&st.up, st, 0, size, st.cst.Write, func() *Stream { return st.sst }, false)
	x.pipeRead(&st.up, lenp, st.conn, false)
}
func (x *c19Run) ioDownFixed(st *c19Stream, size, lenp int) {
	x.say("pong s%d k%d %d", st.s, st.k, size)
	x.pipeWrite(&st.down, st, 1, size, st.conn.Write, func() *Stream { return st.cst }, false)
	x.pipeRead(&st.down, lenp, st.cst, false)
}

// REGRESSION family (ids 8-10): listener.Close lands INSIDE a client's handshake.  The client connects at the
// socket level only (the server-side goroutine sits in Server(conn, ...) waiting for the client's first message),
// the listener is closed, and only then the client runs its handshake.  Either the handshake fails, or the
// session it yields must end promptly (the server closes it on the spot: the closed-test and the registration
// are one critical section after the handshake) and nothing may stay registered in the closed listener.
func c19CloseDuringHandshake(id int, dir string, delayMs int) c19Case {
	t0 := time.Now()
	c := c19Case{ID: id, Seed: 0, Backlog: 2}
	x := &c19Run{c: &c, r: newVrand(uint64(id)), oracle: map[string]bool{}, feat: map[string]bool{}, seenSrv: map[*Session]bool{}, dir: dir}
	path := filepath.Join(dir, fmt.Sprintf("c19_%d_%d.sock", os.Getpid(), id))
	os.Remove(path)
	ln, err := ListenWithBacklog(path, 2)
	if err != nil {
		c.Skipped = "listen failed: " + err.Error()
		return c
	}
	defer os.Remove(path)
	x.ln, x.l = ln, ln.(*listener)
	raw, err := net.Dial("unix", path)
	if err != nil {
		ln.Close()
		c.Skipped = "dial: " + err.Error()
		return c
	}
	x.obs(c19Obs{K: "rawconnect"})
	time.Sleep(time.Duration(delayMs) * time.Millisecond) // the server accepts the raw conn and waits in its handshake
	x.startAccept()
	time.Sleep(10 * time.Millisecond)
	x.listenerClose(1)
	x.say("raw connect; %d ms; lclose inside the handshake; then the client handshakes", delayMs)
	conf := c19ClientConf(fmt.Sprintf("hs_%d_%d", os.Getpid(), id))
	client, herr := newSession(conf, raw, true)
	if herr != nil {
		// the server dropped the connection / its handshake timed out: no session exists
		x.feat["handshake-refused-after-listener-close"] = true
	} else {
		x.obs(c19Obs{K: "handshakedone"})
		x.feat["handshake-completed-after-listener-close"] = true
		ended := c19Wait(6*time.Second, func() bool { return client.IsClosed() })
		x.l.mu.Lock()
		reg := len(x.l.sessions)
		x.l.mu.Unlock()
		if !ended {
			x.fail("close-during-handshake: a session whose handshake completed after listener.Close is still alive 6s later (sessions registered in the closed listener: %d): the listener's reference on it is never released", reg)
			// end it by hand: the server side is reachable only through the listener's map
			x.l.mu.Lock()
			for s := range x.l.sessions {
				s.Close()
			}
			x.l.mu.Unlock()
		}
		x.obs(c19Obs{K: "final", F: []bool{ended}})
		client.Close()
	}
	x.l.mu.Lock()
	reg := len(x.l.sessions)
	x.l.mu.Unlock()
	if reg != 0 {
		x.fail("close-during-handshake: %d session(s) registered in a closed listener", reg)
	}
	for k := range x.oracle {
		c.Oracle = append(c.Oracle, k)
	}
	for k := range x.feat {
		c.Feat = append(c.Feat, k)
	}
	c.Ms = time.Since(t0).Milliseconds()
	return c
}

// FULL-DUPLEX family: a conn obtained through Listen/Accept and the client's stream used as net.Conn, each
// READ by one goroutine while ANOTHER goroutine WRITES it.  Both directions carry a self-describing byte stream
// (byte = f(direction, offset)); read sizes are exact fits of the write / slice size (reads that end exactly at
// the end of the buffered data) or odd.  Oracle: every Write returns (len p, nil); every Read returns 1..len p
// bytes and no error; every byte is the one the peer wrote at that offset; nothing hangs.
func c19DxByte(dir int, off int64) byte { return byte(off*131 + (off>>8)*7 + int64(dir)*89 + 3) }

func c19Duplex(id int, seed uint64, dir string, wsize, rsize, msg, mread, nbig, nsmall int) c19Case {
	t0 := time.Now()
	c := c19Case{ID: id, Seed: seed, Backlog: 2}
	x := &c19Run{c: &c, r: newVrand(seed), oracle: map[string]bool{}, feat: map[string]bool{}, seenSrv: map[*Session]bool{}, dir: dir}
	path := filepath.Join(dir, fmt.Sprintf("c19_%d_%d.sock", os.Getpid(), id))
	os.Remove(path)
	ln, err := ListenWithBacklog(path, 2)
	if err != nil {
		c.Skipped = "listen failed: " + err.Error()
		return c
	}
	defer os.Remove(path)
	defer ln.Close()
	x.ln, x.l = ln, ln.(*listener)
	rawc, err := net.Dial("unix", path)
	if err != nil {
		c.Skipped = "dial: " + err.Error()
		return c
	}
	conf := c19ClientConf(fmt.Sprintf("dx_%d_%d", os.Getpid(), id))
	conf.ShareMemoryBufferCap = 16 << 20
	conf.BufferSliceSizes = []*SizePercentPair{{4096, 70}, {16384, 30}}
	client, err := newSession(conf, rawc, true)
	if err != nil {
		c.Skipped = "client session: " + err.Error()
		return c
	}
	defer client.Close()
	cst, err := client.OpenStream()
	if err != nil {
		c.Skipped = "open: " + err.Error()
		return c
	}
	if _, err = cst.Write([]byte{0xD0}); err != nil {
		c.Skipped = "hello: " + err.Error()
		return c
	}
	acc := make(chan c19AccRes, 1)
	go func() { cn, e := ln.Accept(); acc <- c19AccRes{cn, e} }()
	var sconn net.Conn
	select {
	case r := <-acc:
		if r.err != nil {
			c.Skipped = "accept: " + r.err.Error()
			return c
		}
		sconn = r.conn
	case <-time.After(5 * time.Second):
		c.Skipped = "accept did not return"
		return c
	}
	defer sconn.Close()
	hello := make([]byte, 1)
	sconn.SetReadDeadline(time.Now().Add(5 * time.Second))
	if n, e := sconn.Read(hello); e != nil || n != 1 {
		c.Skipped = "hello read failed"
		return c
	}
	sconn.SetReadDeadline(time.Time{})
	x.say("duplex: c->s %d x %d B read in %d B pieces; s->c %d x %d B read in %d B pieces", nbig, wsize, rsize, nsmall, msg, mread)

	var failed int32
	var failMu sync.Mutex
	fail := func(format string, a ...interface{}) {
		failMu.Lock()
		x.oracle[fmt.Sprintf(format, a...)] = true
		failMu.Unlock()
		atomic.StoreInt32(&failed, 1)
	}
	var up, upRead, down, downRead int64 // bytes written / verified per direction
	writer := func(w net.Conn, dirn int, size, count int, sent, read *int64, window int64, who string) {
		buf := make([]byte, size)
		for k := 0; k < count && atomic.LoadInt32(&failed) == 0; k++ {
			for atomic.LoadInt64(sent)-atomic.LoadInt64(read) > window && atomic.LoadInt32(&failed) == 0 {
				time.Sleep(20 * time.Microsecond)
			}
			off := atomic.LoadInt64(sent)
			for i := range buf {
				buf[i] = c19DxByte(dirn, off+int64(i))
			}
			n, e := w.Write(buf)
			if e != nil || n != size {
				fail("duplex: %s Write of a %d-byte message returned an error or n != len(p) while the other goroutine was reading the same conn", who, size)
				return
			}
			atomic.AddInt64(sent, int64(size))
		}
	}
	reader := func(r net.Conn, dirn int, size int, total int64, read *int64, who string) {
		buf := make([]byte, size)
		var off int64
		for off < total && atomic.LoadInt32(&failed) == 0 {
			r.SetReadDeadline(time.Now().Add(30 * time.Second))
			n, e := r.Read(buf)
			if e != nil {
				fail("duplex: %s Read failed with class %d before the stream was complete", who, c19ErrClass(e))
				return
			}
			if n <= 0 || n > size {
				fail("duplex: %s Read returned n outside 1..len(p) with a nil error (n = 0 or too large)", who)
				return
			}
			for i := 0; i < n; i++ {
				if buf[i] != c19DxByte(dirn, off+int64(i)) {
					fail("duplex: %s Read returned a byte the peer did not write at that offset (foreign, lost or reordered bytes)", who)
					return
				}
			}
			off += int64(n)
			atomic.StoreInt64(read, off)
		}
	}
	var wg sync.WaitGroup
	run := func(f func()) { wg.Add(1); go func() { defer wg.Done(); f() }() }
	run(func() { writer(cst, 0, wsize, nbig, &up, &upRead, 256<<10, "client") })
	run(func() { reader(sconn, 0, rsize, int64(wsize)*int64(nbig), &upRead, "server") })
	run(func() { writer(sconn, 1, msg, nsmall, &down, &downRead, int64(64*msg), "server") })
	run(func() { reader(cst, 1, mread, int64(msg)*int64(nsmall), &downRead, "client") })
	done := make(chan struct{})
	go func() { wg.Wait(); close(done) }()
	select {
	case <-done:
	case <-time.After(90 * time.Second):
		fail("duplex: the four goroutines did not finish within 90s (a Read or Write hangs)")
		atomic.StoreInt32(&failed, 1)
	}
	x.feat["full-duplex"] = true
	if rsize == 4096 || wsize%rsize == 0 {
		x.feat["duplex-exact-fit-reads"] = true
	}
	for k := range x.oracle {
		c.Oracle = append(c.Oracle, k)
	}
	for k := range x.feat {
		c.Feat = append(c.Feat, k)
	}
	c.Ms = time.Since(t0).Milliseconds()
	return c
}

func TestVerif_C19(t *testing.T) {
	seed := uint64(venvInt("VERIF_SEED", 1))
	n := venvInt("VERIF_N", 40)
	par := venvInt("VERIF_PAR", 8)
	o := vopenOut(t)
	defer o.close()
	dir := filepath.Dir(os.Getenv("VERIF_OUT"))
	var mu sync.Mutex
	emit := func(c c19Case) {
		mu.Lock()
		o.emit(c)
		o.w.Flush()
		mu.Unlock()
	}
	emit(c19Pinned(0, dir, false))
	emit(c19Pinned(1, dir, true))
	emit(c19Race(2, dir))
	emit(c19Hook(3, dir, false))
	emit(c19Hook(4, dir, true))
	emit(c19ConcurrentClose(5, dir, 2, false))
	emit(c19ConcurrentClose(6, dir, 3, false))
	emit(c19ConcurrentClose(7, dir, 3, true))
	{
		var wgh sync.WaitGroup
		for i, ms := range []int{50, 150, 300} {
			wgh.Add(1)
			go func(i, ms int) {
				defer wgh.Done()
				emit(c19CloseDuringHandshake(8+i, dir, ms))
			}(i, ms)
		}
		wgh.Wait()
	}
	var next int64 = 10
	var wg sync.WaitGroup
	for w := 0; w < par; w++ {
		wg.Add(1)
		go func() {
			defer wg.Done()
			for {
				id := int(atomic.AddInt64(&next, 1))
				if id >= n+11 {
					return
				}
				emit(c19Scenario(id, seed*1000003+uint64(id), dir))
			}
		}()
	}
	wg.Wait()
	// full duplex (CPU heavy: a few at a time)
	{
		type dxp struct{ wsize, rsize, msg, mread, nbig, nsmall int }
		dxs := []dxp{{16384, 4096, 64, 64, 300, 4000}, {4096, 4096, 128, 64, 600, 3000}, {12288, 1000, 64, 37, 300, 3000}, {8192, 8192, 64, 64, 400, 4000}}
		var wgd sync.WaitGroup
		for i, d := range dxs {
			wgd.Add(1)
			go func(i int, d dxp) {
				defer wgd.Done()
				emit(c19Duplex(100000+i, seed*31+uint64(i), dir, d.wsize, d.rsize, d.msg, d.mread, d.nbig, d.nsmall))
			}(i, d)
		}
		wgd.Wait()
	}
	// stress: streams racing with listener.Close
	nstress := venvInt("VERIF_STRESS", 3*n/2)
	var sid int64 = int64(n + 11)
	var wg2 sync.WaitGroup
	for w := 0; w < par; w++ {
		wg2.Add(1)
		go func() {
			defer wg2.Done()
			for {
				k := int(atomic.AddInt64(&sid, 1)) - 1
				if k >= n+11+nstress {
					return
				}
				emit(c19Stress(k, seed*7919+uint64(k), dir, true))
			}
		}()
	}
	wg2.Wait()
	// LAST (a hit kills the process): sessions WITHOUT a held conn: listener.Close releases the last reference
	// (counter 0, wg.Wait returning) while newStreamWrapper does wg.Add(1) for a stream arriving at that moment
	nreuse := venvInt("VERIF_REUSE", n)
	for k := 0; k < nreuse; k++ {
		emit(c19Stress(n+11+nstress+k, seed*104729+uint64(k), dir, false))
	}
}
