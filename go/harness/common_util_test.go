//go:build verif

package shmipc

// Shared helpers of the injected harnesses: one seeded PRNG from which every random choice is
// derived (so a disagreement replays exactly), JSON-lines output, environment parameters.

import (
	"bufio"
	"encoding/json"
	"os"
	"strconv"
	"testing"
)

type vrand struct{ s uint64 }

// the initial state is a hash of the seed: nearby seeds must not give shifted copies of one stream
func newVrand(seed uint64) *vrand {
	z := seed + 0x1234567
	z = (z ^ (z >> 30)) * 0xBF58476D1CE4E5B9
	z = (z ^ (z >> 27)) * 0x94D049BB133111EB
	z ^= z >> 31
	return &vrand{z*0xD1342543DE82EF95 + 0x9E3779B97F4A7C15}
}
func (r *vrand) u64() uint64 {
	r.s += 0x9E3779B97F4A7C15
	z := r.s
	z = (z ^ (z >> 30)) * 0xBF58476D1CE4E5B9
	z = (z ^ (z >> 27)) * 0x94D049BB133111EB
	return z ^ (z >> 31)
}
func (r *vrand) intn(n int) int {
	if n <= 0 {
		return 0
	}
	return int(r.u64() % uint64(n))
}
func (r *vrand) chance(pct int) bool { return r.intn(100) < pct }
func (r *vrand) pick(xs []int) int   { return xs[r.intn(len(xs))] }

func venvInt(name string, def int) int {
	if v := os.Getenv(name); v != "" {
		if n, err := strconv.Atoi(v); err == nil {
			return n
		}
	}
	return def
}

type vout struct {
	f *os.File
	w *bufio.Writer
}

func vopenOut(t *testing.T) *vout {
	p := os.Getenv("VERIF_OUT")
	if p == "" {
		t.Fatal("VERIF_OUT not set")
	}
	f, err := os.Create(p)
	if err != nil {
		t.Fatal(err)
	}
	return &vout{f, bufio.NewWriterSize(f, 1<<20)}
}
func (o *vout) emit(v interface{}) {
	b, err := json.Marshal(v)
	if err != nil {
		panic(err)
	}
	o.w.Write(b)
	o.w.WriteByte('\n')
}
func (o *vout) close() {
	o.w.Flush()
	o.f.Close()
}
