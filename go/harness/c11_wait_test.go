//go:build verif

package shmipc

// C11 correspondence + oracle harness (mechanism T): real session pairs; in every scenario the
// releasing event is KNOWN to have happened (data arrived / deadline passed / local close / peer close /
// session close / peer death / queue kept full / shutdown / handshake timeout); seeded delays are
// injected between the steps so that the event lands before, while and after the caller enters its
// wait.  ORACLE: the call returned within a generous bound, with the right error class, and never
// early for a timeout.  One JSON line per scenario.

import (
	"fmt"
	"net"
	"os"
	"path/filepath"
	"sync"
	"sync/atomic"
	"syscall"
	"testing"
	"time"
)

type c11Case struct {
	ID     int      `json:"id"`
	Kind   string   `json:"kind"`
	Delay  int64    `json:"delay_us"` // injected delay between the steps
	Param  int      `json:"param"`    // data size / deadline ms / queue cap ...
	Class  int      `json:"class"`    // error class of the call under test (see c11Class)
	N      int      `json:"n"`        // bytes returned
	Us     int64    `json:"us"`       // completion time of the call (from the releasing event or the call, whichever is later)
	MinUs  int64    `json:"min_us"`   // for timeouts: the call must not return before this (from its start)
	CallUs int64    `json:"call_us"`  // duration of the call itself
	Oracle []string `json:"oracle"`
	Disp   []c11DispObs `json:"disp,omitempty"`
	Skip   string   `json:"skipped,omitempty"`
}

const c11Bound = 4 * time.Second

// 0 nil, 1 ErrTimeout, 2 ErrEndOfStream, 3 ErrStreamClosed, 4 session shutdown, 5 queue full, 6 init timeout/other handshake error, 8 blocked (did not return), 9 other
func c11Class(err error) int {
	switch err {
	case nil:
		return 0
	case ErrTimeout:
		return 1
	case ErrEndOfStream:
		return 2
	case ErrStreamClosed:
		return 3
	case ErrSessionShutdown:
		return 4
	case ErrQueueFull:
		return 5
	}
	return 9
}

var c11Seq int64

func c11Conf(mod func(*Config)) *Config {
	conf := DefaultConfig()
	conf.MemMapType = MemMapTypeMemFd
	tag := fmt.Sprintf("%d_%d", os.Getpid(), atomic.AddInt64(&c11Seq, 1))
	conf.ShareMemoryPathPrefix = "/dev/shm/verif_c11_" + tag
	conf.QueuePath = "/dev/shm/verif_c11_" + tag + "_queue"
	conf.ShareMemoryBufferCap = 1 << 20
	conf.BufferSliceSizes = []*SizePercentPair{{256, 70}, {2048, 30}}
	conf.InitializeTimeout = 5 * time.Second
	if mod != nil {
		mod(conf)
	}
	return conf
}

func c11RawPair(dir string) (net.Conn, net.Conn, error) {
	path := filepath.Join(dir, fmt.Sprintf("c11_%d_%d.sock", os.Getpid(), atomic.AddInt64(&c11Seq, 1)))
	os.Remove(path)
	ln, err := net.Listen("unix", path)
	if err != nil {
		return nil, nil, err
	}
	defer func() { ln.Close(); os.Remove(path) }()
	type r struct {
		c net.Conn
		e error
	}
	ch := make(chan r, 1)
	go func() { c, e := ln.Accept(); ch <- r{c, e} }()
	cc, err := net.Dial("unix", path)
	if err != nil {
		return nil, nil, err
	}
	sr := <-ch
	if sr.e != nil {
		cc.Close()
		return nil, nil, sr.e
	}
	return cc, sr.c, nil
}

func c11Pair(dir string, cmod, smod func(*Config)) (*Session, *Session, error) {
	cc, sc, err := c11RawPair(dir)
	if err != nil {
		return nil, nil, err
	}
	type r struct {
		s *Session
		e error
	}
	ch := make(chan r, 1)
	go func() { s, e := newSession(c11Conf(smod), sc, false); ch <- r{s, e} }()
	client, cerr := newSession(c11Conf(cmod), cc, true)
	sr := <-ch
	if cerr != nil || sr.e != nil {
		if client != nil {
			client.Close()
		}
		if sr.s != nil {
			sr.s.Close()
		}
		return nil, nil, fmt.Errorf("session setup: client=%v server=%v", cerr, sr.e)
	}
	return client, sr.s, nil
}

// a connected stream pair: the client opened it and sent `first` bytes, the server accepted it and read them
func c11Streams(client, server *Session) (*Stream, *Stream, error) {
	cst, err := client.OpenStream()
	if err != nil {
		return nil, nil, err
	}
	if _, err = cst.Write([]byte{0xC1, 0x11}); err != nil {
		return nil, nil, err
	}
	type r struct {
		s *Stream
		e error
	}
	ch := make(chan r, 1)
	go func() { s, e := server.AcceptStream(); ch <- r{s, e} }()
	select {
	case ar := <-ch:
		if ar.e != nil {
			return nil, nil, ar.e
		}
		b := make([]byte, 2)
		ar.s.SetReadDeadline(time.Now().Add(c11Bound))
		got := 0
		for got < 2 {
			n, e := ar.s.Read(b[got:])
			if e != nil {
				return nil, nil, e
			}
			got += n
		}
		ar.s.SetReadDeadline(time.Time{})
		return cst, ar.s, nil
	case <-time.After(c11Bound):
		return nil, nil, fmt.Errorf("AcceptStream did not return")
	}
}

type c11Ret struct {
	n   int
	err error
	d   time.Duration
	end time.Time
}

// run f in a goroutine; nil result = did not return within the bound
func c11Call(f func() (int, error)) chan c11Ret {
	ch := make(chan c11Ret, 1)
	go func() {
		t0 := time.Now()
		n, err := f()
		ch <- c11Ret{n, err, time.Since(t0), time.Now()}
	}()
	return ch
}

func c11Await(ch chan c11Ret, bound time.Duration) *c11Ret {
	select {
	case r := <-ch:
		return &r
	case <-time.After(bound):
		return nil
	}
}

func (c *c11Case) fail(format string, a ...interface{}) {
	c.Oracle = append(c.Oracle, fmt.Sprintf(format, a...))
}

func (c *c11Case) record(r *c11Ret, release time.Time, expect ...int) {
	if r == nil {
		c.Class = 8
		c.fail("%s: the call did not return within %v of the releasing event", c.Kind, c11Bound)
		return
	}
	c.Class, c.N, c.CallUs = c11Class(r.err), r.n, r.d.Microseconds()
	us := r.end.Sub(release).Microseconds()
	if us < 0 {
		us = 0
	}
	c.Us = us
	ok := false
	for _, e := range expect {
		if e == c.Class {
			ok = true
		}
	}
	if !ok {
		c.fail("%s: wrong error class %d (expected one of %v)", c.Kind, c.Class, expect)
	}
}

func c11Sleep(us int64) {
	if us <= 0 {
		return
	}
	if us < 200 {
		t0 := time.Now()
		for time.Since(t0) < time.Duration(us)*time.Microsecond {
		}
		return
	}
	time.Sleep(time.Duration(us) * time.Microsecond)
}

// bytes buffered on the reading side of a stream and not yet returned by Read
func c11Buffered(st *Stream) int {
	n := st.recvBuf.Len()
	st.pendingData.Lock()
	for _, w := range st.pendingData.unread {
		if w.fallbackSlice != nil {
			n += w.fallbackSlice.size()
			continue
		}
		off := w.offset
		for hop := 0; hop < 1<<16; hop++ {
			sl, err := st.session.bufferManager.readBufferSlice(off)
			if err != nil {
				break
			}
			n += sl.size()
			if !sl.hasNext() {
				break
			}
			off = sl.nextBufferOffset()
		}
	}
	st.pendingData.Unlock()
	return n
}

func c11WaitBuffered(st *Stream, want int) bool {
	end := time.Now().Add(c11Bound)
	for time.Now().Before(end) {
		if c11Buffered(st) >= want {
			return true
		}
		time.Sleep(time.Millisecond)
	}
	return false
}

// ---------------------------------------------------------------------------------------------
// scenarios on a fresh session pair
// ---------------------------------------------------------------------------------------------
func c11Scenario(id int, kind string, delay int64, param int, dir string) (c c11Case) {
	c = c11Case{ID: id, Kind: kind, Delay: delay, Param: param}
	client, server, err := c11Pair(dir, nil, nil)
	if err != nil {
		c.Skip = err.Error()
		return
	}
	defer func() {
		client.Close()
		server.Close()
	}()
	cst, sst, err := c11Streams(client, server)
	if err != nil {
		c.Skip = "stream setup: " + err.Error()
		return
	}
	payload := make([]byte, param)
	for i := range payload {
		payload[i] = byte(i*7 + 3)
	}
	buf := make([]byte, 4096)
	read := func() (int, error) { return sst.Read(buf) }
	switch kind {
	case "data-before": // data is buffered before the reader enters
		cst.Write(payload)
		if !c11WaitBuffered(sst, param) {
			c.Skip = "data did not arrive"
			return
		}
		c11Sleep(delay)
		t := time.Now()
		c.record(c11Await(c11Call(read), c11Bound), t, 0)
	case "data-before-token-drained":
		// the state left by reset()'s drain of recvNotifyCh racing with a late fillDataToReadBuffer:
		// data in pendingData, no token.  readMore's initial moveTo/test is what finds it.
		cst.Write(payload)
		if !c11WaitBuffered(sst, param) {
			c.Skip = "data did not arrive"
			return
		}
		select {
		case <-sst.recvNotifyCh:
		default:
		}
		t := time.Now()
		c.record(c11Await(c11Call(read), c11Bound), t, 0)
	case "data-while": // the reader is parked, then data arrives
		ch := c11Call(read)
		c11Sleep(delay)
		t := time.Now()
		cst.Write(payload)
		c.record(c11Await(ch, c11Bound), t, 0)
	case "data-race": // writer and reader start together; many rounds with micro-delays on either side
		rounds := 150
		r := newVrand(uint64(id))
		for i := 0; i < rounds && len(c.Oracle) == 0; i++ {
			dr, dw := int64(r.intn(60)), int64(r.intn(60))
			ch := c11Call(func() (int, error) { c11Sleep(dr); return sst.Read(buf) })
			c11Sleep(dw)
			t := time.Now()
			cst.Write(payload)
			ret := c11Await(ch, c11Bound)
			c.record(ret, t, 0)
			if ret != nil && ret.err == nil {
				// drain the rest of this round's payload
				got := ret.n
				for got < param {
					sst.SetReadDeadline(time.Now().Add(c11Bound))
					n, e := sst.Read(buf)
					if e != nil {
						c.fail("data-race: rest of the payload not readable: class %d", c11Class(e))
						break
					}
					got += n
				}
				sst.SetReadDeadline(time.Time{})
			}
		}
	case "deadline-race":
		// the deadline of one Read expires at about the moment its data arrives (timer firing while the
		// reader is woken by the data); the NEXT Read, with a far deadline, must not see a stale timer tick
		rounds := 250
		r := newVrand(uint64(id) + 77)
		d1 := time.Duration(param) * time.Microsecond
		for i := 0; i < rounds && len(c.Oracle) == 0; i++ {
			jitter := time.Duration(r.intn(120)-60) * time.Microsecond
			t0 := time.Now()
			sst.SetReadDeadline(t0.Add(d1))
			go func() {
				for time.Since(t0) < d1+jitter {
				}
				cst.Write(payload[:1])
			}()
			n1, e1 := sst.Read(buf)
			if e1 != nil && e1 != ErrTimeout {
				c.fail("deadline-race: first read failed with class %d", c11Class(e1))
				break
			}
			if e1 == ErrTimeout || n1 == 0 {
				// the byte comes a little later: take it
				dlAbs := time.Now().Add(c11Bound)
				sst.SetReadDeadline(dlAbs)
				if _, e := sst.Read(buf); e != nil {
					// a stale tick may already strike here: ErrTimeout BEFORE this call's own absolute deadline
					if e == ErrTimeout && time.Now().Before(dlAbs.Add(-5*time.Millisecond)) {
						c.Class = 1
						c.fail("deadline-race: a Read with a %v deadline returned ErrTimeout at once: stale timer tick left behind by the previous Read (Stop + drain in readMore is not exact)", c11Bound)
					} else if e == ErrTimeout {
						c.Skip = "inconclusive: the machine was too slow to deliver the byte within the draining read's deadline"
					} else {
						c.fail("deadline-race: draining read failed with class %d", c11Class(e))
					}
					break
				}
			}
			// the next Read: far deadline, data after 3 ms
			far := 2 * time.Second
			t1 := time.Now()
			farAbs := t1.Add(far)
			sst.SetReadDeadline(farAbs)
			go func() {
				time.Sleep(3 * time.Millisecond)
				cst.Write(payload[:1])
			}()
			_, e2 := sst.Read(buf)
			el := time.Since(t1)
			if e2 == ErrTimeout && !time.Now().Before(farAbs.Add(-5*time.Millisecond)) {
				// the read honoured its own deadline: the byte was late (loaded machine), nothing can be concluded
				c.Skip = "inconclusive: the machine was too slow to deliver the byte before the second read's deadline"
				sst.SetReadDeadline(time.Now().Add(c11Bound))
				sst.Read(buf)
				break
			} else if e2 == ErrTimeout {
				c.Class, c.CallUs, c.MinUs = 1, el.Microseconds(), far.Microseconds()
				c.fail("deadline-race: a Read with a %v deadline returned ErrTimeout after %v: stale timer tick left behind by the previous Read (Stop + drain in readMore is not exact)", far, el)
				// take the byte of this round
				sst.SetReadDeadline(time.Now().Add(c11Bound))
				sst.Read(buf)
				break
			} else if e2 != nil {
				c.fail("deadline-race: second read failed with class %d", c11Class(e2))
				break
			}
		}
		sst.SetReadDeadline(time.Time{})
	case "deadline": // nothing arrives: ErrTimeout, not before the deadline
		d := time.Duration(param) * time.Millisecond
		c11Sleep(delay)
		dlAbs := time.Now().Add(d)
		sst.SetReadDeadline(dlAbs)
		ret := c11Await(c11Call(read), c11Bound+d)
		c.record(ret, dlAbs, 1)
		c.MinUs = d.Microseconds()
		// compare ABSOLUTE times: the goroutine that makes the call may start late on a loaded machine, the
		// call is then shorter than d although it returns at the deadline
		if ret != nil && ret.err == ErrTimeout && ret.end.Before(dlAbs.Add(-500*time.Microsecond)) {
			c.fail("deadline: ErrTimeout returned %v before the deadline", dlAbs.Sub(ret.end))
		}
	case "deadline-twice": // a short deadline that expires, then a long one: the second call must honour the NEW deadline
		d1 := 30 * time.Millisecond
		sst.SetReadDeadline(time.Now().Add(d1))
		r1 := c11Await(c11Call(read), c11Bound)
		if r1 == nil || r1.err != ErrTimeout {
			c.fail("deadline-twice: first call did not time out")
		}
		c11Sleep(delay)
		d := time.Duration(param) * time.Millisecond
		dlAbs := time.Now().Add(d)
		sst.SetReadDeadline(dlAbs)
		ret := c11Await(c11Call(read), c11Bound+d)
		c.record(ret, dlAbs, 1)
		c.MinUs = d.Microseconds()
		if ret != nil && ret.err == ErrTimeout && ret.end.Before(dlAbs.Add(-500*time.Microsecond)) {
			c.fail("deadline-twice: ErrTimeout returned %v before the (new) deadline", dlAbs.Sub(ret.end))
		}
	case "deadline-then-none": // data beats the deadline; then the deadline is cleared: the old timer must not fire into the next call
		d := time.Duration(param) * time.Millisecond
		sst.SetReadDeadline(time.Now().Add(d))
		ch := c11Call(read)
		c11Sleep(delay)
		cst.Write(payload[:1])
		r1 := c11Await(ch, c11Bound)
		if r1 != nil && r1.err == ErrTimeout {
			c.Skip = "inconclusive: the machine was too slow to deliver the data before the deadline"
			return
		}
		if r1 == nil || r1.err != nil {
			c.fail("deadline-then-none: data before the deadline was not returned")
		}
		sst.SetReadDeadline(time.Time{})
		ch = c11Call(read)
		time.Sleep(d + 40*time.Millisecond) // well past the old deadline: the call must still be waiting
		select {
		case r2 := <-ch:
			c.fail("deadline-then-none: a call without deadline returned class %d after the previous call's deadline", c11Class(r2.err))
		default:
		}
		t := time.Now()
		cst.Write(payload[:1])
		c.record(c11Await(ch, c11Bound), t, 0)
	case "local-close": // Close from another goroutine while the reader waits
		ch := c11Call(read)
		c11Sleep(delay)
		t := time.Now()
		sst.Close()
		c.record(c11Await(ch, c11Bound), t, 2, 3)
	case "peer-close": // the peer closes the stream; nothing buffered
		ch := c11Call(read)
		c11Sleep(delay)
		t := time.Now()
		cst.Close()
		c.record(c11Await(ch, c11Bound), t, 2)
	case "peer-close-after-data": // data then close: all the data, then ErrEndOfStream
		ch := c11Call(func() (int, error) {
			got := 0
			for {
				n, e := sst.Read(buf)
				got += n
				if e != nil {
					return got, e
				}
			}
		})
		c11Sleep(delay)
		cst.Write(payload)
		t := time.Now()
		cst.Close()
		ret := c11Await(ch, c11Bound)
		c.record(ret, t, 2)
		if ret != nil && ret.n != param {
			c.fail("peer-close-after-data: %d of %d bytes before ErrEndOfStream (close overtook data?)", ret.n, param)
		}
	case "session-close": // the reader's own session is closed
		ch := c11Call(read)
		c11Sleep(delay)
		t := time.Now()
		server.Close()
		// the anchor mechanism: Session.Close closes every stream's notify channel BEFORE it returns
		// (the deferred cleanup on the dispatcher would release the reader too, but up to an epoll period later)
		// The guarantee belongs to the Close call that WON the shutdown CAS (another caller - e.g. exitErr on
		// the dispatcher - may be in the middle of it: then this call returns at once).  The winner closes
		// shutdownCh AFTER its notify loop, so: shutdownCh closed => closeNotifyCh of every stream that was
		// in the table is closed.  sst was accepted long before.
		select {
		case <-server.CloseChan():
			select {
			case <-sst.closeNotifyCh:
			default:
				c.fail("session-close: the session's shutdownCh is closed but the stream's closeNotifyCh is not closed yet")
			}
		case <-time.After(c11Bound):
			c.fail("session-close: Session.Close returned but shutdownCh is not closed within the bound")
		}
		c.record(c11Await(ch, c11Bound), t, 2, 3)
	case "peer-session-close": // the peer session is closed
		ch := c11Call(read)
		c11Sleep(delay)
		t := time.Now()
		client.Close()
		c.record(c11Await(ch, c11Bound), t, 2, 3)
	case "peer-death": // the peer's connection disappears (no orderly shutdown)
		ch := c11Call(read)
		c11Sleep(delay)
		t := time.Now()
		syscall.Shutdown(client.connFd, syscall.SHUT_RDWR)
		c.record(c11Await(ch, c11Bound), t, 2, 3)
	case "accept-local-shutdown", "accept-peer-shutdown": // AcceptStream vs shutdown
		ch := c11Call(func() (int, error) { _, e := server.AcceptStream(); return 0, e })
		c11Sleep(delay)
		t := time.Now()
		if kind == "accept-local-shutdown" {
			server.Close()
		} else {
			client.Close()
		}
		ret := c11Await(ch, c11Bound)
		c.record(ret, t, 4, 9)
	case "write-after-peer-gone": // Flush / Write on a stream whose session died must fail, not block
		client.Close()
		c11Sleep(delay + 20000)
		t := time.Now()
		ret := c11Await(c11Call(func() (int, error) { return sst.Write(payload) }), c11Bound)
		c.record(ret, t, 0, 3, 4, 9)
	default:
		c.Skip = "unknown kind"
	}
	_ = cst
	return
}

// handshake against a peer that never answers
func c11Handshake(id int, asClient bool, timeoutMs int, dir string) (c c11Case) {
	c = c11Case{ID: id, Kind: "handshake-silent-peer-server", Param: timeoutMs}
	if asClient {
		c.Kind = "handshake-silent-peer-client"
	}
	a, b, err := c11RawPair(dir)
	if err != nil {
		c.Skip = err.Error()
		return
	}
	defer b.Close() // b stays silent
	d := time.Duration(timeoutMs) * time.Millisecond
	t := time.Now()
	ret := c11Await(c11Call(func() (int, error) {
		s, e := newSession(c11Conf(func(cf *Config) { cf.InitializeTimeout = d }), a, asClient)
		if s != nil {
			s.Close()
		}
		return 0, e
	}), c11Bound+d)
	c.MinUs = d.Microseconds()
	if ret == nil {
		c.Class = 8
		c.fail("%s: newSession did not return within %v of InitializeTimeout", c.Kind, c11Bound)
		return
	}
	c.CallUs = ret.d.Microseconds()
	c.Us = ret.end.Sub(t.Add(d)).Microseconds()
	if ret.err == nil {
		c.Class = 0
		c.fail("%s: newSession succeeded against a silent peer", c.Kind)
	} else {
		c.Class = 6
		if ret.d < d-2*time.Millisecond {
			c.fail("%s: handshake failed %v before InitializeTimeout", c.Kind, d-ret.d)
		}
	}
	return
}

// Flush with the queue kept full: the peer's event loop is held inside a blocking OnNewStream.
// NOTE: the process has ONE dispatcher goroutine; while it is held no session in this process
// receives anything, so this scenario runs alone.
type c11BlockingCb struct {
	entered chan struct{}
	release chan struct{}
	once    sync.Once
}

func (b *c11BlockingCb) OnNewStream(s *Stream) {
	b.once.Do(func() { close(b.entered) })
	<-b.release
}
func (b *c11BlockingCb) OnShutdown(reason string) {}

func c11FlushFull(id int, qcap int, withDeadlineMs int, dir string) (c c11Case) {
	c = c11Case{ID: id, Kind: "flush-queue-full", Param: qcap}
	if withDeadlineMs > 0 {
		c.Kind = "flush-queue-full-write-deadline"
	}
	cb := &c11BlockingCb{entered: make(chan struct{}), release: make(chan struct{})}
	released := false
	rel := func() {
		if !released {
			released = true
			close(cb.release)
		}
	}
	client, server, err := c11Pair(dir, func(cf *Config) { cf.QueueCap = uint32(qcap) }, func(cf *Config) { cf.listenCallback = cb })
	if err != nil {
		c.Skip = err.Error()
		return
	}
	defer func() {
		rel()
		time.Sleep(20 * time.Millisecond)
		client.Close()
		server.Close()
	}()
	cst, err := client.OpenStream()
	if err != nil {
		c.Skip = err.Error()
		return
	}
	if _, err := cst.Write([]byte{1}); err != nil {
		c.Skip = "first write: " + err.Error()
		return
	}
	select {
	case <-cb.entered:
	case <-time.After(c11Bound):
		c.Skip = "OnNewStream was not called"
		return
	}
	// the peer consumes nothing now: fill the queue
	fills := 0
	for i := 0; i < qcap+2; i++ {
		q := client.sendQueue()
		if q.isFull() {
			break
		}
		if _, err := cst.Write([]byte{2}); err != nil {
			break
		}
		fills++
	}
	if !client.sendQueue().isFull() {
		c.Skip = fmt.Sprintf("could not fill the queue (%d writes)", fills)
		return
	}
	var wdlAbs time.Time
	if withDeadlineMs > 0 {
		wdlAbs = time.Now().Add(time.Duration(withDeadlineMs) * time.Millisecond)
		cst.SetWriteDeadline(wdlAbs)
	}
	t := time.Now()
	ret := c11Await(c11Call(func() (int, error) { return cst.Write([]byte{3, 4, 5}) }), c11Bound)
	if withDeadlineMs > 0 {
		c.record(ret, t, 1, 5)
		if ret != nil && ret.err == ErrTimeout && ret.end.Before(wdlAbs.Add(-500*time.Microsecond)) {
			c.fail("flush: write deadline reported %v early", wdlAbs.Sub(ret.end))
		}
	} else {
		c.record(ret, t, 5)
		if ret != nil && ret.err == ErrQueueFull {
			// ~10 retries x 10 ms: generous window
			if ret.d < 60*time.Millisecond {
				c.fail("flush: ErrQueueFull after only %v: fewer retries than the documented 10 x 10 ms", ret.d)
			}
			if ret.d > 100*time.Millisecond+2*c11Bound {
				c.fail("flush: took %v for 10 x 10 ms retries", ret.d)
			}
		}
	}
	return
}

// The PEER closes a stream while the io queue is full; a reader is parked on that stream here; then the
// consumer catches up.  The close notification must still arrive (the closing side falls through from the
// full queue to the socket path): the reader returns ErrEndOfStream within the bound after the catch-up.
type c11StallCb struct {
	n       int32
	streams chan *Stream
	stalled chan struct{}
	release chan struct{}
}

func (c *c11StallCb) OnNewStream(s *Stream) {
	c.streams <- s
	if atomic.AddInt32(&c.n, 1) == 2 {
		close(c.stalled)
		<-c.release
	}
}
func (c *c11StallCb) OnShutdown(reason string) {}

func c11PeerCloseQueueFull(id int, qcap int, delay int64, dir string) (c c11Case) {
	c = c11Case{ID: id, Kind: "peer-close-queue-full", Param: qcap, Delay: delay}
	cb := &c11StallCb{streams: make(chan *Stream, 16), stalled: make(chan struct{}), release: make(chan struct{})}
	released := false
	rel := func() {
		if !released {
			released = true
			close(cb.release)
		}
	}
	client, server, err := c11Pair(dir, func(cf *Config) { cf.QueueCap = uint32(qcap) }, func(cf *Config) { cf.listenCallback = cb })
	if err != nil {
		c.Skip = err.Error()
		return
	}
	defer func() {
		rel()
		time.Sleep(20 * time.Millisecond)
		client.Close()
		server.Close()
	}()
	// stream A: one byte; the server-side reader takes it and parks in its next read
	a, err := client.OpenStream()
	if err == nil {
		_, err = a.Write([]byte{'a'})
	}
	if err != nil {
		c.Skip = "stream A: " + err.Error()
		return
	}
	var sa *Stream
	select {
	case sa = <-cb.streams:
	case <-time.After(c11Bound):
		c.Skip = "OnNewStream(A) was not called"
		return
	}
	buf := make([]byte, 8)
	sa.SetReadDeadline(time.Now().Add(c11Bound))
	if n, rerr := sa.Read(buf); rerr != nil || n != 1 {
		c.Skip = "first read on A failed"
		return
	}
	sa.SetReadDeadline(time.Time{})
	ch := c11Call(func() (int, error) { return sa.Read(buf) })
	time.Sleep(20 * time.Millisecond)
	// stream B stalls the consumer inside OnNewStream
	b, err := client.OpenStream()
	if err == nil {
		_, err = b.Write([]byte{'b'})
	}
	if err != nil {
		c.Skip = "stream B: " + err.Error()
		return
	}
	select {
	case <-cb.stalled:
	case <-time.After(c11Bound):
		c.Skip = "OnNewStream(B) was not called"
		return
	}
	// fill the io queue
	for i := 0; i < qcap+2 && !client.sendQueue().isFull(); i++ {
		if _, err = b.Write([]byte{'c'}); err != nil {
			break
		}
	}
	if !client.sendQueue().isFull() {
		c.Skip = "could not fill the queue"
		return
	}
	// the peer closes A while the queue is full
	cerr := a.Close()
	if !client.sendQueue().isFull() {
		c.Skip = "the queue drained before the close"
		return
	}
	if cerr != nil {
		c.fail("peer-close-queue-full: Stream.Close failed with class %d while the queue was full (its close notification is lost: the stream is closed locally and cannot be closed again)", c11Class(cerr))
	}
	c11Sleep(delay)
	select {
	case r := <-ch:
		c.fail("peer-close-queue-full: the read returned (class %d) although the consumer is still stalled", c11Class(r.err))
		return
	default:
	}
	// the consumer catches up
	t := time.Now()
	rel()
	c.record(c11Await(ch, c11Bound), t, 2)
	return
}

// Flush when sendCh is full: wakeUpPeer's slow path does `s.sendCh <- sendReady{...}` without select.
// The peer stops consuming (its event loop - the process-wide dispatcher - is held), shared memory is
// exhausted so writes travel over the socket, the socket fills, the send loop blocks in write holding
// `writing`, every further fallback write times out but leaves its item in sendCh (4096 slots).  Then a
// Flush whose put succeeds must wake the peer: CAS(writing) fails -> slow path -> blocks for ever.
func c11SendChFull(id int, dir string) (c c11Case) {
	c = c11Case{ID: id, Kind: "flush-sendch-full", Param: 4096}
	cb := &c11BlockingCb{entered: make(chan struct{}), release: make(chan struct{})}
	released := false
	rel := func() {
		if !released {
			released = true
			close(cb.release)
		}
	}
	clientA, serverA, err := c11Pair(dir, nil, nil)
	if err != nil {
		c.Skip = err.Error()
		return
	}
	clientB, serverB, err := c11Pair(dir, nil, func(cf *Config) { cf.listenCallback = cb })
	if err != nil {
		clientA.Close()
		serverA.Close()
		c.Skip = err.Error()
		return
	}
	defer func() {
		rel()
		time.Sleep(50 * time.Millisecond)
		clientA.Close()
		serverA.Close()
		clientB.Close()
		serverB.Close()
	}()
	data, _, err := c11Streams(clientA, serverA)
	if err != nil {
		c.Skip = "stream setup: " + err.Error()
		return
	}
	probe, _, err := c11Streams(clientA, serverA)
	if err != nil {
		c.Skip = "stream setup: " + err.Error()
		return
	}
	// the probe stream holds one shared-memory slice, written but not flushed yet
	if _, err = probe.BufferWriter().WriteBytes([]byte("probe")); err != nil {
		c.Skip = "probe write: " + err.Error()
		return
	}
	// 1. exhaust the shared memory (the server application never reads): writes start to travel over the socket
	chunk := make([]byte, 64*1024)
	for i := 0; i < 64 && atomic.LoadUint64(&clientA.stats.fallbackWriteCount) == 0; i++ {
		if _, err = data.Write(chunk); err != nil {
			c.Skip = "exhausting shm: " + err.Error()
			return
		}
	}
	if atomic.LoadUint64(&clientA.stats.fallbackWriteCount) == 0 {
		c.Skip = "could not exhaust the shared memory"
		return
	}
	// 2. the peer has consumed the whole queue: its working flag is clear
	end := time.Now().Add(c11Bound)
	for (clientA.sendQueue().consumerIsWorking() || clientA.sendQueue().size() != 0) && time.Now().Before(end) {
		time.Sleep(time.Millisecond)
	}
	if clientA.sendQueue().consumerIsWorking() {
		c.Skip = "peer did not go idle"
		return
	}
	// 3. the peer stops consuming: hold the dispatcher inside session B's OnNewStream
	bst, err := clientB.OpenStream()
	if err == nil {
		_, err = bst.Write([]byte{1})
	}
	if err != nil {
		c.Skip = "session B: " + err.Error()
		return
	}
	select {
	case <-cb.entered:
	case <-time.After(c11Bound):
		c.Skip = "OnNewStream was not called"
		return
	}
	// 4. fill the socket, then sendCh (from here on a write that cannot be sent gives up after 2 ms)
	clientA.config.ConnectionWriteTimeout = 2 * time.Millisecond
	timeouts := 0
	for i := 0; i < 200 && timeouts == 0; i++ {
		if _, err = data.Write(chunk); err == ErrConnectionWriteTimeout {
			timeouts++
		} else if err != nil {
			c.Skip = "filling the socket: " + err.Error()
			return
		}
	}
	if timeouts == 0 {
		c.Skip = "socket did not fill"
		return
	}
	one := []byte{7}
	for i := 0; i < 3*cap(clientA.sendCh) && len(clientA.sendCh) < cap(clientA.sendCh); i++ {
		data.Write(one)
	}
	if len(clientA.sendCh) < cap(clientA.sendCh) {
		c.Skip = fmt.Sprintf("sendCh not full: %d of %d", len(clientA.sendCh), cap(clientA.sendCh))
		return
	}
	if clientA.sendQueue().consumerIsWorking() {
		c.Skip = "the peer's working flag is set: wakeUpPeer would not take the slow path"
		return
	}
	// 5. the call under test: the queue is NOT full, the put succeeds, the peer must be woken
	t := time.Now()
	ch := c11Call(func() (int, error) { return 0, probe.Flush(false) })
	ret := c11Await(ch, 1500*time.Millisecond)
	if ret == nil {
		c.Class = 8
		c.fail("flush-sendch-full: Flush blocks for ever in wakeUpPeer's unbounded `s.sendCh <- ...` when sendCh is full and the send loop is stuck behind a peer that stopped consuming")
		// let the peer run again: everything drains and the Flush returns
		rel()
		if c11Await(ch, 3*c11Bound) == nil {
			c.fail("flush-sendch-full: Flush still blocked after the peer resumed")
		}
	} else {
		c.record(ret, t, 0, 9)
	}
	return
}

// ---------------------------------------------------------------------------------------------
// callback mode: a read blocked INSIDE OnData
// ---------------------------------------------------------------------------------------------
type c11DataCb struct {
	entered  chan struct{}
	returned chan c11Ret
	once     sync.Once
	want     int
}

func (c *c11DataCb) OnData(reader BufferReader) {
	first := false
	c.once.Do(func() { first = true })
	if !first {
		return
	}
	close(c.entered)
	t0 := time.Now()
	// wants a whole message, only half of it has arrived: parks in Stream.readMore (no deadline)
	_, err := reader.ReadBytes(c.want)
	c.returned <- c11Ret{0, err, time.Since(t0), time.Now()}
}
func (c *c11DataCb) OnLocalClose()  {}
func (c *c11DataCb) OnRemoteClose() {}

// is the process-wide dispatcher goroutine still running lambdas?
func c11DispatcherAlive() bool {
	ran := make(chan struct{})
	defaultDispatcher.post(func() { close(ran) })
	select {
	case <-ran:
		return true
	case <-time.After(2 * c11Bound):
		return false
	}
}

// kind = "ondata[-deferred-close]-{local-session-close|peer-session-close|peer-death|only|peer-close}"
// returns wedged = the dispatcher no longer runs lambdas (nothing else can be run in this process)
func c11OnData(id int, kind string, deferred bool, end string, delay int64, dir string) (c c11Case, wedged bool) {
	c = c11Case{ID: id, Kind: kind, Delay: delay, Param: 8}
	client, server, err := c11Pair(dir, nil, nil)
	if err != nil {
		c.Skip = err.Error()
		return
	}
	defer func() {
		client.Close()
		server.Close()
	}()
	cst, sst, err := c11Streams(client, server)
	if err != nil {
		c.Skip = "stream setup: " + err.Error()
		return
	}
	cb := &c11DataCb{entered: make(chan struct{}), returned: make(chan c11Ret, 1), want: 8}
	if err = sst.SetCallbacks(cb); err != nil {
		c.Skip = "SetCallbacks: " + err.Error()
		return
	}
	if _, err = cst.Write([]byte("half")); err != nil {
		c.Skip = "write: " + err.Error()
		return
	}
	select {
	case <-cb.entered:
	case <-time.After(c11Bound):
		c.Skip = "OnData was not called"
		return
	}
	time.Sleep(30 * time.Millisecond) // let the read reach its select
	select {
	case r := <-cb.returned:
		c.fail("%s: the read for 8 bytes returned although only 4 arrived (class %d)", kind, c11Class(r.err))
		return
	default:
	}
	if deferred {
		// a callback is in progress: Close only marks the stream and returns
		done := c11Call(func() (int, error) { return 0, sst.Close() })
		if c11Await(done, c11Bound) == nil {
			c.fail("%s: Stream.Close blocked", kind)
		}
	}
	c11Sleep(delay)
	t := time.Now()
	waitFor := c11Bound
	switch end {
	case "local-session-close":
		server.Close()
	case "peer-session-close":
		client.Close()
	case "peer-death":
		syscall.Shutdown(client.connFd, syscall.SHUT_RDWR)
	case "peer-close":
		cst.Close()
		waitFor = c11Bound
	case "only":
		waitFor = c11Bound
	}
	var ret *c11Ret
	select {
	case r := <-cb.returned:
		ret = &r
	case <-time.After(waitFor):
	}
	if ret == nil && (end == "only" || end == "peer-close") {
		// one root cause, one signature: Stream.Close that finds a callback in progress only CASes the state
		// to halfClosed (no safeCloseNotify), and the peer's close then fails its CAS in halfClose
		c.Class = 8
		c.fail("ondata-deferred-close: a read parked inside OnData is not released by Stream.Close (neither local nor the peer's): only the death of the session releases it")
	} else {
		c.record(ret, t, 2, 3)
	}
	if ret == nil {
		// do not leave the reader parked: the death of the session must release it
		if end == "only" || end == "peer-close" {
			server.Close()
			select {
			case <-cb.returned:
			case <-time.After(c11Bound):
				c.fail("%s: the read blocked in OnData was not released even by Session.Close", kind)
			}
		}
	}
	if !c11DispatcherAlive() {
		c.fail("%s: the process-wide dispatcher no longer runs posted lambdas (wedged behind the blocked OnData)", kind)
		wedged = true
	}
	return
}

// PEER GONE WITH OUR BYTES UNREAD: the dispatcher is kept busy (so the peer end does not read its socket), this side
// flushes (a polling notification stays unread in the peer's socket), then the peer's end of the control
// connection is closed the way a killed process closes it - without reading.  The kernel reports
// EPOLLIN|EPOLLRDHUP|EPOLLHUP|EPOLLERR once, and the first read fails with ECONNRESET.  The survivor's waiters
// (a stream read, AcceptStream) must be released and its session closed within the bound.
func c11PeerGoneUnread(id int, waiter string, delay int64, dir string) (c c11Case) {
	c = c11Case{ID: id, Kind: "peer-gone-unread-" + waiter, Delay: delay}
	client, server, err := c11Pair(dir, nil, nil)
	if err != nil {
		c.Skip = err.Error()
		return
	}
	released := false
	releaseCh := make(chan struct{})
	rel := func() {
		if !released {
			released = true
			close(releaseCh)
		}
	}
	defer func() {
		rel()
		client.Close()
		server.Close()
	}()
	cst, sst, err := c11Streams(client, server)
	if err != nil {
		c.Skip = "stream setup: " + err.Error()
		return
	}
	_ = cst
	buf := make([]byte, 64)
	var ch chan c11Ret
	if waiter == "read" {
		ch = c11Call(func() (int, error) { return sst.Read(buf) })
	} else {
		ch = c11Call(func() (int, error) { _, e := server.AcceptStream(); return 0, e })
	}
	// the peer (client) has consumed everything: the survivor's next Flush writes a polling notification
	end := time.Now().Add(c11Bound)
	for server.sendQueue().consumerIsWorking() && time.Now().Before(end) {
		time.Sleep(time.Millisecond)
	}
	if server.sendQueue().consumerIsWorking() {
		c.Skip = "peer never went idle"
		return
	}
	entered := make(chan struct{})
	defaultDispatcher.post(func() {
		close(entered)
		<-releaseCh
	})
	select {
	case <-entered:
	case <-time.After(c11Bound):
		c.Skip = "the dispatcher did not pick up the stalling task"
		return
	}
	before := atomic.LoadUint64(&server.stats.sendPollingEventCount)
	if _, err = sst.Write([]byte("ping")); err != nil {
		c.Skip = "survivor's write failed: " + err.Error()
		return
	}
	if atomic.LoadUint64(&server.stats.sendPollingEventCount) != before+1 {
		c.Skip = "precondition: the Flush should have written a polling notification"
		return
	}
	c11Sleep(delay)
	// the peer's end goes away with the notification unread
	if err = client.eventConn.(*connEventHandler).file.Close(); err != nil {
		c.Skip = "closing the peer's end failed: " + err.Error()
		return
	}
	t := time.Now()
	rel()
	select {
	case <-server.CloseChan():
	case <-time.After(c11Bound):
		c.fail("peer-gone-unread: the peer's end of the control connection was closed with our bytes unread, the session is still not shut down after %v", c11Bound)
	}
	ret := c11Await(ch, c11Bound)
	if waiter == "read" {
		c.record(ret, t, 2, 3)
	} else {
		c.record(ret, t, 4, 9)
	}
	if ret == nil {
		server.Close()
		c11Await(ch, c11Bound)
	}
	return
}

// handleEvent's treatment of the hang-up bit, observed on the real connEventHandler for every mask that contains
// EPOLLRDHUP, on an fd whose first read FAILS (the peer end was closed with our bytes unread): is onRemoteClose called?
type c11DispCb struct{ closed, read bool }

func (d *c11DispCb) onEventData(buf []byte, conn eventConn) error { d.read = true; return nil }
func (d *c11DispCb) onRemoteClose()                                 { d.closed = true }
func (d *c11DispCb) onLocalClose()                                  {}

type c11DispObs struct {
	In     bool `json:"in"`
	Out    bool `json:"out"`
	Closed bool `json:"closed"`
}

func c11DispatchHangup(id int, dir string) (c c11Case, obs []c11DispObs) {
	c = c11Case{ID: id, Kind: "dispatch-hangup"}
	ensureDefaultDispatcherInit()
	d, ok := defaultDispatcher.(*epollDispatcher)
	if !ok {
		c.Skip = "default dispatcher is not the epoll dispatcher"
		return
	}
	for mask := 0; mask < 4; mask++ {
		a, b, err := c11RawPair(dir)
		if err != nil {
			c.Skip = err.Error()
			return
		}
		af, err := a.(*net.UnixConn).File()
		a.Close()
		if err != nil {
			b.Close()
			c.Skip = err.Error()
			return
		}
		h := d.newConnection(af).(*connEventHandler)
		syscall.SetNonblock(h.fd, true) // not registered with epoll: handleEvent is called directly
		cb := &c11DispCb{}
		h.callback = cb
		// our bytes unread in the peer's socket, then the peer's end goes away: the next read on h.fd fails
		syscall.Write(h.fd, []byte("unread"))
		b.Close()
		time.Sleep(2 * time.Millisecond)
		o := c11DispObs{In: mask&2 != 0, Out: mask&1 != 0}
		events := syscall.EPOLLRDHUP | syscall.EPOLLHUP | syscall.EPOLLERR
		if o.In {
			events |= syscall.EPOLLIN
		}
		if o.Out {
			events |= syscall.EPOLLOUT
		}
		h.handleEvent(events, d)
		o.Closed = cb.closed
		obs = append(obs, o)
		if !cb.closed {
			c.fail("dispatch-hangup: an epoll event with EPOLLRDHUP (in=%v out=%v) whose read fails did not call onRemoteClose: the session never learns that the peer is gone", o.In, o.Out)
			h.close()
		}
	}
	return
}

// Scheduling hook compiled into Stream.Close by the plugin (overlay copy of the current stream.go): runs between
// the load of callbackInProcess (== 0) and the call of close().  nil except in c11CloseVsCallbackStart.
var vhookC11BeforeClose func(s *Stream)

// Stream.Close has read callbackInProcess == 0; NOW data arrives, the callback goroutine starts and its OnData
// parks in a read for more data than there is (no deadline); then close() goes on.  Both calls must return:
// the Close, and the read inside OnData (with a closed class).
func c11CloseVsCallbackStart(id int, delay int64, dir string) (c c11Case, wedged bool) {
	c = c11Case{ID: id, Kind: "close-vs-callback-start", Delay: delay, Param: 8}
	client, server, err := c11Pair(dir, nil, nil)
	if err != nil {
		c.Skip = err.Error()
		return
	}
	defer func() {
		vhookC11BeforeClose = nil
		client.Close()
		server.Close()
	}()
	cst, sst, err := c11Streams(client, server)
	if err != nil {
		c.Skip = "stream setup: " + err.Error()
		return
	}
	cb := &c11DataCb{entered: make(chan struct{}), returned: make(chan c11Ret, 1), want: 8}
	if err = sst.SetCallbacks(cb); err != nil {
		c.Skip = "SetCallbacks: " + err.Error()
		return
	}
	// SetCallbacks starts the callback goroutine once (nothing to offer): wait until it has gone again
	end := time.Now().Add(c11Bound)
	for atomic.LoadUint32(&sst.callbackInProcess) != 0 && time.Now().Before(end) {
		time.Sleep(time.Millisecond)
	}
	time.Sleep(5 * time.Millisecond)
	hookRan := make(chan string, 1)
	vhookC11BeforeClose = func(s *Stream) {
		if s != sst {
			return
		}
		vhookC11BeforeClose = nil
		if atomic.LoadUint32(&s.callbackInProcess) != 0 {
			hookRan <- "callbackInProcess was already 1"
			return
		}
		if _, werr := cst.Write([]byte("half")); werr != nil {
			hookRan <- "write: " + werr.Error()
			return
		}
		select {
		case <-cb.entered:
		case <-time.After(c11Bound):
			hookRan <- "OnData was not called"
			return
		}
		time.Sleep(20 * time.Millisecond) // let the read reach its select
		c11Sleep(delay)
		hookRan <- ""
	}
	t0 := time.Now()
	closeCh := c11Call(func() (int, error) { return 0, sst.Close() })
	select {
	case msg := <-hookRan:
		if msg != "" {
			c.Skip = "hook: " + msg
			return
		}
	case <-time.After(2 * c11Bound):
		c.Skip = "the hook in Stream.Close did not run (instrumentation missing?)"
		return
	}
	t := time.Now()
	_ = t0
	closeRet := c11Await(closeCh, c11Bound)
	var readRet *c11Ret
	select {
	case r := <-cb.returned:
		readRet = &r
	case <-time.After(c11Bound):
	}
	if closeRet == nil || readRet == nil {
		c.Class = 8
		c.fail("close-vs-callback-start: Stream.Close and the read inside OnData block each other (Close returned: %v, read returned: %v): close() waits for the callback goroutine before it closes closeNotifyCh", closeRet != nil, readRet != nil)
		// only the death of the session ends it
		server.Close()
		select {
		case <-cb.returned:
		case <-time.After(c11Bound):
			c.fail("close-vs-callback-start: the read inside OnData was not released even by Session.Close")
		}
		c11Await(closeCh, c11Bound)
	} else {
		c.record(readRet, t, 2, 3)
		if closeRet.err != nil {
			c.fail("close-vs-callback-start: Stream.Close failed with class %d", c11Class(closeRet.err))
		}
	}
	if !c11DispatcherAlive() {
		c.fail("close-vs-callback-start: the process-wide dispatcher no longer runs posted lambdas")
		wedged = true
	}
	return
}

func TestVerif_C11(t *testing.T) {
	seed := uint64(venvInt("VERIF_SEED", 1))
	reps := venvInt("VERIF_N", 2) // repetitions of every (kind, delay) pair
	par := venvInt("VERIF_PAR", 8)
	o := vopenOut(t)
	defer o.close()
	dir := filepath.Dir(os.Getenv("VERIF_OUT"))
	r := newVrand(seed)
	var mu sync.Mutex
	emit := func(c c11Case) {
		mu.Lock()
		o.emit(c)
		o.w.Flush()
		mu.Unlock()
	}
	type job struct {
		id    int
		kind  string
		delay int64
		param int
	}
	var jobs []job
	id := 0
	delays := []int64{0, 20, 100, 500, 3000, 20000}
	kinds := []string{"data-before", "data-before-token-drained", "data-while", "deadline", "deadline-twice", "deadline-then-none",
		"local-close", "peer-close", "peer-close-after-data", "session-close", "peer-session-close", "peer-death",
		"accept-local-shutdown", "accept-peer-shutdown"}
	if os.Getenv("VERIF_C11_UNSAFE") == "1" {
		// Write on a stream whose session died: the real code touches the unmapped shared memory and the
		// whole process dies with SIGSEGV (reported under C14; kept out of the default run)
		kinds = append(kinds, "write-after-peer-gone")
	}
	for rep := 0; rep < reps; rep++ {
		for _, k := range kinds {
			for _, d := range delays {
				if rep > 0 || r.chance(60) {
					dd := d
					if d > 0 {
						dd = d/2 + int64(r.intn(int(d)))
					}
					param := r.pick([]int{1, 7, 255, 256, 257, 1000, 3000})
					if k == "deadline" || k == "deadline-twice" {
						param = r.pick([]int{40, 90, 160})
					}
					if k == "deadline-then-none" {
						param = r.pick([]int{150, 250})
						if dd > 5000 {
							dd = 5000
						}
					}
					jobs = append(jobs, job{id, k, dd, param})
					id++
				}
			}
		}
		jobs = append(jobs, job{id, "data-race", 0, r.pick([]int{1, 300, 2000})})
		id++
		jobs = append(jobs, job{id, "deadline-race", 0, r.pick([]int{300, 1000, 2000})})
		id++
	}
	ch := make(chan job)
	var wg sync.WaitGroup
	for w := 0; w < par; w++ {
		wg.Add(1)
		go func() {
			defer wg.Done()
			for j := range ch {
				emit(c11Scenario(j.id, j.kind, j.delay, j.param, dir))
			}
		}()
	}
	for _, j := range jobs {
		ch <- j
	}
	close(ch)
	wg.Wait()
	// handshakes (parallel-safe)
	var wg2 sync.WaitGroup
	for i, ms := range []int{60, 150, 300} {
		for _, asClient := range []bool{true, false} {
			wg2.Add(1)
			go func(i int, ms int, asClient bool) {
				defer wg2.Done()
				emit(c11Handshake(id+i*2+map[bool]int{true: 1, false: 0}[asClient], asClient, ms, dir))
			}(i, ms, asClient)
		}
	}
	wg2.Wait()
	id += 6
	// the scenarios that hold the process-wide dispatcher run alone
	time.Sleep(100 * time.Millisecond)
	for _, q := range []int{1, 2, 8} {
		emit(c11FlushFull(id, q, 0, dir))
		id++
	}
	emit(c11FlushFull(id, 4, 35, dir))
	id++
	for _, q := range []int{1, 4, 8} {
		d := delays[r.intn(len(delays))]
		emit(c11PeerCloseQueueFull(id, q, d, dir))
		id++
	}
	for _, w := range []string{"read", "accept", "read", "accept"} {
		d := delays[r.intn(len(delays))]
		emit(c11PeerGoneUnread(id, w, d, dir))
		id++
	}
	{
		dc, dobs := c11DispatchHangup(id, dir)
		dc.Disp = dobs
		emit(dc)
		id++
	}
	time.Sleep(300 * time.Millisecond)
	emit(c11SendChFull(id, dir))
	id++
	// reads blocked inside OnData: a lost wake-up here wedges the process-wide dispatcher, so these run
	// last, one at a time, and the run stops at the first wedge
	type od struct {
		deferred bool
		end      string
	}
	var ods []od
	for _, e := range []string{"local-session-close", "peer-session-close", "peer-death"} {
		ods = append(ods, od{false, e})
	}
	for rep := 0; rep < 1+reps/2; rep++ {
		for _, e := range []string{"local-session-close", "peer-session-close", "peer-death"} {
			ods = append(ods, od{true, e})
		}
	}
	ods = append(ods, od{true, "only"}, od{true, "peer-close"})
	for k := 0; k < 3 && os.Getenv("VERIF_C11_NOHOOK") != "1"; k++ {
		d := delays[r.intn(len(delays))]
		cc, wedged := c11CloseVsCallbackStart(id, d, dir)
		emit(cc)
		id++
		if wedged {
			return
		}
	}
	for _, o2 := range ods {
		kind := "ondata-" + o2.end
		if o2.deferred {
			kind = "ondata-deferred-close-" + o2.end
		}
		d := delays[r.intn(len(delays))]
		if d > 0 {
			d = d/2 + int64(r.intn(int(d)))
		}
		c, wedged := c11OnData(id, kind, o2.deferred, o2.end, d, dir)
		emit(c)
		id++
		if wedged {
			break
		}
	}
}
